package main

import (
	"errors"
	"fmt"
	"io"
	"regexp"
	"strings"
	"unicode/utf8"

	"gonum.org/v1/gonum/graph/formats/rdf"
	"gonum.org/v1/gonum/internal/verif/vlib"
)

// ---- reference grammar, transcribed from https://www.w3.org/TR/n-quads/#sec-grammar ----

const (
	rePNBase  = `A-Za-z\x{00C0}-\x{00D6}\x{00D8}-\x{00F6}\x{00F8}-\x{02FF}\x{0370}-\x{037D}\x{037F}-\x{1FFF}\x{200C}-\x{200D}\x{2070}-\x{218F}\x{2C00}-\x{2FEF}\x{3001}-\x{D7FF}\x{F900}-\x{FDCF}\x{FDF0}-\x{FFFD}\x{10000}-\x{EFFFF}`
	rePNU     = rePNBase + `_:`
	rePN      = rePNU + `\-0-9\x{00B7}\x{0300}-\x{036F}\x{203F}-\x{2040}`
	reLabel   = `[` + rePNU + `0-9](?:[` + rePN + `.]*[` + rePN + `])?`
	reUCHAR   = `\\u[0-9A-Fa-f]{4}|\\U[0-9A-Fa-f]{8}`
	reIRIREF  = `<(?:[^\x{00}-\x{20}<>"{}|^\x{60}\\]|` + reUCHAR + `)*>`
	reBlank   = `_:` + reLabel
	reLang    = `@[a-zA-Z]+(?:-[a-zA-Z0-9]+)*`
	reString  = `"(?:[^\x{22}\x{5C}\x{0A}\x{0D}]|\\[tbnrf"'\\]|` + reUCHAR + `)*"`
	reLiteral = reString + `(?:\^\^` + reIRIREF + `|` + reLang + `)?`
	reWS      = `[ \t]*`
)

var (
	reLabelOnly = regexp.MustCompile(`^(?:` + reLabel + `)$`)
	reLangOnly  = regexp.MustCompile(`^(?:` + reLang + `)$`)
	reStatement = regexp.MustCompile(`^` + reWS + `(` + reIRIREF + `|` + reBlank + `)` + reWS + `(` + reIRIREF + `)` + reWS +
		`(` + reIRIREF + `|` + reBlank + `|` + reLiteral + `)` + `(?:` + reWS + `(` + reIRIREF + `|` + reBlank + `))?` + reWS + `\.` + reWS + `(?:#.*)?$`)
	reIRIInside = regexp.MustCompile(reIRIREF)
	reScheme    = regexp.MustCompile(`^<[A-Za-z][A-Za-z0-9+.\-]*:`)
)

// refStatementOK: the W3C grammar plus "IRIs are absolute".
func refStatementOK(line string) bool {
	m := reStatement.FindStringSubmatch(line)
	if m == nil {
		return false
	}
	for _, t := range m[1:] {
		for _, iri := range reIRIInside.FindAllString(t, -1) {
			if strings.HasPrefix(t, `"`) && !strings.HasSuffix(t, iri) {
				continue // '<...>' inside the literal text
			}
			if !reScheme.MatchString(iri) {
				return false
			}
		}
	}
	return true
}

// ---- term menus ----

var nqIRIs = []string{
	"http://example.org/a",
	"urn:x:y",
	"http://example.org/é",
	"http://example.org/a#b?c=d&e",
	"http://example.org/\u00a0z",    // not printable: escaped as \\u00a0
	"http://example.org/\U000e1000", // not printable, beyond the BMP: \U000e1000
	"mailto:a@b.c",
	"http://ex\u00a0ample.org/", // a not printable ucschar in the host
}

var nqBadIRIs = []string{"", "a/b", "//x/y", "#frag", "1:x", "http://[::1"}

var nqLabelAlpha = []string{"a", "0", "_", ":", ".", "-", "é", "·", " ", `"`}

var nqTextAlpha = []string{"a", `"`, `\`, "\n", "\r", "\t", "\b", "\f", "'", "\x00", "\x7f", "é", "\u00a0", "\u2028", "\U000e0001", "\U0010ffff", "<", "#"}

var nqQuals = []string{"", "@en", "@en-US-x1", "http://www.w3.org/2001/XMLSchema#string", "http://example.org/é\u00a0"}

var nqBadQuals = []string{"@", "@-a", "@en-", "@1", "@en_US", "rel/iri", "en"}

// ---- nq-terms ----

func genNQTerms(g *vlib.G) {
	for _, iri := range append(append([]string{}, nqIRIs...), nqBadIRIs...) {
		iri := iri
		g.Case("iri "+q(iri), func(t *vlib.T) {
			r := newRep(t)
			good := true
			for _, b := range nqBadIRIs {
				if b == iri {
					good = false
				}
			}
			var term rdf.Term
			var err error
			if p := catch(func() { term, err = rdf.NewIRITerm(iri) }); p != "" {
				r.Failf("NewIRITerm(%s) panicked: %s", q(iri), p)
				return
			}
			if !good {
				if err == nil {
					r.Failf("NewIRITerm(%s) accepted an IRI without a scheme / invalid IRI: %s", q(iri), term.Value)
				}
				t.Outcome("rejected")
				return
			}
			if err != nil {
				r.Failf("NewIRITerm(%s): %v", q(iri), err)
				return
			}
			checkParts(r, term, iri, "", rdf.IRI)
			t.Outcome("ok")
			t.Nontrivial()
		})
	}
	for _, l := range allStrings(nqLabelAlpha, vlib.Pick(g, 3, 4)) {
		l := l
		g.Case("blank "+q(l), func(t *vlib.T) {
			r := newRep(t)
			want := reLabelOnly.MatchString(l)
			var term rdf.Term
			var err error
			if p := catch(func() { term, err = rdf.NewBlankTerm(l) }); p != "" {
				r.Failf("NewBlankTerm(%s) panicked: %s", q(l), p)
				return
			}
			if (err == nil) != want {
				r.Failf("NewBlankTerm(%s): err=%v, BLANK_NODE_LABEL of the grammar matches=%v", q(l), err, want)
				return
			}
			if err != nil {
				if !errors.Is(err, rdf.ErrInvalidTerm) && !errors.Is(err, rdf.ErrIncompleteTerm) {
					r.Failf("NewBlankTerm(%s): error %v is neither ErrInvalidTerm nor ErrIncompleteTerm", q(l), err)
				}
				t.Outcome("rejected")
				return
			}
			if term.Value != "_:"+l {
				r.Failf("NewBlankTerm(%s).Value=%s", q(l), q(term.Value))
			}
			checkParts(r, term, l, "", rdf.Blank)
			t.Outcome("ok")
			t.Nontrivial()
		})
	}
	texts := allStrings(nqTextAlpha, 2)
	for _, qual := range append(append([]string{}, nqQuals...), nqBadQuals...) {
		qual := qual
		goodQual := true
		for _, b := range nqBadQuals {
			if b == qual {
				goodQual = false
			}
		}
		for _, text := range texts {
			text := text
			if !goodQual && len(text) > 1 {
				continue
			}
			g.Case(fmt.Sprintf("literal %s qual=%s", q(text), q(qual)), func(t *vlib.T) {
				r := newRep(t)
				var term rdf.Term
				var err error
				if p := catch(func() { term, err = rdf.NewLiteralTerm(text, qual) }); p != "" {
					r.Failf("NewLiteralTerm(%s,%s) panicked: %s", q(text), q(qual), p)
					return
				}
				if !goodQual {
					if err == nil {
						r.Failf("NewLiteralTerm(%s,%s) accepted a bad qualifier: %s", q(text), q(qual), term.Value)
					}
					t.Outcome("rejected")
					return
				}
				if err != nil {
					r.Failf("NewLiteralTerm(%s,%s): %v", q(text), q(qual), err)
					return
				}
				checkParts(r, term, text, qual, rdf.Literal)
				// the term must be a literal of the grammar
				if !regexp.MustCompile(`^(?:` + reLiteral + `)$`).MatchString(term.Value) {
					r.Failf("NewLiteralTerm(%s,%s).Value=%s is not a literal of the N-Quads grammar", q(text), q(qual), q(term.Value))
				}
				t.Outcome("ok")
				t.Nontrivial()
			})
		}
	}
}

func checkParts(r *rep, term rdf.Term, text, qual string, kind rdf.Kind) {
	var gt, gq string
	var gk rdf.Kind
	var err error
	if p := catch(func() { gt, gq, gk, err = term.Parts() }); p != "" {
		r.Failf("Parts() of %s panicked: %s", q(term.Value), p)
		return
	}
	if err != nil || gt != text || gq != qual || gk != kind {
		r.Failf("Parts() of %s = (%s, %s, %v, %v), want (%s, %s, %v, nil)", q(term.Value), q(gt), q(gq), gk, err, q(text), q(qual), kind)
	}
}

// ---- nq-statements ----

type nqMenus struct {
	subj, pred, obj, label []rdf.Term
}

func mustIRI(s string) rdf.Term {
	t, err := rdf.NewIRITerm(s)
	if err != nil {
		panic(err)
	}
	return t
}

func mustBlank(s string) rdf.Term {
	t, err := rdf.NewBlankTerm(s)
	if err != nil {
		panic(err)
	}
	return t
}

func mustLit(text, qual string) rdf.Term {
	t, err := rdf.NewLiteralTerm(text, qual)
	if err != nil {
		panic(err)
	}
	return t
}

func nqStatementMenus() nqMenus {
	var m nqMenus
	m.subj = []rdf.Term{mustIRI(nqIRIs[0]), mustIRI(nqIRIs[4]), mustBlank("b0"), mustBlank("a.b-c_é")}
	m.pred = []rdf.Term{mustIRI(nqIRIs[3]), mustIRI(nqIRIs[2]), mustIRI(nqIRIs[5])}
	m.obj = []rdf.Term{mustIRI(nqIRIs[1]), mustIRI(nqIRIs[5]), mustBlank("0"), mustBlank("x:y")}
	for _, text := range allStrings(nqTextAlpha, 1) {
		for _, qual := range nqQuals {
			m.obj = append(m.obj, mustLit(text, qual))
		}
	}
	m.obj = append(m.obj, mustLit("a\"b\\c\nd\re\tf 'g' <h> #i \u00a0\U000e0001", "@en"))
	m.label = []rdf.Term{{}, mustIRI(nqIRIs[6]), mustBlank("g")}
	return m
}

// auditStatement checks what must hold for any statement gonum accepted:
// term kinds fit their positions, Parts is total and agrees with the
// constructors, and printing is a fixed point of parsing.
func auditStatement(r *rep, src string, s *rdf.Statement) {
	if s == nil {
		r.Failf("ParseNQuad(%s) returned nil statement and nil error", q(src))
		return
	}
	type pos struct {
		name  string
		t     rdf.Term
		kinds []rdf.Kind
		opt   bool
	}
	for _, p := range []pos{
		{"subject", s.Subject, []rdf.Kind{rdf.IRI, rdf.Blank}, false},
		{"predicate", s.Predicate, []rdf.Kind{rdf.IRI}, false},
		{"object", s.Object, []rdf.Kind{rdf.IRI, rdf.Blank, rdf.Literal}, false},
		{"label", s.Label, []rdf.Kind{rdf.IRI, rdf.Blank}, true},
	} {
		if p.t.UID != 0 {
			r.Failf("ParseNQuad(%s): %s UID=%d, documented zero", q(src), p.name, p.t.UID)
		}
		if p.opt && p.t.Value == "" {
			continue
		}
		var text, qual string
		var kind rdf.Kind
		var err error
		if pm := catch(func() { text, qual, kind, err = p.t.Parts() }); pm != "" {
			if hasHugeUCHAR(p.t.Value) {
				r.finding("rdf-uchar-out-of-range-panics", p.name, "ParseNQuad accepts %s; Parts() of its %s %s panics: %s", q(src), p.name, q(p.t.Value), pm)
			} else {
				r.Failf("ParseNQuad accepts %s; Parts() of its %s %s panics: %s", q(src), p.name, q(p.t.Value), pm)
			}
			continue
		}
		if err != nil {
			r.Failf("ParseNQuad accepts %s; Parts() of its %s %s fails: %v", q(src), p.name, q(p.t.Value), err)
			continue
		}
		ok := false
		for _, k := range p.kinds {
			ok = ok || k == kind
		}
		if !ok {
			r.Failf("ParseNQuad(%s): %s %s has kind %v", q(src), p.name, q(p.t.Value), kind)
		}
		_ = text
		_ = qual
	}
	var printed string
	if pm := catch(func() { printed = s.String() }); pm != "" {
		r.Failf("String() of parsed %s panicked: %s", q(src), pm)
		return
	}
	var s2 *rdf.Statement
	var err error
	if pm := catch(func() { s2, err = rdf.ParseNQuad(printed) }); pm != "" {
		r.Failf("ParseNQuad(%s) (a printed statement) panicked: %s", q(printed), pm)
		return
	}
	if err != nil {
		r.Failf("printed form %s of accepted %s does not parse: %v", q(printed), q(src), err)
		return
	}
	if *s2 != *s {
		r.Failf("parse(print(parse(%s))) differs: %+v vs %+v", q(src), *s2, *s)
	}
	if p2 := s2.String(); p2 != printed {
		r.Failf("print not canonical: %s then %s", q(printed), q(p2))
	}
}

var reHugeUCHAR = regexp.MustCompile(`\\U[89A-Fa-f][0-9A-Fa-f]{7}`)

// hasHugeUCHAR: a \U escape whose value does not fit in 31 bits.
func hasHugeUCHAR(s string) bool { return reHugeUCHAR.MatchString(s) }

func genNQStatements(g *vlib.G) {
	m := nqStatementMenus()
	for si := range m.subj {
		for pi := range m.pred {
			for oi := range m.obj {
				for li := range m.label {
					si, pi, oi, li := si, pi, oi, li
					g.Case(fmt.Sprintf("s=%d p=%d o=%d g=%d", si, pi, oi, li), func(t *vlib.T) {
						r := newRep(t)
						m := nqStatementMenus()
						st := &rdf.Statement{Subject: m.subj[si], Predicate: m.pred[pi], Object: m.obj[oi], Label: m.label[li]}
						line := st.String()
						if !refStatementOK(line) {
							r.Failf("printed statement %s is not a statement of the N-Quads grammar", q(line))
						}
						var got *rdf.Statement
						var err error
						if p := catch(func() { got, err = rdf.ParseNQuad(line) }); p != "" {
							r.Failf("ParseNQuad(%s) panicked: %s", q(line), p)
							return
						}
						if err != nil {
							r.Failf("ParseNQuad(print(s)) fails for %s: %v", q(line), err)
							return
						}
						if *got != *st {
							r.Failf("ParseNQuad(print(s)) = %+v, want %+v", *got, *st)
						}
						auditStatement(r, line, got)
						t.Detail(line)
						t.Nontrivial()
					})
				}
			}
		}
	}
	// an IRI that needs a \u escape inside its authority: NewIRITerm accepts it
	// (U+00A0 is a ucschar of RFC 3987), the printed statement must parse.
	for pos := 0; pos < 4; pos++ {
		pos := pos
		g.Case(fmt.Sprintf("iri-host-escape pos=%d", pos), func(t *vlib.T) {
			r := newRep(t)
			x := mustIRI(nqIRIs[7])
			st := &rdf.Statement{Subject: mustIRI(nqIRIs[0]), Predicate: mustIRI(nqIRIs[1]), Object: mustIRI(nqIRIs[2]), Label: mustIRI(nqIRIs[3])}
			*[]*rdf.Term{&st.Subject, &st.Predicate, &st.Object, &st.Label}[pos] = x
			line := st.String()
			if !refStatementOK(line) {
				r.Failf("printed statement %s is not a statement of the N-Quads grammar", q(line))
			}
			got, err := rdf.ParseNQuad(line)
			switch {
			case err != nil:
				r.finding("rdf-iri-escape-in-authority-rejected", fmt.Sprint(pos), "NewIRITerm(%s) succeeds and prints as %s, but ParseNQuad of the printed statement fails (the escaped text, not the IRI, is handed to url.Parse): %v", q(nqIRIs[7]), q(x.Value), err)
			case *got != *st:
				r.Failf("ParseNQuad(print(s)) = %+v, want %+v", *got, *st)
			default:
				auditStatement(r, line, got)
			}
			t.Nontrivial()
		})
	}
	// the whole menu as one stream through the Decoder
	for _, sep := range []string{"\n", "\r\n", "\n\n# comment\n \t\n"} {
		sep := sep
		g.Case("decoder-stream sep="+q(sep), func(t *vlib.T) {
			r := newRep(t)
			m := nqStatementMenus()
			var lines []string
			var want []*rdf.Statement
			for si := range m.subj {
				for oi := range m.obj {
					st := &rdf.Statement{Subject: m.subj[si], Predicate: m.pred[(si+oi)%len(m.pred)], Object: m.obj[oi], Label: m.label[(si*7+oi)%len(m.label)]}
					want = append(want, st)
					lines = append(lines, st.String())
				}
			}
			text := "# header\n" + strings.Join(lines, sep)
			if sep != "\n" {
				text += sep
			}
			if p := catch(func() {
				dec := rdf.NewDecoder(strings.NewReader(text))
				uidOf := map[string]int64{}
				valOf := map[int64]string{}
				for i := 0; ; i++ {
					s, err := dec.Unmarshal()
					if err == io.EOF {
						if i != len(want) {
							r.Failf("decoder returned %d statements, want %d", i, len(want))
						}
						break
					}
					if err != nil {
						r.Failf("statement %d (%s): %v", i, q(lines[i]), err)
						return
					}
					if i >= len(want) {
						r.Failf("decoder returned more than %d statements", len(want))
						return
					}
					w := want[i]
					if s.Subject.Value != w.Subject.Value || s.Predicate.Value != w.Predicate.Value || s.Object.Value != w.Object.Value || s.Label.Value != w.Label.Value {
						r.Failf("statement %d: got %s want %s", i, q(s.String()), q(w.String()))
					}
					for _, term := range []rdf.Term{s.Subject, s.Predicate, s.Object, s.Label} {
						if term.Value == "" {
							if term.UID != 0 {
								r.Failf("empty label has UID %d", term.UID)
							}
							continue
						}
						if term.UID < 1 {
							r.Failf("term %s has UID %d (documented: based from 1)", q(term.Value), term.UID)
						}
						if u, ok := uidOf[term.Value]; ok && u != term.UID {
							r.Failf("term %s has UIDs %d and %d", q(term.Value), u, term.UID)
						}
						if v, ok := valOf[term.UID]; ok && v != term.Value {
							r.Failf("UID %d names %s and %s", term.UID, q(v), q(term.Value))
						}
						uidOf[term.Value] = term.UID
						valOf[term.UID] = term.Value
					}
				}
				terms := dec.Terms()
				if len(terms) != len(uidOf) {
					r.Failf("Terms() has %d entries, %d distinct terms were decoded", len(terms), len(uidOf))
				}
				for v, u := range uidOf {
					if terms[v] != u {
						r.Failf("Terms()[%s]=%d, statement carried %d", q(v), terms[v], u)
					}
				}
				t.Count("nq_stream_statements", int64(len(want)))
			}); p != "" {
				r.Failf("decoder panicked: %s", p)
			}
			t.Nontrivial()
		})
	}
}

// ---- nq-canonical-print ----

func genNQCanonical(g *vlib.G) {
	genNQEscapes(g)
	type base struct{ terms []string }
	bases := []base{
		{[]string{`<a:s>`, `<a:p>`, `<a:o>`}},
		{[]string{`<a:s>`, `<a:p>`, `"lit"`}},
		{[]string{`_:b`, `<a:p>`, `"l\"i\\t"@en-GB`}},
		{[]string{`<a:s>`, `<a:p>`, `"1"^^<a:int>`, `<a:g>`}},
		{[]string{`_:b1`, `<a:p>`, `_:b2`, `_:g`}},
		{[]string{`<a:sé>`, `<a:p>`, `"é\U0001F600\t"`, `<a:g>`}},
	}
	seps := []string{" ", "\t", "  \t ", ""}
	leads := []string{"", " ", "\t "}
	tails := []string{"", " ", " # comment", "#c", "\t#  c with \" and <x> \\u12"}
	for bi, b := range bases {
		for si, sep := range seps {
			for li, lead := range leads {
				for ti, tail := range tails {
					for _, dotGap := range []string{" ", ""} {
						bi, b, sep, lead, tail, dotGap := bi, b, sep, lead, tail, dotGap
						g.Case(fmt.Sprintf("base=%d sep=%d lead=%d tail=%d dotgap=%q", bi, si, li, ti, dotGap), func(t *vlib.T) {
							r := newRep(t)
							var sb strings.Builder
							sb.WriteString(lead)
							for i, term := range b.terms {
								if i > 0 {
									s := sep
									prev := b.terms[i-1]
									if s == "" && !strings.HasSuffix(prev, ">") && !strings.HasSuffix(prev, `"`) {
										s = " " // a blank node label or language tag would swallow what follows
									}
									sb.WriteString(s)
								}
								sb.WriteString(term)
							}
							last := b.terms[len(b.terms)-1]
							if dotGap == "" && strings.HasPrefix(last, "_:") {
								sb.WriteString(" ")
							} else {
								sb.WriteString(dotGap)
							}
							sb.WriteString(".")
							sb.WriteString(tail)
							line := sb.String()
							canon := strings.Join(b.terms, " ") + " ."
							if !refStatementOK(line) {
								r.Failf("harness: generated line %s is not in the grammar", q(line))
								return
							}
							var s *rdf.Statement
							var err error
							if p := catch(func() { s, err = rdf.ParseNQuad(line) }); p != "" {
								r.Failf("ParseNQuad(%s) panicked: %s", q(line), p)
								return
							}
							if err != nil {
								r.Failf("ParseNQuad(%s): %v", q(line), err)
								return
							}
							if got := s.String(); got != canon {
								r.Failf("print(parse(%s)) = %s, want %s", q(line), q(got), q(canon))
							}
							auditStatement(r, line, s)
							t.Nontrivial()
						})
					}
				}
			}
		}
	}
}

// nqEscapes: every ECHAR and both UCHAR forms of the grammar with the
// character they denote (https://www.w3.org/TR/n-quads/#grammar-production-ECHAR).
var nqEscapes = []struct{ esc, want string }{
	{`\t`, "\t"}, {`\b`, "\b"}, {`\n`, "\n"}, {`\r`, "\r"}, {`\f`, "\f"}, {`\"`, `"`}, {`\'`, "'"}, {`\\`, `\`},
	{`\u0041`, "A"}, {`\u00e9`, "é"}, {`\u00E9`, "é"}, {`\u0000`, "\x00"}, {`\uFFFD`, "\ufffd"}, {`\u2028`, "\u2028"},
	{`\U00000041`, "A"}, {`\U0001F600`, "\U0001F600"}, {`\U0010FFFF`, "\U0010FFFF"}, {`\U000E0001`, "\U000E0001"},
}

// genNQEscapes: the reading direction of every escape, in literals and (UCHAR) in IRIs.
func genNQEscapes(g *vlib.G) {
	for _, e := range nqEscapes {
		for ci, ctx := range [][2]string{{"", ""}, {"a", "b"}, {"\\\\", "\\n"}} {
			e, ci, ctx := e, ci, ctx
			g.Case(fmt.Sprintf("escape %s ctx=%d", e.esc, ci), func(t *vlib.T) {
				r := newRep(t)
				unctx := func(s string) string { return strings.NewReplacer(`\\`, `\`, `\n`, "\n").Replace(s) }
				line := `<a:s> <a:p> "` + ctx[0] + e.esc + e.esc + ctx[1] + `"@en .`
				want := unctx(ctx[0]) + e.want + e.want + unctx(ctx[1])
				if !refStatementOK(line) {
					r.Failf("harness: %s is not in the grammar", q(line))
					return
				}
				s, err := rdf.ParseNQuad(line)
				if err != nil {
					r.Failf("ParseNQuad(%s): %v", q(line), err)
					return
				}
				checkParts(r, s.Object, want, "@en", rdf.Literal)
				auditStatement(r, line, s)
				if strings.HasPrefix(e.esc, `\u`) || strings.HasPrefix(e.esc, `\U`) {
					if e.want == "\x00" {
						return // NUL is not an IRI character
					}
					line := `<a:s> <a:p/` + e.esc + `> "x"^^<a:t` + e.esc + `> .`
					s, err := rdf.ParseNQuad(line)
					if err != nil {
						t.Count("nq_iri_escape_rejected_by_net_url", 1)
						return
					}
					checkParts(r, s.Predicate, "a:p/"+e.want, "", rdf.IRI)
					checkParts(r, s.Object, "x", "a:t"+e.want, rdf.Literal)
				}
				t.Nontrivial()
			})
		}
	}
}

// ---- nq-tokens ----

var nqTokens = []string{`<a:b>`, `_:b`, `"lit"`, `^^`, `@en`, `.`, `#`, `x`, `<rel>`, `""`, `<u:v>`, ` `}

func nqCheckLine(r *rep, t *vlib.T, line string, refOracle bool) {
	t.Count("nq_lines", 1)
	var s *rdf.Statement
	var err error
	if p := catch(func() { s, err = rdf.ParseNQuad(line) }); p != "" {
		r.Failf("ParseNQuad(%s) panicked: %s", q(line), p)
		return
	}
	if refOracle {
		if want := refStatementOK(line); (err == nil) != want {
			r.Failf("ParseNQuad(%s): err=%v, the W3C grammar accepts=%v", q(line), err, want)
		}
	}
	if err != nil {
		if !errors.Is(err, rdf.ErrInvalid) && !errors.Is(err, rdf.ErrIncomplete) {
			// errors from net/url are passed through unwrapped (documented by the source only)
			t.Count("nq_other_errors", 1)
		}
		return
	}
	t.Count("nq_lines_accepted", 1)
	auditStatement(r, line, s)
}

func genNQTokens(g *vlib.G) {
	maxL := vlib.Pick(g, 5, 6)
	nt := len(nqTokens)
	for l := 0; l <= maxL; l++ {
		l := l
		pl := l
		if pl > 2 {
			pl = 2
		}
		np := 1
		for i := 0; i < pl; i++ {
			np *= nt
		}
		for pi := 0; pi < np; pi++ {
			pi := pi
			prefix := make([]string, pl)
			x := pi
			for i := pl - 1; i >= 0; i-- {
				prefix[i] = nqTokens[x%nt]
				x /= nt
			}
			for _, join := range []string{" ", ""} {
				join := join
				g.Case(fmt.Sprintf("len=%d join=%q prefix=%s", l, join, strings.Join(prefix, "|")), func(t *vlib.T) {
					r := newRep(t)
					rest := l - pl
					idx := make([]int, rest)
					tok := make([]string, l)
					copy(tok, prefix)
					for {
						for i := 0; i < rest; i++ {
							tok[pl+i] = nqTokens[idx[i]]
						}
						nqCheckLine(r, t, strings.Join(tok, join), true)
						i := rest - 1
						for ; i >= 0; i-- {
							idx[i]++
							if idx[i] < nt {
								break
							}
							idx[i] = 0
						}
						if i < 0 {
							break
						}
					}
					t.Nontrivial()
				})
			}
		}
	}
}

// ---- nq-mutate ----

var nqSubst = []string{`"`, `\`, `<`, `>`, `_`, `:`, `@`, `^`, `.`, `#`, ` `, "\t", "\n", "\r", "u", "U", "F", "8", "0", "-", "\x00", "\x7f", "\x80", "é", "\u00a0", "{", "%"}

var nqMutateBases = []string{
	`<http://a.example/s> <http://a.example/p> <http://a.example/o> .`,
	`<http://a.example/s> <http://a.example/p> "lit" <http://a.example/g> .`,
	`_:b1 <a:p> _:b2 _:g .`,
	`_:b <a:p> "x"@en-GB .`,
	`<a:s> <a:p> "1"^^<http://www.w3.org/2001/XMLSchema#integer> .`,
	`<a:sé> <a:p> "eé\U0001F600\t\"\\" . # c`,
	`<a:s> <a:p> "\U0010FFFFx"^^<a:t\U000E1000> <a:g> .`,
}

func genNQMutate(g *vlib.G) {
	for bi, b := range nqMutateBases {
		bi, b := bi, b
		g.Case(fmt.Sprintf("base=%d intact", bi), func(t *vlib.T) {
			r := newRep(t)
			s, err := rdf.ParseNQuad(b)
			if err != nil {
				r.Failf("base %s rejected: %v", q(b), err)
				return
			}
			auditStatement(r, b, s)
			t.Nontrivial()
		})
		for pos := 0; pos < len(b); pos++ {
			pos := pos
			g.Case(fmt.Sprintf("base=%d pos=%d", bi, pos), func(t *vlib.T) {
				r := newRep(t)
				nqCheckLine(r, t, b[:pos], false)
				for _, x := range nqSubst {
					if strings.HasPrefix(b[pos:], x) {
						continue
					}
					nqCheckLine(r, t, b[:pos]+x+b[pos+1:], false)
					nqCheckLine(r, t, b[:pos]+x+b[pos:], false) // insertion
				}
				// the same faults on bare terms through Parts
				for _, term := range strings.Fields(b) {
					if pos >= len(term) || term == "." || term == "#" {
						continue
					}
					nqCheckTerm(r, t, term[:pos])
					for _, x := range nqSubst {
						nqCheckTerm(r, t, term[:pos]+x+term[pos+1:])
					}
				}
				t.Nontrivial()
			})
		}
	}
}

// nqCheckTerm: Parts is total on arbitrary text, and what it accepts is
// reproduced by the constructors.
func nqCheckTerm(r *rep, t *vlib.T, value string) {
	t.Count("nq_terms", 1)
	term := rdf.Term{Value: value}
	var text, qual string
	var kind rdf.Kind
	var err error
	if p := catch(func() { text, qual, kind, err = term.Parts() }); p != "" {
		if hasHugeUCHAR(value) {
			r.finding("rdf-uchar-out-of-range-panics", "term", "Term{Value: %s}.Parts() panics: %s", q(value), p)
		} else {
			r.Failf("Term{Value: %s}.Parts() panicked: %s", q(value), p)
		}
		return
	}
	if err != nil {
		if kind != rdf.Invalid {
			r.Failf("Term{Value: %s}.Parts(): error %v with kind %v", q(value), err, kind)
		}
		if !errors.Is(err, rdf.ErrInvalidTerm) && !errors.Is(err, rdf.ErrIncompleteTerm) {
			r.Failf("Term{Value: %s}.Parts(): undocumented error %v", q(value), err)
		}
		return
	}
	t.Count("nq_terms_accepted", 1)
	switch kind {
	case rdf.Blank:
		if !utf8.ValidString(value) {
			break // invalid UTF-8 is read as U+FFFD: out of the format's domain
		}
		if nt, err := rdf.NewBlankTerm(text); err != nil || nt.Value != value {
			r.Failf("Parts(%s) gives blank label %s which NewBlankTerm maps to %s (%v)", q(value), q(text), q(nt.Value), err)
		}
	case rdf.IRI, rdf.Literal:
	default:
		r.Failf("Term{Value: %s}.Parts(): nil error with kind %v", q(value), kind)
	}
	_ = qual
}
