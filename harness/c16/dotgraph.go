package main

import (
	"fmt"
	"sort"
	"strconv"
	"strings"

	"gonum.org/v1/gonum/graph"
	"gonum.org/v1/gonum/graph/encoding"
	"gonum.org/v1/gonum/graph/encoding/dot"
	"gonum.org/v1/gonum/graph/multi"
	"gonum.org/v1/gonum/graph/simple"
)

// Graph, node, edge and line types that keep everything the DOT codec can
// carry: DOT ids, ordered attribute lists (verbatim, duplicates kept), ports
// and compass points, graph name and the three global attribute lists.

type attrList struct{ list []encoding.Attribute }

func (a *attrList) Attributes() []encoding.Attribute { return a.list }
func (a *attrList) SetAttribute(x encoding.Attribute) error {
	a.list = append(a.list, x)
	return nil
}

type dnode struct {
	id    int64
	dotID string
	*attrList
}

func (n *dnode) ID() int64         { return n.id }
func (n *dnode) DOTID() string     { return n.dotID }
func (n *dnode) SetDOTID(s string) { n.dotID = s }

type ports struct{ fp, fc, tp, tc string }

type dedge struct {
	f, t graph.Node
	*attrList
	p *ports
}

func (e *dedge) From() graph.Node { return e.f }
func (e *dedge) To() graph.Node   { return e.t }
func (e *dedge) ReversedEdge() graph.Edge {
	return &dedge{f: e.t, t: e.f, attrList: e.attrList, p: &ports{fp: e.p.tp, fc: e.p.tc, tp: e.p.fp, tc: e.p.fc}}
}
func (e *dedge) FromPort() (string, string) { return e.p.fp, e.p.fc }
func (e *dedge) ToPort() (string, string)   { return e.p.tp, e.p.tc }
func (e *dedge) SetFromPort(port, compass string) error {
	e.p.fp, e.p.fc = port, compass
	return nil
}
func (e *dedge) SetToPort(port, compass string) error {
	e.p.tp, e.p.tc = port, compass
	return nil
}

type dline struct {
	dedge
	id int64
}

func (l *dline) ID() int64 { return l.id }
func (l *dline) ReversedLine() graph.Line {
	r := l.dedge.ReversedEdge().(*dedge)
	return &dline{dedge: *r, id: l.id}
}

type meta struct {
	name       string
	gA, nA, eA *attrList
}

func newMeta() *meta { return &meta{gA: &attrList{}, nA: &attrList{}, eA: &attrList{}} }

func (m *meta) DOTID() string     { return m.name }
func (m *meta) SetDOTID(s string) { m.name = s }
func (m *meta) DOTAttributers() (graph, node, edge encoding.Attributer) {
	return m.gA, m.nA, m.eA
}
func (m *meta) DOTAttributeSetters() (graph, node, edge encoding.AttributeSetter) {
	return m.gA, m.nA, m.eA
}

func newDedge(f, t graph.Node) *dedge { return &dedge{f: f, t: t, attrList: &attrList{}, p: &ports{}} }

type uG struct {
	*simple.UndirectedGraph
	*meta
}

func (g uG) NewNode() graph.Node {
	return &dnode{id: g.UndirectedGraph.NewNode().ID(), attrList: &attrList{}}
}
func (g uG) NewEdge(f, t graph.Node) graph.Edge { return newDedge(f, t) }

type dG struct {
	*simple.DirectedGraph
	*meta
}

func (g dG) NewNode() graph.Node {
	return &dnode{id: g.DirectedGraph.NewNode().ID(), attrList: &attrList{}}
}
func (g dG) NewEdge(f, t graph.Node) graph.Edge { return newDedge(f, t) }

type muG struct {
	*multi.UndirectedGraph
	*meta
}

func (g muG) NewNode() graph.Node {
	return &dnode{id: g.UndirectedGraph.NewNode().ID(), attrList: &attrList{}}
}
func (g muG) NewLine(f, t graph.Node) graph.Line {
	return &dline{dedge: *newDedge(f, t), id: g.UndirectedGraph.NewLine(f, t).ID()}
}

type mdG struct {
	*multi.DirectedGraph
	*meta
}

func (g mdG) NewNode() graph.Node {
	return &dnode{id: g.DirectedGraph.NewNode().ID(), attrList: &attrList{}}
}
func (g mdG) NewLine(f, t graph.Node) graph.Line {
	return &dline{dedge: *newDedge(f, t), id: g.DirectedGraph.NewLine(f, t).ID()}
}

// dkind selects one of the four graph flavours.
type dkind int

const (
	kU dkind = iota
	kD
	kMU
	kMD
)

var dkinds = []dkind{kU, kD, kMU, kMD}

func (k dkind) String() string {
	return [...]string{"graph", "digraph", "multigraph", "multidigraph"}[k]
}
func (k dkind) directed() bool { return k == kD || k == kMD }
func (k dkind) multi() bool    { return k == kMU || k == kMD }

// dgraph is the uniform handle on the four flavours.
type dgraph struct {
	kind dkind
	m    *meta
	g    any // uG, dG, muG, mdG
}

func newDgraph(k dkind) *dgraph {
	m := newMeta()
	d := &dgraph{kind: k, m: m}
	switch k {
	case kU:
		d.g = uG{simple.NewUndirectedGraph(), m}
	case kD:
		d.g = dG{simple.NewDirectedGraph(), m}
	case kMU:
		d.g = muG{multi.NewUndirectedGraph(), m}
	case kMD:
		d.g = mdG{multi.NewDirectedGraph(), m}
	}
	return d
}

func (d *dgraph) addNode(id int64, dotID string) *dnode {
	n := &dnode{id: id, dotID: dotID, attrList: &attrList{}}
	d.g.(graph.NodeAdder).AddNode(n)
	return n
}

// addEdge adds an edge (simple) or one more line (multi) and returns its
// attribute list and ports.
func (d *dgraph) addEdge(f, t graph.Node) *dedge {
	switch g := d.g.(type) {
	case uG:
		e := newDedge(f, t)
		g.SetEdge(e)
		return e
	case dG:
		e := newDedge(f, t)
		g.SetEdge(e)
		return e
	case muG:
		l := g.NewLine(f, t).(*dline)
		g.SetLine(l)
		return &l.dedge
	case mdG:
		l := g.NewLine(f, t).(*dline)
		g.SetLine(l)
		return &l.dedge
	}
	panic("unreachable")
}

func (d *dgraph) snap() snap { return takeSnap(d.g, d.kind.directed(), d.kind.multi()) }

func (d *dgraph) marshal() ([]byte, error) {
	if d.kind.multi() {
		return dot.MarshalMulti(d.g.(graph.Multigraph), "", "", " ")
	}
	return dot.Marshal(d.g.(graph.Graph), "", "", " ")
}

func (d *dgraph) unmarshal(b []byte) error {
	if d.kind.multi() {
		return dot.UnmarshalMulti(b, d.g.(encoding.MultiBuilder))
	}
	return dot.Unmarshal(b, d.g.(encoding.Builder))
}

// ---- snapshots ----

type snapNode struct {
	ID    int64
	DOTID string
	Attrs []encoding.Attribute
}

type snapEdge struct {
	U, V           string // DOT ids, U the lower node id for undirected graphs
	FP, FC, TP, TC string
	Attrs          []encoding.Attribute
}

type snap struct {
	Name    string
	G, N, E []encoding.Attribute
	Nodes   []snapNode
	Edges   []snapEdge
}

func attrsOf(x any) []encoding.Attribute {
	if a, ok := x.(encoding.Attributer); ok {
		return append([]encoding.Attribute(nil), a.Attributes()...)
	}
	return nil
}

func dotIDOf(n graph.Node) string {
	if d, ok := n.(dot.Node); ok {
		return d.DOTID()
	}
	return strconv.FormatInt(n.ID(), 10)
}

func sortedNodes(it graph.Nodes) []graph.Node {
	ns := graph.NodesOf(it)
	sort.Slice(ns, func(i, j int) bool { return ns[i].ID() < ns[j].ID() })
	return ns
}

func edgeSnap(u, v graph.Node, e any) snapEdge {
	se := snapEdge{U: dotIDOf(u), V: dotIDOf(v), Attrs: attrsOf(e)}
	if p, ok := e.(dot.Porter); ok {
		se.FP, se.FC = p.FromPort()
		se.TP, se.TC = p.ToPort()
	}
	return se
}

// takeSnap dumps everything observable of a graph in a canonical order.
func takeSnap(g any, directed, isMulti bool) snap {
	var s snap
	if m, ok := g.(interface{ DOTID() string }); ok {
		s.Name = m.DOTID()
	}
	if a, ok := g.(dot.Attributers); ok {
		ga, na, ea := a.DOTAttributers()
		s.G, s.N, s.E = attrsOf(ga), attrsOf(na), attrsOf(ea)
	}
	type noder interface {
		Nodes() graph.Nodes
		From(int64) graph.Nodes
	}
	nodes := sortedNodes(g.(noder).Nodes())
	for _, n := range nodes {
		s.Nodes = append(s.Nodes, snapNode{ID: n.ID(), DOTID: dotIDOf(n), Attrs: attrsOf(n)})
	}
	for _, u := range nodes {
		to := sortedNodes(g.(noder).From(u.ID()))
		for _, v := range to {
			if !directed && v.ID() < u.ID() {
				continue
			}
			if !isMulti {
				s.Edges = append(s.Edges, edgeSnap(u, v, g.(graph.Graph).Edge(u.ID(), v.ID())))
			} else {
				ls := graph.LinesOf(g.(graph.Multigraph).Lines(u.ID(), v.ID()))
				sort.Slice(ls, func(i, j int) bool { return ls[i].ID() < ls[j].ID() })
				for _, l := range ls {
					s.Edges = append(s.Edges, edgeSnap(u, v, l))
				}
			}
		}
	}
	return s
}

func (s snap) String() string {
	var b strings.Builder
	fmt.Fprintf(&b, "name=%+q G=%+q N=%+q E=%+q\n", s.Name, s.G, s.N, s.E)
	for _, n := range s.Nodes {
		fmt.Fprintf(&b, " node %d %+q %+q\n", n.ID, n.DOTID, n.Attrs)
	}
	for _, e := range s.Edges {
		fmt.Fprintf(&b, " edge %+q:%+q:%+q -> %+q:%+q:%+q %+q\n", e.U, e.FP, e.FC, e.V, e.TP, e.TC, e.Attrs)
	}
	return b.String()
}

// mapStrings applies f to every id, attribute key/value and port of s.
func (s snap) mapStrings(f func(string) string) snap {
	ma := func(as []encoding.Attribute) []encoding.Attribute {
		var out []encoding.Attribute
		for _, a := range as {
			out = append(out, encoding.Attribute{Key: f(a.Key), Value: f(a.Value)})
		}
		return out
	}
	o := snap{Name: f(s.Name), G: ma(s.G), N: ma(s.N), E: ma(s.E)}
	for _, n := range s.Nodes {
		o.Nodes = append(o.Nodes, snapNode{ID: n.ID, DOTID: f(n.DOTID), Attrs: ma(n.Attrs)})
	}
	for _, e := range s.Edges {
		o.Edges = append(o.Edges, snapEdge{U: f(e.U), V: f(e.V), FP: f(e.FP), FC: e.FC, TP: f(e.TP), TC: e.TC, Attrs: ma(e.Attrs)})
	}
	return o
}

// ---- what the documentation says a string becomes after one round trip ----

// isQuotedForm reports whether s is itself a double-quoted DOT string with
// valid (Go) escapes. quoteID documents: "If s is already quoted ... the
// original string is returned", and unquoteID then strips the quotes, except
// for the quoted HTML-like form "<...>" which is kept verbatim.
func isQuotedForm(s string) bool {
	if len(s) < 2 || s[0] != '"' || s[len(s)-1] != '"' {
		return false
	}
	_, err := strconv.Unquote(s)
	return err == nil
}

func dotExpect(s string) string {
	if isQuotedForm(s) {
		if len(s) >= 4 && strings.HasPrefix(s, `"<`) && strings.HasSuffix(s, `>"`) {
			return s
		}
		t, _ := strconv.Unquote(s)
		return t
	}
	return s
}

// htmlForm reports whether s has the shape /^<.*>$/ that quoteID passes
// through unquoted as an HTML string.
func htmlForm(s string) bool {
	return len(s) >= 2 && s[0] == '<' && s[len(s)-1] == '>'
}

// htmlNested reports whether an htmlForm string has a further angle bracket
// between its outer pair. isHTMLID (encode.go) accepts every /^<.*>$/ while the
// DOT lexer wants balanced, at most once nested, non-empty-tag brackets; this
// is the class predicate of the finding dot-html-id-unlexable.
func htmlNested(s string) bool {
	return strings.ContainsAny(s[1:len(s)-1], "<>")
}
