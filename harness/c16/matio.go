package main

import (
	"bytes"
	"encoding/binary"
	"errors"
	"fmt"
	"io"
	"math"
	"math/big"
	"strings"

	"gonum.org/v1/gonum/internal/verif/vlib"
	"gonum.org/v1/gonum/mat"
)

// ---- values and the documented layout ----

var matVals = []uint64{
	0x0000000000000000, // +0
	0x8000000000000000, // -0
	0x3ff0000000000000, // 1
	0xbff8000000000000, // -1.5
	0x7ff0000000000000, // +Inf
	0xfff0000000000000, // -Inf
	0x7ff8000000000000, // quiet NaN
	0x7ff8000000000001, // quiet NaN with payload
	0x7ff0000000000001, // signalling NaN
	0xfff800000000beef, // negative NaN with payload
	0x0000000000000001, // smallest subnormal
	0x800fffffffffffff, // largest negative subnormal
	0x7fefffffffffffff, // MaxFloat64
	0x0010000000000000, // smallest normal
	0x400921fb54442d18, // pi
}

func matVal(k int) float64 {
	return math.Float64frombits(matVals[((k%len(matVals))+len(matVals))%len(matVals)])
}

// refMatBytes is the layout documented on (Dense).MarshalBinary.
func refMatBytes(rows, cols int64, data []float64) []byte {
	b := make([]byte, 40+8*len(data))
	binary.LittleEndian.PutUint32(b[0:], 1)
	b[4], b[5], b[6], b[7] = 'G', 'F', 'A', 0
	binary.LittleEndian.PutUint64(b[8:], uint64(rows))
	binary.LittleEndian.PutUint64(b[16:], uint64(cols))
	for i, v := range data {
		binary.LittleEndian.PutUint64(b[40+8*i:], math.Float64bits(v))
	}
	return b
}

// mkDense returns an r×c matrix, optionally as a strided view into a
// poisoned parent, with values starting at off in the menu, and its
// row-major contents.
func mkDense(r, c int, view bool, off int) (*mat.Dense, []float64) {
	want := make([]float64, r*c)
	for i := range want {
		want[i] = matVal(off + i)
	}
	if !view {
		return mat.NewDense(r, c, append([]float64(nil), want...)), want
	}
	pr, pc := r+2, c+3
	back := make([]float64, pr*pc)
	vlib.FillPoison64(back)
	parent := mat.NewDense(pr, pc, back)
	m := parent.Slice(1, 1+r, 2, 2+c).(*mat.Dense)
	for i := 0; i < r; i++ {
		for j := 0; j < c; j++ {
			m.Set(i, j, want[i*c+j])
		}
	}
	return m, want
}

func mkVec(n, inc, off int) (*mat.VecDense, []float64) {
	want := make([]float64, n)
	for i := range want {
		want[i] = matVal(off + i)
	}
	if inc == 1 {
		return mat.NewVecDense(n, append([]float64(nil), want...)), want
	}
	back := make([]float64, n*inc)
	vlib.FillPoison64(back)
	parent := mat.NewDense(n, inc, back)
	v := parent.ColView(inc - 1).(*mat.VecDense)
	for i := range want {
		v.SetVec(i, want[i])
	}
	return v, want
}

func denseEquals(r *rep, what string, d *mat.Dense, rows, cols int, want []float64) {
	gr, gc := d.Dims()
	if gr != rows || gc != cols {
		r.Failf("%s: dims %d×%d want %d×%d", what, gr, gc, rows, cols)
		return
	}
	raw := d.RawMatrix()
	if raw.Rows != rows || raw.Cols != cols || raw.Stride < cols || len(raw.Data) < (rows-1)*raw.Stride+cols {
		r.Failf("%s: inconsistent raw matrix %d×%d stride %d len %d", what, raw.Rows, raw.Cols, raw.Stride, len(raw.Data))
		return
	}
	for i := 0; i < rows; i++ {
		for j := 0; j < cols; j++ {
			if g, w := d.At(i, j), want[i*cols+j]; math.Float64bits(g) != math.Float64bits(w) {
				r.Failf("%s: [%d,%d]=%s want %s", what, i, j, vlib.B64(g), vlib.B64(w))
				return
			}
		}
	}
}

func vecEquals(r *rep, what string, v *mat.VecDense, n int, want []float64) {
	if v.Len() != n {
		r.Failf("%s: len %d want %d", what, v.Len(), n)
		return
	}
	raw := v.RawVector()
	if raw.N != n || raw.Inc < 1 || len(raw.Data) < (n-1)*raw.Inc+1 {
		r.Failf("%s: inconsistent raw vector N=%d inc=%d len=%d", what, raw.N, raw.Inc, len(raw.Data))
		return
	}
	for i := 0; i < n; i++ {
		if g, w := v.AtVec(i), want[i]; math.Float64bits(g) != math.Float64bits(w) {
			r.Failf("%s: [%d]=%s want %s", what, i, vlib.B64(g), vlib.B64(w))
			return
		}
	}
}

// ---- mat-roundtrip ----

func genMatRoundTrip(g *vlib.G) {
	for r := 1; r <= 4; r++ {
		for c := 1; c <= 4; c++ {
			for _, view := range []bool{false, true} {
				for off := 0; off < vlib.Pick(g, 3, len(matVals)); off++ {
					r, c, view, off := r, c, view, off
					g.Case(fmt.Sprintf("Dense %dx%d view=%v off=%d", r, c, view, off), func(t *vlib.T) {
						rp := newRep(t)
						m, want := mkDense(r, c, view, off)
						ref := refMatBytes(int64(r), int64(c), want)
						b, err := m.MarshalBinary()
						if err != nil || !bytes.Equal(b, ref) {
							rp.Failf("MarshalBinary: err=%v, bytes differ from the documented layout\n got %x\nwant %x", err, b, ref)
							return
						}
						var d mat.Dense
						if err := d.UnmarshalBinary(b); err != nil {
							rp.Failf("UnmarshalBinary: %v", err)
							return
						}
						denseEquals(rp, "UnmarshalBinary", &d, r, c, want)
						var buf bytes.Buffer
						n, err := m.MarshalBinaryTo(&buf)
						if err != nil || n != len(ref) || !bytes.Equal(buf.Bytes(), ref) {
							rp.Failf("MarshalBinaryTo: n=%d err=%v want n=%d and the same bytes", n, err, len(ref))
						}
						var d2 mat.Dense
						rd := bytes.NewReader(ref)
						n, err = d2.UnmarshalBinaryFrom(rd)
						if err != nil || n != len(ref) || rd.Len() != 0 {
							rp.Failf("UnmarshalBinaryFrom: n=%d err=%v left=%d", n, err, rd.Len())
							return
						}
						denseEquals(rp, "UnmarshalBinaryFrom", &d2, r, c, want)
						// documented: panics for a non-empty receiver
						for _, f := range []func(){func() { d.UnmarshalBinary(b) }, func() { d2.UnmarshalBinaryFrom(bytes.NewReader(ref)) }} {
							if p := catch(f); p != "mat: unmarshal into non-empty matrix" {
								rp.Failf("unmarshal into a non-empty receiver: panic %q, documented \"mat: unmarshal into non-empty matrix\"", p)
							}
						}
						t.Nontrivial()
						t.Outcome(fmt.Sprintf("view=%v", view))
					})
				}
			}
		}
	}
	for n := 1; n <= 5; n++ {
		for inc := 1; inc <= 3; inc++ {
			for off := 0; off < vlib.Pick(g, 3, len(matVals)); off++ {
				n, inc, off := n, inc, off
				g.Case(fmt.Sprintf("VecDense n=%d inc=%d off=%d", n, inc, off), func(t *vlib.T) {
					rp := newRep(t)
					v, want := mkVec(n, inc, off)
					if v.RawVector().Inc != inc {
						rp.Failf("harness: inc=%d", v.RawVector().Inc)
					}
					ref := refMatBytes(int64(n), 1, want)
					b, err := v.MarshalBinary()
					if err != nil || !bytes.Equal(b, ref) {
						rp.Failf("MarshalBinary: err=%v, bytes differ from the documented layout\n got %x\nwant %x", err, b, ref)
						return
					}
					var d mat.VecDense
					if err := d.UnmarshalBinary(b); err != nil {
						rp.Failf("UnmarshalBinary: %v", err)
						return
					}
					vecEquals(rp, "UnmarshalBinary", &d, n, want)
					var buf bytes.Buffer
					k, err := v.MarshalBinaryTo(&buf)
					if err != nil || k != len(ref) || !bytes.Equal(buf.Bytes(), ref) {
						rp.Failf("MarshalBinaryTo: n=%d err=%v", k, err)
					}
					var d2 mat.VecDense
					k, err = d2.UnmarshalBinaryFrom(bytes.NewReader(ref))
					if err != nil || k != len(ref) {
						rp.Failf("UnmarshalBinaryFrom: n=%d err=%v", k, err)
						return
					}
					vecEquals(rp, "UnmarshalBinaryFrom", &d2, n, want)
					// a column vector is also a Dense n×1 on the wire
					var dd mat.Dense
					if err := dd.UnmarshalBinary(b); err != nil {
						rp.Failf("Dense.UnmarshalBinary of a vector encoding: %v", err)
					} else {
						denseEquals(rp, "Dense from vector bytes", &dd, n, 1, want)
					}
					for _, f := range []func(){func() { d.UnmarshalBinary(b) }, func() { d2.UnmarshalBinaryFrom(bytes.NewReader(ref)) }} {
						if p := catch(f); p != "mat: unmarshal into non-empty vector" {
							rp.Failf("unmarshal into a non-empty receiver: panic %q, documented \"mat: unmarshal into non-empty vector\"", p)
						}
					}
					t.Nontrivial()
					t.Outcome(fmt.Sprintf("inc=%d", inc))
				})
			}
		}
	}
	// the empty values: zero dimensions are written, and read back as
	// ErrZeroLength with the receiver left empty (don't-care: nil error and
	// an empty receiver would be as good).
	g.Case("Dense empty", func(t *vlib.T) {
		rp := newRep(t)
		var m, d, d2 mat.Dense
		b, err := m.MarshalBinary()
		if err != nil || !bytes.Equal(b, refMatBytes(0, 0, nil)) {
			rp.Failf("MarshalBinary of the empty Dense: %x %v", b, err)
			return
		}
		if err := d.UnmarshalBinary(b); (err != nil && !errors.Is(err, mat.ErrZeroLength)) || !d.IsEmpty() {
			rp.Failf("UnmarshalBinary of the empty encoding: err=%v empty=%v", err, d.IsEmpty())
		}
		if _, err := d2.UnmarshalBinaryFrom(bytes.NewReader(b)); (err != nil && !errors.Is(err, mat.ErrZeroLength)) || !d2.IsEmpty() {
			rp.Failf("UnmarshalBinaryFrom of the empty encoding: err=%v empty=%v", err, d2.IsEmpty())
		}
	})
	g.Case("VecDense empty", func(t *vlib.T) {
		rp := newRep(t)
		var m, d, d2 mat.VecDense
		b, err := m.MarshalBinary()
		if err != nil || !bytes.Equal(b, refMatBytes(0, 1, nil)) {
			rp.Failf("MarshalBinary of the empty VecDense: %x %v", b, err)
			return
		}
		if err := d.UnmarshalBinary(b); (err != nil && !errors.Is(err, mat.ErrZeroLength)) || !d.IsEmpty() {
			rp.Failf("UnmarshalBinary of the empty encoding: err=%v empty=%v", err, d.IsEmpty())
		}
		if _, err := d2.UnmarshalBinaryFrom(bytes.NewReader(b)); (err != nil && !errors.Is(err, mat.ErrZeroLength)) || !d2.IsEmpty() {
			rp.Failf("UnmarshalBinaryFrom of the empty encoding: err=%v empty=%v", err, d2.IsEmpty())
		}
	})
}

// ---- the reader/writer seam ----

// planReader serves data with the chunk boundaries and extra answers of a plan.
type planReader struct {
	data    []byte
	pos     int
	cuts    map[int]bool // a Read never crosses a cut position
	chunk   int          // >0: at most chunk bytes per Read
	zeroAt  int          // >=0: one (0,nil) answer when pos == zeroAt
	zeroed  bool
	eofWith bool // the final bytes come together with io.EOF
	calls   int
	budget  int
}

func (p *planReader) Read(b []byte) (int, error) {
	p.calls++
	if p.calls > p.budget {
		panic("harness: reader call budget exceeded (decoder does not terminate)")
	}
	if len(b) == 0 {
		return 0, nil
	}
	if p.pos >= len(p.data) {
		return 0, io.EOF
	}
	if p.zeroAt == p.pos && !p.zeroed {
		p.zeroed = true
		return 0, nil
	}
	n := len(b)
	if rem := len(p.data) - p.pos; n > rem {
		n = rem
	}
	if p.chunk > 0 && n > p.chunk {
		n = p.chunk
	}
	for k := 1; k < n; k++ {
		if p.cuts[p.pos+k] {
			n = k
			break
		}
	}
	copy(b, p.data[p.pos:p.pos+n])
	p.pos += n
	if p.eofWith && p.pos == len(p.data) {
		return n, io.EOF
	}
	return n, nil
}

var errShort = errors.New("harness: writer full")

// limitWriter accepts limit bytes in total, at most chunk per call (0: any),
// and fails the call that would exceed the limit after taking what fits.
type limitWriter struct {
	buf   []byte
	limit int
	calls int
}

func (w *limitWriter) Write(b []byte) (int, error) {
	w.calls++
	room := w.limit - len(w.buf)
	if len(b) <= room {
		w.buf = append(w.buf, b...)
		return len(b), nil
	}
	w.buf = append(w.buf, b[:room]...)
	return room, errShort
}

type matSubject struct {
	name  string
	bytes []byte
	// decode runs UnmarshalBinaryFrom on a fresh receiver and checks the value.
	decode func(rp *rep, what string, rd io.Reader) (int, error)
	encode func(w io.Writer) (int, error)
}

func matSubjects() []matSubject {
	var out []matSubject
	for _, sh := range [][2]int{{1, 1}, {2, 3}, {4, 4}} {
		r, c := sh[0], sh[1]
		m, want := mkDense(r, c, true, r+c)
		out = append(out, matSubject{
			name:  fmt.Sprintf("Dense%dx%d", r, c),
			bytes: refMatBytes(int64(r), int64(c), want),
			decode: func(rp *rep, what string, rd io.Reader) (int, error) {
				var d mat.Dense
				n, err := d.UnmarshalBinaryFrom(rd)
				if err == nil {
					denseEquals(rp, what, &d, r, c, want)
				}
				return n, err
			},
			encode: func(w io.Writer) (int, error) { return m.MarshalBinaryTo(w) },
		})
	}
	for _, n := range []int{1, 3, 5} {
		n := n
		v, want := mkVec(n, 2, n)
		out = append(out, matSubject{
			name:  fmt.Sprintf("Vec%d", n),
			bytes: refMatBytes(int64(n), 1, want),
			decode: func(rp *rep, what string, rd io.Reader) (int, error) {
				var d mat.VecDense
				k, err := d.UnmarshalBinaryFrom(rd)
				if err == nil {
					vecEquals(rp, what, &d, n, want)
				}
				return k, err
			},
			encode: func(w io.Writer) (int, error) { return v.MarshalBinaryTo(w) },
		})
	}
	return out
}

func runPlan(rp *rep, t *vlib.T, s *matSubject, what string, pr *planReader) {
	pr.data = s.bytes
	pr.budget = 4*len(s.bytes) + 64
	var n int
	var err error
	if p := catch(func() { n, err = s.decode(rp, s.name+" "+what, pr) }); p != "" {
		rp.Failf("%s %s: panic: %s", s.name, what, p)
		return
	}
	if err != nil || n != len(s.bytes) {
		rp.Failf("%s %s: n=%d err=%v, want n=%d nil", s.name, what, n, err, len(s.bytes))
	}
	t.Count("mat_reader_plans", 1)
	t.Count("mat_reader_calls", int64(pr.calls))
}

func genMatChunking(g *vlib.G) {
	for si := range matSubjects() {
		si := si
		s0 := matSubjects()[si]
		L := len(s0.bytes)
		g.Case(s0.name+" uniform-chunks", func(t *vlib.T) {
			rp, s := newRep(t), matSubjects()[si]
			for k := 1; k <= L; k++ {
				for _, eof := range []bool{false, true} {
					runPlan(rp, t, &s, fmt.Sprintf("chunk=%d eofWith=%v", k, eof), &planReader{chunk: k, zeroAt: -1, eofWith: eof})
				}
			}
			t.Nontrivial()
		})
		g.Case(s0.name+" one-split", func(t *vlib.T) {
			rp, s := newRep(t), matSubjects()[si]
			for p := 1; p < L; p++ {
				runPlan(rp, t, &s, fmt.Sprintf("split=%d", p), &planReader{cuts: map[int]bool{p: true}, zeroAt: -1})
			}
			t.Nontrivial()
		})
		g.Case(s0.name+" zero-read", func(t *vlib.T) {
			rp, s := newRep(t), matSubjects()[si]
			for p := 0; p < L; p++ {
				runPlan(rp, t, &s, fmt.Sprintf("zeroAt=%d", p), &planReader{zeroAt: p, chunk: 5})
				runPlan(rp, t, &s, fmt.Sprintf("zeroAt=%d whole", p), &planReader{zeroAt: p, cuts: map[int]bool{p: true}})
			}
			t.Nontrivial()
		})
		// every pair of split points (all of them for short streams, the
		// header/first/last element region otherwise)
		for p := 1; p < L; p++ {
			p := p
			if L > 64 && !g.Thorough() && p > 48 && p < L-9 {
				continue
			}
			g.Case(fmt.Sprintf("%s two-splits p=%d", s0.name, p), func(t *vlib.T) {
				rp, s := newRep(t), matSubjects()[si]
				for p2 := p + 1; p2 < L; p2++ {
					runPlan(rp, t, &s, fmt.Sprintf("splits=%d,%d", p, p2), &planReader{cuts: map[int]bool{p: true, p2: true}, zeroAt: -1})
				}
				t.Nontrivial()
			})
		}
		// every composition of one 8-byte element read (first and last element)
		g.Case(s0.name+" element-compositions", func(t *vlib.T) {
			rp, s := newRep(t), matSubjects()[si]
			for _, base := range []int{40, L - 8} {
				for mask := 0; mask < 128; mask++ {
					cuts := map[int]bool{base: true}
					for b := 0; b < 7; b++ {
						if mask>>uint(b)&1 == 1 {
							cuts[base+1+b] = true
						}
					}
					runPlan(rp, t, &s, fmt.Sprintf("element@%d mask=%#x", base, mask), &planReader{cuts: cuts, zeroAt: -1})
				}
			}
			// every composition of the header read into at most 3 parts is
			// covered by two-splits; here: every composition of its first 8 bytes
			for mask := 0; mask < 128; mask++ {
				cuts := map[int]bool{}
				for b := 0; b < 7; b++ {
					if mask>>uint(b)&1 == 1 {
						cuts[1+b] = true
					}
				}
				runPlan(rp, t, &s, fmt.Sprintf("header mask=%#x", mask), &planReader{cuts: cuts, zeroAt: -1})
			}
			t.Nontrivial()
		})
		g.Case(s0.name+" short-writes", func(t *vlib.T) {
			rp, s := newRep(t), matSubjects()[si]
			for limit := 0; limit <= L; limit++ {
				w := &limitWriter{limit: limit}
				var n int
				var err error
				if p := catch(func() { n, err = s.encode(w) }); p != "" {
					rp.Failf("MarshalBinaryTo with a writer that takes %d bytes: panic: %s", limit, p)
					continue
				}
				if limit < L {
					if !errors.Is(err, errShort) {
						rp.Failf("MarshalBinaryTo with a writer that takes %d of %d bytes: err=%v, want the writer's error", limit, L, err)
					}
				} else if err != nil {
					rp.Failf("MarshalBinaryTo with a sufficient writer: %v", err)
				}
				if n != len(w.buf) || !bytes.Equal(w.buf, s.bytes[:len(w.buf)]) {
					rp.Failf("MarshalBinaryTo with a writer that takes %d bytes: returned n=%d, writer holds %d bytes (prefix ok=%v)", limit, n, len(w.buf), bytes.Equal(w.buf, s.bytes[:len(w.buf)]))
				}
				t.Count("mat_writer_plans", 1)
			}
			t.Nontrivial()
		})
	}
}

// ---- decoder totality ----

// hdr is the decoded 40-byte header, read by the harness itself.
type matHdr struct {
	version                uint32
	form, packing, uplo, u byte
	rows, cols, ku, kl     int64
}

func parseHdr(b []byte) (h matHdr, ok bool) {
	if len(b) < 40 {
		return h, false
	}
	h.version = binary.LittleEndian.Uint32(b)
	h.form, h.packing, h.uplo, h.u = b[4], b[5], b[6], b[7]
	h.rows = int64(binary.LittleEndian.Uint64(b[8:]))
	h.cols = int64(binary.LittleEndian.Uint64(b[16:]))
	h.ku = int64(binary.LittleEndian.Uint64(b[24:]))
	h.kl = int64(binary.LittleEndian.Uint64(b[32:]))
	return h, true
}

func (h matHdr) wellFormed() bool {
	return h.version == 1 && h.form == 'G' && h.packing == 'F' && h.uplo == 'A' && h.u == 0 && h.ku == 0 && h.kl == 0
}

// trueElems is rows*cols without wrap-around.
func (h matHdr) trueElems(vec bool) *big.Int {
	if vec {
		return big.NewInt(h.rows)
	}
	return new(big.Int).Mul(big.NewInt(h.rows), big.NewInt(h.cols))
}

const (
	matAllocCap = 1 << 21 // elements (16 MiB) the harness lets a stream decoder allocate
	// matTooBig: from here on the byte size of the data (8 per element) is not
	// representable in an int64, "too big for the current architecture", and
	// the documented answer is an error. Between the two bounds the stream
	// decoders may allocate without limit (documented) and are not called.
	matTooBig = 1 << 60
)

// streamSafe reports whether UnmarshalBinaryFrom may be called with this
// header without the documented unbounded allocation hurting the worker.
// ("UnmarshalBinary does not limit the size of the unmarshaled matrix".)
func (h matHdr) streamSafe(vec bool) bool {
	if !h.wellFormed() || h.rows <= 0 || (!vec && h.cols <= 0) || (vec && h.cols != 1) {
		return true // rejected before any allocation
	}
	w := h.rows
	if !vec {
		w = h.rows * h.cols // wraps like the decoder's own product
	}
	return w <= matAllocCap || w >= matTooBig
}

func isMakeslicePanic(p string) bool {
	return strings.Contains(p, "makeslice") || strings.Contains(p, "len out of range") || strings.Contains(p, "cap out of range")
}

// auditDense checks the internal consistency of whatever the decoder left in d.
func auditDense(rp *rep, what string, d *mat.Dense, h matHdr, hok bool, err error) {
	if p := catch(func() {
		if d.IsEmpty() {
			if err == nil {
				rp.Failf("%s: nil error but the receiver is empty", what)
			}
			return
		}
		r, c := d.Dims()
		raw := d.RawMatrix()
		need := new(big.Int).Mul(big.NewInt(int64(r-1)), big.NewInt(int64(raw.Stride)))
		need.Add(need, big.NewInt(int64(c)))
		bad := r <= 0 || c <= 0 || raw.Rows != r || raw.Cols != c || raw.Stride < c || need.Cmp(big.NewInt(int64(len(raw.Data)))) > 0
		if !bad {
			d.At(0, 0)
			d.At(r-1, c-1)
			if hok && err == nil && (int64(r) != h.rows || int64(c) != h.cols) {
				rp.Failf("%s: dims %d×%d, header said %d×%d", what, r, c, h.rows, h.cols)
			}
			return
		}
		msg := fmt.Sprintf("%s: err=%v leaves an inconsistent Dense: Dims %d×%d, stride %d, len(data)=%d", what, err, r, c, raw.Stride, len(raw.Data))
		if hok && !h.trueElems(false).IsInt64() {
			rp.finding("mat-unmarshal-dims-overflow", "Dense", "%s (rows*cols of the header overflows int64 and is checked only after wrapping)", msg)
		} else {
			rp.Failf("%s", msg)
		}
	}); p != "" {
		rp.Failf("%s: audit panicked: %s", what, p)
	}
}

func auditVec(rp *rep, what string, v *mat.VecDense, h matHdr, hok bool, err error) {
	if p := catch(func() {
		if v.IsEmpty() {
			if err == nil {
				rp.Failf("%s: nil error but the receiver is empty", what)
			}
			return
		}
		raw := v.RawVector()
		if raw.N <= 0 || raw.Inc < 1 || len(raw.Data) < (raw.N-1)*raw.Inc+1 || v.Len() != raw.N {
			rp.Failf("%s: err=%v leaves an inconsistent VecDense: N=%d inc=%d len(data)=%d", what, err, raw.N, raw.Inc, len(raw.Data))
			return
		}
		v.AtVec(0)
		v.AtVec(raw.N - 1)
		if hok && err == nil && int64(raw.N) != h.rows {
			rp.Failf("%s: len %d, header said %d", what, raw.N, h.rows)
		}
	}); p != "" {
		rp.Failf("%s: audit panicked: %s", what, p)
	}
}

// matDecodeAll feeds blob to the four decoders and audits the outcome.
// wantErr: the blob is known not to be a valid encoding.
func matDecodeAll(rp *rep, t *vlib.T, blob []byte, wantErr bool) {
	h, hok := parseHdr(blob)
	t.Count("mat_blobs", 1)
	filePanic := func(what, p string) {
		if isMakeslicePanic(p) {
			rp.finding("mat-unmarshal-huge-dims-panic", what, "%s with header rows=%d cols=%d and %d data bytes panics (documented: an error is returned if the matrix is too big): %s", what, h.rows, h.cols, len(blob)-40, p)
		} else {
			rp.Failf("%s on %x: panic: %s", what, clipBytes(blob, 56), p)
		}
	}
	checkErr := func(what string, err error, vec bool) {
		if wantErr && err == nil {
			rp.Failf("%s accepted an invalid encoding %x", what, clipBytes(blob, 56))
		}
		// documented: ErrShape for negative dimensions
		if hok && h.wellFormed() && err != nil && !errors.Is(err, mat.ErrShape) && (h.rows < 0 || (!vec && h.cols < 0)) && !(vec && h.cols != 1) {
			rp.finding("mat-unmarshal-negative-dims-not-errshape", what, "%s with rows=%d cols=%d returns %q; documented: \"ErrShape is returned if the number of rows or columns is negative\"", what, h.rows, h.cols, err)
		}
	}
	{
		var d mat.Dense
		var err error
		if p := catch(func() { err = d.UnmarshalBinary(blob) }); p != "" {
			filePanic("Dense.UnmarshalBinary", p)
		} else {
			checkErr("Dense.UnmarshalBinary", err, false)
			auditDense(rp, "Dense.UnmarshalBinary", &d, h, hok, err)
			if err != nil && !d.IsEmpty() {
				rp.Failf("Dense.UnmarshalBinary: error %v but the receiver was modified", err)
			}
		}
	}
	{
		var v mat.VecDense
		var err error
		if p := catch(func() { err = v.UnmarshalBinary(blob) }); p != "" {
			filePanic("VecDense.UnmarshalBinary", p)
		} else {
			checkErr("VecDense.UnmarshalBinary", err, true)
			auditVec(rp, "VecDense.UnmarshalBinary", &v, h, hok, err)
			if err != nil && !v.IsEmpty() {
				rp.Failf("VecDense.UnmarshalBinary: error %v but the receiver was modified", err)
			}
		}
	}
	if !hok || h.streamSafe(false) {
		var d mat.Dense
		var err error
		var n int
		rd := &planReader{data: blob, zeroAt: -1, budget: len(blob) + 1<<22}
		if p := catch(func() { n, err = d.UnmarshalBinaryFrom(rd) }); p != "" {
			filePanic("Dense.UnmarshalBinaryFrom", p)
		} else {
			checkErr("Dense.UnmarshalBinaryFrom", err, false)
			if n != rd.pos {
				rp.Failf("Dense.UnmarshalBinaryFrom: returned n=%d, consumed %d", n, rd.pos)
			}
			auditDense(rp, "Dense.UnmarshalBinaryFrom", &d, h, hok, err)
		}
	} else {
		t.Count("mat_stream_skipped_documented_unbounded_alloc", 1)
	}
	if !hok || h.streamSafe(true) {
		var v mat.VecDense
		var err error
		var n int
		rd := &planReader{data: blob, zeroAt: -1, budget: len(blob) + 1<<22}
		if p := catch(func() { n, err = v.UnmarshalBinaryFrom(rd) }); p != "" {
			filePanic("VecDense.UnmarshalBinaryFrom", p)
		} else {
			checkErr("VecDense.UnmarshalBinaryFrom", err, true)
			if n != rd.pos {
				rp.Failf("VecDense.UnmarshalBinaryFrom: returned n=%d, consumed %d", n, rd.pos)
			}
			auditVec(rp, "VecDense.UnmarshalBinaryFrom", &v, h, hok, err)
		}
	} else {
		t.Count("mat_stream_skipped_documented_unbounded_alloc", 1)
	}
}

func clipBytes(b []byte, n int) []byte {
	if len(b) > n {
		return b[:n]
	}
	return b
}

func genMatTruncate(g *vlib.G) {
	for si := range matSubjects() {
		si := si
		s0 := matSubjects()[si]
		L := len(s0.bytes)
		for l := 0; l <= L+1; l++ {
			l := l
			if l == L {
				continue
			}
			g.Case(fmt.Sprintf("%s len=%d of %d", s0.name, l, L), func(t *vlib.T) {
				rp, s := newRep(t), matSubjects()[si]
				var blob []byte
				if l <= L {
					blob = s.bytes[:l]
				} else {
					blob = append(append([]byte{}, s.bytes...), 0x5a)
				}
				// byte API: any other length is an error. Stream API: a longer
				// stream is fine, exactly L bytes are consumed.
				isVec := strings.HasPrefix(s.name, "Vec")
				var err error
				if isVec {
					var v mat.VecDense
					err = v.UnmarshalBinary(blob)
				} else {
					var d mat.Dense
					err = d.UnmarshalBinary(blob)
				}
				if err == nil {
					rp.Failf("UnmarshalBinary accepted %d of %d bytes", l, L)
				}
				rd := bytes.NewReader(blob)
				n, err := s.decode(rp, "stream", rd)
				if l < L {
					if !errors.Is(err, io.ErrUnexpectedEOF) || n != l {
						rp.Failf("UnmarshalBinaryFrom of %d of %d bytes: n=%d err=%v, want n=%d io.ErrUnexpectedEOF", l, L, n, err, l)
					}
				} else if err != nil || n != L || rd.Len() != 1 {
					rp.Failf("UnmarshalBinaryFrom of a stream with a trailing byte: n=%d err=%v left=%d", n, err, rd.Len())
				}
				matDecodeAll(rp, t, blob, false)
				t.Nontrivial()
			})
		}
	}
}

var matHostile = []byte{0x00, 0x01, 0x02, 0x7f, 0x80, 0xff, 'G', 'F', 'A', 'S', 'T', 'B', 'P', 'U', 'L'}

func genMatHeaderBytes(g *vlib.G) {
	for _, si := range []int{1, 4} { // Dense 2x3, Vec 3
		si := si
		s0 := matSubjects()[si]
		for pos := 0; pos < 40; pos++ {
			pos := pos
			g.Case(fmt.Sprintf("%s byte=%d", s0.name, pos), func(t *vlib.T) {
				rp, s := newRep(t), matSubjects()[si]
				for _, x := range matHostile {
					if s.bytes[pos] == x {
						continue
					}
					blob := append([]byte{}, s.bytes...)
					blob[pos] = x
					matDecodeAll(rp, t, blob, false)
				}
				t.Nontrivial()
			})
		}
	}
}

// matDims: boundary values and pairs whose product wraps around int64.
var matDims = []int64{
	0, 1, 2, 3, 7, -1, -2, math.MaxInt64, math.MinInt64, 1 << 31, 1<<31 + 1, 1 << 32, 1<<32 + 1, 1 << 33, 1 << 61, 1<<61 + 1, 1 << 62, 1<<62 + 1,
	0x6DB6DB6DB6DB6DB7, // 7 * this = 1 (mod 2^64)
	0x5555555555555556, // 3 * this = 2 (mod 2^64)
	0x2000000000000003, // 8 * this = 24 (mod 2^64)
}

func genMatHeaderFields(g *vlib.G) {
	for _, rows := range matDims {
		for _, cols := range matDims {
			rows, cols := rows, cols
			g.Case(fmt.Sprintf("rows=%d cols=%d", rows, cols), func(t *vlib.T) {
				rp := newRep(t)
				w := rows * cols // wrapped
				for _, nelem := range []int64{0, 1, 2, 3, 6, w} {
					if nelem < 0 || nelem > 64 {
						continue
					}
					data := make([]float64, nelem)
					for i := range data {
						data[i] = float64(i + 1)
					}
					blob := refMatBytes(rows, cols, data)
					valid := rows > 0 && cols > 0 && new(big.Int).Mul(big.NewInt(rows), big.NewInt(cols)).Cmp(big.NewInt(nelem)) == 0
					matDecodeAll(rp, t, blob, false)
					if !valid {
						// nothing but an error is acceptable from the byte API
						var d mat.Dense
						var err error
						if p := catch(func() { err = d.UnmarshalBinary(blob) }); p == "" && err == nil {
							if !new(big.Int).Mul(big.NewInt(rows), big.NewInt(cols)).IsInt64() {
								rp.finding("mat-unmarshal-dims-overflow", "accept", "Dense.UnmarshalBinary accepts a header with rows=%d cols=%d and %d data elements", rows, cols, nelem)
							} else {
								rp.Failf("Dense.UnmarshalBinary accepts rows=%d cols=%d with %d elements", rows, cols, nelem)
							}
						}
					}
				}
				t.Nontrivial()
			})
		}
	}
	// the other header fields
	type mut struct {
		name string
		f    func(b []byte)
	}
	var muts []mut
	for _, v := range []uint32{0, 2, 0x01000000, 0xffffffff} {
		v := v
		muts = append(muts, mut{fmt.Sprintf("version=%#x", v), func(b []byte) { binary.LittleEndian.PutUint32(b, v) }})
	}
	for i, name := range []string{"form", "packing", "uplo", "unit"} {
		for _, x := range []byte{0, 1, 'G', 'S', 'T', 'F', 'B', 'P', 'A', 'U', 'L', 0xff} {
			i, x := i, x
			muts = append(muts, mut{fmt.Sprintf("%s=%#x", name, x), func(b []byte) { b[4+i] = x }})
		}
	}
	for i, name := range []string{"ku", "kl"} {
		for _, x := range []int64{1, -1, math.MaxInt64, math.MinInt64} {
			i, x := i, x
			muts = append(muts, mut{fmt.Sprintf("%s=%d", name, x), func(b []byte) { binary.LittleEndian.PutUint64(b[24+8*i:], uint64(x)) }})
		}
	}
	for _, m := range muts {
		m := m
		for _, si := range []int{1, 4} {
			si := si
			g.Case(fmt.Sprintf("%s %s", matSubjects()[si].name, m.name), func(t *vlib.T) {
				rp, s := newRep(t), matSubjects()[si]
				blob := append([]byte{}, s.bytes...)
				m.f(blob)
				changed := !bytes.Equal(blob, s.bytes)
				matDecodeAll(rp, t, blob, changed && !strings.HasPrefix(m.name, "noop"))
				t.Nontrivial()
			})
		}
	}
}
