package main

import (
	"bytes"
	"fmt"
	"regexp"
	"sort"
	"strconv"
	"strings"

	"gonum.org/v1/gonum/graph"
	"gonum.org/v1/gonum/graph/encoding"
	"gonum.org/v1/gonum/graph/encoding/dot"
	dotfmt "gonum.org/v1/gonum/graph/formats/dot"
	"gonum.org/v1/gonum/graph/multi"
	"gonum.org/v1/gonum/graph/simple"
	"gonum.org/v1/gonum/internal/verif/vlib"
)

var dotAlpha = []string{"a", `"`, `\`, " ", "\n", "<", ">", "-", "1", ".", "é"}

var dotExtras = []string{
	"node", "Graph", "STRICT", "edge", "subgraph", "digraph", "Node",
	"a-1", "1a", "-1", "1.", ".1", "-.1", "1.1", "-1.1", "a.b", "--", "->", "_", "a_1", "1-1", "1..", "..1",
	`"<a>"`, "<a>", "<<a>>", "<a><b>", "<><>", "<<>>", "<a<b>c>", `"a"b"`, `"\q"`, `"\n"`,
	"a b", "a\tb", "/*", "//", "#", "a;b", "a,b", "a=b", "a:b", "[", "]", "{", "}", "+", `a"`, `\"`, `\\`,
	"\x00", "\x7f", "\xff", " ", "ā", "日本", "a\r\nb",
}

func dotStringMenu(g *vlib.G) []string {
	strs := allStrings(dotAlpha, vlib.Pick(g, 2, 3))
	seen := map[string]bool{}
	for _, s := range strs {
		seen[s] = true
	}
	for _, s := range dotExtras {
		if !seen[s] {
			seen[s] = true
			strs = append(strs, s)
		}
	}
	return strs
}

var dotPositions = []string{
	"graph-name", "node-id", "node-attr-val", "node-attr-key", "edge-attr-val", "edge-attr-key",
	"global-graph-val", "global-node-val", "global-edge-key", "from-port", "to-port",
	"node-attr2-val", "edge-attr2-key",
}

// dotBase builds the 3-node carrier graph with s at the given position.
func dotBase(k dkind, pos int, s string) *dgraph {
	d := newDgraph(k)
	at := func(p int, def string) string {
		if p == pos {
			return s
		}
		return def
	}
	d.m.name = at(0, "G")
	d.m.gA.list = []encoding.Attribute{{Key: "ga", Value: at(6, "1")}}
	d.m.nA.list = []encoding.Attribute{{Key: "na", Value: at(7, "x")}}
	d.m.eA.list = []encoding.Attribute{{Key: at(8, "ea"), Value: "y"}}
	n0 := d.addNode(0, "n0")
	n1 := d.addNode(1, at(1, "n1"))
	n2 := d.addNode(2, "n2")
	n1.list = []encoding.Attribute{{Key: at(3, "k"), Value: at(2, "v")}}
	n2.list = []encoding.Attribute{{Key: "k1", Value: "v1"}, {Key: "k2", Value: at(11, "v2")}}
	e01 := d.addEdge(n0, n1)
	e01.list = []encoding.Attribute{{Key: at(5, "ek"), Value: at(4, "ev")}}
	e01.p.fp, e01.p.fc = at(9, "p"), ""
	e01.p.tp, e01.p.tc = at(10, "r"), "se"
	e12 := d.addEdge(n1, n2)
	e12.list = []encoding.Attribute{{Key: "e1", Value: "w1"}, {Key: at(12, "e2"), Value: "w2"}}
	if k.multi() {
		e := d.addEdge(n0, n1)
		e.list = []encoding.Attribute{{Key: "par", Value: "2"}}
	}
	return d
}

// dotRoundTrip marshals d, unmarshals into a fresh graph of the same flavour
// and compares. It returns a description of the first discrepancy, or "".
func dotRoundTrip(d *dgraph) (problem string, b1 []byte) {
	var err error
	b1, err = d.marshal()
	if err != nil {
		return "Marshal: " + err.Error(), nil
	}
	dst := newDgraph(d.kind)
	if err := dst.unmarshal(b1); err != nil {
		return fmt.Sprintf("Unmarshal of Marshal output failed: %v\n%s", err, b1), b1
	}
	orig := d.snap()
	want := orig.mapStrings(dotExpect)
	got := dst.snap()
	if got.String() != want.String() {
		return fmt.Sprintf("decoded graph differs\nwant:\n%sgot:\n%sdot:\n%s", want, got, b1), b1
	}
	b2, err := dst.marshal()
	if err != nil {
		return "second Marshal: " + err.Error(), b1
	}
	if want.String() == orig.String() {
		if !bytes.Equal(b1, b2) {
			return fmt.Sprintf("second Marshal not byte-identical\nfirst:\n%s\nsecond:\n%s", b1, b2), b1
		}
		return "", b1
	}
	// a documented pass-through (already quoted) string changed on the first
	// trip; from then on the encoding must be stable.
	dst2 := newDgraph(d.kind)
	if err := dst2.unmarshal(b2); err != nil {
		return fmt.Sprintf("Unmarshal of second Marshal output failed: %v\n%s", err, b2), b1
	}
	b3, err := dst2.marshal()
	if err != nil {
		return "third Marshal: " + err.Error(), b1
	}
	if !bytes.Equal(b2, b3) {
		return fmt.Sprintf("third Marshal differs from second\nsecond:\n%s\nthird:\n%s", b2, b3), b1
	}
	return "", b1
}

func genDotStrings(g *vlib.G) {
	strs := dotStringMenu(g)
	for _, k := range dkinds {
		k := k
		for pos := range dotPositions {
			pos := pos
			for _, s := range strs {
				s := s
				if dotPositions[pos] == "from-port" && isCompass(s) {
					// "a:n" is a compass point, not a port named n: documented DOT
					// ambiguity. (The to-port position carries an explicit compass
					// point, so a port spelled like one is unambiguous there.)
					continue
				}
				g.Case(fmt.Sprintf("%v %s %s", k, dotPositions[pos], q(s)), func(t *vlib.T) {
					r := newRep(t)
					var problem string
					if p := catch(func() { problem, _ = dotRoundTrip(dotBase(k, pos, s)) }); p != "" {
						problem = "panic: " + p
					}
					switch {
					case problem == "":
					case htmlForm(s) && htmlNested(s):
						r.finding("dot-html-id-unlexable", dotPositions[pos], "the string %s has the shape <...> so Marshal writes it unquoted, but it is not one HTML-string token of the DOT grammar: %s", q(s), clip(problem, 700))
					default:
						r.Failf("%s = %s: %s", dotPositions[pos], q(s), clip(problem, 1500))
					}
					switch {
					case isQuotedForm(s):
						t.Outcome("already-quoted")
					case htmlForm(s):
						t.Outcome("html")
					default:
						t.Outcome("plain")
					}
					if s != "" {
						t.Nontrivial()
					}
				})
			}
		}
	}
}

func isCompass(s string) bool {
	switch s {
	case "n", "ne", "e", "se", "s", "sw", "w", "nw", "c", "_":
		return true
	}
	return false
}

// ---- shapes ----

func genDotShapes(g *vlib.G) {
	maxN := vlib.Pick(g, 3, 4)
	for _, k := range dkinds {
		k := k
		for n := 0; n <= maxN; n++ {
			n := n
			pc := pairCount(k.directed(), n)
			for mask := uint64(0); mask < 1<<uint(pc); mask++ {
				mask := mask
				g.Case(fmt.Sprintf("%v n=%d mask=%#x rich", k, n, mask), func(t *vlib.T) {
					r := newRep(t)
					d := newDgraph(k)
					d.m.name = fmt.Sprintf("g%d", n)
					adj := adjFromMask(k.directed(), n, mask)
					nodes := make([]*dnode, n)
					for i := range nodes {
						nodes[i] = d.addNode(int64(i), fmt.Sprintf("v%d", i))
						nodes[i].list = []encoding.Attribute{{Key: "i", Value: fmt.Sprint(i)}}
					}
					idx := 0
					for i := 0; i < n; i++ {
						for j := 0; j < n; j++ {
							if !adj[i][j] || (!k.directed() && j < i) {
								continue
							}
							mult := 1
							if k.multi() {
								mult = 1 + idx%2
							}
							for m := 0; m < mult; m++ {
								e := d.addEdge(nodes[i], nodes[j])
								e.list = []encoding.Attribute{{Key: "w", Value: fmt.Sprintf("%d.%d", idx, m)}}
							}
							idx++
						}
					}
					var problem string
					if p := catch(func() { problem, _ = dotRoundTrip(d) }); p != "" {
						problem = "panic: " + p
					}
					if problem != "" {
						r.Failf("%s", clip(problem, 1500))
					}
					if idx > 0 {
						t.Nontrivial()
					}
					t.Outcome(fmt.Sprintf("edges=%d", idx))
				})
				g.Case(fmt.Sprintf("%v n=%d mask=%#x plain", k, n, mask), func(t *vlib.T) {
					r := newRep(t)
					adj := adjFromMask(k.directed(), n, mask)
					src, dst := plainGraph(k), plainGraph(k)
					for i := 0; i < n; i++ {
						src.(graph.NodeAdder).AddNode(simple.Node(i))
					}
					ne := 0
					for i := 0; i < n; i++ {
						for j := 0; j < n; j++ {
							if !adj[i][j] || (!k.directed() && j < i) {
								continue
							}
							ne++
							if k.multi() {
								mb := src.(graph.LineAdder)
								mb.SetLine(mb.NewLine(simple.Node(i), simple.Node(j)))
								if ne%2 == 0 {
									mb.SetLine(mb.NewLine(simple.Node(i), simple.Node(j)))
								}
							} else {
								src.(graph.EdgeAdder).SetEdge(simple.Edge{F: simple.Node(i), T: simple.Node(j)})
							}
						}
					}
					if p := catch(func() {
						marshal := func(x any) ([]byte, error) {
							if k.multi() {
								return dot.MarshalMulti(x.(graph.Multigraph), "", "", "\t")
							}
							return dot.Marshal(x.(graph.Graph), "", "", "\t")
						}
						b1, err := marshal(src)
						if err != nil {
							r.Failf("Marshal: %v", err)
							return
						}
						if k.multi() {
							err = dot.UnmarshalMulti(b1, dst.(encoding.MultiBuilder))
						} else {
							err = dot.Unmarshal(b1, dst.(encoding.Builder))
						}
						if err != nil {
							r.Failf("Unmarshal: %v\n%s", err, b1)
							return
						}
						a, b := takeSnap(src, k.directed(), k.multi()), takeSnap(dst, k.directed(), k.multi())
						if a.String() != b.String() {
							r.Failf("decoded plain graph differs\nwant:\n%sgot:\n%s", a, b)
							return
						}
						b2, err := marshal(dst)
						if err != nil || !bytes.Equal(b1, b2) {
							r.Failf("second Marshal differs (%v)\n%s\n%s", err, b1, b2)
						}
					}); p != "" {
						r.Failf("panic: %s", p)
					}
					if ne > 0 {
						t.Nontrivial()
					}
					t.Outcome(fmt.Sprintf("edges=%d", ne))
				})
			}
		}
	}
}

// ---- ports ----

var dotCompass = []string{"", "n", "ne", "e", "se", "s", "sw", "w", "nw", "c", "_"}

// dotPortIDs: no port, ordinary, needing quotes, HTML-like, already quoted,
// near misses of compass names, and every compass name itself (compass names
// are not keywords: "a:n:s" is port n, compass s).
var dotPortIDs = []string{"", "p", "a b", `q"r`, "<h>", `"n"`, "N", "north", "n1", "n", "ne", "e", "se", "s", "sw", "w", "nw", "c", "_"}

type portSpec struct{ port, compass string }

// ambiguous: a port id spelled like a compass point without a compass point
// is written ":n", which DOT reads as the compass point n.
func (p portSpec) ambiguous() bool { return p.compass == "" && isCompass(p.port) }

func allPortSpecs() []portSpec {
	var out []portSpec
	for _, id := range dotPortIDs {
		for _, c := range dotCompass {
			out = append(out, portSpec{id, c})
		}
	}
	return out
}

func portRoundTripCase(g *vlib.G, k dkind, from, to portSpec, tag string) {
	g.Case(fmt.Sprintf("%v marshal %s from=%q:%q to=%q:%q", k, tag, from.port, from.compass, to.port, to.compass), func(t *vlib.T) {
		r := newRep(t)
		d := newDgraph(k)
		a, b, c := d.addNode(0, "a0"), d.addNode(1, "b1"), d.addNode(2, "c2")
		e := d.addEdge(a, b)
		e.p.fp, e.p.fc = from.port, from.compass
		e.p.tp, e.p.tc = to.port, to.compass
		// a second edge stored against the id order, so that the undirected
		// flavours have to swap the ends when they print it
		e2 := d.addEdge(c, b)
		e2.p.fp, e2.p.fc = to.port, to.compass
		e2.p.tp, e2.p.tc = from.port, from.compass
		var problem string
		if p := catch(func() { problem, _ = dotRoundTrip(d) }); p != "" {
			problem = "panic: " + p
		}
		if problem != "" {
			r.Failf("%s", clip(problem, 1200))
		}
		t.Nontrivial()
		switch {
		case isCompass(from.port) && from.compass != "" || isCompass(to.port) && to.compass != "":
			t.Outcome("port-named-like-compass")
		case from.port != "" && from.compass != "" || to.port != "" && to.compass != "":
			t.Outcome("port+compass")
		default:
			t.Outcome("simple")
		}
	})
}

// refPortText writes one edge end the way the DOT grammar spells it.
func refPortText(node string, p portSpec) string {
	s := node
	if p.port != "" {
		id := p.port
		if !reIdentRef.MatchString(id) && !htmlForm(id) && !isQuotedForm(id) {
			id = strconv.Quote(id)
		}
		s += ":" + id
	}
	if p.compass != "" {
		s += ":" + p.compass
	}
	return s
}

var reIdentRef = regexp.MustCompile(`^[a-zA-Z_][0-9a-zA-Z_]*$`)

// refPortRead is the DOT reading of a written end: port : ':' ID [ ':' compass_pt ] | ':' compass_pt.
func refPortRead(p portSpec) portSpec {
	if p.ambiguous() {
		return portSpec{"", p.port}
	}
	return portSpec{dotExpect(p.port), p.compass}
}

type portDoc struct {
	name  string
	text  func(e [3]string, op string) string
	edges func(p [3]portSpec) [][2]string // "u port compass" per end, document direction
}

func endKey(node string, p portSpec) string { return fmt.Sprintf("%s %q %q", node, p.port, p.compass) }

var none = portSpec{}

var portDocs = []portDoc{
	{"edge", func(e [3]string, op string) string { return e[0] + op + e[1] },
		func(p [3]portSpec) [][2]string { return [][2]string{{endKey("a", p[0]), endKey("b", p[1])}} }},
	{"chain", func(e [3]string, op string) string { return e[0] + op + e[1] + op + e[2] },
		func(p [3]portSpec) [][2]string {
			return [][2]string{{endKey("a", p[0]), endKey("b", p[1])}, {endKey("b", p[1]), endKey("c", p[2])}}
		}},
	{"node-to-operand", func(e [3]string, op string) string { return e[0] + op + "{b c}" },
		func(p [3]portSpec) [][2]string {
			return [][2]string{{endKey("a", p[0]), endKey("b", none)}, {endKey("a", p[0]), endKey("c", none)}}
		}},
	{"operand-to-node", func(e [3]string, op string) string { return "{b c}" + op + e[0] },
		func(p [3]portSpec) [][2]string {
			return [][2]string{{endKey("b", none), endKey("a", p[0])}, {endKey("c", none), endKey("a", p[0])}}
		}},
	{"in-subgraph", func(e [3]string, op string) string { return "subgraph s { " + e[0] + op + e[1] + " } c" },
		func(p [3]portSpec) [][2]string { return [][2]string{{endKey("a", p[0]), endKey("b", p[1])}} }},
	{"operand-then-chain", func(e [3]string, op string) string { return "{c}" + op + e[0] + op + e[1] },
		func(p [3]portSpec) [][2]string {
			return [][2]string{{endKey("c", none), endKey("a", p[0])}, {endKey("a", p[0]), endKey("b", p[1])}}
		}},
}

// decodedEdgeKeys lists the edges of a decoded graph as written ends.
func decodedEdgeKeys(d *dgraph) []string {
	s := d.snap()
	var out []string
	for _, e := range s.Edges {
		u := endKey(e.U, portSpec{e.FP, e.FC})
		v := endKey(e.V, portSpec{e.TP, e.TC})
		if !d.kind.directed() && v < u {
			u, v = v, u
		}
		out = append(out, u+" -> "+v)
	}
	sort.Strings(out)
	return out
}

func portDecodeCase(g *vlib.G, k dkind, doc portDoc, ps [3]portSpec) {
	g.Case(fmt.Sprintf("%v decode %s %q:%q %q:%q %q:%q", k, doc.name, ps[0].port, ps[0].compass, ps[1].port, ps[1].compass, ps[2].port, ps[2].compass), func(t *vlib.T) {
		r := newRep(t)
		op, head := " -> ", "digraph"
		if !k.directed() {
			op, head = " -- ", "graph"
		}
		ends := [3]string{refPortText("a", ps[0]), refPortText("b", ps[1]), refPortText("c", ps[2])}
		text := head + " { " + doc.text(ends, op) + " }"
		var want []string
		read := [3]portSpec{refPortRead(ps[0]), refPortRead(ps[1]), refPortRead(ps[2])}
		for _, e := range doc.edges(read) {
			u, v := e[0], e[1]
			if !k.directed() && v < u {
				u, v = v, u
			}
			want = append(want, u+" -> "+v)
		}
		sort.Strings(want)
		if p := catch(func() {
			dst := newDgraph(k)
			if err := dst.unmarshal([]byte(text)); err != nil {
				r.Failf("Unmarshal(%q): %v", text, err)
				return
			}
			if got := decodedEdgeKeys(dst); fmt.Sprint(got) != fmt.Sprint(want) {
				r.Failf("Unmarshal(%q): edges with ports %q, want %q", text, got, want)
				return
			}
			// the AST printer keeps every port: print, parse again, decode again
			f, err := dotfmt.ParseString(text)
			if err != nil {
				r.Failf("ParseString(%q): %v", text, err)
				return
			}
			printed := f.String()
			dst2 := newDgraph(k)
			if err := dst2.unmarshal([]byte(printed)); err != nil {
				r.Failf("AST of %q prints as %q which does not decode: %v", text, printed, err)
				return
			}
			if got := decodedEdgeKeys(dst2); fmt.Sprint(got) != fmt.Sprint(want) {
				r.Failf("AST of %q prints as %q: edges with ports %q, want %q", text, printed, got, want)
			}
			checkStable(r, dst)
		}); p != "" {
			r.Failf("panic on %q: %s", text, p)
		}
		t.Nontrivial()
	})
}

func inShort(short []portSpec, p portSpec) bool {
	for _, s := range short {
		if s == p {
			return true
		}
	}
	return false
}

func genDotPorts(g *vlib.G) {
	specs := allPortSpecs()
	for _, k := range dkinds {
		// Marshal -> Unmarshal: every port id x compass on the from end, on the
		// to end and on both; thorough: the full product of the two ends.
		for _, sp := range specs {
			if sp.ambiguous() {
				continue
			}
			portRoundTripCase(g, k, sp, none, "from")
			if sp != none {
				portRoundTripCase(g, k, none, sp, "to")
				portRoundTripCase(g, k, sp, sp, "both")
			}
		}
		if g.Thorough() {
			for _, a := range specs {
				for _, b := range specs {
					if a.ambiguous() || b.ambiguous() || a == none || b == none || a == b {
						continue
					}
					portRoundTripCase(g, k, a, b, "pair")
				}
			}
		}
		// documents: every spec (the ambiguous ones with their DOT reading) on
		// each end of each document shape
		short := []portSpec{{"p", "se"}, {"n", "s"}, {"", "w"}, {"_", ""}}
		for _, doc := range portDocs {
			for _, sp := range specs {
				portDecodeCase(g, k, doc, [3]portSpec{sp, none, none})
				if sp == none {
					continue
				}
				portDecodeCase(g, k, doc, [3]portSpec{none, sp, none})
				if doc.name == "chain" {
					portDecodeCase(g, k, doc, [3]portSpec{none, none, sp})
				}
				for _, o := range short {
					portDecodeCase(g, k, doc, [3]portSpec{sp, o, sp})
					if g.Thorough() && !inShort(short, sp) {
						portDecodeCase(g, k, doc, [3]portSpec{o, sp, o})
					}
				}
			}
		}
	}
}

func plainGraph(k dkind) any {
	switch k {
	case kU:
		return simple.NewUndirectedGraph()
	case kD:
		return simple.NewDirectedGraph()
	case kMU:
		return multi.NewUndirectedGraph()
	}
	return multi.NewDirectedGraph()
}

// ---- subgraphs ----

type sgSpec struct {
	name  string
	nodes []string
	edges [][2]string
	subs  []*sgSpec
}

type suG struct {
	uG
	subs []dot.Graph
}

func (s suG) Structure() []dot.Graph { return s.subs }

type sdG struct {
	dG
	subs []dot.Graph
}

func (s sdG) Structure() []dot.Graph { return s.subs }

type smuG struct {
	muG
	subs []dot.Multigraph
}

func (s smuG) Structure() []dot.Multigraph { return s.subs }

type smdG struct {
	mdG
	subs []dot.Multigraph
}

func (s smdG) Structure() []dot.Multigraph { return s.subs }

type sgBuilder struct {
	kind  dkind
	nodes map[string]*dnode
}

func (b *sgBuilder) node(name string) *dnode {
	if n, ok := b.nodes[name]; ok {
		return n
	}
	n := &dnode{id: int64(len(b.nodes)), dotID: name, attrList: &attrList{list: []encoding.Attribute{{Key: "of", Value: name}}}}
	b.nodes[name] = n
	return n
}

// build returns the graph for spec as a value implementing dot.Graph or
// dot.Multigraph (and the matching Structurer).
func (b *sgBuilder) build(spec *sgSpec) any {
	d := newDgraph(b.kind)
	d.m.name = spec.name
	for _, n := range spec.nodes {
		d.g.(graph.NodeAdder).AddNode(b.node(n))
	}
	for _, e := range spec.edges {
		ed := d.addEdge(b.node(e[0]), b.node(e[1]))
		ed.list = []encoding.Attribute{{Key: "in", Value: spec.name}}
	}
	var gs []dot.Graph
	var ms []dot.Multigraph
	for _, s := range spec.subs {
		x := b.build(s)
		if b.kind.multi() {
			ms = append(ms, x.(dot.Multigraph))
		} else {
			gs = append(gs, x.(dot.Graph))
		}
	}
	switch g := d.g.(type) {
	case uG:
		return suG{g, gs}
	case dG:
		return sdG{g, gs}
	case muG:
		return smuG{g, ms}
	case mdG:
		return smdG{g, ms}
	}
	panic("unreachable")
}

// flattenSpec lists, in the order the encoder documents (subgraphs first,
// then nodes by id, then edges by (from id, to id)), what a decoder sees.
type sgEvent struct {
	edge  bool
	a, b  string
	graph string
}

func flattenSpec(spec *sgSpec, directed bool, ids map[string]int64, out *[]sgEvent) {
	for _, s := range spec.subs {
		flattenSpec(s, directed, ids, out)
	}
	ns := append([]string(nil), spec.nodes...)
	// nodes that only appear as edge ends are added to the graph by SetEdge
	have := map[string]bool{}
	for _, n := range ns {
		have[n] = true
	}
	for _, e := range spec.edges {
		for _, x := range e {
			if !have[x] {
				have[x] = true
				ns = append(ns, x)
			}
		}
	}
	sort.Slice(ns, func(i, j int) bool { return ids[ns[i]] < ids[ns[j]] })
	for _, n := range ns {
		*out = append(*out, sgEvent{a: n, graph: spec.name})
	}
	type pr struct{ a, b string }
	var es []pr
	for _, e := range spec.edges {
		a, b := e[0], e[1]
		if !directed && ids[b] < ids[a] {
			a, b = b, a
		}
		es = append(es, pr{a, b})
	}
	sort.SliceStable(es, func(i, j int) bool {
		if ids[es[i].a] != ids[es[j].a] {
			return ids[es[i].a] < ids[es[j].a]
		}
		return ids[es[i].b] < ids[es[j].b]
	})
	for _, e := range es {
		*out = append(*out, sgEvent{edge: true, a: e.a, b: e.b, graph: spec.name})
	}
}

// expectFlat is the reference decoder of the flattened event list.
func expectFlat(evs []sgEvent, k dkind) (nodes []string, nodeAttrs map[string][]string, edges []string) {
	newID := map[string]int{}
	nodeAttrs = map[string][]string{}
	see := func(n string) {
		if _, ok := newID[n]; !ok {
			newID[n] = len(newID)
			nodes = append(nodes, n)
		}
	}
	simpleEdges := map[string]string{}
	var order []string
	for _, e := range evs {
		if !e.edge {
			see(e.a)
			nodeAttrs[e.a] = append(nodeAttrs[e.a], e.a)
			continue
		}
		see(e.a)
		see(e.b)
		a, b := e.a, e.b
		if !k.directed() && newID[b] < newID[a] {
			a, b = b, a
		}
		key := a + ">" + b
		if k.multi() {
			edges = append(edges, key+" in="+e.graph)
			continue
		}
		if _, ok := simpleEdges[key]; !ok {
			order = append(order, key)
		}
		simpleEdges[key] = e.graph // SetEdge replaces: last one wins
	}
	for _, key := range order {
		edges = append(edges, key+" in="+simpleEdges[key])
	}
	sort.Strings(edges)
	return nodes, nodeAttrs, edges
}

func snapFlat(s snap) (nodes []string, nodeAttrs map[string][]string, edges []string) {
	nodeAttrs = map[string][]string{}
	for _, n := range s.Nodes {
		nodes = append(nodes, n.DOTID)
		for _, a := range n.Attrs {
			if a.Key == "of" {
				nodeAttrs[n.DOTID] = append(nodeAttrs[n.DOTID], a.Value)
			}
		}
	}
	for _, e := range s.Edges {
		in := ""
		for _, a := range e.Attrs {
			if a.Key == "in" {
				in += a.Value
			}
		}
		edges = append(edges, e.U+">"+e.V+" in="+in)
	}
	sort.Strings(edges)
	return
}

var sgSpecs = []*sgSpec{
	{name: "flat", nodes: []string{"a", "b", "c"}, edges: [][2]string{{"a", "b"}, {"b", "c"}}},
	{name: "top1", nodes: []string{"a", "b", "c"}, edges: [][2]string{{"a", "b"}, {"b", "c"}},
		subs: []*sgSpec{{name: "s1", nodes: []string{"a", "b"}, edges: [][2]string{{"a", "b"}}}}},
	{name: "top2", nodes: []string{"c"},
		subs: []*sgSpec{{name: "s1", nodes: []string{"a", "b"}, edges: [][2]string{{"a", "b"}}}, {name: "s2", nodes: []string{"d"}}}},
	{name: "top3", nodes: []string{"x"}, edges: [][2]string{{"x", "a"}},
		subs: []*sgSpec{{name: "outer", nodes: []string{"a"}, edges: [][2]string{{"a", "b"}},
			subs: []*sgSpec{{name: "inner", nodes: []string{"b", "c"}, edges: [][2]string{{"c", "b"}}}}}}},
	{name: "top4", nodes: []string{"a", "b", "c", "d"}, edges: [][2]string{{"d", "a"}, {"a", "b"}, {"c", "d"}},
		subs: []*sgSpec{
			{name: "l", nodes: []string{"b", "a"}, edges: [][2]string{{"b", "a"}}, subs: []*sgSpec{{name: "ll", nodes: []string{"a"}}}},
			{name: "r", nodes: []string{"d", "c"}, edges: [][2]string{{"c", "d"}}, subs: []*sgSpec{{name: "rr", nodes: []string{"c", "d"}, edges: [][2]string{{"d", "c"}}}}},
		}},
	{name: "empty-subs", subs: []*sgSpec{{name: "e1"}, {name: "e2", subs: []*sgSpec{{name: "e3"}}}}},
	{name: "cluster space", nodes: []string{"a b", "c-d"}, edges: [][2]string{{"a b", "c-d"}},
		subs: []*sgSpec{{name: "cluster 0", nodes: []string{"a b"}}, {name: "node", nodes: []string{"c-d"}}}},
}

type subNode struct {
	dnode
	sub graph.Graph
}

func (s *subNode) Subgraph() graph.Graph { return s.sub }

type msubNode struct {
	dnode
	sub graph.Multigraph
}

func (s *msubNode) Subgraph() graph.Multigraph { return s.sub }

// subgrapher scenarios: hand-written expectations.
type sgrScenario struct {
	name string
	// revisits: the encoding mentions, inside a subgraph used as an edge
	// operand, nodes that were already declared (class predicate of the
	// finding dot-subgraph-operand-known-nodes).
	revisits  func(k dkind) bool
	build     func(k dkind) *dgraph
	wantNodes []string // decoded DOT ids in id order
	wantEdges []string // "u>v", sorted; undirected: by decoded id order
}

func mkSubNode(k dkind, id int64, name string, sub *dgraph) graph.Node {
	dn := dnode{id: id, dotID: name, attrList: &attrList{}}
	if k.multi() {
		return &msubNode{dnode: dn, sub: sub.g.(graph.Multigraph)}
	}
	return &subNode{dnode: dn, sub: sub.g.(graph.Graph)}
}

func abSub(k dkind, name string) (*dgraph, *dnode, *dnode) {
	sub := newDgraph(k)
	sub.m.name = name
	a, b := sub.addNode(10, "a"), sub.addNode(11, "b")
	sub.addEdge(a, b)
	return sub, a, b
}

var sgrScenarios = []sgrScenario{
	{
		name: "sub-to-node",
		build: func(k dkind) *dgraph {
			d := newDgraph(k)
			sub, _, _ := abSub(k, "X")
			x := mkSubNode(k, 0, "xnode", sub)
			d.g.(graph.NodeAdder).AddNode(x)
			c := d.addNode(1, "c")
			d.addEdge(x, c)
			return d
		},
		wantNodes: []string{"c", "a", "b"},
		wantEdges: []string{"a>b", "a>c", "b>c"},
	},
	{
		name: "node-to-sub",
		build: func(k dkind) *dgraph {
			d := newDgraph(k)
			sub, _, _ := abSub(k, "X")
			c := d.addNode(0, "c")
			x := mkSubNode(k, 1, "xnode", sub)
			d.g.(graph.NodeAdder).AddNode(x)
			d.addEdge(c, x)
			return d
		},
		revisits:  func(k dkind) bool { return k.directed() },
		wantNodes: []string{"c", "a", "b"},
		wantEdges: []string{"a>b", "c>a", "c>b"},
	},
	{
		name: "isolated-sub",
		build: func(k dkind) *dgraph {
			d := newDgraph(k)
			sub, _, _ := abSub(k, "X")
			d.addNode(0, "c")
			d.g.(graph.NodeAdder).AddNode(mkSubNode(k, 1, "xnode", sub))
			return d
		},
		wantNodes: []string{"c", "a", "b"},
		wantEdges: []string{"a>b"},
	},
	{
		name: "nested-sub",
		build: func(k dkind) *dgraph {
			d := newDgraph(k)
			inner := newDgraph(k)
			inner.m.name = "Y"
			inner.addNode(20, "d")
			outer, a, _ := abSub(k, "X")
			y := mkSubNode(k, 12, "ynode", inner)
			outer.g.(graph.NodeAdder).AddNode(y)
			outer.addEdge(a, y)
			x := mkSubNode(k, 0, "xnode", outer)
			d.g.(graph.NodeAdder).AddNode(x)
			c := d.addNode(1, "c")
			d.addEdge(x, c)
			return d
		},
		revisits:  func(k dkind) bool { return k.directed() },
		wantNodes: []string{"c", "a", "b", "d"},
		wantEdges: []string{"a>b", "a>c", "a>d", "b>c", "d>c"},
	},
}

// dotTexts: hand-written documents with the graph every DOT reader builds
// from them ("an edge statement with a subgraph operand joins every node of
// the subgraph").
var dotTexts = []struct {
	name, body string
	revisits   bool
	nodes      []string
	edges      []string // u>v in document direction
}{
	{"fresh-operand", `c -> {a b}`, false, []string{"c", "a", "b"}, []string{"c>a", "c>b"}},
	{"declared-operand", `a; b; c -> {a b}`, true, []string{"a", "b", "c"}, []string{"c>a", "c>b"}},
	{"half-declared-operand", `a; c -> {a b}`, true, []string{"a", "c", "b"}, []string{"c>a", "c>b"}},
	{"operand-both-sides", `{a b} -> {c d}`, false, []string{"a", "b", "c", "d"}, []string{"a>c", "a>d", "b>c", "b>d"}},
	{"operand-reused", `{a b} -> c; {a b} -> d`, true, []string{"a", "b", "c", "d"}, []string{"a>c", "b>c", "a>d", "b>d"}},
	{"chain", `a -> b -> c`, false, []string{"a", "b", "c"}, []string{"a>b", "b>c"}},
	{"chain-with-operand", `a -> {b c} -> d`, false, []string{"a", "b", "c", "d"}, []string{"a>b", "a>c", "b>d", "c>d"}},
	{"nested-operand", `a -> {b {c d}}`, false, []string{"a", "b", "c", "d"}, []string{"a>b", "a>c", "a>d"}},
	{"named-operand", `a -> subgraph s {b; c}`, false, []string{"a", "b", "c"}, []string{"a>b", "a>c"}},
	{"operand-with-edge", `a -> {b -> c}`, false, []string{"a", "b", "c"}, []string{"b>c", "a>b", "a>c"}},
}

func genDotSubgraphs(g *vlib.G) {
	for _, k := range dkinds {
		k := k
		for _, dt := range dotTexts {
			dt := dt
			g.Case(fmt.Sprintf("%v text %s", k, dt.name), func(t *vlib.T) {
				r := newRep(t)
				body := dt.body
				head := "digraph"
				if !k.directed() {
					head = "graph"
					body = strings.ReplaceAll(body, "->", "--")
				}
				text := head + " {" + body + "}"
				if p := catch(func() {
					dst := newDgraph(k)
					if err := dst.unmarshal([]byte(text)); err != nil {
						r.Failf("Unmarshal(%q): %v", text, err)
						return
					}
					s := dst.snap()
					var gotN, gotE []string
					for _, n := range s.Nodes {
						gotN = append(gotN, n.DOTID)
					}
					for _, e := range s.Edges {
						gotE = append(gotE, e.U+">"+e.V)
					}
					pos := map[string]int{}
					for i, n := range dt.nodes {
						pos[n] = i
					}
					var wantE []string
					for _, e := range dt.edges {
						u, v, _ := strings.Cut(e, ">")
						if !k.directed() && pos[v] < pos[u] {
							u, v = v, u
						}
						wantE = append(wantE, u+">"+v)
					}
					sort.Strings(gotE)
					sort.Strings(wantE)
					if fmt.Sprint(gotN) != fmt.Sprint(dt.nodes) || fmt.Sprint(gotE) != fmt.Sprint(wantE) {
						if dt.revisits {
							r.finding("dot-subgraph-operand-known-nodes", dt.name, "Unmarshal(%q): nodes %q edges %q, want %q %q (a subgraph operand contributes only nodes not seen before)", text, gotN, gotE, dt.nodes, wantE)
						} else {
							r.Failf("Unmarshal(%q): nodes %q edges %q, want %q %q", text, gotN, gotE, dt.nodes, wantE)
						}
					}
					auditDecoded(r, dst, text)
				}); p != "" {
					r.Failf("panic: %s", p)
				}
				t.Nontrivial()
			})
		}
	}
	genDotStructures(g)
}

func genDotStructures(g *vlib.G) {
	// self loops into a simple graph: an error, never a panic
	for _, k := range []dkind{kU, kD} {
		k := k
		for _, body := range []string{"a -> a", "a -> b -> b", "a -> b -> a -> a", "a -> {b c} -> c"} {
			body := body
			g.Case(fmt.Sprintf("%v self-loop %s", k, body), func(t *vlib.T) {
				r := newRep(t)
				text := "digraph {" + body + "}"
				if !k.directed() {
					text = "graph {" + strings.ReplaceAll(body, "->", "--") + "}"
				}
				dst := newDgraph(k)
				var err error
				if p := catch(func() { err = dst.unmarshal([]byte(text)) }); p != "" {
					unmarshalPanic(r, k, text, p)
				} else if err == nil {
					r.Failf("Unmarshal(%q) into a simple graph: no error for a self loop", text)
				}
				auditDecoded(r, dst, text)
				t.Nontrivial()
			})
		}
	}
	for _, k := range dkinds {
		k := k
		for _, spec := range sgSpecs {
			spec := spec
			g.Case(fmt.Sprintf("%v structure %s", k, spec.name), func(t *vlib.T) {
				r := newRep(t)
				b := &sgBuilder{kind: k, nodes: map[string]*dnode{}}
				// fix node ids in a deterministic pre-order walk
				var walk func(s *sgSpec)
				walk = func(s *sgSpec) {
					for _, n := range s.nodes {
						b.node(n)
					}
					for _, e := range s.edges {
						b.node(e[0])
						b.node(e[1])
					}
					for _, c := range s.subs {
						walk(c)
					}
				}
				walk(spec)
				top := b.build(spec)
				ids := map[string]int64{}
				for n, o := range b.nodes {
					ids[n] = o.id
				}
				var evs []sgEvent
				flattenSpec(spec, k.directed(), ids, &evs)
				wantN, wantA, wantE := expectFlat(evs, k)
				if p := catch(func() {
					var b1 []byte
					var err error
					if k.multi() {
						b1, err = dot.MarshalMulti(top.(graph.Multigraph), "", "", " ")
					} else {
						b1, err = dot.Marshal(top.(graph.Graph), "", "", " ")
					}
					if err != nil {
						r.Failf("Marshal: %v", err)
						return
					}
					dst := newDgraph(k)
					if err := dst.unmarshal(b1); err != nil {
						r.Failf("Unmarshal: %v\n%s", err, b1)
						return
					}
					gotN, gotA, gotE := snapFlat(dst.snap())
					if fmt.Sprint(gotN) != fmt.Sprint(wantN) || fmt.Sprint(gotA) != fmt.Sprint(wantA) || fmt.Sprint(gotE) != fmt.Sprint(wantE) {
						r.Failf("flattened structure differs\nwant nodes %q attrs %q edges %q\ngot  nodes %q attrs %q edges %q\n%s", wantN, wantA, wantE, gotN, gotA, gotE, b1)
						return
					}
					if dst.m.name != spec.name {
						r.Failf("graph name %q want %q", dst.m.name, spec.name)
					}
					checkStable(r, dst)
					t.Count("dot_subgraph_depth", int64(strings.Count(string(b1), "subgraph")))
				}); p != "" {
					r.Failf("panic: %s", p)
				}
				t.Nontrivial()
			})
		}
		for _, sc := range sgrScenarios {
			sc := sc
			g.Case(fmt.Sprintf("%v subgrapher %s", k, sc.name), func(t *vlib.T) {
				r := newRep(t)
				if p := catch(func() {
					d := sc.build(k)
					b1, err := d.marshal()
					if err != nil {
						r.Failf("Marshal: %v", err)
						return
					}
					dst := newDgraph(k)
					if err := dst.unmarshal(b1); err != nil {
						r.Failf("Unmarshal: %v\n%s", err, b1)
						return
					}
					s := dst.snap()
					var gotN, gotE []string
					for _, n := range s.Nodes {
						gotN = append(gotN, n.DOTID)
					}
					for _, e := range s.Edges {
						gotE = append(gotE, e.U+">"+e.V)
					}
					sort.Strings(gotE)
					wantE := append([]string(nil), sc.wantEdges...)
					if !k.directed() {
						// orient by decoded id order
						pos := map[string]int{}
						for i, n := range sc.wantNodes {
							pos[n] = i
						}
						for i, e := range wantE {
							u, v, _ := strings.Cut(e, ">")
							if pos[v] < pos[u] {
								wantE[i] = v + ">" + u
							}
						}
					}
					sort.Strings(wantE)
					if fmt.Sprint(gotN) != fmt.Sprint(sc.wantNodes) || fmt.Sprint(gotE) != fmt.Sprint(wantE) {
						if sc.revisits != nil && sc.revisits(k) {
							r.finding("dot-subgraph-operand-known-nodes", sc.name, "Marshal output does not decode to the same graph: a subgraph used as an edge operand contributes only nodes not seen before; decoded nodes %q edges %q, want %q %q\n%s", gotN, gotE, sc.wantNodes, wantE, b1)
						} else {
							r.Failf("decoded nodes %q edges %q, want %q %q\n%s", gotN, gotE, sc.wantNodes, wantE, b1)
						}
						return
					}
					checkStable(r, dst)
				}); p != "" {
					r.Failf("panic: %s", p)
				}
				t.Nontrivial()
			})
		}
	}
}

// checkStable requires marshal∘unmarshal to be the identity on bytes from
// the first decoded graph on.
func checkStable(r *rep, dst *dgraph) {
	b2, err := dst.marshal()
	if err != nil {
		r.Failf("Marshal of decoded graph: %v", err)
		return
	}
	dst2 := newDgraph(dst.kind)
	if err := dst2.unmarshal(b2); err != nil {
		r.Failf("Unmarshal of re-marshalled graph: %v\n%s", err, b2)
		return
	}
	b3, err := dst2.marshal()
	if err != nil || !bytes.Equal(b2, b3) {
		r.Failf("marshal not stable (%v)\n%s\n---\n%s", err, b2, b3)
	}
}
