// Harness C16: codecs round-trip losslessly, decoders are total, RDF
// canonicalisation is label- and order-invariant. See NOTES.md.
package main

import "gonum.org/v1/gonum/internal/verif/vlib"

func main() {
	vlib.Main("C16",
		// graph6 / digraph6
		vlib.Group{Name: "g6-roundtrip-small", Gen: genG6Small},
		vlib.Group{Name: "g6-roundtrip-families", Gen: genG6Families},
		vlib.Group{Name: "g6-strings", Gen: genG6Strings},
		vlib.Group{Name: "g6-mutate", Gen: genG6Mutate},
		vlib.Group{Name: "g6-header", Gen: genG6Header},
		// DOT
		vlib.Group{Name: "dot-strings", Gen: genDotStrings},
		vlib.Group{Name: "dot-shapes", Gen: genDotShapes},
		vlib.Group{Name: "dot-ports", Gen: genDotPorts},
		vlib.Group{Name: "dot-subgraphs", Gen: genDotSubgraphs},
		vlib.Group{Name: "dot-tokens", Gen: genDotTokens},
		vlib.Group{Name: "dot-mutate", Gen: genDotMutate},
		// N-Quads
		vlib.Group{Name: "nq-terms", Gen: genNQTerms},
		vlib.Group{Name: "nq-statements", Gen: genNQStatements},
		vlib.Group{Name: "nq-canonical-print", Gen: genNQCanonical},
		vlib.Group{Name: "nq-tokens", Gen: genNQTokens},
		vlib.Group{Name: "nq-mutate", Gen: genNQMutate},
		// mat binary
		vlib.Group{Name: "mat-roundtrip", Gen: genMatRoundTrip},
		vlib.Group{Name: "mat-chunking", Gen: genMatChunking},
		vlib.Group{Name: "mat-truncate", Gen: genMatTruncate},
		vlib.Group{Name: "mat-header-bytes", Gen: genMatHeaderBytes},
		vlib.Group{Name: "mat-header-fields", Gen: genMatHeaderFields},
		// PRNG state
		vlib.Group{Name: "prng-roundtrip", Gen: genPRNGRoundTrip},
		vlib.Group{Name: "prng-blobs", Gen: genPRNGBlobs},
		// HyperLogLog
		vlib.Group{Name: "hll-histories", Gen: genHLLHistories},
		vlib.Group{Name: "hll-contract", Gen: genHLLContract},
		vlib.Group{Name: "hll-blobs", Gen: genHLLBlobs},
		// RDF canonicalisation
		vlib.Group{Name: "rdf-c14n-invariance", Gen: genRDFInvariance},
		vlib.Group{Name: "rdf-iso-pairs", Gen: genRDFIsoPairs},
		vlib.Group{Name: "rdf-c14n-large", Gen: genRDFLarge},
		vlib.Group{Name: "rdf-quad-iso", Gen: genRDFQuadIso},
		vlib.Group{Name: "rdf-dedup", Gen: genRDFDedup},
		// JSON graph formats
		vlib.Group{Name: "json-formats", Gen: genJSONFormats},
	)
}
