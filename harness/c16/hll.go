package main

import (
	"bytes"
	"encoding/gob"
	"fmt"
	"hash"
	"hash/adler32"
	"hash/crc64"
	"hash/fnv"
	"math"
	"math/bits"
	"strings"

	"gonum.org/v1/gonum/internal/verif/vlib"
	"gonum.org/v1/gonum/stat/card"
)

// Hash kinds. Kind 0 is registered with card.RegisterHash at start-up, kinds 1
// and 2 never are (registration is process-global and cannot be undone, so
// the split is fixed once and for all to keep cases re-entrant).
const (
	hkRegistered = iota
	hkUnregistered
	hkThird
	hkNil = -1
)

func init() {
	card.RegisterHash(fnv.New32a)
	card.RegisterHash(fnv.New64a)
}

func hash32(kind int) hash.Hash32 {
	switch kind {
	case hkRegistered:
		return fnv.New32a()
	case hkUnregistered:
		return fnv.New32()
	case hkThird:
		return adler32.New()
	}
	return nil
}

func hash64(kind int) hash.Hash64 {
	switch kind {
	case hkRegistered:
		return fnv.New64a()
	case hkUnregistered:
		return fnv.New64()
	case hkThird:
		return crc64.New(crc64.MakeTable(crc64.ISO))
	}
	return nil
}

type sketch interface {
	Write([]byte) (int, error)
	Count() float64
	Reset()
	MarshalBinary() ([]byte, error)
	UnmarshalBinary([]byte) error
}

type hllKind struct {
	bits     int
	mk       func(prec, hashKind int) (sketch, error)
	zero     func() sketch
	union    func(dst, a, b sketch) error
	setHash  func(s sketch, hashKind int) error
	sum      func(hashKind int, data []byte) uint64
	typeName func(hashKind int) string
}

var hllKinds = []*hllKind{
	{
		bits: 32,
		mk: func(prec, hk int) (sketch, error) {
			var h hash.Hash32
			if hk != hkNil {
				h = hash32(hk)
			}
			s, err := card.NewHyperLogLog32(prec, h)
			if err != nil {
				return nil, err
			}
			return s, nil
		},
		zero: func() sketch { return new(card.HyperLogLog32) },
		union: func(dst, a, b sketch) error {
			return dst.(*card.HyperLogLog32).Union(a.(*card.HyperLogLog32), b.(*card.HyperLogLog32))
		},
		setHash: func(s sketch, hk int) error {
			return s.(*card.HyperLogLog32).SetHash(hash32(hk))
		},
		sum: func(hk int, data []byte) uint64 {
			h := hash32(hk)
			h.Write(data)
			return uint64(h.Sum32())
		},
		typeName: func(hk int) string { return fmt.Sprintf("%T", hash32(hk)) },
	},
	{
		bits: 64,
		mk: func(prec, hk int) (sketch, error) {
			var h hash.Hash64
			if hk != hkNil {
				h = hash64(hk)
			}
			s, err := card.NewHyperLogLog64(prec, h)
			if err != nil {
				return nil, err
			}
			return s, nil
		},
		zero: func() sketch { return new(card.HyperLogLog64) },
		union: func(dst, a, b sketch) error {
			return dst.(*card.HyperLogLog64).Union(a.(*card.HyperLogLog64), b.(*card.HyperLogLog64))
		},
		setHash: func(s sketch, hk int) error {
			return s.(*card.HyperLogLog64).SetHash(hash64(hk))
		},
		sum: func(hk int, data []byte) uint64 {
			h := hash64(hk)
			h.Write(data)
			return h.Sum64()
		},
		typeName: func(hk int) string { return fmt.Sprintf("%T", hash64(hk)) },
	},
}

// goTypeName mirrors what the documentation calls "the name of the type":
// package path qualified, pointer marked with '*'.
func goTypeName(short string) string {
	// %T gives "*fnv.sum32a"; the encoded name uses the full package path.
	s := strings.TrimPrefix(short, "*")
	pkg, name, _ := strings.Cut(s, ".")
	return "*hash/" + pkg + "." + name
}

// ---- reference model (Flajolet et al. 2007, as described in the package doc) ----

type hllModel struct {
	bits int
	p    int
	reg  []uint8
}

func newModel(bits, p int) *hllModel {
	return &hllModel{bits: bits, p: p, reg: make([]uint8, 1<<uint(p))}
}

func (m *hllModel) add(x uint64) {
	q := uint(m.bits - m.p)
	idx := x >> q
	rest := x & (1<<q - 1)
	// position of the leftmost 1 in the q-bit remainder, q+1 if there is none
	rho := uint8(q + 1)
	if rest != 0 {
		rho = uint8(bits.LeadingZeros64(rest) - (64 - int(q)) + 1)
	}
	if rho > m.reg[idx] {
		m.reg[idx] = rho
	}
}

func (m *hllModel) union(o *hllModel) {
	for i, v := range o.reg {
		if v > m.reg[i] {
			m.reg[i] = v
		}
	}
}

func (m *hllModel) reset() {
	for i := range m.reg {
		m.reg[i] = 0
	}
}

func (m *hllModel) count() float64 {
	mm := float64(len(m.reg))
	var alpha float64
	switch len(m.reg) {
	case 16:
		alpha = 0.673
	case 32:
		alpha = 0.697
	case 64:
		alpha = 0.709
	default:
		alpha = 0.7213 / (1 + 1.079/mm)
	}
	var s float64
	zeros := 0
	for _, v := range m.reg {
		s += math.Ldexp(1, -int(v))
		if v == 0 {
			zeros++
		}
	}
	e := alpha * mm * mm / s
	if e <= 2.5*mm {
		if zeros != 0 {
			return mm * math.Log(mm/float64(zeros))
		}
		return e
	}
	two := math.Ldexp(1, m.bits)
	if e <= two/30 {
		return e
	}
	return -two * math.Log1p(-e/two)
}

func hllBlob(size uint8, name string, p uint8, reg []uint8) []byte {
	var buf bytes.Buffer
	enc := gob.NewEncoder(&buf)
	for _, v := range []any{size, name, p, reg} {
		if err := enc.Encode(v); err != nil {
			panic(err)
		}
	}
	return buf.Bytes()
}

func closeTo(a, b float64) bool {
	if a == b {
		return true
	}
	return math.Abs(a-b) <= 1e-9*math.Max(math.Abs(a), math.Abs(b))
}

// ---- hll-histories ----

var hllOps = []string{"Wa", "Wb", "Reset", "Union", "MU"}

func genHLLHistories(g *vlib.G) {
	depth := 4
	var hists [][]int
	var rec func(cur []int)
	rec = func(cur []int) {
		hists = append(hists, append([]int(nil), cur...))
		if len(cur) == depth {
			return
		}
		for op := range hllOps {
			rec(append(cur, op))
		}
	}
	rec(nil)
	for _, k := range hllKinds {
		for _, prec := range vlib.Pick(g, []int{4, 7}, []int{4, 5, 7, 10}) {
			for _, h := range hists {
				k, prec, h := k, prec, h
				names := make([]string, len(h))
				for i, op := range h {
					names[i] = hllOps[op]
				}
				g.Case(fmt.Sprintf("hll%d p=%d %s", k.bits, prec, strings.Join(names, ",")), func(t *vlib.T) {
					r := newRep(t)
					if p := catch(func() { runHLLHistory(r, t, k, prec, h) }); p != "" {
						r.Failf("panic: %s", p)
					}
					if len(h) > 0 {
						t.Nontrivial()
					}
				})
			}
		}
	}
}

func runHLLHistory(r *rep, t *vlib.T, k *hllKind, prec int, h []int) {
	real, err := k.mk(prec, hkRegistered)
	if err != nil {
		r.Failf("New: %v", err)
		return
	}
	twin, _ := k.mk(prec, hkRegistered)
	model := newModel(k.bits, prec)
	other, _ := k.mk(prec, hkRegistered)
	otherModel := newModel(k.bits, prec)
	for _, item := range []string{"c", "dd", "eee"} {
		other.Write([]byte(item))
		otherModel.add(k.sum(hkRegistered, []byte(item)))
	}
	name := goTypeName(k.typeName(hkRegistered))
	for step, op := range h {
		switch hllOps[op] {
		case "Wa", "Wb":
			item := []byte("item-" + hllOps[op])
			for _, s := range []sketch{real, twin} {
				if n, err := s.Write(item); n != len(item) || err != nil {
					r.Failf("step %d Write: n=%d err=%v", step, n, err)
				}
			}
			model.add(k.sum(hkRegistered, item))
		case "Reset":
			real.Reset()
			twin.Reset()
			model.reset()
			if c := real.Count(); c != 0 {
				r.Failf("step %d: Count()=%v after Reset", step, c)
			}
		case "Union":
			if err := k.union(real, real, other); err != nil {
				r.Failf("step %d Union: %v", step, err)
			}
			if err := k.union(twin, other, twin); err != nil {
				r.Failf("step %d Union (twin, swapped operands): %v", step, err)
			}
			model.union(otherModel)
		case "MU":
			blob, err := real.MarshalBinary()
			if err != nil {
				r.Failf("step %d MarshalBinary: %v", step, err)
				return
			}
			if want := hllBlob(uint8(k.bits), name, uint8(prec), model.reg); !bytes.Equal(blob, want) {
				r.Failf("step %d: MarshalBinary differs from (size, hash type name, precision, registers) of the reference model\n got %x\nwant %x", step, blob, want)
			}
			// into a sketch of another precision that already holds data
			fresh, _ := k.mk(prec+1, hkRegistered)
			fresh.Write([]byte("stale"))
			if err := fresh.UnmarshalBinary(blob); err != nil {
				r.Failf("step %d UnmarshalBinary: %v", step, err)
				return
			}
			if a, b := fresh.Count(), real.Count(); math.Float64bits(a) != math.Float64bits(b) {
				r.Failf("step %d: decoded Count()=%v, original %v", step, a, b)
			}
			real = fresh
			t.Count("hll_marshal_roundtrips", 1)
		}
		a, b, m := real.Count(), twin.Count(), model.count()
		if math.Float64bits(a) != math.Float64bits(b) {
			r.Failf("step %d (%s): Count()=%v, twin without the marshal round trips has %v", step, hllOps[op], a, b)
			return
		}
		if !closeTo(a, m) {
			r.Failf("step %d (%s): Count()=%v, reference model %v", step, hllOps[op], a, m)
			return
		}
	}
	ba, err1 := real.MarshalBinary()
	bb, err2 := twin.MarshalBinary()
	if err1 != nil || err2 != nil || !bytes.Equal(ba, bb) {
		r.Failf("final states differ (%v %v)\n%x\n%x", err1, err2, ba, bb)
	}
	// the decoded sketch keeps its hash: one more item lands in the same register
	real.Write([]byte("tail"))
	twin.Write([]byte("tail"))
	model.add(k.sum(hkRegistered, []byte("tail")))
	if a, b := real.Count(), twin.Count(); math.Float64bits(a) != math.Float64bits(b) || !closeTo(a, model.count()) {
		r.Failf("after one more Write: Count()=%v twin %v model %v", a, b, model.count())
	}
	t.Outcome(fmt.Sprintf("count=%.3g", real.Count()))
}

// ---- hll-contract ----

func wantErr(r *rep, what string, err error, substr string) {
	if err == nil {
		r.Failf("%s: no error, documented: %s", what, substr)
	} else if !strings.Contains(err.Error(), substr) {
		r.Failf("%s: error %q, want one mentioning %q", what, err, substr)
	}
}

func genHLLContract(g *vlib.G) {
	for _, k := range hllKinds {
		k := k
		pre := fmt.Sprintf("hll%d ", k.bits)
		g.Case(pre+"precision-range", func(t *vlib.T) {
			r := newRep(t)
			for _, p := range []int{-1, 0, 3, k.bits + 1, 255, 256, 260} {
				if _, err := k.mk(p, hkRegistered); err == nil {
					r.Failf("New(prec=%d): no error, documented range [4,%d]", p, k.bits)
				}
			}
			for _, p := range []int{4, 5, 12, 16} {
				if _, err := k.mk(p, hkRegistered); err != nil {
					r.Failf("New(prec=%d): %v", p, err)
				}
			}
			t.Nontrivial()
		})
		g.Case(pre+"union-precision-mismatch", func(t *vlib.T) {
			r := newRep(t)
			a, _ := k.mk(4, hkRegistered)
			b, _ := k.mk(5, hkRegistered)
			dst, _ := k.mk(4, hkRegistered)
			wantErr(r, "Union(p=4, p=5)", k.union(dst, a, b), "mismatched precision")
			wantErr(r, "Union(p=5, p=4)", k.union(dst, b, a), "mismatched precision")
			t.Nontrivial()
		})
		g.Case(pre+"union-operand-hash-mismatch", func(t *vlib.T) {
			r := newRep(t)
			for _, pair := range [][2]int{{hkRegistered, hkUnregistered}, {hkUnregistered, hkRegistered}, {hkRegistered, hkThird}} {
				a, _ := k.mk(4, pair[0])
				b, _ := k.mk(4, pair[1])
				a.Write([]byte("x"))
				b.Write([]byte("y"))
				dst := k.zero()
				var err error
				if p := catch(func() { err = k.union(dst, a, b) }); p != "" {
					r.Failf("Union panicked: %s", p)
					continue
				}
				if err == nil {
					r.finding("hll-union-accepts-mismatched-hashes", fmt.Sprint(k.bits), "HyperLogLog%d.Union(a, b) with a using %s and b using %s returns nil; documented: \"Union will return an error if the precisions or hash functions of a and b do not match\"", k.bits, k.typeName(pair[0]), k.typeName(pair[1]))
				} else if !strings.Contains(err.Error(), "mismatched hash function") {
					r.Failf("Union with mismatched operand hashes: %v", err)
				}
			}
			t.Nontrivial()
		})
		g.Case(pre+"union-receiver-hash-mismatch", func(t *vlib.T) {
			r := newRep(t)
			a, _ := k.mk(4, hkRegistered)
			b, _ := k.mk(4, hkRegistered)
			dst, _ := k.mk(4, hkUnregistered)
			wantErr(r, "Union into a receiver with another hash type", k.union(dst, a, b), "mismatched hash function")
			same, _ := k.mk(6, hkRegistered) // another precision: the receiver is resized
			a.Write([]byte("x"))
			if err := k.union(same, a, b); err != nil {
				r.Failf("Union into a receiver of another precision: %v", err)
			} else if same.Count() != a.Count() {
				r.Failf("Union(a, empty).Count()=%v want %v", same.Count(), a.Count())
			}
			t.Nontrivial()
		})
		g.Case(pre+"sethash", func(t *vlib.T) {
			r := newRep(t)
			a, _ := k.mk(4, hkRegistered)
			b, _ := k.mk(4, hkRegistered)
			a.Write([]byte("x"))
			dst := k.zero()
			if err := k.union(dst, a, b); err != nil {
				r.Failf("Union into the zero value: %v", err)
				return
			}
			// "If the receiver does not have a set hash function, it can be set
			// after a call to Union with the SetHash method."
			if err := k.setHash(dst, hkRegistered); err != nil {
				r.finding("hll-sethash-inverted", fmt.Sprint(k.bits), "HyperLogLog%d.SetHash on a receiver without a hash function (zero value after Union) returns %q; documented: \"SetHash sets the hash function of the receiver if it is nil\"", k.bits, err)
			} else if p := catch(func() { dst.Write([]byte("y")) }); p != "" {
				r.Failf("Write after SetHash panicked: %s", p)
			}
			// "SetHash will return an error if it is called on a receiver with a non-nil hash function."
			c, _ := k.mk(4, hkRegistered)
			if err := k.setHash(c, hkUnregistered); err == nil {
				r.finding("hll-sethash-inverted", fmt.Sprint(k.bits), "HyperLogLog%d.SetHash on a receiver that has a hash function returns nil and replaces it; documented: \"SetHash will return an error if it is called on a receiver with a non-nil hash function\"", k.bits)
			}
			t.Nontrivial()
		})
		g.Case(pre+"marshal-needs-hash", func(t *vlib.T) {
			r := newRep(t)
			z := k.zero()
			_, err := z.MarshalBinary()
			wantErr(r, "MarshalBinary of a sketch without hash", err, "hash function not set")
			t.Nontrivial()
		})
		g.Case(pre+"unmarshal-hash-rules", func(t *vlib.T) {
			r := newRep(t)
			src, _ := k.mk(5, hkRegistered)
			src.Write([]byte("x"))
			blob, _ := src.MarshalBinary()
			srcU, _ := k.mk(5, hkUnregistered)
			srcU.Write([]byte("x"))
			blobU, _ := srcU.MarshalBinary()
			// receiver with another hash type
			d1, _ := k.mk(5, hkUnregistered)
			wantErr(r, "UnmarshalBinary into a receiver with another hash type", d1.UnmarshalBinary(blob), "mismatched hash function")
			// zero receiver, registered type: decodes and can be written to
			d2 := k.zero()
			if err := d2.UnmarshalBinary(blob); err != nil {
				r.Failf("UnmarshalBinary into the zero value with a registered hash: %v", err)
			} else {
				if d2.Count() != src.Count() {
					r.Failf("decoded Count()=%v want %v", d2.Count(), src.Count())
				}
				src.Write([]byte("y"))
				if p := catch(func() { d2.Write([]byte("y")) }); p != "" {
					r.Failf("Write on a sketch decoded into the zero value panicked: %s", p)
				} else if d2.Count() != src.Count() {
					r.Failf("decoded sketch does not use the registered hash: Count()=%v want %v", d2.Count(), src.Count())
				}
			}
			// zero receiver, type never registered
			d3 := k.zero()
			wantErr(r, "UnmarshalBinary into the zero value with an unregistered hash", d3.UnmarshalBinary(blobU), "no hash registered")
			// blob of the other width
			o := hllKinds[0]
			if k.bits == 32 {
				o = hllKinds[1]
			}
			os, _ := o.mk(5, hkRegistered)
			oblob, _ := os.MarshalBinary()
			d4, _ := k.mk(5, hkRegistered)
			wantErr(r, fmt.Sprintf("UnmarshalBinary of a %d-bit sketch", o.bits), d4.UnmarshalBinary(oblob), "mismatched hash function size")
			t.Nontrivial()
		})
	}
	g.Case("registerhash-rejects", func(t *vlib.T) {
		r := newRep(t)
		const want = "card: must register func() hash.Hash32 or func() hash.Hash64"
		for i, fn := range []any{42, "x", func() {}, func(int) hash.Hash32 { return nil }, func() (hash.Hash32, error) { return nil, nil }, func() hash.Hash { return nil }, func() int { return 0 }} {
			if p := catch(func() { card.RegisterHash(fn) }); p != want {
				r.Failf("RegisterHash(bad value #%d): panic %q, documented %q", i, p, want)
			}
		}
		// registering the same constructor again is harmless
		if p := catch(func() { card.RegisterHash(fnv.New32a); card.RegisterHash(fnv.New64a) }); p != "" {
			r.Failf("re-registering a hash panicked: %s", p)
		}
		t.Nontrivial()
	})
}

// ---- hll-blobs ----

// auditSketch checks a sketch decoded without error: the decoded precision
// and register array must describe an HLL sketch, and it must be usable.
func auditSketch(r *rep, k *hllKind, what string, s sketch, p uint8, nreg int) {
	ok := int(p) >= 4 && int(p) <= k.bits && p < 31 && nreg == 1<<uint(p)
	var usePanic string
	usePanic = catch(func() {
		s.Count()
		for i := 0; i < 64; i++ {
			s.Write([]byte{byte(i), byte(i * 7)})
		}
		s.Count()
		b, err := s.MarshalBinary()
		if err == nil {
			s2, _ := k.mk(4, hkRegistered)
			s2.UnmarshalBinary(b)
		}
	})
	switch {
	case !ok:
		extra := ""
		if usePanic != "" {
			extra = "; using it panics: " + usePanic
		}
		r.finding("hll-unmarshal-unchecked-precision", fmt.Sprint(k.bits), "%s: HyperLogLog%d.UnmarshalBinary returns nil for precision %d with %d registers (needs 4 <= p <= %d and 2^p registers)%s", what, k.bits, p, nreg, k.bits, extra)
	case usePanic != "":
		r.Failf("%s: sketch decoded without error (p=%d, %d registers) panics in use: %s", what, p, nreg, usePanic)
	}
}

// peekHLL reads the four gob values back, as far as they decode.
func peekHLL(blob []byte) (size uint8, name string, p uint8, reg []uint8, n int) {
	dec := gob.NewDecoder(bytes.NewReader(blob))
	if dec.Decode(&size) != nil {
		return
	}
	n++
	if dec.Decode(&name) != nil {
		return
	}
	n++
	if dec.Decode(&p) != nil {
		return
	}
	n++
	if dec.Decode(&reg) != nil {
		return
	}
	n++
	return
}

var hllHostile = []byte{0x00, 0x01, 0x03, 0x04, 0x05, 0x10, 0x20, 0x40, 0x7f, 0x80, 0xfe, 0xff}

func genHLLBlobs(g *vlib.G) {
	for _, k := range hllKinds {
		k := k
		name := goTypeName(k.typeName(hkRegistered))
		valid := func() []byte {
			s, _ := k.mk(4, hkRegistered)
			for _, it := range []string{"a", "b", "c"} {
				s.Write([]byte(it))
			}
			b, err := s.MarshalBinary()
			if err != nil {
				panic(err)
			}
			return b
		}
		L := len(valid())
		for l := 0; l <= L+1; l++ {
			l := l
			g.Case(fmt.Sprintf("hll%d len=%d of %d", k.bits, l, L), func(t *vlib.T) {
				r := newRep(t)
				blob := valid()
				if l <= L {
					blob = blob[:l]
				} else {
					blob = append(blob, 0x00)
				}
				for _, recv := range []string{"same-prec", "other-prec", "zero"} {
					var s sketch
					switch recv {
					case "same-prec":
						s, _ = k.mk(4, hkRegistered)
					case "other-prec":
						s, _ = k.mk(6, hkRegistered)
					default:
						s = k.zero()
					}
					var err error
					if p := catch(func() { err = s.UnmarshalBinary(blob) }); p != "" {
						r.Failf("UnmarshalBinary of %d of %d bytes into %s panicked: %s", l, L, recv, p)
						continue
					}
					if l < L && err == nil {
						r.Failf("UnmarshalBinary accepted %d of %d bytes (%s)", l, L, recv)
					}
					if l >= L && err != nil {
						r.Failf("UnmarshalBinary of the full blob (+%d bytes) into %s: %v", l-L, recv, err)
					}
					if err == nil {
						auditSketch(r, k, fmt.Sprintf("%d of %d bytes into %s", l, L, recv), s, 4, 16)
					}
				}
				t.Nontrivial()
			})
		}
		// every single byte substitution
		for pos := 0; pos < L; pos++ {
			pos := pos
			g.Case(fmt.Sprintf("hll%d byte=%d", k.bits, pos), func(t *vlib.T) {
				r := newRep(t)
				for _, x := range hllHostile {
					blob := valid()
					if blob[pos] == x {
						continue
					}
					blob[pos] = x
					t.Count("hll_blobs", 1)
					s, _ := k.mk(4, hkRegistered)
					var err error
					if p := catch(func() { err = s.UnmarshalBinary(blob) }); p != "" {
						r.Failf("UnmarshalBinary with byte %d = %#x panicked: %s", pos, x, p)
						continue
					}
					if err != nil {
						continue
					}
					t.Count("hll_blobs_accepted", 1)
					size, nm, p, reg, n := peekHLL(blob)
					if n != 4 || int(size) != k.bits || nm != name {
						r.Failf("UnmarshalBinary accepted a blob (byte %d = %#x) whose fields are size=%d name=%q (%d of 4 values decode)", pos, x, size, nm, n)
						continue
					}
					auditSketch(r, k, fmt.Sprintf("byte %d = %#x", pos, x), s, p, len(reg))
				}
				t.Nontrivial()
			})
		}
		// crafted fields
		for _, p := range []uint8{0, 1, 3, 4, 5, 8, uint8(k.bits - 1), uint8(k.bits), uint8(k.bits + 1), 200, 255} {
			for _, nreg := range []int{0, 1, 15, 16, 17, 32, 256} {
				p, nreg := p, nreg
				g.Case(fmt.Sprintf("hll%d precision=%d registers=%d", k.bits, p, nreg), func(t *vlib.T) {
					r := newRep(t)
					reg := make([]uint8, nreg)
					for i := range reg {
						reg[i] = uint8(i % 3)
					}
					blob := hllBlob(uint8(k.bits), name, p, reg)
					for _, recv := range []string{"prec4", "zero"} {
						var s sketch
						if recv == "zero" {
							s = k.zero()
						} else {
							s, _ = k.mk(4, hkRegistered)
						}
						var err error
						if pm := catch(func() { err = s.UnmarshalBinary(blob) }); pm != "" {
							r.Failf("UnmarshalBinary(p=%d, %d registers) into %s panicked: %s", p, nreg, recv, pm)
							continue
						}
						if err == nil {
							auditSketch(r, k, "crafted blob into "+recv, s, p, nreg)
							t.Outcome("accepted")
						} else {
							t.Outcome("rejected")
						}
					}
					t.Nontrivial()
				})
			}
		}
		// crafted size and type-name fields
		for _, size := range []uint8{0, 1, 31, 32, 33, 63, 64, 65, 255} {
			size := size
			g.Case(fmt.Sprintf("hll%d size-field=%d", k.bits, size), func(t *vlib.T) {
				r := newRep(t)
				blob := hllBlob(size, name, 4, make([]uint8, 16))
				s, _ := k.mk(4, hkRegistered)
				err := s.UnmarshalBinary(blob)
				if int(size) != k.bits {
					wantErr(r, "size field", err, "mismatched hash function size")
				} else if err != nil {
					r.Failf("valid crafted blob rejected: %v", err)
				}
				t.Nontrivial()
			})
		}
		for _, nm := range []string{"", "x", name + "x", strings.TrimPrefix(name, "*"), goTypeName(k.typeName(hkUnregistered)), strings.Repeat("n", 300)} {
			nm := nm
			g.Case(fmt.Sprintf("hll%d type-name=%q", k.bits, clip(nm, 40)), func(t *vlib.T) {
				r := newRep(t)
				blob := hllBlob(uint8(k.bits), nm, 4, make([]uint8, 16))
				s, _ := k.mk(4, hkRegistered)
				wantErr(r, "type name with a receiver that has a hash", s.UnmarshalBinary(blob), "mismatched hash function")
				z := k.zero()
				wantErr(r, "type name with a zero receiver", z.UnmarshalBinary(blob), "no hash registered")
				t.Nontrivial()
			})
		}
	}
}
