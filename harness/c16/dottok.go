package main

import (
	"fmt"
	"strings"

	"gonum.org/v1/gonum/graph"
	dotfmt "gonum.org/v1/gonum/graph/formats/dot"
	"gonum.org/v1/gonum/internal/verif/vlib"
)

// ---- coherence audit of a decoded graph ----

func auditDecoded(r *rep, d *dgraph, what string) {
	type base interface {
		Node(int64) graph.Node
		Nodes() graph.Nodes
		From(int64) graph.Nodes
		HasEdgeBetween(x, y int64) bool
	}
	g := d.g.(base)
	if p := catch(func() {
		nodes := sortedNodes(g.Nodes())
		ids := map[int64]bool{}
		max := int64(-1)
		for _, n := range nodes {
			if ids[n.ID()] {
				r.Failf("%s: duplicate node id %d", what, n.ID())
			}
			ids[n.ID()] = true
			if n.ID() > max {
				max = n.ID()
			}
		}
		probe := []int64{-1, max + 1}
		for _, n := range nodes {
			probe = append(probe, n.ID())
		}
		for _, u := range probe {
			if (g.Node(u) != nil) != ids[u] {
				r.Failf("%s: Node(%d) presence wrong", what, u)
			}
			f := g.From(u)
			if f == nil {
				r.Failf("%s: From(%d) is nil", what, u)
				continue
			}
			for _, v := range graph.NodesOf(f) {
				if !ids[u] {
					r.Failf("%s: From(%d) of an absent node is not empty", what, u)
					break
				}
				if !ids[v.ID()] {
					r.Failf("%s: From(%d) yields %d which is not a node", what, u, v.ID())
					continue
				}
				if !g.HasEdgeBetween(u, v.ID()) || !g.HasEdgeBetween(v.ID(), u) {
					r.Failf("%s: HasEdgeBetween(%d,%d) false for a neighbour", what, u, v.ID())
				}
				if d.kind.multi() {
					if g.(graph.Multigraph).Lines(u, v.ID()).Len() < 1 {
						r.Failf("%s: no Lines(%d,%d) for a neighbour", what, u, v.ID())
					}
				} else {
					e := g.(graph.Graph).Edge(u, v.ID())
					if e == nil {
						r.Failf("%s: Edge(%d,%d) nil for a neighbour", what, u, v.ID())
					} else if e.From().ID() != u || e.To().ID() != v.ID() {
						r.Failf("%s: Edge(%d,%d) has ends %d,%d", what, u, v.ID(), e.From().ID(), e.To().ID())
					}
				}
				if dg, ok := g.(graph.Directed); ok {
					found := false
					for _, w := range graph.NodesOf(dg.To(v.ID())) {
						if w.ID() == u {
							found = true
						}
					}
					if !found {
						r.Failf("%s: %d->%d not reflected in To(%d)", what, u, v.ID(), v.ID())
					}
				} else {
					found := false
					for _, w := range graph.NodesOf(g.From(v.ID())) {
						if w.ID() == u {
							found = true
						}
					}
					if !found {
						r.Failf("%s: %d--%d not symmetric", what, u, v.ID())
					}
				}
			}
		}
		_ = d.snap().String()
	}); p != "" {
		r.Failf("%s: query on decoded graph panicked: %s", what, p)
	}
}

// unmarshalPanic files a panic that escaped Unmarshal. A self loop a--a in a
// simple graph is turned into an error by addEdgeStmt; the same loop further
// down an edge chain (a--b--b) escapes as a panic: finding
// dot-unmarshal-chain-self-edge-panics.
func unmarshalPanic(r *rep, k dkind, text, p string) {
	if !k.multi() && p == "simple: adding self edge" {
		r.finding("dot-unmarshal-chain-self-edge-panics", k.String(), "%v Unmarshal(%q) panics instead of returning an error: %s", k, clip(text, 300), p)
		return
	}
	r.Failf("%v Unmarshal(%q) panicked: %s", k, text, p)
}

// ---- reference recogniser for the DOT grammar over the token menu ----
// Written from https://graphviz.org/doc/info/lang.html (the grammar quoted in
// formats/dot/internal/dot.bnf), one or more graphs per file.

type dotRec struct {
	tok      []string
	directed bool // of the graph being recognised
	semErr   bool // "->" used inside an undirected graph
}

func isDotID(t string) bool {
	switch t {
	case "graph", "digraph", "strict", "subgraph", "node", "edge", "{", "}", "[", "]", "=", ";", ",", ":", "->", "--", "\x00EOF":
		return false
	}
	return true
}

func (p *dotRec) at(i int) string {
	if i < len(p.tok) {
		return p.tok[i]
	}
	return "\x00EOF"
}

// Each method returns the set of positions at which the construct can end.
func (p *dotRec) stmtList(i int) []int {
	out := []int{i}
	seen := map[int]bool{i: true}
	work := []int{i}
	for len(work) > 0 {
		j := work[0]
		work = work[1:]
		for _, e := range p.stmt(j) {
			for _, e2 := range []int{e, e + 1} {
				if e2 == e+1 && p.at(e) != ";" {
					continue
				}
				if !seen[e2] {
					seen[e2] = true
					out = append(out, e2)
					work = append(work, e2)
				}
			}
		}
	}
	return out
}

func (p *dotRec) stmt(i int) []int {
	var out []int
	// attr_stmt
	if t := p.at(i); t == "graph" || t == "node" || t == "edge" {
		out = append(out, p.attrList(i+1)...)
	}
	// ID '=' ID
	if isDotID(p.at(i)) && p.at(i+1) == "=" && isDotID(p.at(i+2)) {
		out = append(out, i+3)
	}
	// node_stmt, edge_stmt, subgraph
	for _, e := range p.vertex(i) {
		isSub := !isDotID(p.at(i))
		// plain vertex: node_stmt [attr_list] or subgraph
		out = append(out, e)
		if !isSub {
			out = append(out, p.attrList(e)...)
		}
		for _, e2 := range p.edgeRHS(e) {
			out = append(out, e2)
			out = append(out, p.attrList(e2)...)
		}
	}
	return out
}

func (p *dotRec) edgeRHS(i int) []int {
	var out []int
	op := p.at(i)
	if op != "--" && op != "->" {
		return nil
	}
	for _, e := range p.vertex(i + 1) {
		out = append(out, e)
		out = append(out, p.edgeRHS(e)...)
	}
	return out
}

func (p *dotRec) vertex(i int) []int {
	var out []int
	if isDotID(p.at(i)) {
		out = append(out, i+1)
		if p.at(i+1) == ":" && isDotID(p.at(i+2)) {
			out = append(out, i+3)
			if p.at(i+3) == ":" && isDotID(p.at(i+4)) {
				out = append(out, i+5)
			}
		}
		return out
	}
	// subgraph : [ subgraph [ ID ] ] '{' stmt_list '}'
	starts := []int{}
	if p.at(i) == "{" {
		starts = append(starts, i)
	}
	if p.at(i) == "subgraph" {
		if p.at(i+1) == "{" {
			starts = append(starts, i+1)
		}
		if isDotID(p.at(i+1)) && p.at(i+2) == "{" {
			starts = append(starts, i+2)
		}
	}
	for _, s := range starts {
		for _, e := range p.stmtList(s + 1) {
			if p.at(e) == "}" {
				out = append(out, e+1)
			}
		}
	}
	return out
}

func (p *dotRec) attrList(i int) []int {
	var out []int
	if p.at(i) != "[" {
		return nil
	}
	// a_list: (ID '=' ID [;,])*
	ends := []int{i + 1}
	seen := map[int]bool{i + 1: true}
	for k := 0; k < len(ends); k++ {
		j := ends[k]
		if isDotID(p.at(j)) && p.at(j+1) == "=" && isDotID(p.at(j+2)) {
			for _, e := range []int{j + 3, j + 4} {
				if e == j+4 && p.at(j+3) != ";" && p.at(j+3) != "," {
					continue
				}
				if !seen[e] {
					seen[e] = true
					ends = append(ends, e)
				}
			}
		}
	}
	for _, e := range ends {
		if p.at(e) == "]" {
			out = append(out, e+1)
			out = append(out, p.attrList(e+1)...)
		}
	}
	return out
}

func (p *dotRec) graphAt(i int) []int {
	if p.at(i) == "strict" {
		i++
	}
	switch p.at(i) {
	case "graph", "digraph":
	default:
		return nil
	}
	i++
	var out []int
	for _, s := range []int{i, i + 1} {
		if s == i+1 && !isDotID(p.at(i)) {
			continue
		}
		if p.at(s) != "{" {
			continue
		}
		for _, e := range p.stmtList(s + 1) {
			if p.at(e) == "}" {
				out = append(out, e+1)
			}
		}
	}
	return out
}

// accepts reports whether the token sequence is a file of one or more graphs
// and how many graphs it holds.
func dotAccepts(tok []string) (ok bool, graphs int) {
	p := &dotRec{tok: tok}
	pos := map[int]int{0: 0}
	frontier := []int{0}
	for len(frontier) > 0 {
		i := frontier[0]
		frontier = frontier[1:]
		for _, e := range p.graphAt(i) {
			if _, seen := pos[e]; !seen {
				pos[e] = pos[i] + 1
				frontier = append(frontier, e)
			}
		}
	}
	n, ok := pos[len(tok)]
	return ok && n > 0, n
}

// directedMisuse reports whether "->" occurs within a "graph" (undirected)
// top-level graph: the documented semantic error.
func directedMisuse(tok []string) bool {
	directed := false
	depth := 0
	for i, t := range tok {
		switch t {
		case "graph", "digraph":
			if depth == 0 {
				directed = t == "digraph"
			}
		case "{":
			depth++
		case "}":
			depth--
		case "->":
			if !directed {
				return true
			}
		}
		_ = i
	}
	return false
}

var dotTokens = []string{"graph", "digraph", "strict", "{", "}", "[", "]", "=", ";", ",", ":", "->", "--", "subgraph", "id", `"q"`, "n2"}

func dotTokenSeq(r *rep, t *vlib.T, tok []string) {
	text := strings.Join(tok, " ")
	t.Count("dot_token_sequences", 1)
	wantOK, ngraphs := dotAccepts(tok)
	if wantOK && directedMisuse(tok) {
		wantOK = false
	}
	var perr error
	if p := catch(func() {
		f, err := dotfmt.ParseString(text)
		perr = err
		if err == nil {
			_ = f.String()
			if len(f.Graphs) != ngraphs {
				r.Failf("%q: parsed %d graphs, reference sees %d", text, len(f.Graphs), ngraphs)
			}
		}
	}); p != "" {
		r.Failf("ParseString(%q) panicked: %s", text, p)
		return
	}
	if (perr == nil) != wantOK {
		r.Failf("ParseString(%q): err=%v, reference recogniser accepts=%v", text, perr, wantOK)
	}
	if perr == nil {
		t.Count("dot_token_sequences_accepted", 1)
	}
	for _, k := range []dkind{kU, kMD} {
		dst := newDgraph(k)
		var uerr error
		if p := catch(func() { uerr = dst.unmarshal([]byte(text)) }); p != "" {
			unmarshalPanic(r, k, text, p)
			continue
		}
		if perr != nil && uerr == nil {
			r.Failf("%v Unmarshal(%q) succeeded although the parser rejects it (%v)", k, text, perr)
		}
		if perr == nil && ngraphs != 1 && uerr == nil {
			r.Failf("%v Unmarshal(%q): %d graphs but no error (documented: error unless exactly one)", k, text, ngraphs)
		}
		// even after an error dst holds the first graph (documented) and must be coherent
		auditDecoded(r, dst, fmt.Sprintf("%v after Unmarshal(%q) err=%v", k, text, uerr))
	}
}

func genDotTokens(g *vlib.G) {
	maxL := vlib.Pick(g, 4, 5)
	nt := len(dotTokens)
	for l := 0; l <= maxL; l++ {
		l := l
		pl := l
		if pl > 2 {
			pl = 2
		}
		np := 1
		for i := 0; i < pl; i++ {
			np *= nt
		}
		for pi := 0; pi < np; pi++ {
			pi := pi
			prefix := make([]string, pl)
			x := pi
			for i := pl - 1; i >= 0; i-- {
				prefix[i] = dotTokens[x%nt]
				x /= nt
			}
			g.Case(fmt.Sprintf("len=%d prefix=%s", l, strings.Join(prefix, " ")), func(t *vlib.T) {
				r := newRep(t)
				rest := l - pl
				idx := make([]int, rest)
				tok := make([]string, l)
				copy(tok, prefix)
				for {
					for i := 0; i < rest; i++ {
						tok[pl+i] = dotTokens[idx[i]]
					}
					dotTokenSeq(r, t, tok)
					i := rest - 1
					for ; i >= 0; i-- {
						idx[i]++
						if idx[i] < nt {
							break
						}
						idx[i] = 0
					}
					if i < 0 {
						break
					}
				}
				t.Nontrivial()
			})
		}
	}
}

// ---- byte faults on valid documents ----

var dotSubst = []byte{'"', '\\', '<', '>', '{', '}', '[', ']', '-', ';', '=', ':', '/', '*', '#', ',', 0x00, 0x80, 0xff, '\n', ' ', 'x', '1'}

const dotHandDoc = `/* block
 comment */
strict digraph "hand made" {
	graph [rankdir=LR, label=<<b>x</b> y>];
	node [shape=box]; edge [color="re\
d"]
	# preprocessor line
	a:p1:ne -> b:"p 2" -> {c d} [w=1.5; k="v\"q"] // tail
	subgraph cluster_0 { e; f -> e; x=y }
	-1 -> .5 -> 3.
}
`

func dotMutateDocs() []struct {
	name string
	doc  string
} {
	var docs []struct {
		name string
		doc  string
	}
	for _, k := range dkinds {
		d := dotBase(k, -1, "")
		b, err := d.marshal()
		if err != nil {
			panic(err)
		}
		docs = append(docs, struct {
			name string
			doc  string
		}{k.String(), string(b)})
	}
	docs = append(docs, struct {
		name string
		doc  string
	}{"hand", dotHandDoc})
	return docs
}

func dotByteFault(r *rep, t *vlib.T, text string) {
	t.Count("dot_byte_faults", 1)
	var perr error
	if p := catch(func() {
		f, err := dotfmt.ParseBytes([]byte(text))
		perr = err
		if err == nil {
			_ = f.String()
		}
	}); p != "" {
		r.Failf("ParseBytes(%q) panicked: %s", text, p)
		return
	}
	if perr == nil {
		t.Count("dot_byte_faults_accepted", 1)
	}
	for _, k := range []dkind{kD, kMU} {
		dst := newDgraph(k)
		var uerr error
		if p := catch(func() { uerr = dst.unmarshal([]byte(text)) }); p != "" {
			unmarshalPanic(r, k, text, p)
			continue
		}
		if perr != nil && uerr == nil {
			r.Failf("%v Unmarshal(%q) succeeded although the parser rejects it (%v)", k, text, perr)
		}
		auditDecoded(r, dst, fmt.Sprintf("%v after faulted document err=%v", k, uerr))
		if uerr == nil {
			// what was accepted must survive a further round trip
			if p := catch(func() { checkStable(r, dst) }); p != "" {
				r.Failf("%v re-marshal of accepted faulted document panicked: %s\n%q", k, p, text)
			}
		}
	}
}

func genDotMutate(g *vlib.G) {
	for _, d := range dotMutateDocs() {
		d := d
		// the unmodified document must decode
		g.Case(d.name+" intact", func(t *vlib.T) {
			r := newRep(t)
			if _, err := dotfmt.ParseString(d.doc); err != nil {
				r.Failf("base document rejected: %v\n%s", err, d.doc)
			}
			dotByteFault(r, t, d.doc)
			t.Nontrivial()
		})
		for pos := 0; pos < len(d.doc); pos++ {
			pos := pos
			g.Case(fmt.Sprintf("%s pos=%d", d.name, pos), func(t *vlib.T) {
				r := newRep(t)
				dotByteFault(r, t, d.doc[:pos])
				for _, x := range dotSubst {
					if d.doc[pos] == x {
						continue
					}
					m := []byte(d.doc)
					m[pos] = x
					dotByteFault(r, t, string(m))
				}
				t.Nontrivial()
			})
		}
	}
}
