package main

import (
	"crypto/md5"
	"fmt"
	"sort"
	"strings"

	"gonum.org/v1/gonum/graph/formats/rdf"
	"gonum.org/v1/gonum/internal/verif/vlib"
)

// A dataset is a list of quads in text form; blank nodes are written _:b0.._:b3
// and are what relabelings act on. The label may be empty.
type quad [4]string

type rdfDS struct {
	name  string
	quads []quad
	// sameTripleTwoGraphs: two quads agree on subject, predicate and object
	// (up to blank renaming) and differ in the graph label. Class predicate
	// of the finding rdf-sort-ignores-graph-label.
	sameTripleTwoGraphs bool
	// blankGraphLabel: a blank node is used as graph label. Class predicate of
	// the finding rdf-iso-decomp-ignores-blank-graph-label (decomp=true only).
	blankGraphLabel bool
}

// algoFailure files a failed canonicaliser run: with decomp=true
// IsoCanonicalHashes returns nil terms when the dataset splits into several
// trivially distinguishable components, and C14n then fails (finding
// rdf-iso-decomp-no-terms).
func algoFailure(r *rep, algo string, what any, err error) {
	if algo == "IsoC14n-decomp" && strings.Contains(err.Error(), "no term for blank with hash") {
		r.finding("rdf-iso-decomp-no-terms", algo, "IsoCanonicalHashes(decomp=true) returns no terms for %v, so C14n fails: %v", what, err)
		return
	}
	r.Failf("%s on %v: %v", algo, what, err)
}

const (
	iP = "<http://e.org/p>"
	iQ = "<http://e.org/q>"
	iI = "<http://e.org/i>"
	iJ = "<http://e.org/j>"
	iG = "<http://e.org/g>"
	iH = "<http://e.org/h>"
)

var rdfFamily = []rdfDS{
	{name: "chain2", quads: []quad{{"_:b0", iP, "_:b1"}, {"_:b1", iP, iI}}},
	{name: "path4", quads: []quad{{"_:b0", iP, "_:b1"}, {"_:b1", iP, "_:b2"}, {"_:b2", iP, "_:b3"}}},
	{name: "cycle3", quads: []quad{{"_:b0", iP, "_:b1"}, {"_:b1", iP, "_:b2"}, {"_:b2", iP, "_:b0"}}},
	{name: "cycle4", quads: []quad{{"_:b0", iP, "_:b1"}, {"_:b1", iP, "_:b2"}, {"_:b2", iP, "_:b3"}, {"_:b3", iP, "_:b0"}}},
	{name: "star-out", quads: []quad{{"_:b0", iP, "_:b1"}, {"_:b0", iP, "_:b2"}, {"_:b0", iP, "_:b3"}}},
	{name: "star-in", quads: []quad{{"_:b1", iP, "_:b0"}, {"_:b2", iP, "_:b0"}, {"_:b3", iP, "_:b0"}}},
	{name: "twins", quads: []quad{{"_:b0", iP, "_:b1"}, {"_:b2", iP, "_:b3"}}},
	{name: "twins-literal", quads: []quad{{"_:b0", iP, `"x"`}, {"_:b1", iP, `"x"`}, {"_:b2", iQ, "_:b0"}, {"_:b3", iQ, "_:b1"}}},
	{name: "two-cycles", quads: []quad{{"_:b0", iP, "_:b1"}, {"_:b1", iP, "_:b0"}, {"_:b2", iP, "_:b3"}, {"_:b3", iP, "_:b2"}}},
	{name: "self-loops", quads: []quad{{"_:b0", iP, "_:b0"}, {"_:b1", iP, "_:b1"}, {"_:b0", iQ, "_:b1"}}},
	{name: "dense3", quads: []quad{{"_:b0", iP, "_:b1"}, {"_:b1", iP, "_:b2"}, {"_:b2", iP, "_:b0"}, {"_:b0", iP, "_:b2"}, {"_:b1", iP, "_:b0"}}},
	{name: "mixed", quads: []quad{{"_:b0", iP, iI}, {iI, iQ, "_:b1"}, {"_:b1", iP, `"lit"@en`}, {"_:b0", iQ, "_:b1"}}},
	{name: "diamond-sym", quads: []quad{{"_:b0", iP, "_:b1"}, {"_:b0", iP, "_:b2"}, {"_:b1", iP, "_:b3"}, {"_:b2", iP, "_:b3"}}},
	{name: "diamond-pq", quads: []quad{{"_:b0", iP, "_:b1"}, {"_:b0", iQ, "_:b2"}, {"_:b1", iP, "_:b3"}, {"_:b2", iP, "_:b3"}}},
	{name: "twins-plus-ground", quads: []quad{{"_:b0", iP, iI}, {"_:b1", iP, iI}, {iI, iQ, iJ}, {"_:b2", iQ, "_:b3"}, {"_:b3", iQ, "_:b2"}}},
	{name: "ground-only", quads: []quad{{iI, iP, iJ}, {iJ, iP, iI}, {iI, iQ, `"1"^^<http://e.org/t>`}}},
	{name: "named-graph", quads: []quad{{"_:b0", iP, "_:b1", iG}, {"_:b1", iP, "_:b0", iG}, {"_:b0", iQ, iI, iH}}},
	{name: "blank-graph-label", quads: []quad{{"_:b0", iP, "_:b1", "_:b2"}, {"_:b1", iP, "_:b0", "_:b2"}, {"_:b3", iP, iI, "_:b2"}}, blankGraphLabel: true},
	{name: "blank-graph-twins", quads: []quad{{iI, iP, iJ, "_:b0"}, {iI, iP, iJ, "_:b1"}, {"_:b2", iQ, "_:b0"}, {"_:b3", iQ, "_:b1"}}, sameTripleTwoGraphs: true, blankGraphLabel: true},
	{name: "triple-in-two-graphs", quads: []quad{{"_:b0", iP, "_:b1", iG}, {"_:b0", iP, "_:b1", iH}, {"_:b1", iQ, "_:b0"}}, sameTripleTwoGraphs: true},
	// two copies of a tree whose two branches agree in their first-degree
	// neighbourhood and differ one step further: the canonical labelling has to
	// choose between permutations of related blank nodes that are not
	// automorphic (URDNA2015 step 5.4 of Hash N-Degree Quads). 10 blank nodes:
	// examined on a declared subset of orders and relabelings, see largeOrders.
	{name: "asymmetric-twins", quads: []quad{
		{"_:b0", iP, "_:b1"}, {"_:b0", iP, "_:b2"}, {"_:b1", iP, "_:b3"}, {"_:b2", iP, "_:b4"}, {"_:b3", iQ, iI},
		{"_:b5", iP, "_:b6"}, {"_:b5", iP, "_:b7"}, {"_:b6", iP, "_:b8"}, {"_:b7", iP, "_:b9"}, {"_:b8", iQ, iI},
	}},
	{name: "ground-triple-in-two-graphs", quads: []quad{{iI, iP, iJ, iG}, {iI, iP, iJ, iH}, {iI, iP, iJ}}, sameTripleTwoGraphs: true},
}

func blankCount(qs []quad) int {
	n := 0
	for _, qd := range qs {
		for _, t := range qd {
			if strings.HasPrefix(t, "_:b") {
				if k := int(t[3]-'0') + 1; k > n {
					n = k
				}
			}
		}
	}
	return n
}

var blankPools = [][]string{
	{"_:b0", "_:b1", "_:b2", "_:b3", "_:b4", "_:b5", "_:b6", "_:b7", "_:b8", "_:b9"},
	{"_:x9", "_:a", "_:Zz", "_:m.n", "_:k", "_:0", "_:q-q", "_:A", "_:zz", "_:b"},
}

// largeAssigns / largeOrders: the declared subsets used for datasets with
// more than 4 blank nodes or more than 5 statements.
func largeAssigns(nb int) [][]int {
	id := make([]int, nb)
	rev := make([]int, nb)
	rot := make([]int, nb)
	mix := make([]int, nb)
	for i := range id {
		id[i], rev[i], rot[i], mix[i] = i, nb-1-i, (i+3)%nb, (i*3+1)%nb
	}
	return [][]int{id, rev, rot, mix}
}

func largeOrders(n int) [][]int {
	var out [][]int
	for k := 0; k < n; k++ { // rotations
		o := make([]int, n)
		for i := range o {
			o[i] = (i + k) % n
		}
		out = append(out, o)
	}
	for k := 0; k+1 < n; k++ { // adjacent transpositions
		o := make([]int, n)
		for i := range o {
			o[i] = i
		}
		o[k], o[k+1] = o[k+1], o[k]
		out = append(out, o)
	}
	rev := make([]int, n)
	for i := range rev {
		rev[i] = n - 1 - i
	}
	return append(out, rev)
}

func relabelQuads(qs []quad, names []string) []quad {
	out := make([]quad, len(qs))
	for i, qd := range qs {
		for j, t := range qd {
			if strings.HasPrefix(t, "_:b") {
				t = names[t[3]-'0']
			}
			out[i][j] = t
		}
	}
	return out
}

func mkStatements(qs []quad, order []int) []*rdf.Statement {
	out := make([]*rdf.Statement, len(qs))
	for i := range qs {
		qd := qs[i]
		if order != nil {
			qd = qs[order[i]]
		}
		out[i] = &rdf.Statement{Subject: rdf.Term{Value: qd[0]}, Predicate: rdf.Term{Value: qd[1]}, Object: rdf.Term{Value: qd[2]}, Label: rdf.Term{Value: qd[3]}}
	}
	return out
}

func quadsOf(ss []*rdf.Statement) []quad {
	out := make([]quad, len(ss))
	for i, s := range ss {
		out[i] = quad{s.Subject.Value, s.Predicate.Value, s.Object.Value, s.Label.Value}
	}
	return out
}

func renderStatements(ss []*rdf.Statement) string {
	var b strings.Builder
	for _, s := range ss {
		b.WriteString(s.String())
		b.WriteByte('\n')
	}
	return b.String()
}

// ---- brute-force isomorphism ----

func blanksOf(qs []quad) []string {
	seen := map[string]bool{}
	var out []string
	for _, qd := range qs {
		for i, t := range qd {
			if i != 1 && strings.HasPrefix(t, "_:") && !seen[t] {
				seen[t] = true
				out = append(out, t)
			}
		}
	}
	sort.Strings(out)
	return out
}

func quadSet(qs []quad) map[quad]bool {
	m := map[quad]bool{}
	for _, qd := range qs {
		m[qd] = true
	}
	return m
}

// bruteIso: is there a bijection of blank nodes turning the set a into the set b?
func bruteIso(a, b []quad) bool {
	sa, sb := quadSet(a), quadSet(b)
	if len(sa) != len(sb) {
		return false
	}
	ba, bb := blanksOf(a), blanksOf(b)
	if len(ba) != len(bb) {
		return false
	}
	found := false
	perms(len(ba), func(p []int) {
		if found {
			return
		}
		m := map[string]string{}
		for i, x := range ba {
			m[x] = bb[p[i]]
		}
		for qd := range sa {
			var im quad
			for i, t := range qd {
				if r, ok := m[t]; ok && i != 1 {
					t = r
				}
				im[i] = t
			}
			if !sb[im] {
				return
			}
		}
		found = true
	})
	return found
}

// bruteKey is a canonical form by exhaustive search: the least rendering over
// all assignments of _:c14n0.. to the blank nodes.
func bruteKey(a []quad) string {
	ba := blanksOf(a)
	best := ""
	perms(len(ba), func(p []int) {
		m := map[string]string{}
		for i, x := range ba {
			m[x] = fmt.Sprintf("_:c14n%d", p[i])
		}
		var lines []string
		seen := map[string]bool{}
		for _, qd := range a {
			var im quad
			for i, t := range qd {
				if r, ok := m[t]; ok && i != 1 {
					t = r
				}
				im[i] = t
			}
			l := strings.Join(im[:], " ")
			if !seen[l] {
				seen[l] = true
				lines = append(lines, l)
			}
		}
		sort.Strings(lines)
		k := strings.Join(lines, "\n")
		if best == "" || k < best {
			best = k
		}
	})
	return best
}

// ---- the canonicalisers under test ----

type c14nAlgo struct {
	name string
	run  func(ss []*rdf.Statement) ([]*rdf.Statement, error)
}

var c14nAlgos = []c14nAlgo{
	{"URDNA2015", func(ss []*rdf.Statement) ([]*rdf.Statement, error) { return rdf.URDNA2015(nil, ss) }},
	{"URGNA2012", func(ss []*rdf.Statement) ([]*rdf.Statement, error) { return rdf.URGNA2012(nil, ss) }},
	{"IsoC14n", func(ss []*rdf.Statement) ([]*rdf.Statement, error) {
		_, terms := rdf.IsoCanonicalHashes(ss, false, true, md5.New(), make([]byte, 16))
		return rdf.C14n(nil, ss, terms)
	}},
	{"IsoC14n-decomp", func(ss []*rdf.Statement) ([]*rdf.Statement, error) {
		_, terms := rdf.IsoCanonicalHashes(ss, true, true, md5.New(), make([]byte, 16))
		return rdf.C14n(nil, ss, terms)
	}},
}

func allOrders(n int) [][]int {
	var out [][]int
	perms(n, func(p []int) { out = append(out, append([]int(nil), p...)) })
	return out
}

func genRDFInvariance(g *vlib.G) {
	for di := range rdfFamily {
		ds := rdfFamily[di]
		nb := blankCount(ds.quads)
		large := nb > 4 || len(ds.quads) > 5
		var assigns [][]int
		if large {
			assigns = largeAssigns(nb)
		} else {
			assigns = allOrders(nb)
		}
		for pi := range blankPools {
			for ai := range assigns {
				di, pi, ai := di, pi, ai
				if nb == 0 && (pi > 0 || ai > 0) {
					continue
				}
				g.Case(fmt.Sprintf("%s pool=%d assign=%d", ds.name, pi, ai), func(t *vlib.T) {
					r := newRep(t)
					ds := rdfFamily[di]
					names := make([]string, 10)
					for i, j := range assigns[ai] {
						names[i] = blankPools[pi][j]
					}
					relabeled := relabelQuads(ds.quads, names)
					var orders [][]int
					if large {
						orders = largeOrders(len(ds.quads))
					} else {
						orders = allOrders(len(ds.quads))
					}
					for _, algo := range c14nAlgos {
						var base string
						if p := catch(func() {
							out, err := algo.run(mkStatements(ds.quads, nil))
							if err != nil {
								algoFailure(r, algo.name, ds.name, err)
								return
							}
							base = renderStatements(out)
							// the output is a relabeling of the input with labels _:c14n0..
							oq := quadsOf(out)
							if !large && !bruteIso(oq, ds.quads) {
								r.Failf("%s output is not isomorphic to its input\n%s", algo.name, base)
							}
							for i, b := range blanksOf(oq) {
								_ = i
								if !strings.HasPrefix(b, "_:c14n") {
									r.Failf("%s output has blank label %s", algo.name, b)
								}
							}
							if got := len(blanksOf(oq)); got != len(blanksOf(ds.quads)) {
								r.Failf("%s output has %d blank nodes, input %d", algo.name, got, len(blanksOf(ds.quads)))
							}
						}); p != "" {
							r.Failf("%s on %s panicked: %s", algo.name, ds.name, p)
							continue
						}
						if base == "" {
							continue
						}
						for oi, ord := range orders {
							var got string
							if p := catch(func() {
								out, err := algo.run(mkStatements(relabeled, ord))
								if err != nil {
									algoFailure(r, algo.name, fmt.Sprintf("%s order %v", ds.name, ord), err)
									got = base
									return
								}
								got = renderStatements(out)
							}); p != "" {
								r.Failf("%s panicked on order %v: %s", algo.name, ord, p)
								break
							}
							t.Count("rdf_c14n_runs", 1)
							if got != base {
								msg := fmt.Sprintf("%s is not invariant: labels %v, statement order %v (#%d) give\n%sbut the original gives\n%s", algo.name, names[:nb], ord, oi, got, base)
								if ds.sameTripleTwoGraphs {
									r.finding("rdf-sort-ignores-graph-label", algo.name, "%s", msg)
								} else if ds.blankGraphLabel && algo.name == "IsoC14n-decomp" {
									r.finding("rdf-iso-decomp-ignores-blank-graph-label", algo.name, "%s", msg)
								} else {
									r.Failf("%s", msg)
								}
								break
							}
						}
					}
					t.Nontrivial()
					t.Outcome(fmt.Sprintf("blanks=%d quads=%d", nb, len(ds.quads)))
				})
			}
		}
	}
}

// ---- exhaustive small datasets ----

// smallUniverse: every triple over 2 blank nodes, 1 (or 2) IRIs, 2 predicates.
func smallUniverse(iris int) []quad {
	nodes := []string{"_:a", "_:b", iI, iJ}[:2+iris]
	var u []quad
	for _, s := range nodes {
		for _, p := range []string{iP, iQ} {
			for _, o := range nodes {
				u = append(u, quad{s, p, o})
			}
		}
	}
	return u
}

func smallDatasets(iris, maxSize int) [][]quad {
	u := smallUniverse(iris)
	var out [][]quad
	var rec func(start int, cur []quad)
	rec = func(start int, cur []quad) {
		if len(cur) > 0 {
			out = append(out, append([]quad(nil), cur...))
		}
		if len(cur) == maxSize {
			return
		}
		for i := start; i < len(u); i++ {
			rec(i+1, append(cur, u[i]))
		}
	}
	rec(0, nil)
	return out
}

// ---- node hashes as invariants ----

// isoHashes runs IsoCanonicalHashes (md5, dist=true) on a fresh copy of qs.
func isoHashes(qs []quad, decomp bool) map[string][]byte {
	h, _ := rdf.IsoCanonicalHashes(mkStatements(qs, nil), decomp, true, md5.New(), make([]byte, 16))
	return h
}

// blankSig is the first-degree neighbourhood of the blank node x: for every
// statement that mentions x, the position of x, the predicate and the other
// terms including the graph label, with other blank nodes anonymised. The
// first hashing round of doi:10.1145/3068333 (with the dataset extension)
// folds exactly this into the hash of x, and every later hash of x is a hash
// of a tuple that contains it, so two blank nodes (of one or of two datasets)
// with the same hash must have the same blankSig.
func blankSig(qs []quad, x string) string {
	anon := func(t string) string {
		if strings.HasPrefix(t, "_:") {
			return "_"
		}
		return t
	}
	var parts []string
	for _, qd := range qs {
		for pos, t := range qd {
			if pos == 1 || t != x {
				continue
			}
			o := qd
			o[pos] = "@" // x itself
			parts = append(parts, fmt.Sprintf("%d|%s|%s|%s|%s", pos, anon(o[0]), o[1], anon(o[2]), anon(o[3])))
		}
	}
	sort.Strings(parts)
	return strings.Join(parts, " ; ")
}

// hashClash looks for blank nodes x of a and y of b with the same hash and
// different first-degree neighbourhoods.
func hashClash(a []quad, ha map[string][]byte, b []quad, hb map[string][]byte) string {
	for _, x := range blanksOf(a) {
		for _, y := range blanksOf(b) {
			if ha[x] == nil || string(ha[x]) != string(hb[y]) {
				continue
			}
			if sa, sb := blankSig(a, x), blankSig(b, y); sa != sb {
				return fmt.Sprintf("%s in %v and %s in %v have the same hash %x but different neighbourhoods {%s} and {%s}", x, a, y, b, ha[x], sa, sb)
			}
		}
	}
	return ""
}

// hashRelabel renders qs with every blank node replaced by its hash: the
// canonical graph of the paper. Two datasets are isomorphic iff these agree.
func hashRelabel(qs []quad, h map[string][]byte) string {
	var lines []string
	for _, qd := range qs {
		for i, t := range qd {
			if i != 1 && strings.HasPrefix(t, "_:") {
				qd[i] = fmt.Sprintf("_:%x", h[t])
			}
		}
		lines = append(lines, strings.Join(qd[:], " "))
	}
	sort.Strings(lines)
	return strings.Join(lines, "\n")
}

// fileIsoFalsePositive files Isomorphic(a,b)=true for non-isomorphic a, b.
// The open finding rdf-isomorphic-false-positive is that Isomorphic compares
// the sorted node hashes instead of the hash-relabelled statements; that
// explains a false positive only if the hashes themselves are sound, i.e.
// blank nodes with equal hashes have equal neighbourhoods. Anything else is
// a plain violation.
func fileIsoFalsePositive(r *rep, a, b []quad, decomp bool) {
	var clash string
	if p := catch(func() { clash = hashClash(a, isoHashes(a, decomp), b, isoHashes(b, decomp)) }); p != "" {
		r.Failf("IsoCanonicalHashes panicked on %v / %v: %s", a, b, p)
		return
	}
	if clash != "" {
		r.Failf("Isomorphic(a, b, decomp=%v)=true for non-isomorphic datasets because node hashes ignore part of the neighbourhood: %s", decomp, clash)
		return
	}
	r.finding("rdf-isomorphic-false-positive", fmt.Sprintf("decomp=%v", decomp), "Isomorphic(a, b, decomp=%v)=true, but no bijection of blank nodes maps a onto b: a=%v b=%v (only the multisets of node hashes are compared)", decomp, a, b)
}

// ---- exhaustive small quad datasets ----

const (
	iG1 = "<http://e.org/g1>"
	iG2 = "<http://e.org/g2>"
)

type quadUniverse struct {
	name                string
	blanks, iris, preds int
	labels              []string
	size                int
	// sameTerms: only pairs with the same set of ground terms are examined
	// (quick tier, larger universes); the others differ in a ground hash.
	sameTerms bool
}

// groundTerms is the sorted set of non-blank terms of a dataset.
func groundTerms(qs []quad) string {
	m := map[string]bool{}
	for _, qd := range qs {
		for _, t := range qd {
			if !strings.HasPrefix(t, "_:") {
				m[t] = true
			}
		}
	}
	l := make([]string, 0, len(m))
	for t := range m {
		l = append(l, t)
	}
	sort.Strings(l)
	return strings.Join(l, " ")
}

func (u quadUniverse) quads() []quad {
	nodes := append([]string{"_:a", "_:b", "_:c"}[:u.blanks], []string{iI, iJ}[:u.iris]...)
	var out []quad
	for _, s := range nodes {
		for _, p := range []string{iP, iQ}[:u.preds] {
			for _, o := range nodes {
				for _, l := range u.labels {
					out = append(out, quad{s, p, o, l})
				}
			}
		}
	}
	return out
}

func subsetsUpTo(u []quad, maxSize int) [][]quad {
	var out [][]quad
	var rec func(start int, cur []quad)
	rec = func(start int, cur []quad) {
		if len(cur) > 0 {
			out = append(out, append([]quad(nil), cur...))
		}
		if len(cur) == maxSize {
			return
		}
		for i := start; i < len(u); i++ {
			rec(i+1, append(cur, u[i]))
		}
	}
	rec(0, nil)
	return out
}

// checkQuadPair applies every oracle to one pair; ha holds the hashes of a
// per decomp setting (computed once per case).
func checkQuadPair(r *rep, t *vlib.T, a, b []quad, ha [2]map[string][]byte) {
	want := bruteIso(a, b)
	for di, decomp := range []bool{false, true} {
		var got bool
		var hb map[string][]byte
		if p := catch(func() {
			got = rdf.Isomorphic(mkStatements(a, nil), mkStatements(b, nil), decomp, md5.New())
			hb = isoHashes(b, decomp)
		}); p != "" {
			r.Failf("Isomorphic/IsoCanonicalHashes panicked on %v / %v: %s", a, b, p)
			continue
		}
		t.Count("rdf_quad_pairs", 1)
		if want {
			t.Count("rdf_quad_pairs_isomorphic", 1)
		}
		switch {
		case want && !got:
			r.Failf("Isomorphic(a, b, decomp=%v)=false, but a bijection of blank nodes maps a onto b: a=%v b=%v", decomp, a, b)
		case !want && got:
			fileIsoFalsePositive(r, a, b, decomp)
		}
		// the hashes themselves: sound, and canonical up to relabeling
		if clash := hashClash(a, ha[di], b, hb); clash != "" {
			r.Failf("IsoCanonicalHashes(decomp=%v): %s", decomp, clash)
		}
		if same := hashRelabel(a, ha[di]) == hashRelabel(b, hb); same != want {
			r.Failf("IsoCanonicalHashes(decomp=%v): hash-relabelled datasets equal=%v, exhaustive bijection search says isomorphic=%v: a=%v b=%v", decomp, same, want, a, b)
		}
	}
}

func genRDFQuadIso(g *vlib.G) {
	three := []string{"", iG1, iG2}
	universes := []quadUniverse{
		{name: "b2-i1-p1-g3", blanks: 2, iris: 1, preds: 1, labels: three, size: 2},
		{name: "b2-i2-p1-g2", blanks: 2, iris: 2, preds: 1, labels: three[:2], size: 2, sameTerms: !g.Thorough()},
	}
	if g.Thorough() {
		universes = append(universes,
			quadUniverse{name: "b2-i1-p1-g3-size3", blanks: 2, iris: 1, preds: 1, labels: three, size: 3, sameTerms: true},
			quadUniverse{name: "b3-i2-p1-g3", blanks: 3, iris: 2, preds: 1, labels: three, size: 2, sameTerms: true},
			quadUniverse{name: "b2-i1-p2-g3", blanks: 2, iris: 1, preds: 2, labels: three, size: 2})
	}
	for _, u := range universes {
		u := u
		n := len(subsetsUpTo(u.quads(), u.size))
		for i := 0; i < n; i++ {
			i := i
			g.Case(fmt.Sprintf("%s all-pairs dataset=%d", u.name, i), func(t *vlib.T) {
				r := newRep(t)
				sets := subsetsUpTo(u.quads(), u.size)
				a := sets[i]
				ha := [2]map[string][]byte{isoHashes(a, false), isoHashes(a, true)}
				ga := groundTerms(a)
				for j := i; j < len(sets); j++ {
					if u.sameTerms && groundTerms(sets[j]) != ga {
						continue
					}
					checkQuadPair(r, t, a, sets[j], ha)
				}
				t.Nontrivial()
			})
		}
	}
	// every 3-statement dataset against each of its single-statement graph
	// label mutations (quick: this replaces all pairs at size 3)
	u := universes[0]
	sets3 := subsetsUpTo(u.quads(), 3)
	for i := range sets3 {
		i := i
		if len(sets3[i]) != 3 {
			continue
		}
		g.Case(fmt.Sprintf("%s label-mutations dataset=%d", u.name, i), func(t *vlib.T) {
			r := newRep(t)
			a := subsetsUpTo(u.quads(), 3)[i]
			ha := [2]map[string][]byte{isoHashes(a, false), isoHashes(a, true)}
			for k := range a {
				for _, l := range u.labels {
					if l == a[k][3] {
						continue
					}
					b := append([]quad(nil), a...)
					b[k][3] = l
					if len(quadSet(b)) != len(b) {
						continue // the mutation collides with another statement
					}
					checkQuadPair(r, t, a, b, ha)
					t.Count("rdf_quad_label_mutations", 1)
				}
			}
			t.Nontrivial()
		})
	}
}

func genRDFIsoPairs(g *vlib.G) {
	type universe struct{ iris, size int }
	us := []universe{{1, 3}, {2, vlib.Pick(g, 2, 3)}}
	swaps := vlib.Pick(g, []bool{false}, []bool{false, true}) // thorough: both argument orders
	for _, u := range us {
		u := u
		n := len(smallDatasets(u.iris, u.size))
		for i := 0; i < n; i++ {
			i := i
			g.Case(fmt.Sprintf("iris=%d dataset=%d", u.iris, i), func(t *vlib.T) {
				r := newRep(t)
				sets := smallDatasets(u.iris, u.size)
				a := sets[i]
				for j := i; j < len(sets); j++ {
					b := sets[j]
					want := bruteIso(a, b)
					for _, decomp := range []bool{false, true} {
						for _, swap := range swaps[:1+btoi(u.iris == 1 && len(swaps) > 1)] {
							x, y := a, b
							if swap {
								if i == j {
									continue
								}
								x, y = b, a
							}
							var got bool
							if p := catch(func() {
								got = rdf.Isomorphic(mkStatements(x, nil), mkStatements(y, nil), decomp, md5.New())
							}); p != "" {
								r.Failf("Isomorphic panicked on %v / %v: %s", x, y, p)
								continue
							}
							t.Count("rdf_iso_pairs", 1)
							if got == want {
								continue
							}
							if got && !want {
								fileIsoFalsePositive(r, x, y, decomp)
							} else {
								r.Failf("Isomorphic(a, b, decomp=%v)=%v, exhaustive bijection search says %v: a=%v b=%v", decomp, got, want, x, y)
							}
						}
					}
				}
				t.Nontrivial()
			})
		}
	}
	// canonical forms partition the exhaustive set exactly into isomorphism classes
	for _, algo := range c14nAlgos {
		algo := algo
		g.Case("partition "+algo.name, func(t *vlib.T) {
			r := newRep(t)
			sets := append(smallDatasets(1, 3), smallDatasets(2, 2)...)
			byForm := map[string]string{}  // canonical output -> brute key
			byKey := map[string]string{}   // brute key -> canonical output
			example := map[string][]quad{} // canonical output -> first dataset
			for _, ds := range sets {
				var form string
				if p := catch(func() {
					out, err := algo.run(mkStatements(ds, nil))
					if err != nil {
						algoFailure(r, algo.name, ds, err)
						return
					}
					form = renderStatements(out)
				}); p != "" {
					r.Failf("%s panicked on %v: %s", algo.name, ds, p)
					continue
				}
				if form == "" {
					continue
				}
				key := bruteKey(ds)
				if k, ok := byForm[form]; ok && k != key {
					r.Failf("%s gives the same canonical form to non-isomorphic datasets %v and %v:\n%s", algo.name, example[form], ds, form)
				}
				if f, ok := byKey[key]; ok && f != form {
					r.Failf("%s gives different canonical forms to isomorphic datasets, e.g. %v:\n%s---\n%s", algo.name, ds, f, form)
				}
				byForm[form] = key
				byKey[key] = form
				if _, ok := example[form]; !ok {
					example[form] = ds
				}
			}
			t.Count("rdf_iso_classes", int64(len(byKey)))
			t.Nontrivial()
		})
	}
}

// ---- Deduplicate ----

func genRDFDedup(g *vlib.G) {
	for di := range rdfFamily {
		ds := rdfFamily[di]
		n := len(ds.quads)
		for dup := -1; dup < n; dup++ {
			di, dup := di, dup
			if n+1 > 5 && dup >= 0 && !g.Thorough() && dup > 1 {
				continue
			}
			g.Case(fmt.Sprintf("%s dup=%d", ds.name, dup), func(t *vlib.T) {
				r := newRep(t)
				ds := rdfFamily[di]
				qs := append([]quad(nil), ds.quads...)
				if dup >= 0 {
					qs = append(qs, ds.quads[dup], ds.quads[dup])
				}
				want := quadSet(ds.quads)
				bad := false
				each := func(f func(ord []int)) { perms(len(qs), f) }
				if len(qs) > 6 {
					// large datasets: the declared subset of orders
					each = func(f func(ord []int)) {
						for _, o := range largeOrders(len(qs)) {
							f(o)
						}
					}
				}
				each(func(ord []int) {
					if bad {
						return
					}
					in := mkStatements(qs, ord)
					var out []*rdf.Statement
					if p := catch(func() { out = rdf.Deduplicate(in) }); p != "" {
						r.Failf("Deduplicate panicked: %s", p)
						bad = true
						return
					}
					t.Count("rdf_dedup_runs", 1)
					oq := quadsOf(out)
					got := quadSet(oq)
					ok := len(oq) == len(want) && len(got) == len(want)
					for qd := range got {
						ok = ok && want[qd]
					}
					sorted := true
					for i := 1; i < len(oq); i++ {
						a, b := oq[i-1], oq[i]
						if a[0] > b[0] || (a[0] == b[0] && (a[1] > b[1] || (a[1] == b[1] && a[2] > b[2]))) {
							sorted = false
						}
					}
					if ok && (sorted || len(qs) < 2) {
						return
					}
					bad = true
					msg := fmt.Sprintf("Deduplicate of order %v of %v returns %d statements (distinct: %d, want %d, sorted=%v): %v", ord, qs, len(oq), len(got), len(want), sorted, oq)
					if ds.sameTripleTwoGraphs {
						r.finding("rdf-sort-ignores-graph-label", "Deduplicate", "%s", msg)
					} else {
						r.Failf("%s", msg)
					}
				})
				t.Nontrivial()
			})
		}
	}
}
