package main

import (
	"fmt"

	"gonum.org/v1/gonum/graph/formats/rdf"
	"gonum.org/v1/gonum/internal/verif/vlib"
)

// Larger blank-node graphs over one predicate: the shapes for which
// URDNA2015/URGNA2012 cannot tell the nodes apart by their first-degree
// hashes and have to run Hash N-Degree Quads with several permutations of
// related blank nodes under issuers that already hold many names.

// bgraph is a directed graph on blank nodes 0..n-1.
type bgraph struct {
	name  string
	n     int
	edges [][2]int
}

// rootedTrees enumerates every rooted unlabelled tree on n nodes exactly once
// (Beyer and Hedetniemi, level sequences in reverse lexicographic order) and
// returns the parent of every node (root: -1).
func rootedTrees(n int) [][]int {
	var out [][]int
	l := make([]int, n)
	for i := range l {
		l[i] = i + 1
	}
	for {
		par := make([]int, n)
		for i := range par {
			par[i] = -1
			for j := i - 1; j >= 0; j-- {
				if l[j] == l[i]-1 {
					par[i] = j
					break
				}
			}
		}
		out = append(out, par)
		p := -1
		for i := n - 1; i >= 0; i-- {
			if l[i] > 2 {
				p = i
				break
			}
		}
		if p < 0 {
			return out
		}
		q := p - 1
		for l[q] != l[p]-1 {
			q--
		}
		for i := p; i < n; i++ {
			l[i] = l[i-(p-q)]
		}
	}
}

func treeGraph(par []int, idx int, in bool) bgraph {
	g := bgraph{n: len(par)}
	for c, p := range par {
		if p < 0 {
			continue
		}
		if in {
			g.edges = append(g.edges, [2]int{c, p})
		} else {
			g.edges = append(g.edges, [2]int{p, c})
		}
	}
	dir := "out"
	if in {
		dir = "in"
	}
	g.name = fmt.Sprintf("tree n=%d #%d %s", len(par), idx, dir)
	return g
}

// withExtraEdge adds from -> to (a node with two parents, a shortcut, a back edge).
func (g bgraph) withExtraEdge(from, to int) (bgraph, bool) {
	if from == to {
		return g, false
	}
	for _, e := range g.edges {
		if e == [2]int{from, to} {
			return g, false
		}
	}
	h := bgraph{name: fmt.Sprintf("%s +%d>%d", g.name, from, to), n: g.n}
	h.edges = append(append([][2]int(nil), g.edges...), [2]int{from, to})
	return h, true
}

func ringGraphs(n int) []bgraph {
	var out []bgraph
	path := bgraph{name: fmt.Sprintf("path n=%d", n), n: n}
	zig := bgraph{name: fmt.Sprintf("zigzag n=%d", n), n: n}
	for i := 0; i+1 < n; i++ {
		path.edges = append(path.edges, [2]int{i, i + 1})
		if i%2 == 0 {
			zig.edges = append(zig.edges, [2]int{i, i + 1})
		} else {
			zig.edges = append(zig.edges, [2]int{i + 1, i})
		}
	}
	cyc := bgraph{name: fmt.Sprintf("cycle n=%d", n), n: n, edges: append(append([][2]int(nil), path.edges...), [2]int{n - 1, 0})}
	out = append(out, path, zig, cyc)
	// cycle with a chord, cycle with a tail, two cycles sharing a node
	if c, ok := cyc.withExtraEdge(0, n/2); ok {
		c.name = fmt.Sprintf("cycle+chord n=%d", n)
		out = append(out, c)
	}
	tail := bgraph{name: fmt.Sprintf("cycle+tail n=%d", n), n: n}
	k := n - 2
	for i := 0; i < k; i++ {
		tail.edges = append(tail.edges, [2]int{i, (i + 1) % k})
	}
	tail.edges = append(tail.edges, [2]int{0, k}, [2]int{k, k + 1})
	out = append(out, tail)
	return out
}

// statements renders g with the statement order ord and node i named by
// names[lab[i]].
func (g bgraph) statements(ord, lab []int, pool int) []*rdf.Statement {
	name := func(i int) string {
		k := i
		if lab != nil {
			k = lab[i]
		}
		if pool == 0 {
			return fmt.Sprintf("_:n%d", k)
		}
		return fmt.Sprintf("_:%c%d", 'z'-byte(k%5), k*7)
	}
	out := make([]*rdf.Statement, len(g.edges))
	for i := range g.edges {
		e := g.edges[i]
		if ord != nil {
			e = g.edges[ord[i]]
		}
		out[i] = &rdf.Statement{Subject: rdf.Term{Value: name(e[0])}, Predicate: rdf.Term{Value: iP}, Object: rdf.Term{Value: name(e[1])}}
	}
	return out
}

// lcgPerm is a Fisher-Yates shuffle driven by a fixed linear congruential
// generator: part of the declared family, not a random sample.
func lcgPerm(n int, seed uint64) []int {
	p := make([]int, n)
	for i := range p {
		p[i] = i
	}
	x := seed*6364136223846793005 + 1442695040888963407
	for i := n - 1; i > 0; i-- {
		x = x*6364136223846793005 + 1442695040888963407
		j := int((x >> 33) % uint64(i+1))
		p[i], p[j] = p[j], p[i]
	}
	return p
}

type bvariant struct {
	ord, lab []int
	pool     int
}

// variants is the declared family of statement orders and relabelings for a
// graph with n nodes and m statements: reversal, all rotations of the
// statements combined with rotations of the labels, and k LCG shuffles.
func variants(n, m, k int) []bvariant {
	rev := func(n int) []int {
		p := make([]int, n)
		for i := range p {
			p[i] = n - 1 - i
		}
		return p
	}
	rot := func(n, r int) []int {
		p := make([]int, n)
		for i := range p {
			p[i] = (i + r) % n
		}
		return p
	}
	out := []bvariant{{rev(m), nil, 0}, {nil, rev(n), 0}, {rev(m), rev(n), 1}}
	for r := 1; r < m; r++ {
		out = append(out, bvariant{rot(m, r), rot(n, r%n), r % 2})
	}
	for s := 0; s < k; s++ {
		out = append(out, bvariant{lcgPerm(m, uint64(2*s+1)), lcgPerm(n, uint64(2*s+2)), s % 2})
	}
	return out
}

var largeAlgos = []c14nAlgo{c14nAlgos[0], c14nAlgos[1]}

// checkInvariant runs the canonicalisers on bg in its original form and in
// every variant; the outputs must be byte-identical.
func checkInvariant(r *rep, t *vlib.T, bg bgraph, vs []bvariant, algos []c14nAlgo) {
	for _, algo := range algos {
		var base string
		if p := catch(func() {
			out, err := algo.run(bg.statements(nil, nil, 0))
			if err != nil {
				r.Failf("%s on %s: %v", algo.name, bg.name, err)
				return
			}
			base = renderStatements(out)
		}); p != "" {
			r.Failf("%s on %s panicked: %s", algo.name, bg.name, p)
			continue
		}
		if base == "" {
			continue
		}
		for vi, v := range vs {
			var got string
			if p := catch(func() {
				out, err := algo.run(bg.statements(v.ord, v.lab, v.pool))
				if err != nil {
					r.Failf("%s: %v", algo.name, err)
					return
				}
				got = renderStatements(out)
			}); p != "" {
				r.Failf("%s panicked on variant %d of %s: %s", algo.name, vi, bg.name, p)
				break
			}
			t.Count("rdf_c14n_large_runs", 1)
			if got != base {
				r.Failf("%s is not invariant on %s %v: statement order %v with labels %v (pool %d) gives\n%sbut the original gives\n%s", algo.name, bg.name, bg.edges, v.ord, v.lab, v.pool, got, base)
				break
			}
		}
	}
}

func largeCase(g *vlib.G, bg bgraph, k int) {
	g.Case(bg.name, func(t *vlib.T) {
		r := newRep(t)
		checkInvariant(r, t, bg, variants(bg.n, len(bg.edges), k), largeAlgos)
		t.Nontrivial()
		t.Outcome(fmt.Sprintf("n=%d", bg.n))
	})
}

// shuffles is the thin variant family: k LCG shuffles of statements and labels.
func shuffles(n, m, k int) []bvariant {
	var out []bvariant
	for s := 0; s < k; s++ {
		out = append(out, bvariant{lcgPerm(m, uint64(2*s+1)), lcgPerm(n, uint64(2*s+2)), s % 2})
	}
	return out
}

// treePlusEdgeCase: one rooted tree with every possible additional edge
// from -> to (a node with two parents, a shortcut or a back edge). These are
// the smallest shapes in which Hash N-Degree Quads permutes blank nodes that
// are not automorphic while the issuer already holds five or more names.
func treePlusEdgeCase(g *vlib.G, par []int, idx int, in bool, k int, algos []c14nAlgo) {
	base := treeGraph(par, idx, in)
	g.Case(base.name+" +edge", func(t *vlib.T) {
		r := newRep(t)
		n := len(par)
		for from := 0; from < n && !r.Failed(); from++ {
			for to := 0; to < n && !r.Failed(); to++ {
				bg, ok := base.withExtraEdge(from, to)
				if !ok {
					continue
				}
				checkInvariant(r, t, bg, shuffles(n, len(bg.edges), k), algos)
				t.Count("rdf_c14n_large_graphs", 1)
			}
		}
		t.Nontrivial()
		t.Outcome(fmt.Sprintf("n=%d+edge", n))
	})
}

func genRDFLarge(g *vlib.G) {
	k := vlib.Pick(g, 6, 40)
	maxTree := vlib.Pick(g, 9, 11)
	for n := 6; n <= maxTree; n++ {
		for idx, par := range rootedTrees(n) {
			for _, in := range []bool{false, true} {
				largeCase(g, treeGraph(par, idx, in), k)
			}
		}
	}
	for n := 6; n <= 15; n++ {
		for _, bg := range ringGraphs(n) {
			largeCase(g, bg, k)
		}
	}
	// trees with one more edge. quick: every out-tree on 10 nodes x every
	// extra edge x 3 shuffles, URDNA2015 (URGNA2012 shares the code and is run
	// on every fourth tree); thorough: n = 8..11, both orientations, both
	// algorithms, 10 shuffles.
	if !g.Thorough() {
		for idx, par := range rootedTrees(10) {
			algos := largeAlgos[:1]
			if idx%4 == 0 {
				algos = largeAlgos
			}
			treePlusEdgeCase(g, par, idx, false, 3, algos)
		}
		return
	}
	for n := 8; n <= 11; n++ {
		for idx, par := range rootedTrees(n) {
			treePlusEdgeCase(g, par, idx, false, 10, largeAlgos)
			if n <= 10 {
				treePlusEdgeCase(g, par, idx, true, 10, largeAlgos)
			}
		}
	}
}
