package main

import (
	"fmt"
	"math"
	"math/big"
)

const bigPrec = 200

func bigF(x float64) *big.Float { return new(big.Float).SetPrec(bigPrec).SetFloat64(x) }

func bigZero() *big.Float { return new(big.Float).SetPrec(bigPrec) }

// ratOf returns x as an exact rational.
func ratOf(x float64) *big.Rat {
	r := new(big.Rat)
	if r.SetFloat64(x) == nil {
		panic(fmt.Sprintf("ratOf(%v)", x))
	}
	return r
}

func ratInt(n int64) *big.Rat { return new(big.Rat).SetInt64(n) }

func ratPow(x *big.Rat, d int) *big.Rat {
	p := ratInt(1)
	for i := 0; i < d; i++ {
		p.Mul(p, x)
	}
	return p
}

// ratMonomialIntegral returns the exact value of int_a^b x^d dx.
func ratMonomialIntegral(a, b float64, d int) *big.Rat {
	pb := ratPow(ratOf(b), d+1)
	pa := ratPow(ratOf(a), d+1)
	pb.Sub(pb, pa)
	return pb.Quo(pb, ratInt(int64(d+1)))
}

func ratToBig(r *big.Rat) *big.Float { return new(big.Float).SetPrec(bigPrec).SetRat(r) }

func ratFloat(r *big.Rat) float64 { f, _ := r.Float64(); return f }

// bigSqrtPi returns sqrt(pi) to 200 bits.
func bigSqrtPi() *big.Float {
	pi, _, err := big.ParseFloat("3.14159265358979323846264338327950288419716939937510582097494459230781640628620899862803482534211706798", 10, bigPrec+40, big.ToNearestEven)
	if err != nil {
		panic(err)
	}
	return new(big.Float).SetPrec(bigPrec).Sqrt(pi)
}

// bigRelErr returns |got-want| / scale as a float64 (scale 0 is replaced by 1).
func bigRelErr(got, want, scale *big.Float) float64 {
	e := new(big.Float).SetPrec(bigPrec).Sub(got, want)
	e.Abs(e)
	if scale.Sign() == 0 {
		f, _ := e.Float64()
		return f
	}
	e.Quo(e, scale)
	f, _ := e.Float64()
	return f
}

// catch runs f and reports whether it panicked and with what.
func catch(f func()) (msg string, panicked bool) {
	defer func() {
		if e := recover(); e != nil {
			msg = fmt.Sprint(e)
			panicked = true
		}
	}()
	f()
	return "", false
}

// sameBits reports bitwise equality, with all NaNs considered equal.
func sameBits(a, b float64) bool {
	if math.IsNaN(a) || math.IsNaN(b) {
		return math.IsNaN(a) && math.IsNaN(b)
	}
	return math.Float64bits(a) == math.Float64bits(b)
}

// sameVal reports numeric equality (0 == -0), with all NaNs considered equal.
func sameVal(a, b float64) bool {
	if math.IsNaN(a) || math.IsNaN(b) {
		return math.IsNaN(a) && math.IsNaN(b)
	}
	return a == b
}

// closeTo reports |got-want| <= tol*max(|want|, floor); infinities and NaNs must match exactly.
func closeTo(got, want, tol, floor float64) bool {
	if math.IsNaN(got) || math.IsNaN(want) || math.IsInf(got, 0) || math.IsInf(want, 0) {
		return sameVal(got, want)
	}
	s := math.Abs(want)
	if s < floor {
		s = floor
	}
	return math.Abs(got-want) <= tol*s
}

func powi(x float64, d int) float64 {
	p := 1.0
	for i := 0; i < d; i++ {
		p *= x
	}
	return p
}

func maxAbs(xs []float64) float64 {
	m := 0.0
	for _, v := range xs {
		if a := math.Abs(v); a > m {
			m = a
		}
	}
	return m
}

func fmtF(xs []float64) string { return fmt.Sprintf("%v", xs) }
