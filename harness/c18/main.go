// Harness C18: quadrature, differentiation and interpolation are exact on
// their design classes. See NOTES.md for what is covered and how.
package main

import "gonum.org/v1/gonum/internal/verif/vlib"

func main() {
	vlib.Main("C18",
		vlib.Group{Name: "legendre", Gen: genLegendre},
		vlib.Group{Name: "hermite", Gen: genHermite},
		vlib.Group{Name: "fixed", Gen: genFixed},
		vlib.Group{Name: "newton-cotes", Gen: genNewtonCotes},
		vlib.Group{Name: "romberg", Gen: genRomberg},
		vlib.Group{Name: "fd-derivative", Gen: genFDDerivative},
		vlib.Group{Name: "fd-multi", Gen: genFDMulti},
		vlib.Group{Name: "fd-scribble", Gen: genFDScribble},
		vlib.Group{Name: "dual-ring", Gen: genDualRing},
		vlib.Group{Name: "hyperdual-ring", Gen: genHyperdualRing},
		vlib.Group{Name: "quat-ring", Gen: genQuatRing},
		vlib.Group{Name: "dualquat-ring", Gen: genDualquatRing},
		vlib.Group{Name: "dualcmplx-ring", Gen: genDualcmplxRing},
		vlib.Group{Name: "dual-func", Gen: genDualFuncs},
		vlib.Group{Name: "hyperdual-func", Gen: genHyperdualFuncs},
		vlib.Group{Name: "dual-compose", Gen: genDualCompose},
		vlib.Group{Name: "hyperdual-compose", Gen: genHyperdualCompose},
		vlib.Group{Name: "binary-patterns", Gen: genBinaryPatterns},
		vlib.Group{Name: "quat-func", Gen: genQuatFuncs},
		vlib.Group{Name: "quat-ladder", Gen: genQuatLadder},
		vlib.Group{Name: "dualquat-func", Gen: genDualquatFuncs},
		vlib.Group{Name: "dualcmplx-func", Gen: genDualcmplxFuncs},
		vlib.Group{Name: "interp", Gen: genInterp},
		vlib.Group{Name: "interp-all-y", Gen: genInterpAllY},
		vlib.Group{Name: "interp-bad-input", Gen: genInterpBadInput},
	)
}
