package main

import (
	"fmt"
	"math"
	"strconv"
	"strings"

	"gonum.org/v1/gonum/integrate"
	"gonum.org/v1/gonum/internal/verif/vlib"
)

const (
	tolSimpson = 1e-13 // relative to (b-a)*max|f|; the weights contain divisions by 6*h0*(h0+h1)
	tolRomberg = 1e-13 // relative to (b-a)*max|f|; Richardson steps divide by 4^j-1
)

// Two spacing alphabets: regular-ish {1,2,1/2} and clustered {1,1/64,8}.
type spacingSet struct {
	name  string
	h     []float64
	names []string
}

var spacingSets = []spacingSet{
	{"A", []float64{1, 2, 0.5}, []string{"1", "2", "h"}},
	{"B", []float64{1, 1. / 64, 8}, []string{"1", "c", "8"}},
}

// gridFromCode decodes a base-3 spacing word of length m.
func gridFromCode(ss spacingSet, code, m int, a float64) (x []float64, name string, uniform bool, ratio float64) {
	x = make([]float64, m+1)
	x[0] = a
	var sb strings.Builder
	uniform = true
	first, prev := -1, -1
	ratio = 1
	for i := 0; i < m; i++ {
		s := code % 3
		code /= 3
		if first < 0 {
			first = s
		} else if s != first {
			uniform = false
		}
		if prev >= 0 {
			ratio = math.Max(ratio, math.Max(ss.h[s]/ss.h[prev], ss.h[prev]/ss.h[s]))
		}
		prev = s
		x[i+1] = x[i] + ss.h[s]
		sb.WriteString(ss.names[s])
	}
	return x, sb.String(), uniform, ratio
}

func pow3(m int) int {
	p := 1
	for i := 0; i < m; i++ {
		p *= 3
	}
	return p
}

func sample(x []float64, d int) []float64 {
	f := make([]float64, len(x))
	for i, v := range x {
		f[i] = powi(v, d)
	}
	return f
}

func genNewtonCotes(g *vlib.G) {
	for si, ss := range spacingSets {
		maxM := vlib.Pick(g, 12, 13)
		if si == 1 {
			maxM = vlib.Pick(g, 11, 12)
		}
		for m := 1; m <= maxM; m++ {
			for code := 0; code < pow3(m); code++ {
				for _, a := range []float64{0, -2.5} {
					ss, m, code, a := ss, m, code, a
					_, name, _, _ := gridFromCode(ss, code, m, a)
					g.Case("grid "+ss.name+" a="+strconv.FormatFloat(a, 'g', -1, 64)+" s="+name, func(t *vlib.T) { gridCase(t, ss, m, code, a) })
				}
			}
		}
	}
	g.Case("grid panics", func(t *vlib.T) { gridPanics(t) })
}

func gridCase(t *vlib.T, ss spacingSet, m, code int, a float64) {
	x, _, uniform, ratio := gridFromCode(ss, code, m, a)
	n := len(x)
	b := x[n-1]
	t.Nontrivial()
	t.Outcome(fmt.Sprintf("%s points%%2=%d uniform=%v", ss.name, n%2, uniform))
	// The irregular Simpson weights grow like the ratio of neighbouring spacings (with cancellation
	// between them); the rounding bound scales accordingly (factor 1 for the alphabet {1,2,1/2}).
	amp := math.Max(1, ratio/4)
	// Trapezoidal: degree <= 1 exactly (all operations are exact on dyadic data).
	for d := 0; d <= 1; d++ {
		got := integrate.Trapezoidal(x, sample(x, d))
		want := ratFloat(ratMonomialIntegral(a, b, d))
		if !sameBits(got, want) {
			t.Failf("Trapezoidal(x^%d) on %v = %v, want exactly %v", d, x, got, want)
		}
	}
	// The trapezoidal error for x^2 is exactly sum h^3/6.
	trunc := 0.0
	for i := 1; i < n; i++ {
		h := x[i] - x[i-1]
		trunc += h * h * h / 6
	}
	if got, want := integrate.Trapezoidal(x, sample(x, 2)), ratFloat(ratMonomialIntegral(a, b, 2)); math.Abs(got-want) < 0.4*trunc {
		t.Failf("vacuity guard: Trapezoidal(x^2) on %v is exact (%v, truncation term %v)", x, got, trunc)
	}
	if n < 3 {
		return
	}
	// Simpsons: degree <= 2 on every grid, degree 3 on uniform grids with an odd point count.
	for d := 0; d <= 3; d++ {
		f := sample(x, d)
		got := integrate.Simpsons(x, f)
		want := ratFloat(ratMonomialIntegral(a, b, d))
		scale := (b-a)*maxAbs(f) + math.Abs(want)
		exact := d <= 2 || (uniform && n%2 == 1)
		switch {
		case exact && math.Abs(got-want) > tolSimpson*amp*scale:
			t.Failf("Simpsons(x^%d) on %v = %v, want %v (defect %.3g)", d, x, got, want, math.Abs(got-want)/scale)
		case d == 3 && uniform && n%2 == 0 && math.Abs(got-want) < 0.1*powi(x[1]-x[0], 4):
			// the last panel integrates the parabola through the last three points: error h^4/4
			t.Failf("vacuity guard: Simpsons(x^3) on the uniform even-count grid %v is exact", x)
		case d == 3 && n == 3 && !uniform && math.Abs(got-want) < 0.04*powi(x[2]-x[0], 3)*math.Abs((x[2]-x[1])-(x[1]-x[0])):
			// error (h0+h1)^3 (h1-h0)/12
			t.Failf("vacuity guard: Simpsons(x^3) on the irregular 3-point grid %v is exact", x)
		}
		t.Count("simpson_evaluations", 1)
	}
	// Degree 4 is never exact on a uniform grid.
	if uniform {
		f := sample(x, 4)
		got := integrate.Simpsons(x, f)
		want := ratFloat(ratMonomialIntegral(a, b, 4))
		if math.Abs(got-want) < 0.01*(b-a)*powi(x[1]-x[0], 4) {
			t.Failf("vacuity guard: Simpsons(x^4) on %v is exact", x)
		}
	}
}

func gridPanics(t *vlib.T) {
	t.Nontrivial()
	type call struct {
		name string
		f    func()
	}
	calls := []call{
		{"Trapezoidal length mismatch", func() { integrate.Trapezoidal([]float64{0, 1, 2}, []float64{0, 1}) }},
		{"Trapezoidal single point", func() { integrate.Trapezoidal([]float64{0}, []float64{0}) }},
		{"Trapezoidal empty", func() { integrate.Trapezoidal(nil, nil) }},
		{"Trapezoidal unsorted", func() { integrate.Trapezoidal([]float64{0, 2, 1}, []float64{0, 1, 2}) }},
		{"Simpsons length mismatch", func() { integrate.Simpsons([]float64{0, 1, 2}, []float64{0, 1}) }},
		{"Simpsons two points", func() { integrate.Simpsons([]float64{0, 1}, []float64{0, 1}) }},
		{"Simpsons unsorted", func() { integrate.Simpsons([]float64{0, 2, 1, 3}, []float64{0, 1, 2, 3}) }},
		{"Simpsons repeated abscissa", func() { integrate.Simpsons([]float64{0, 1, 1}, []float64{0, 1, 2}) }},
		{"Simpsons repeated abscissa in the last panel", func() { integrate.Simpsons([]float64{0, 1, 2, 2}, []float64{0, 1, 2, 3}) }},
	}
	for _, c := range calls {
		if _, p := catch(c.f); !p {
			t.Failf("%s: no panic", c.name)
		}
	}
}

func genRomberg(g *vlib.G) {
	for k := 1; k <= 10; k++ {
		for _, L := range []float64{1, 2, 3, 0.125, 48} {
			for _, a := range []float64{0, -2, 1.5, -31} {
				k, L, a := k, L, a
				g.Case(fmt.Sprintf("k=%d L=%g a=%g", k, L, a), func(t *vlib.T) { rombergCase(t, k, L, a) })
			}
		}
	}
	g.Case("lengths", func(t *vlib.T) {
		t.Nontrivial()
		for n := 0; n <= 200; n++ {
			f := make([]float64, n)
			ok := false
			for k := 1; k < 10; k++ {
				if n == 1<<uint(k)+1 {
					ok = true
				}
			}
			_, p := catch(func() { integrate.Romberg(f, 1) })
			if p == ok {
				t.Failf("Romberg with len(f)=%d: panicked=%v, documented valid=%v", n, p, ok)
			}
		}
		for _, dx := range []float64{0, -1, math.Inf(-1)} {
			if _, p := catch(func() { integrate.Romberg(make([]float64, 5), dx) }); !p {
				t.Failf("Romberg with dx=%v did not panic", dx)
			}
		}
	})
}

func rombergCase(t *vlib.T, k int, L, a float64) {
	n := 1<<uint(k) + 1
	dx := L / float64(n-1)
	x := make([]float64, n)
	for i := range x {
		x[i] = a + float64(i)*dx
	}
	b := a + L
	t.Nontrivial()
	t.Outcome(fmt.Sprintf("k=%d", k))
	for d := 0; d <= 2*k+1; d++ {
		f := sample(x, d)
		got := integrate.Romberg(f, dx)
		want := ratFloat(ratMonomialIntegral(a, b, d))
		scale := L*maxAbs(f) + math.Abs(want)
		if math.Abs(got-want) > tolRomberg*scale {
			t.Failf("Romberg(x^%d) on [%v,%v] with %d points = %v, want %v (defect %.3g)", d, a, b, n, got, want, math.Abs(got-want)/scale)
		}
		t.Count("romberg_evaluations", 1)
	}
	if k <= 3 && L >= 1 && math.Abs(a) <= 2 { // the truncation term is only visible on intervals of moderate size near the origin
		d := 2*k + 2
		f := sample(x, d)
		got := integrate.Romberg(f, dx)
		want := ratFloat(ratMonomialIntegral(a, b, d))
		scale := L*maxAbs(f) + math.Abs(want)
		if math.Abs(got-want) < 1e-9*scale {
			t.Failf("vacuity guard: Romberg(x^%d) with %d points is exact", d, n)
		}
	}
}
