package main

import (
	"fmt"
	"math"
	"math/cmplx"

	"gonum.org/v1/gonum/internal/verif/vlib"
	"gonum.org/v1/gonum/num/quat"
)

// Magnitude ladder: every range split inside the implementations (quat's sinhcosh switches at 0.5)
// has points on both sides, and a tiny part next to an ordinary one exposes a loss of RELATIVE
// accuracy in the component tied to the tiny part, which a tolerance relative to the norm of the
// result cannot see.
var magnitudeLadder = []float64{0, 5e-324, 1e-300, 1e-100, 1e-20, 1e-10, 1e-5, 1e-3, 0.1, 0.49, 0.5, 0.51, 1, 3, 20, 700}

const (
	subnormalSlack   = 4 * 5e-324
	tolLadderComp    = 4e-15 // per component, relative to the exact component (observed worst 3.2e-16)
	tolLadderOffAxis = 1e-13 // directions with non-dyadic components: |v| is recomputed with rounding
	tolLadderNorm    = 3e-13 // functions that are only accurate relative to the norm (observed worst 8e-14)
	absLadderNorm    = 4e-15 // ... and absolutely for tiny arguments (log(1+x)-type formulas)
)

type ladderDir struct {
	name    string
	i, j, k float64
	axis    bool
}

var ladderDirs = []ladderDir{
	{"i", 1, 0, 0, true}, {"-i", -1, 0, 0, true}, {"j", 0, 1, 0, true}, {"-j", 0, -1, 0, true}, {"k", 0, 0, 1, true}, {"-k", 0, 0, -1, true},
	{"(2,-3,6)/7", 2. / 7, -3. / 7, 6. / 7, false}, {"(1,2,2)/3", 1. / 3, 2. / 3, 2. / 3, false},
}

// compFn is a function whose two components in the plane of (1, u) have closed forms in real
// functions: ref returns them for q = a + b*u, tol the relative bound per component, max the largest
// magnitude of a part for which the implementation's formula is componentwise accurate.
type compFn struct {
	name string
	q    func(quat.Number) quat.Number
	ref  func(a, b float64) (re, im float64)
	tol  func(a, b float64) float64
	max  float64
}

func flatTol(float64, float64) float64 { return tolLadderComp }

func compFns() []compFn {
	return []compFn{
		{"Exp", quat.Exp, func(a, b float64) (float64, float64) { e := math.Exp(a); return e * math.Cos(b), e * math.Sin(b) }, flatTol, 700},
		{"Sin", quat.Sin, func(a, b float64) (float64, float64) { return math.Sin(a) * math.Cosh(b), math.Cos(a) * math.Sinh(b) }, flatTol, 700},
		{"Cos", quat.Cos, func(a, b float64) (float64, float64) { return math.Cos(a) * math.Cosh(b), -math.Sin(a) * math.Sinh(b) }, flatTol, 700},
		{"Sinh", quat.Sinh, func(a, b float64) (float64, float64) { return math.Sinh(a) * math.Cos(b), math.Cosh(a) * math.Sin(b) }, flatTol, 700},
		{"Cosh", quat.Cosh, func(a, b float64) (float64, float64) { return math.Cosh(a) * math.Cos(b), math.Sinh(a) * math.Sin(b) }, flatTol, 700},
		// Log: the real part log|q| is only absolutely accurate near |q| = 1 (handled in the check).
		{"Log", quat.Log, func(a, b float64) (float64, float64) { return math.Log(math.Hypot(a, b)), math.Atan2(b, a) }, flatTol, 700},
		// Tan = Sin*Inv(Cos): the real part sin a cos a (cosh^2 b - sinh^2 b) cancels like cosh^2 b.
		{"Tan", quat.Tan, func(a, b float64) (float64, float64) {
			d := math.Cos(2*a) + math.Cosh(2*b)
			return math.Sin(2*a) / d, math.Sinh(2*b) / d
		}, func(a, b float64) float64 { c := math.Cosh(b); return 1e-14 * math.Max(1, c*c) }, 3},
		{"Tanh", quat.Tanh, func(a, b float64) (float64, float64) {
			d := math.Cosh(2*a) + math.Cos(2*b)
			return math.Sinh(2*a) / d, math.Sin(2*b) / d
		}, func(a, b float64) float64 { c := math.Cosh(a); return 1e-14 * math.Max(1, c*c) }, 3},
	}
}

// normFn is a function that the implementation computes through Exp/Log compositions: accurate
// relative to the norm of the result (plus an absolute floor for tiny arguments), not per component.
type normFn struct {
	name string
	q    func(quat.Number) quat.Number
	c    func(complex128) complex128
	skip func(a, b float64) bool // on or next to a branch cut / branch point
	mult float64
}

func normFns() []normFn {
	none := func(a, b float64) bool { return false }
	// Points next to a branch cut: the value jumps across the cut, so the result is ill-conditioned
	// in the part that is tiny (and the quaternion formulas pick the side by rounding).
	nearImagCut := func(a, b float64) bool { return math.Abs(a) <= 1e-3 && math.Abs(b) >= 1 }
	nearRealCut := func(a, b float64) bool { return math.Abs(a) >= 1 && math.Abs(b) <= 1e-3 }
	return []normFn{
		{"Sqrt", quat.Sqrt, cmplx.Sqrt, none, 1},
		{"PowReal(2)", func(q quat.Number) quat.Number { return quat.PowReal(q, 2) }, func(z complex128) complex128 { return z * z }, none, 1},
		{"PowReal(-1)", func(q quat.Number) quat.Number { return quat.PowReal(q, -1) }, func(z complex128) complex128 { return 1 / z }, none, 1},
		{"Pow(2)", func(q quat.Number) quat.Number { return quat.Pow(q, quat.Number{Real: 2}) }, func(z complex128) complex128 { return z * z }, none, 1},
		{"Asin", quat.Asin, cmplx.Asin, nearRealCut, 1},
		{"Acos", quat.Acos, cmplx.Acos, nearRealCut, 1},
		{"Atan", quat.Atan, cmplx.Atan, nearImagCut, 1},
		{"Asinh", quat.Asinh, cmplx.Asinh, nearImagCut, 1},
		{"Acosh", quat.Acosh, cmplx.Acosh, nearRealCut, 1},
		{"Atanh", quat.Atanh, cmplx.Atanh, nearRealCut, 30}, // logarithmic branch points at +-1 are on the ladder
	}
}

func ladderPoint(a, b float64, u ladderDir) quat.Number {
	return quat.Number{Real: a, Imag: b * u.i, Jmag: b * u.j, Kmag: b * u.k}
}

func isSubnormal(x float64) bool { return x != 0 && math.Abs(x) < 2.3e-308 }

// compClose compares one component relative to its exact value.
func compClose(got, want, tol float64) bool {
	if math.IsNaN(got) || math.IsNaN(want) || math.IsInf(got, 0) || math.IsInf(want, 0) {
		return sameVal(got, want)
	}
	return math.Abs(got-want) <= tol*math.Abs(want)+subnormalSlack
}

func genQuatLadder(g *vlib.G) {
	for _, fn := range compFns() {
		for _, u := range ladderDirs {
			fn, u := fn, u
			g.Case("comp "+fn.name+" u="+u.name, func(t *vlib.T) { quatCompCase(t, fn, u) })
		}
	}
	for _, fn := range normFns() {
		for _, u := range ladderDirs {
			fn, u := fn, u
			g.Case("norm "+fn.name+" u="+u.name, func(t *vlib.T) { quatNormCase(t, fn, u) })
		}
	}
}

func quatCompCase(t *vlib.T, fn compFn, u ladderDir) {
	t.Nontrivial()
	n, both := 0, map[bool]int{}
	subReported := false
	for _, a0 := range magnitudeLadder {
		for _, sa := range []float64{1, -1} {
			for _, b := range magnitudeLadder {
				if b == 0 || a0 > fn.max || b > fn.max {
					continue
				}
				if !u.axis && (b < 1e-300 || b > 3 || a0 > 3) {
					continue // b*u_k would be subnormal, or the rounding of |v| is amplified by the argument
				}
				a := math.Copysign(a0, sa)
				got := fn.q(ladderPoint(a, b, u))
				wr, wi := fn.ref(a, b)
				tol := fn.tol(a, b)
				if !u.axis {
					tol = math.Max(tol, tolLadderOffAxis)
				}
				ok := compClose(got.Real, wr, tol)
				if fn.name == "Log" && !ok {
					// log|q| near |q| = 1: absolute accuracy of an ulp of |q|.
					ok = math.Abs(got.Real-wr) <= 4e-16
				}
				for _, c := range [3][2]float64{{got.Imag, u.i}, {got.Jmag, u.j}, {got.Kmag, u.k}} {
					if c[1] == 0 {
						ok = ok && c[0] == 0
					} else {
						ok = ok && compClose(c[0], wi*c[1], tol)
					}
				}
				if !ok {
					if isSubnormal(b) || isSubnormal(a) {
						if !subReported {
							subReported = true
							t.SubViolation("subnormal", "quat-subnormal-part", nil, "%s(%v + %v*%s) = %v, want %v + %v*%s (a part of the argument is subnormal)", fn.name, a, b, u.name, got, wr, wi, u.name)
						}
					} else {
						t.Failf("%s(%v + %v*%s) = %v, want %v + %v*%s componentwise (relative bound %.1g per component)", fn.name, a, b, u.name, got, wr, wi, u.name, tol)
					}
				}
				both[math.Min(a0, b) < 0.5 && math.Min(a0, b) > 0]++
				n++
			}
		}
	}
	if both[true] == 0 || both[false] == 0 {
		t.Failf("vacuity guard: the ladder does not straddle 0.5")
	}
	t.Count("ladder_points", int64(n))
	t.Outcome("componentwise axis=" + fmt.Sprint(u.axis))
}

func quatNormCase(t *vlib.T, fn normFn, u ladderDir) {
	t.Nontrivial()
	n := 0
	subReported, acoshReported := false, false
	for _, a0 := range magnitudeLadder {
		for _, sa := range []float64{1, -1} {
			for _, b := range magnitudeLadder {
				if b == 0 || a0 > 20 || b > 20 {
					continue // beyond 20 the inverse functions lose 6 digits to cancellation (NOTES.md)
				}
				if !u.axis && (b < 1e-300 || b > 3 || a0 > 3) {
					continue
				}
				a := math.Copysign(a0, sa)
				if fn.skip(a, b) {
					continue
				}
				want := fn.c(complex(a, b))
				if cmplx.IsNaN(want) || cmplx.IsInf(want) {
					continue // the reference itself fails here
				}
				got := fn.q(ladderPoint(a, b, u))
				d := quat.Sub(got, quat.Number{Real: real(want), Imag: imag(want) * u.i, Jmag: imag(want) * u.j, Kmag: imag(want) * u.k})
				e := quat.Abs(d) // scaled: the values reach 1e300
				mult := fn.mult
				if !u.axis {
					mult *= 10 // |v| and the direction are recomputed with rounding
				}
				if !(e <= mult*(tolLadderNorm*cmplx.Abs(want)+absLadderNorm)) {
					switch {
					case isSubnormal(b) || isSubnormal(a):
						if !subReported {
							subReported = true
							t.SubViolation("subnormal", "quat-subnormal-part", nil, "%s(%v + %v*%s) = %v, math/cmplx gives %v (a part of the argument is subnormal)", fn.name, a, b, u.name, got, want)
						}
					case fn.name == "Acosh" && math.Abs(a) < 1 && b <= 1e-5:
						if !acoshReported {
							acoshReported = true
							t.SubViolation("tiny", "quat-acosh-small-vector-part", nil, "Acosh(%v + %v*%s) = %v, math/cmplx gives %v: the vector part of the intermediate Acos is only accurate to 1e-16 absolutely; its direction degrades as the vector part of q shrinks and below 1e-17 it underflows to zero, after which the real number acos(a) is returned instead of acos(a)*u", a, b, u.name, got, want)
						}
					default:
						t.Failf("%s(%v + %v*%s) = %v, math/cmplx gives %v in the plane of %s (defect %.3g)", fn.name, a, b, u.name, got, want, u.name, e)
					}
				}
				n++
			}
		}
	}
	t.Count("ladder_points", int64(n))
	t.Outcome("normwise axis=" + fmt.Sprint(u.axis))
}
