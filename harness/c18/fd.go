package main

import (
	"fmt"
	"math"
	"runtime"

	"gonum.org/v1/gonum/diff/fd"
	"gonum.org/v1/gonum/internal/verif/vlib"
	"gonum.org/v1/gonum/mat"
)

type fdFormula struct {
	name  string
	f     fd.Formula
	order int // order of the derivative
	exact int // highest polynomial degree differentiated exactly
}

var fdFormulas = []fdFormula{
	{"Forward", fd.Forward, 1, 1},
	{"Backward", fd.Backward, 1, 1},
	{"Central", fd.Central, 1, 2},
	{"Forward2nd", fd.Forward2nd, 2, 2},
	{"Backward2nd", fd.Backward2nd, 2, 2},
	{"Central2nd", fd.Central2nd, 2, 3},
}

var fdSteps = []float64{1, 0.5, 2, 0.25, 4}

// withProcs raises GOMAXPROCS for a case that asks for concurrent evaluation: the driver runs
// the workers with GOMAXPROCS=1, for which diff/fd silently falls back to the serial code.
func withProcs(conc bool) func() {
	if !conc {
		return func() {}
	}
	old := runtime.GOMAXPROCS(3)
	return func() { runtime.GOMAXPROCS(old) }
}

func usesOrigin(f fd.Formula) bool {
	for _, p := range f.Stencil {
		if p.Loc == 0 {
			return true
		}
	}
	return false
}

// monomialDeriv returns the k-th derivative of x^d at x.
func monomialDeriv(x float64, d, k int) float64 {
	if k > d {
		return 0
	}
	c := 1.0
	for i := 0; i < k; i++ {
		c *= float64(d - i)
	}
	return c * powi(x, d-k)
}

func genFDDerivative(g *vlib.G) {
	for _, fm := range fdFormulas {
		for _, h := range fdSteps {
			for _, x0 := range []float64{0, 1, -2, 0.5, 3, -0.75, 10.25} {
				for _, ok := range []bool{false, true} {
					for _, conc := range []bool{false, true} {
						fm, h, x0, ok, conc := fm, h, x0, ok, conc
						g.Case(fmt.Sprintf("%s h=%g x0=%g originKnown=%v concurrent=%v", fm.name, h, x0, ok, conc), func(t *vlib.T) {
							defer withProcs(conc)()
							t.Nontrivial()
							t.Outcome(fmt.Sprintf("%s origin-in-stencil=%v known=%v conc=%v procs>1=%v", fm.name, usesOrigin(fm.f), ok, conc, runtime.GOMAXPROCS(0) > 1))
							for d := 0; d <= fm.exact+1; d++ {
								d := d
								f := func(x float64) float64 {
									if ok && x == x0 {
										return math.NaN() // the caller said the origin is known
									}
									return powi(x, d)
								}
								s := &fd.Settings{Formula: fm.f, Step: h, OriginKnown: ok, OriginValue: math.NaN(), Concurrent: conc}
								if ok {
									s.OriginValue = powi(x0, d)
								}
								got := fd.Derivative(f, x0, s)
								want := monomialDeriv(x0, d, fm.order)
								if d <= fm.exact {
									if !sameVal(got, want) {
										t.Failf("Derivative of x^%d at %v = %v, want exactly %v", d, x0, got, want)
									}
								} else if sameVal(got, want) {
									t.Failf("vacuity guard: %s differentiates x^%d exactly at %v (beyond its order)", fm.name, d, x0)
								}
								t.Count("fd_evaluations", 1)
							}
						})
					}
				}
			}
		}
	}
	g.Case("defaults and panics", func(t *vlib.T) {
		t.Nontrivial()
		lin := func(x float64) float64 { return 3*x + 1 }
		for _, s := range []*fd.Settings{nil, {}, {Concurrent: true}} {
			if got := fd.Derivative(lin, 2, s); math.Abs(got-3) > 1e-6 {
				t.Failf("Derivative with default settings %+v = %v, want 3", s, got)
			}
		}
		if got := fd.Derivative(lin, 2, &fd.Settings{Step: 0.5}); got != 3 {
			t.Failf("Derivative with default formula and Step=0.5 = %v, want 3", got)
		}
		bad := fd.Forward
		bad.Step = -1
		if _, p := catch(func() { fd.Derivative(lin, 2, &fd.Settings{Formula: bad}) }); !p {
			t.Failf("Formula with Step=-1 did not panic")
		}
		bad.Step = 0
		if _, p := catch(func() { fd.Derivative(lin, 2, &fd.Settings{Formula: bad}) }); !p {
			t.Failf("Formula with Step=0 did not panic")
		}
	})
}

// poly is an integer polynomial of total degree <= 3 in n variables:
// c + sum b_i x_i + sum_{i<=j} q_ij x_i x_j + sum_i t_i x_i^3 + sum_{i!=j} x_i^2 x_j (cubic only).
type poly struct {
	n, deg int
	c      float64
	b      []float64
	q      [][]float64 // upper triangle
	t      []float64
}

func newPoly(n, deg, seed int) *poly {
	p := &poly{n: n, deg: deg, c: float64(seed%3 - 1), b: make([]float64, n), q: make([][]float64, n), t: make([]float64, n)}
	for i := 0; i < n; i++ {
		p.b[i] = float64((i+seed)%5 - 2)
		if p.b[i] == 0 {
			p.b[i] = 3
		}
		p.q[i] = make([]float64, n)
		if deg >= 2 {
			for j := i; j < n; j++ {
				p.q[i][j] = float64((i+2*j+seed)%5 - 2)
			}
			// Pure squares and cubes get positive coefficients and the evaluation point is
			// positive, so that the truncation terms of a one-sided formula all have the same
			// sign and the vacuity guards cannot be fooled by cancellation.
			p.q[i][i] = float64(1 + (i+seed)%3)
		}
		if deg >= 3 {
			p.t[i] = float64(1 + (i+seed)%2)
		}
	}
	return p
}

func (p *poly) eval(x []float64) float64 {
	v := p.c
	for i := 0; i < p.n; i++ {
		v += p.b[i] * x[i]
		for j := i; j < p.n; j++ {
			v += p.q[i][j] * x[i] * x[j]
		}
		v += p.t[i] * x[i] * x[i] * x[i]
		if p.deg >= 3 {
			for j := 0; j < p.n; j++ {
				if j != i {
					v += x[i] * x[i] * x[j]
				}
			}
		}
	}
	return v
}

func (p *poly) grad(x []float64) []float64 {
	g := make([]float64, p.n)
	for k := 0; k < p.n; k++ {
		v := p.b[k]
		for j := 0; j < p.n; j++ {
			switch {
			case j == k:
				v += 2 * p.q[k][k] * x[k]
			case j > k:
				v += p.q[k][j] * x[j]
			default:
				v += p.q[j][k] * x[j]
			}
		}
		v += 3 * p.t[k] * x[k] * x[k]
		if p.deg >= 3 {
			for j := 0; j < p.n; j++ {
				if j != k {
					v += 2*x[k]*x[j] + x[j]*x[j]
				}
			}
		}
		g[k] = v
	}
	return g
}

func (p *poly) hess(x []float64) [][]float64 {
	h := make([][]float64, p.n)
	for k := range h {
		h[k] = make([]float64, p.n)
	}
	for k := 0; k < p.n; k++ {
		for l := 0; l < p.n; l++ {
			var v float64
			switch {
			case k == l:
				v = 2*p.q[k][k] + 6*p.t[k]*x[k]
				if p.deg >= 3 {
					for j := 0; j < p.n; j++ {
						if j != k {
							v += 2 * x[j]
						}
					}
				}
			default:
				if k < l {
					v = p.q[k][l]
				} else {
					v = p.q[l][k]
				}
				if p.deg >= 3 {
					v += 2*x[k] + 2*x[l]
				}
			}
			h[k][l] = v
		}
	}
	return h
}

// fdPoint returns the evaluation point: coordinates >= 2 (so that the truncation terms of the
// one-sided formulas keep one sign for every step <= 4, see newPoly); variant 1 uses quarter offsets.
func fdPoint(n, variant int) []float64 {
	x := make([]float64, n)
	for i := range x {
		x[i] = float64(2 + (2*i+1)%3)
		if variant == 1 {
			x[i] += 0.25 * float64(i%4)
		}
	}
	return x
}

func poisoned(n int) []float64 {
	x := make([]float64, n)
	for i := range x {
		x[i] = math.NaN()
	}
	return x
}

func sameSlice(a, b []float64) bool {
	if len(a) != len(b) {
		return false
	}
	for i := range a {
		if !sameVal(a[i], b[i]) {
			return false
		}
	}
	return true
}

// guardedF wraps p.eval: when the origin is declared known, evaluating exactly at the origin
// yields NaN so that a result that depends on f(origin) instead of OriginValue is visible
// (only for stencils containing the origin: Central legitimately returns to x in Hessian).
func guardedF(p *poly, x0 []float64, poison bool) func([]float64) float64 {
	return func(x []float64) float64 {
		if poison && sameSlice(x, x0) {
			return math.NaN()
		}
		return p.eval(x)
	}
}

func settingsFor(fm fdFormula, h float64, known, conc bool, origin float64) *fd.Settings {
	s := &fd.Settings{Formula: fm.f, Step: h, OriginKnown: known, OriginValue: math.NaN(), Concurrent: conc}
	if known {
		s.OriginValue = origin
	}
	return s
}

func genFDMulti(g *vlib.G) {
	maxDim := 8
	for n := 1; n <= maxDim; n++ {
		for _, fm := range fdFormulas {
			for _, h := range fdSteps {
				for _, known := range []bool{false, true} {
					for _, conc := range []bool{false, true} {
						n, fm, h, known, conc := n, fm, h, known, conc
						g.Case(fmt.Sprintf("dim=%d %s h=%g originKnown=%v concurrent=%v", n, fm.name, h, known, conc), func(t *vlib.T) {
							defer withProcs(conc)()
							t.Nontrivial()
							t.Outcome(fmt.Sprintf("%s known=%v conc=%v procs>1=%v", fm.name, known, conc, runtime.GOMAXPROCS(0) > 1))
							if fm.order == 1 {
								fdFirstOrderCase(t, n, fm, h, known, conc)
							} else {
								fdLaplacianCase(t, n, fm, h, known, conc)
							}
						})
					}
				}
			}
		}
	}
	g.Case("panics", func(t *vlib.T) { fdPanics(t) })
}

// fdFirstOrderCase checks Gradient, Jacobian, Hessian and CrossLaplacian with an order-1 formula.
func fdFirstOrderCase(t *vlib.T, n int, fm fdFormula, h float64, known, conc bool) {
	for fam := 0; fam < 8; fam++ {
		for pv := 0; pv < 2; pv++ {
			fdFirstOrderFamily(t, n, fm, h, known, conc, 7*fam, pv)
		}
	}
}

func fdFirstOrderFamily(t *vlib.T, n int, fm fdFormula, h float64, known, conc bool, fam, pv int) {
	x0 := fdPoint(n, pv)
	for deg := 1; deg <= 3; deg++ {
		p := newPoly(n, deg, deg+n+fam)
		poison := known && usesOrigin(fm.f)
		f := guardedF(p, x0, poison)
		// Gradient: exact iff every variable has degree <= fm.exact.
		xin := append([]float64(nil), x0...)
		want := p.grad(x0)
		for _, dst := range [][]float64{nil, poisoned(n)} {
			got := fd.Gradient(dst, f, xin, settingsFor(fm, h, known, conc, p.eval(x0)))
			if dst != nil && &got[0] != &dst[0] {
				t.Failf("Gradient did not return dst")
			}
			exact := deg <= fm.exact
			if exact && !sameSlice(got, want) {
				t.Failf("Gradient deg=%d = %v, want exactly %v", deg, got, want)
			}
			if !exact && sameSlice(got, want) {
				t.Failf("vacuity guard: Gradient with %s is exact on degree %d", fm.name, deg)
			}
		}
		if !sameSlice(xin, x0) {
			t.Failf("Gradient modified x: %v", xin)
		}
		t.Count("fd_evaluations", 2)

		// Jacobian of (p, p2, p3): rows are the gradients of the components.
		comps := []*poly{p, newPoly(n, deg, deg+n+fam+1), newPoly(n, deg, deg+n+fam+2)}
		m := len(comps)
		F := func(y, x []float64) {
			for k, c := range comps {
				y[k] = c.eval(x)
				if poison && sameSlice(x, x0) {
					y[k] = math.NaN()
				}
			}
		}
		js := &fd.JacobianSettings{Formula: fm.f, Step: h, Concurrent: conc}
		if known {
			js.OriginValue = make([]float64, m)
			for k, c := range comps {
				js.OriginValue[k] = c.eval(x0)
			}
		}
		// dst is a window of a larger NaN-filled matrix: nothing outside it may be written.
		bigJ := mat.NewDense(m+2, n+3, poisoned((m+2)*(n+3)))
		jac := bigJ.Slice(1, 1+m, 2, 2+n).(*mat.Dense)
		fd.Jacobian(jac, F, xin, js)
		for i := 0; i < m+2; i++ {
			for j := 0; j < n+3; j++ {
				inside := i >= 1 && i < 1+m && j >= 2 && j < 2+n
				if !inside && !math.IsNaN(bigJ.At(i, j)) {
					t.Failf("Jacobian wrote outside its dst window at (%d,%d): %v", i-1, j-2, bigJ.At(i, j))
				}
			}
		}
		for k, c := range comps {
			row := mat.Row(nil, k, jac)
			wantRow := c.grad(x0)
			if deg <= fm.exact && !sameSlice(row, wantRow) {
				t.Failf("Jacobian deg=%d row %d = %v, want exactly %v", deg, k, row, wantRow)
			}
			// Mutual consistency (also in the inexact class: all operations are exact on dyadic data).
			gr := fd.Gradient(nil, guardedF(c, x0, poison), xin, settingsFor(fm, h, known, conc, c.eval(x0)))
			if !sameSlice(row, gr) {
				t.Failf("Jacobian deg=%d row %d = %v differs from Gradient of the component %v", deg, k, row, gr)
			}
		}
		if !sameSlice(xin, x0) {
			t.Failf("Jacobian modified x: %v", xin)
		}
		t.Count("fd_evaluations", 1)

		// Hessian: Forward/Backward exact for total degree <= 2, Central for <= 3.
		hexact := deg <= fm.exact+1
		wantH := p.hess(x0)
		var bigH, reused *mat.SymDense
		for variant := 0; variant < 4; variant++ {
			var dst *mat.SymDense
			switch variant {
			case 0: // empty receiver
				dst = &mat.SymDense{}
			case 1: // NaN-filled receiver of the right size
				dst = mat.NewSymDense(n, poisoned(n*n))
				reused = dst
			case 2: // the receiver of the previous call, holding its result
				dst = reused
			case 3: // a window of a larger NaN-filled matrix
				bigH = mat.NewSymDense(n+2, poisoned((n+2)*(n+2)))
				dst = bigH.SliceSym(1, 1+n).(*mat.SymDense)
			}
			fd.Hessian(dst, f, xin, settingsFor(fm, h, known, conc, p.eval(x0)))
			if variant == 3 {
				for i := 0; i < n+2; i++ {
					for j := i; j < n+2; j++ {
						inside := i >= 1 && i < 1+n && j >= 1 && j < 1+n
						if !inside && !math.IsNaN(bigH.At(i, j)) {
							t.Failf("Hessian wrote outside its dst window at (%d,%d): %v", i-1, j-1, bigH.At(i, j))
						}
					}
				}
			}
			if r, _ := dst.Dims(); r != n {
				t.Failf("Hessian dst has dimension %d, want %d", r, n)
				continue
			}
			eq := true
			for i := 0; i < n; i++ {
				for j := 0; j < n; j++ {
					if !sameVal(dst.At(i, j), wantH[i][j]) {
						eq = false
					}
				}
			}
			if hexact && !eq {
				t.Failf("Hessian deg=%d = %v, want exactly %v", deg, mat.Formatted(dst), wantH)
			}
			if !hexact && eq {
				t.Failf("vacuity guard: Hessian with %s is exact on degree %d", fm.name, deg)
			}
		}
		if !sameSlice(xin, x0) {
			t.Failf("Hessian modified x: %v", xin)
		}
		t.Count("fd_evaluations", 4)

		// CrossLaplacian of a polynomial in (x,y): sum_i d2/dx_i dy_i = sum_i H[i][n+i].
		pz := newPoly(2*n, deg, deg+n+fam+3)
		z0 := fdPoint(2*n, pv)
		xa := append([]float64(nil), z0[:n]...)
		ya := append([]float64(nil), z0[n:]...)
		fz := func(x, y []float64) float64 {
			if poison && sameSlice(x, z0[:n]) && sameSlice(y, z0[n:]) {
				return math.NaN()
			}
			z := append(append([]float64(nil), x...), y...)
			return pz.eval(z)
		}
		hz := pz.hess(z0)
		wantCL := 0.0
		for i := 0; i < n; i++ {
			wantCL += hz[i][n+i]
		}
		gotCL := fd.CrossLaplacian(fz, xa, ya, settingsFor(fm, h, known, conc, pz.eval(z0)))
		if hexact && !sameVal(gotCL, wantCL) {
			t.Failf("CrossLaplacian deg=%d = %v, want exactly %v", deg, gotCL, wantCL)
		}
		if !hexact && sameVal(gotCL, wantCL) {
			t.Failf("vacuity guard: CrossLaplacian with %s is exact on degree %d", fm.name, deg)
		}
		if !sameSlice(xa, z0[:n]) || !sameSlice(ya, z0[n:]) {
			t.Failf("CrossLaplacian modified its inputs")
		}
		t.Count("fd_evaluations", 1)
	}
}

// fdLaplacianCase checks Laplacian with an order-2 formula against the trace of the analytic
// Hessian and against the trace of fd.Hessian (Central, which is exact up to degree 3).
func fdLaplacianCase(t *vlib.T, n int, fm fdFormula, h float64, known, conc bool) {
	for fam := 0; fam < 8; fam++ {
		for pv := 0; pv < 2; pv++ {
			fdLaplacianFamily(t, n, fm, h, known, conc, 7*fam, pv)
		}
	}
}

func fdLaplacianFamily(t *vlib.T, n int, fm fdFormula, h float64, known, conc bool, fam, pv int) {
	x0 := fdPoint(n, pv)
	for deg := 1; deg <= 3; deg++ {
		p := newPoly(n, deg, deg+n+fam)
		f := guardedF(p, x0, known && usesOrigin(fm.f))
		xin := append([]float64(nil), x0...)
		wantH := p.hess(x0)
		want := 0.0
		for i := 0; i < n; i++ {
			want += wantH[i][i]
		}
		got := fd.Laplacian(f, xin, settingsFor(fm, h, known, conc, p.eval(x0)))
		exact := deg <= fm.exact
		if exact && !sameVal(got, want) {
			t.Failf("Laplacian deg=%d = %v, want exactly %v", deg, got, want)
		}
		if !exact && sameVal(got, want) {
			t.Failf("vacuity guard: Laplacian with %s is exact on degree %d", fm.name, deg)
		}
		if !sameSlice(xin, x0) {
			t.Failf("Laplacian modified x: %v", xin)
		}
		if exact {
			var hs mat.SymDense
			fd.Hessian(&hs, p.eval, xin, &fd.Settings{Formula: fd.Central, Step: h, Concurrent: conc})
			if tr := mat.Trace(&hs); !sameVal(tr, got) {
				t.Failf("Laplacian deg=%d = %v differs from the trace of fd.Hessian %v", deg, got, tr)
			}
		}
		t.Count("fd_evaluations", 1)
	}
}

func fdPanics(t *vlib.T) {
	t.Nontrivial()
	f := func(x []float64) float64 { return x[0] }
	f2 := func(x, y []float64) float64 { return x[0] * y[0] }
	F := func(y, x []float64) { y[0] = x[0] }
	x := []float64{1, 2}
	order1 := &fd.Settings{Formula: fd.Central, Step: 1}
	order2 := &fd.Settings{Formula: fd.Central2nd, Step: 1}
	calls := []struct {
		name string
		f    func()
	}{
		{"Gradient len(dst) != len(x)", func() { fd.Gradient(make([]float64, 3), f, x, order1) }},
		{"Gradient with a second-derivative formula", func() { fd.Gradient(nil, f, x, order2) }},
		{"Jacobian column count != len(x)", func() { fd.Jacobian(mat.NewDense(1, 3, nil), F, x, nil) }},
		{"Jacobian with a second-derivative formula", func() {
			fd.Jacobian(mat.NewDense(1, 2, nil), F, x, &fd.JacobianSettings{Formula: fd.Central2nd, Step: 1})
		}},
		{"Hessian dst size mismatch", func() { fd.Hessian(mat.NewSymDense(3, nil), f, x, order1) }},
		{"Hessian with a second-derivative formula", func() { fd.Hessian(&mat.SymDense{}, f, x, order2) }},
		{"Laplacian with a first-derivative formula", func() { fd.Laplacian(f, x, order1) }},
		{"CrossLaplacian length mismatch", func() { fd.CrossLaplacian(f2, x, []float64{1}, order1) }},
		{"CrossLaplacian with a second-derivative formula", func() { fd.CrossLaplacian(f2, x, x, order2) }},
	}
	for _, c := range calls {
		if _, p := catch(c.f); !p {
			t.Failf("%s: no panic", c.name)
		}
	}
	// Defaults: nil settings give finite answers close to the analytic ones.
	q := newPoly(2, 2, 1)
	x0 := []float64{1, -2}
	g := fd.Gradient(nil, q.eval, x0, nil)
	wg := q.grad(x0)
	for i := range g {
		if math.Abs(g[i]-wg[i]) > 1e-5 {
			t.Failf("Gradient with nil settings = %v, want about %v", g, wg)
		}
	}
	if l, w := fd.Laplacian(q.eval, x0, nil), q.hess(x0)[0][0]+q.hess(x0)[1][1]; math.Abs(l-w) > 1e-4 {
		t.Failf("Laplacian with nil settings = %v, want about %v", l, w)
	}
}

// Scribbling callbacks: the functions copy x "in case it is modified during the call" (source
// comments in diff/fd); f overwrites its argument after reading it.
func genFDScribble(g *vlib.G) {
	for _, api := range []string{"Gradient", "Jacobian", "Hessian", "Laplacian", "CrossLaplacian"} {
		for _, fm := range fdFormulas {
			if (api == "Laplacian") != (fm.order == 2) {
				continue
			}
			for _, known := range []bool{false, true} {
				for _, conc := range []bool{false, true} {
					api, fm, known, conc := api, fm, known, conc
					g.Case(fmt.Sprintf("%s %s originKnown=%v concurrent=%v", api, fm.name, known, conc), func(t *vlib.T) {
						defer withProcs(conc)()
						t.Nontrivial()
						n := 3
						x0 := fdPoint(n, 1)
						p := newPoly(n, 2, 5)
						scribble := func(x []float64) float64 {
							v := p.eval(x)
							for i := range x {
								x[i] = math.NaN()
							}
							return v
						}
						s := &fd.Settings{Formula: fm.f, Step: 1, OriginKnown: known, OriginValue: p.eval(x0), Concurrent: conc}
						ref := &fd.Settings{Formula: fm.f, Step: 1, OriginKnown: known, OriginValue: p.eval(x0), Concurrent: conc}
						xin := append([]float64(nil), x0...)
						yin := append([]float64(nil), x0...)
						var got, want []float64
						switch api {
						case "Gradient":
							got = fd.Gradient(nil, scribble, xin, s)
							want = fd.Gradient(nil, p.eval, x0, ref)
						case "Jacobian":
							js := &fd.JacobianSettings{Formula: fm.f, Step: 1, Concurrent: conc}
							if known {
								js.OriginValue = []float64{p.eval(x0)}
							}
							a, b := mat.NewDense(1, n, nil), mat.NewDense(1, n, nil)
							fd.Jacobian(a, func(y, x []float64) { y[0] = scribble(x) }, xin, js)
							fd.Jacobian(b, func(y, x []float64) { y[0] = p.eval(x) }, x0, js)
							got, want = a.RawMatrix().Data, b.RawMatrix().Data
						case "Hessian":
							var a, b mat.SymDense
							fd.Hessian(&a, scribble, xin, s)
							fd.Hessian(&b, p.eval, x0, ref)
							got, want = a.RawSymmetric().Data, b.RawSymmetric().Data
						case "Laplacian":
							got = []float64{fd.Laplacian(scribble, xin, s)}
							want = []float64{fd.Laplacian(p.eval, x0, ref)}
						case "CrossLaplacian":
							f2 := func(x, y []float64) float64 { return p.eval(x) * (1 + y[0]*x[0] + y[1]*x[1] + y[2]*x[2]) }
							s.OriginValue = f2(x0, x0)
							ref.OriginValue = s.OriginValue
							got = []float64{fd.CrossLaplacian(func(x, y []float64) float64 {
								v := f2(x, y)
								for i := range x {
									x[i], y[i] = math.NaN(), math.NaN()
								}
								return v
							}, xin, yin, s)}
							want = []float64{fd.CrossLaplacian(f2, x0, x0, ref)}
						}
						bad := !sameSlice(got, want) || !sameSlice(xin, x0) || !sameSlice(yin, x0)
						suspect := (api == "Hessian" || api == "Laplacian" || api == "CrossLaplacian") && !conc && !known && usesOrigin(fm.f)
						t.Outcome(fmt.Sprintf("%s origin-evaluated-serially=%v", api, suspect))
						if bad && suspect {
							t.FailClass("fd-serial-origin-eval-on-callers-x", "%s (serial, origin in the stencil, OriginKnown=false) evaluates f on the caller's x instead of its copy: result %v want %v, x after the call %v (was %v)", api, got, want, xin, x0)
						} else if bad {
							t.Failf("%s with a callback that overwrites its argument: result %v want %v, x after the call %v (was %v)", api, got, want, xin, x0)
						}
					})
				}
			}
		}
	}
}
