package main

import (
	"fmt"
	"math"
	"math/cmplx"

	"gonum.org/v1/gonum/internal/verif/vlib"
	"gonum.org/v1/gonum/num/dual"
	"gonum.org/v1/gonum/num/dualcmplx"
	"gonum.org/v1/gonum/num/dualquat"
	"gonum.org/v1/gonum/num/hyperdual"
	"gonum.org/v1/gonum/num/quat"
)

// Tolerances for the elementary functions: the real part is the math function itself
// (a few ulps), the dual parts are products of math functions (stated bounds, the
// defects hunted are wrong formulas with O(1) relative error).
const (
	tolFuncReal  = 4e-15
	tolFuncDual  = 1e-13
	tolFuncDual2 = 1e-12
	tolQuatFunc  = 2e-13
)

type elemFn struct {
	name   string
	f      func(float64) float64
	d1, d2 func(float64) float64
	dom    func(float64) bool // interior of the domain, away from singular points
	du     func(dual.Number) dual.Number
	hd     func(hyperdual.Number) hyperdual.Number
}

func sq(x float64) float64 { return x * x }

func powFn(p float64) elemFn {
	return elemFn{
		name: fmt.Sprintf("PowReal(%g)", p),
		f:    func(x float64) float64 { return math.Pow(x, p) },
		d1:   func(x float64) float64 { return p * math.Pow(x, p-1) },
		d2:   func(x float64) float64 { return p * (p - 1) * math.Pow(x, p-2) },
		dom: func(x float64) bool {
			if p == math.Trunc(p) {
				return x != 0
			}
			return x > 0
		},
		du: func(d dual.Number) dual.Number { return dual.PowReal(d, p) },
		hd: func(d hyperdual.Number) hyperdual.Number { return hyperdual.PowReal(d, p) },
	}
}

func elemFns() []elemFn {
	all := func(float64) bool { return true }
	pos := func(x float64) bool { return x > 0 }
	unit := func(x float64) bool { return math.Abs(x) < 1 }
	fns := []elemFn{
		{"Exp", math.Exp, math.Exp, math.Exp, all, dual.Exp, hyperdual.Exp},
		{"Log", math.Log, func(x float64) float64 { return 1 / x }, func(x float64) float64 { return -1 / (x * x) }, pos, dual.Log, hyperdual.Log},
		{"Sin", math.Sin, math.Cos, func(x float64) float64 { return -math.Sin(x) }, all, dual.Sin, hyperdual.Sin},
		{"Cos", math.Cos, func(x float64) float64 { return -math.Sin(x) }, func(x float64) float64 { return -math.Cos(x) }, all, dual.Cos, hyperdual.Cos},
		{"Tan", math.Tan, func(x float64) float64 { return 1 / sq(math.Cos(x)) }, func(x float64) float64 { return 2 * math.Tan(x) / sq(math.Cos(x)) }, all, dual.Tan, hyperdual.Tan},
		{"Asin", math.Asin, func(x float64) float64 { return 1 / math.Sqrt(1-x*x) }, func(x float64) float64 { return x / math.Pow(1-x*x, 1.5) }, unit, dual.Asin, hyperdual.Asin},
		{"Acos", math.Acos, func(x float64) float64 { return -1 / math.Sqrt(1-x*x) }, func(x float64) float64 { return -x / math.Pow(1-x*x, 1.5) }, unit, dual.Acos, hyperdual.Acos},
		{"Atan", math.Atan, func(x float64) float64 { return 1 / (1 + x*x) }, func(x float64) float64 { return -2 * x / sq(1+x*x) }, all, dual.Atan, hyperdual.Atan},
		{"Sinh", math.Sinh, math.Cosh, math.Sinh, all, dual.Sinh, hyperdual.Sinh},
		{"Cosh", math.Cosh, math.Sinh, math.Cosh, all, dual.Cosh, hyperdual.Cosh},
		{"Tanh", math.Tanh, func(x float64) float64 { return 1 / sq(math.Cosh(x)) }, func(x float64) float64 { return -2 * math.Tanh(x) / sq(math.Cosh(x)) }, all, dual.Tanh, hyperdual.Tanh},
		{"Asinh", math.Asinh, func(x float64) float64 { return 1 / math.Sqrt(x*x+1) }, func(x float64) float64 { return -x / math.Pow(x*x+1, 1.5) }, all, dual.Asinh, hyperdual.Asinh},
		{"Acosh", math.Acosh, func(x float64) float64 { return 1 / math.Sqrt(x*x-1) }, func(x float64) float64 { return -x / math.Pow(x*x-1, 1.5) }, func(x float64) bool { return x > 1 }, dual.Acosh, hyperdual.Acosh},
		{"Atanh", math.Atanh, func(x float64) float64 { return 1 / (1 - x*x) }, func(x float64) float64 { return 2 * x / sq(1-x*x) }, unit, dual.Atanh, hyperdual.Atanh},
		{"Sqrt", math.Sqrt, func(x float64) float64 { return 0.5 / math.Sqrt(x) }, func(x float64) float64 { return -0.25 / (x * math.Sqrt(x)) }, pos, dual.Sqrt, hyperdual.Sqrt},
		{"Inv", func(x float64) float64 { return 1 / x }, func(x float64) float64 { return -1 / (x * x) }, func(x float64) float64 { return 2 / (x * x * x) }, func(x float64) bool { return x != 0 }, dual.Inv, hyperdual.Inv},
	}
	for _, p := range []float64{2, 3, -1, 0.5, 1.5, -2.5} {
		fns = append(fns, powFn(p))
	}
	return fns
}

// funcGrid: every multiple of 1/8 in [-3,3] (the domain predicate of each function removes its
// singular points) plus a few non-dyadic values.
var funcGrid = func() []float64 {
	var g []float64
	for k := -24; k <= 24; k++ {
		g = append(g, float64(k)/8)
	}
	return append(g, -0.1, 0.1, 0.3, -0.7, 1.1, 2.2, -2.9)
}()

// gridFor returns the value grid of a function: funcGrid plus the magnitude ladder (both signs), so
// that any range split inside an implementation has points on both sides and the dual parts are
// checked RELATIVE to their exact values at tiny and at large arguments too. Excluded, see NOTES.md:
// arguments where f, f' or f” leaves [1e-280, 1e280] (overflow/underflow of the reference itself),
// Tanh beyond 3 (1-tanh^2 cancels). PowReal and Sqrt below 1e-15 hit the finding
// powreal-small-base-derivative (the derivative is evaluated at +-1e-15 instead of x).
func gridFor(fn elemFn) []float64 {
	g := append([]float64(nil), funcGrid...)
	inRange := func(v float64) bool { a := math.Abs(v); return a >= 1e-280 && a <= 1e280 }
	for _, m := range magnitudeLadder {
		for _, x := range []float64{m, -m} {
			if m < 1e-300 || !fn.dom(x) || !inRange(fn.f(x)) || !inRange(fn.d1(x)) || !inRange(fn.d2(x)) {
				continue
			}
			if fn.name == "Tanh" && m > 3 {
				continue
			}
			g = append(g, x)
		}
	}
	return g
}

// smallPowBase reports the arguments of the known finding powreal-small-base-derivative.
func smallPowBase(fn elemFn, x float64) bool {
	return x != 0 && math.Abs(x) < 1e-15 && (fn.name == "Sqrt" || len(fn.name) > 7 && fn.name[:7] == "PowReal")
}

var specialReals = []float64{0, math.Copysign(0, -1), 1, -1, math.Inf(1), math.Inf(-1), math.NaN()}

// dual seeds: (e) and (e1, e2, e12) are chosen pairwise different so that a mixed-up component is visible.
var dualSeeds = []float64{1, -2, 0.5, 3, -0.125}
var hyperSeeds = [][3]float64{{1, 1, 0}, {2, 3, 5}, {-1, 0.5, -2}, {0, 1, 0}, {1, 0, 3}, {0.25, -4, -0.5}}

func genDualFuncs(g *vlib.G) {
	for _, fn := range elemFns() {
		fn := fn
		g.Case("dual "+fn.name, func(t *vlib.T) {
			t.Nontrivial()
			n := 0
			smallReported := false
			for _, x := range gridFor(fn) {
				if !fn.dom(x) {
					continue
				}
				for _, e := range dualSeeds {
					got := fn.du(dual.Number{Real: x, Emag: e})
					if !closeTo(got.Real, fn.f(x), tolFuncReal, 0) {
						t.Failf("%s(%v+%vϵ).Real=%v want %v", fn.name, x, e, got.Real, fn.f(x))
					}
					if want := fn.d1(x) * e; !closeTo(got.Emag, want, tolFuncDual, 0) {
						if smallPowBase(fn, x) {
							if !smallReported {
								smallReported = true
								t.SubViolation("small-base", "powreal-small-base-derivative", nil, "%s(%v+%vϵ).Emag=%v want f'(x)*e=%v: for 0 < |x| < 1e-15 the derivative is evaluated at +-1e-15", fn.name, x, e, got.Emag, want)
							}
							continue
						}
						t.Failf("%s(%v+%vϵ).Emag=%v want f'(x)*e=%v", fn.name, x, e, got.Emag, want)
					}
					n++
				}
			}
			// Real part at the special points: the same as the math function.
			for _, x := range specialReals {
				got := fn.du(dual.Number{Real: x, Emag: 1})
				if want := fn.f(x); !sameBits(got.Real, want) {
					t.Failf("%s(%v+1ϵ).Real=%v want %v", fn.name, x, got.Real, want)
				}
			}
			t.Count("function_points", int64(n))
			t.Outcome(fmt.Sprintf("points=%d", n))
		})
	}
	g.Case("dual documented special cases", func(t *vlib.T) { dualSpecials(t) })
	g.Case("dual Pow", func(t *vlib.T) {
		t.Nontrivial()
		for _, x := range []float64{0.25, 0.5, 1.5, 2, 3} {
			for _, y := range []float64{-2, -0.5, 0.5, 1.5, 3} {
				for _, e := range dualSeeds {
					for _, ey := range []float64{0, 1, -0.5} {
						got := dual.Pow(dual.Number{Real: x, Emag: e}, dual.Number{Real: y, Emag: ey})
						p := math.Pow(x, y)
						want := p * (y/x*e + math.Log(x)*ey)
						if !closeTo(got.Real, p, 1e-14, 0) || math.Abs(got.Emag-want) > tolFuncDual*(math.Abs(p*y/x*e)+math.Abs(p*math.Log(x)*ey)) {
							t.Failf("Pow(%v+%vϵ, %v+%vϵ)=%v want %v+%vϵ", x, e, y, ey, got, p, want)
						}
					}
				}
			}
		}
	})
}

type dualSpecial struct {
	fn         string
	x, e       float64
	real, emag float64
}

func dualSpecials(t *vlib.T) {
	t.Nontrivial()
	inf, nz := math.Inf(1), math.Copysign(0, -1)
	tab := []dualSpecial{
		{"Inv", inf, 1, 0, 0}, {"Inv", -inf, 1, nz, 0}, {"Inv", 0, 1, inf, -inf}, {"Inv", nz, 1, -inf, -inf},
		{"Sqrt", 0, 1, 0, inf}, {"Sqrt", nz, 1, nz, inf}, {"Sqrt", inf, 1, inf, math.NaN()},
		{"Log", inf, 1, inf, 0}, {"Log", 0, 1, -inf, inf}, {"Log", nz, 1, -inf, -inf},
		{"Asin", 1, 1, math.Pi / 2, inf}, {"Asin", -1, 1, -math.Pi / 2, inf},
		{"Acos", -1, 1, math.Pi, -inf}, {"Acos", 1, 1, 0, -inf},
		{"Atan", inf, 1, math.Pi / 2, 0}, {"Atan", -inf, 1, -math.Pi / 2, 0},
		{"Tanh", inf, 1, 1, 0}, {"Tanh", -inf, 1, -1, 0},
		{"Acosh", 1, 1, 0, inf},
	}
	for _, name := range []string{"Sin", "Tan", "Asin", "Atan", "Sinh", "Tanh", "Asinh", "Atanh"} {
		for _, e := range dualSeeds {
			tab = append(tab, dualSpecial{name, 0, e, 0, e}, dualSpecial{name, nz, e, nz, e})
		}
	}
	byName := map[string]elemFn{}
	for _, fn := range elemFns() {
		byName[fn.name] = fn
	}
	for _, s := range tab {
		got := byName[s.fn].du(dual.Number{Real: s.x, Emag: s.e})
		okReal := sameBits(got.Real, s.real) || (s.real != 0 && closeTo(got.Real, s.real, tolFuncReal, 0))
		okE := sameVal(got.Emag, s.emag)
		if s.fn == "Sqrt" && math.IsInf(s.x, 1) {
			okE = true // documented only as Sqrt(+Inf) = +Inf
		}
		if !okReal || !okE {
			t.Failf("documented special case %s(%v+%vϵ)=%v, want %v%+vϵ", s.fn, s.x, s.e, got, s.real, s.emag)
		}
	}
	// PowReal, a subset of the documented table (in order).
	nan := math.NaN()
	type pr struct{ x, e, p, real, emag float64 }
	any := math.Float64frombits(0x7ff8_0000_0000_0bad) // marker: not checked
	isAny := func(v float64) bool { return math.Float64bits(v) == math.Float64bits(any) }
	prs := []pr{
		{nan, 2, 0, 1, nan}, {nan, 2, nz, 1, nan}, // PowReal(NaN+xϵ, ±0) = 1+NaNϵ
		{3, 2, 0, 1, 0}, {-2, 1, nz, 1, 0}, {0, 1, 0, 1, any}, {inf, 1, 0, 1, any}, // PowReal(x, ±0) = 1
		{1, 3, 2.5, 1, 7.5}, {1, -2, -3, 1, 6}, {1, 2, inf, 1, any}, // PowReal(1+xϵ, y) = 1+xyϵ
		{2.5, -3, 1, 2.5, -3}, {-4, 2, 1, -4, 2}, {inf, 2, 1, inf, any}, // PowReal(x, 1) = x
		{nan, 1, 2, nan, nan}, {2, 1, nan, nan, nan}, // NaN
		{0, 1, -3, inf, any}, {nz, 1, -3, -inf, any}, // ±0, odd y<0
		{0, 1, -inf, inf, any}, {nz, 1, -inf, inf, any}, {0, 1, inf, 0, any}, {nz, 1, inf, 0, any},
		{0, 1, -2, inf, any}, {nz, 1, -2.5, inf, any},
		{0, 1, 3, 0, any}, {nz, 1, 3, nz, any}, {0, 1, 2, 0, any}, {nz, 1, 2.5, 0, any},
		{-1, 1, inf, 1, any}, {-1, 1, -inf, 1, any},
		{2, 0, inf, inf, nan}, {-3, 1, inf, inf, any}, {2, 1, -inf, 0, nan}, {0.5, 1, inf, 0, nan},
		{0.5, 0, -inf, inf, nan}, {0.5, 1, -inf, inf, -inf},
		{inf, 1, 2, inf, any}, {inf, 1, -2, 0, any},
		{-2, 1, 0.5, nan, nan}, {-2, 1, -1.5, nan, nan},
	}
	for _, c := range prs {
		got := dual.PowReal(dual.Number{Real: c.x, Emag: c.e}, c.p)
		if !sameBits(got.Real, c.real) || (!isAny(c.emag) && !sameVal(got.Emag, c.emag)) {
			t.Failf("documented special case PowReal(%v+%vϵ, %v)=%v, want %v%+vϵ", c.x, c.e, c.p, got, c.real, c.emag)
		}
	}
}

func genHyperdualFuncs(g *vlib.G) {
	for _, fn := range elemFns() {
		fn := fn
		g.Case("hyperdual "+fn.name, func(t *vlib.T) {
			t.Nontrivial()
			n := 0
			smallReported := false
			for _, x := range gridFor(fn) {
				if !fn.dom(x) {
					continue
				}
				for _, s := range hyperSeeds {
					in := hyperdual.Number{Real: x, E1mag: s[0], E2mag: s[1], E1E2mag: s[2]}
					got := fn.hd(in)
					if !closeTo(got.Real, fn.f(x), tolFuncReal, 0) {
						t.Failf("%s(%v).Real=%v want %v", fn.name, in, got.Real, fn.f(x))
					}
					a, b := fn.d1(x)*s[2], fn.d2(x)*s[0]*s[1]
					okParts := closeTo(got.E1mag, fn.d1(x)*s[0], tolFuncDual, 0) && closeTo(got.E2mag, fn.d1(x)*s[1], tolFuncDual, 0) &&
						!(math.Abs(got.E1E2mag-(a+b)) > tolFuncDual2*(math.Abs(a)+math.Abs(b)))
					if !okParts && smallPowBase(fn, x) {
						if !smallReported {
							smallReported = true
							t.SubViolation("small-base", "powreal-small-base-derivative", nil, "%s(%v)=%v want dual parts %v, %v, %v: for 0 < |x| < 1e-15 the derivatives are evaluated at +-1e-15", fn.name, in, got, fn.d1(x)*s[0], fn.d1(x)*s[1], a+b)
						}
						continue
					}
					if want := fn.d1(x) * s[0]; !closeTo(got.E1mag, want, tolFuncDual, 0) {
						t.Failf("%s(%v).E1mag=%v want f'(x)*e1=%v", fn.name, in, got.E1mag, want)
					}
					if want := fn.d1(x) * s[1]; !closeTo(got.E2mag, want, tolFuncDual, 0) {
						t.Failf("%s(%v).E2mag=%v want f'(x)*e2=%v", fn.name, in, got.E2mag, want)
					}
					if math.Abs(got.E1E2mag-(a+b)) > tolFuncDual2*(math.Abs(a)+math.Abs(b)) {
						t.Failf("%s(%v).E1E2mag=%v want f'(x)*e12+f''(x)*e1*e2=%v", fn.name, in, got.E1E2mag, a+b)
					}
					n++
				}
			}
			for _, x := range specialReals {
				got := fn.hd(hyperdual.Number{Real: x, E1mag: 1, E2mag: 1})
				if want := fn.f(x); !sameBits(got.Real, want) {
					t.Failf("%s(%v+1ϵ₁+1ϵ₂).Real=%v want %v", fn.name, x, got.Real, want)
				}
			}
			// Real part exactly ±0 for the functions with f(0)=0, f'(0)=1, f''(0)=0: the
			// documentation lists (±0+Nϵ₁+Nϵ₂...), i.e. the dual parts pass through.
			reported := map[string]bool{}
			sub := func(name, class, format string, a ...any) {
				if !reported[class] { // one report per function and class
					reported[class] = true
					t.SubViolation(name, class, nil, format, a...)
				}
			}
			switch fn.name {
			case "Sin", "Tan", "Asin", "Atan", "Sinh", "Tanh", "Asinh", "Atanh":
				for _, x := range []float64{0, math.Copysign(0, -1)} {
					for _, s := range hyperSeeds {
						in := hyperdual.Number{Real: x, E1mag: s[0], E2mag: s[1], E1E2mag: s[2]}
						got := fn.hd(in)
						if !sameBits(got.Real, x) || !sameVal(got.E1mag, s[0]) {
							t.Failf("%s(%v)=%v, want real %v and E1mag %v", fn.name, in, got, x, s[0])
						}
						if !sameVal(got.E2mag, s[1]) {
							if fn.name == "Sinh" && sameVal(got.E2mag, s[0]) {
								sub("e2", "hyperdual-sinh-zero-real", "Sinh(%v)=%v: E2mag is a copy of the input's E1mag, want %v", in, got, s[1])
							} else {
								t.Failf("%s(%v)=%v, want E2mag %v", fn.name, in, got, s[1])
							}
						}
						if !sameVal(got.E1E2mag, s[2]) {
							if s[2] != 0 && got.E1E2mag == 0 {
								class := "hyperdual-zero-drops-e1e2mag"
								if fn.name == "Sinh" {
									class = "hyperdual-sinh-zero-real"
								}
								sub("e12", class, "%s(%v)=%v: the ϵ₁ϵ₂ part of the argument is dropped when the real part is zero, want f'(0)*e12+f''(0)*e1*e2=%v", fn.name, in, got, s[2])
							} else {
								t.Failf("%s(%v)=%v, want E1E2mag %v", fn.name, in, got, s[2])
							}
						}
					}
				}
			}
			t.Count("function_points", int64(n))
			t.Outcome(fmt.Sprintf("points=%d", n))
		})
	}
	g.Case("hyperdual documented special cases", func(t *vlib.T) { hyperdualSpecials(t) })
	g.Case("hyperdual composition", func(t *vlib.T) {
		// d2/dx2 of f(g(x)) through the chain rule carried by the numbers: sin(x^2), exp(x^3), tanh(x*x)
		// at points including x=0 where g(x)=0 but g''(x) != 0.
		t.Nontrivial()
		for _, x := range []float64{0, 0.5, -1.25} {
			v := hyperdual.Number{Real: x, E1mag: 1, E2mag: 1}
			x2 := hyperdual.Mul(v, v)
			type c struct {
				name    string
				got     hyperdual.Number
				f, d, s float64
			}
			cs := []c{
				{"Sin(x*x)", hyperdual.Sin(x2), math.Sin(x * x), 2 * x * math.Cos(x*x), 2*math.Cos(x*x) - 4*x*x*math.Sin(x*x)},
				{"Tanh(x*x)", hyperdual.Tanh(x2), math.Tanh(x * x), 2 * x / sq(math.Cosh(x*x)), 2/sq(math.Cosh(x*x)) - 8*x*x*math.Tanh(x*x)/sq(math.Cosh(x*x))},
				{"Exp(x*x)", hyperdual.Exp(x2), math.Exp(x * x), 2 * x * math.Exp(x*x), (2 + 4*x*x) * math.Exp(x*x)},
				{"Cos(x*x)", hyperdual.Cos(x2), math.Cos(x * x), -2 * x * math.Sin(x*x), -2*math.Sin(x*x) - 4*x*x*math.Cos(x*x)},
			}
			for _, k := range cs {
				ok := closeTo(k.got.Real, k.f, 1e-14, 1e-300) && closeTo(k.got.E1mag, k.d, tolFuncDual, 1e-300) && closeTo(k.got.E2mag, k.d, tolFuncDual, 1e-300) && math.Abs(k.got.E1E2mag-k.s) <= tolFuncDual2*(math.Abs(k.s)+4)
				if !ok {
					if x == 0 && (k.name == "Sin(x*x)" || k.name == "Tanh(x*x)") && k.got.E1E2mag == 0 {
						t.SubViolation(k.name, "hyperdual-zero-drops-e1e2mag", nil, "second derivative of %s at 0 through hyperdual numbers = %v, want %v", k.name, k.got.E1E2mag, k.s)
					} else {
						t.Failf("%s at x=%v = %v, want %v %v %v", k.name, x, k.got, k.f, k.d, k.s)
					}
				}
			}
		}
	})
}

func hyperdualSpecials(t *vlib.T) {
	t.Nontrivial()
	inf, nz := math.Inf(1), math.Copysign(0, -1)
	type hs struct {
		fn             string
		x              float64
		real, e1, e12  float64
		skipE1, skipE2 bool
	}
	tab := []hs{
		{"Inv", inf, 0, 0, 0, false, false}, {"Inv", -inf, nz, 0, 0, false, false},
		{"Inv", 0, inf, -inf, inf, false, false}, {"Inv", nz, -inf, -inf, -inf, false, false},
		{"Sqrt", 0, 0, inf, -inf, false, false}, {"Sqrt", nz, nz, inf, -inf, false, false},
		{"Log", inf, inf, 0, 0, false, false}, {"Log", 0, -inf, inf, -inf, false, false}, {"Log", nz, -inf, -inf, -inf, false, false},
		{"Asin", 1, math.Pi / 2, inf, inf, false, false}, {"Asin", -1, -math.Pi / 2, inf, -inf, false, false},
		{"Acos", -1, math.Pi, -inf, inf, false, false}, {"Acos", 1, 0, -inf, -inf, false, false},
		{"Atan", inf, math.Pi / 2, 0, 0, false, false}, {"Atan", -inf, -math.Pi / 2, 0, 0, false, false},
		{"Tanh", inf, 1, 0, 0, false, false}, {"Tanh", -inf, -1, 0, 0, false, false},
		{"Acosh", 1, 0, inf, -inf, false, false},
	}
	byName := map[string]elemFn{}
	for _, fn := range elemFns() {
		byName[fn.name] = fn
	}
	for _, s := range tab {
		got := byName[s.fn].hd(hyperdual.Number{Real: s.x, E1mag: 1, E2mag: 1})
		okReal := sameBits(got.Real, s.real) || (s.real != 0 && closeTo(got.Real, s.real, tolFuncReal, 0))
		if s.fn == "Atan" && math.IsInf(s.x, 0) && okReal && sameVal(got.E1mag, s.e1) && sameVal(got.E2mag, s.e1) && math.IsNaN(got.E1E2mag) {
			// Known finding: documented as (±Pi/2+0ϵ₁+0ϵ₂∓0ϵ₁ϵ₂), the general formula gives -2*Inf/Inf = NaN.
			t.SubViolation(fmt.Sprintf("Atan(%v)", s.x), "hyperdual-atan-inf-e1e2-nan", nil, "Atan(%v+1ϵ₁+1ϵ₂)=%v, documented ϵ₁ϵ₂ part is a zero", s.x, got)
			continue
		}
		if !okReal || !sameVal(got.E1mag, s.e1) || !sameVal(got.E2mag, s.e1) || !sameVal(got.E1E2mag, s.e12) {
			t.Failf("documented special case %s(%v+1ϵ₁+1ϵ₂)=%v, want (%v, %v, %v, %v)", s.fn, s.x, got, s.real, s.e1, s.e1, s.e12)
		}
	}
}

// ---- quaternion functions against math/cmplx in the plane spanned by 1 and the unit vector part ----

type quatFn struct {
	name string
	q    func(quat.Number) quat.Number
	c    func(complex128) complex128
	r    func(float64) float64
	skip func(w, v float64) bool // points on or next to a branch cut of the quaternion formula
}

func quatFns() []quatFn {
	none := func(w, v float64) bool { return false }
	return []quatFn{
		{"Exp", quat.Exp, cmplx.Exp, math.Exp, none},
		{"Log", quat.Log, cmplx.Log, math.Log, none},
		{"Sqrt", quat.Sqrt, cmplx.Sqrt, math.Sqrt, none},
		{"Sin", quat.Sin, cmplx.Sin, math.Sin, none},
		{"Sinh", quat.Sinh, cmplx.Sinh, math.Sinh, none},
		{"Cos", quat.Cos, cmplx.Cos, math.Cos, none},
		{"Cosh", quat.Cosh, cmplx.Cosh, math.Cosh, none},
		{"Tan", quat.Tan, cmplx.Tan, math.Tan, none},
		{"Tanh", quat.Tanh, cmplx.Tanh, math.Tanh, none},
		{"Asin", quat.Asin, cmplx.Asin, math.Asin, none},
		{"Asinh", quat.Asinh, cmplx.Asinh, math.Asinh, func(w, v float64) bool { return w == 0 && v >= 1 }},
		{"Acos", quat.Acos, cmplx.Acos, math.Acos, none},
		{"Acosh", quat.Acosh, cmplx.Acosh, math.Acosh, none},
		{"Atan", quat.Atan, cmplx.Atan, math.Atan, func(w, v float64) bool { return w == 0 && v >= 1 }},
		{"Atanh", quat.Atanh, cmplx.Atanh, math.Atanh, none},
	}
}

type unitVec struct {
	name    string
	i, j, k float64
}

var unitVecs = []unitVec{{"i", 1, 0, 0}, {"j", 0, 1, 0}, {"-k", 0, 0, -1}, {"(1,2,2)/3", 1. / 3, 2. / 3, 2. / 3}, {"(2,-3,6)/7", 2. / 7, -3. / 7, 6. / 7},
	{"-i", -1, 0, 0}, {"(-4,0,3)/5", -0.8, 0, 0.6}, {"(1,-4,-8)/9", 1. / 9, -4. / 9, -8. / 9}, {"(0,0.6,0.8)", 0, 0.6, 0.8}}

func fromPlane(z complex128, u unitVec) quat.Number {
	return quat.Number{Real: real(z), Imag: imag(z) * u.i, Jmag: imag(z) * u.j, Kmag: imag(z) * u.k}
}

func genQuatFuncs(g *vlib.G) {
	ws := []float64{-2.25, -2, -1.5, -1, -0.5, -0.25, 0, 0.25, 0.75, 1, 1.5, 2}
	vs := []float64{0.125, 0.25, 0.5, 1, 1.5, 2.5}
	for _, fn := range quatFns() {
		fn := fn
		g.Case("quat "+fn.name, func(t *vlib.T) {
			t.Nontrivial()
			n := 0
			for _, u := range unitVecs {
				for _, w := range ws {
					for _, v := range vs {
						if fn.skip(w, v) {
							continue
						}
						z := complex(w, v)
						q := fromPlane(z, u)
						got := fn.q(q)
						want := fromPlane(fn.c(z), u)
						if !qClose(got, want, tolQuatFunc) {
							t.Failf("%s(%v)=%v, want %v (cmplx.%s(%v) in the plane of %s)", fn.name, q, got, want, fn.name, z, u.name)
						}
						n++
					}
				}
			}
			// Real arguments inside the real domain: lift(math.f(w)).
			for _, w := range []float64{0.25, 0.5, 0.75} {
				got := fn.q(quat.Number{Real: w})
				if fn.name == "Acosh" {
					continue // the real domain of Acosh starts at 1
				}
				if !qClose(got, quat.Number{Real: fn.r(w)}, tolQuatFunc) {
					t.Failf("%s(%v)=%v, want %v", fn.name, w, got, fn.r(w))
				}
			}
			t.Count("function_points", int64(n))
			t.Outcome(fmt.Sprintf("points=%d", n))
		})
	}
	g.Case("quat identities", func(t *vlib.T) {
		t.Nontrivial()
		for _, q := range quatAlphabet([]float64{-1, 0, 0.5, 2}) {
			if q == (quat.Number{}) {
				continue
			}
			_, uv := q.Real, quat.Number{Imag: q.Imag, Jmag: q.Jmag, Kmag: q.Kmag}
			if uv == (quat.Number{}) && q.Real < 0 {
				continue // Log and Sqrt of a negative real are not unique in the quaternions (documented nowhere; don't care)
			}
			if e := quat.Exp(quat.Log(q)); !qClose(e, q, tolQuatFunc) {
				t.Failf("Exp(Log(q))=%v for q=%v", e, q)
			}
			if s := quat.Sqrt(q); !qClose(quat.Mul(s, s), q, tolQuatFunc) {
				t.Failf("Sqrt(q)^2=%v for q=%v", quat.Mul(s, s), q)
			}
			if p := quat.PowReal(q, 3); !qClose(p, quat.Mul(q, quat.Mul(q, q)), 4*tolQuatFunc) {
				t.Failf("PowReal(q,3)=%v, want q*q*q=%v for q=%v", p, quat.Mul(q, quat.Mul(q, q)), q)
			}
			if p := quat.PowReal(q, -1); !qClose(p, quat.Inv(q), tolQuatFunc) {
				t.Failf("PowReal(q,-1)=%v, want Inv(q)=%v for q=%v", p, quat.Inv(q), q)
			}
			if p := quat.Pow(q, quat.Number{Real: 2}); !qClose(p, quat.Mul(q, q), 4*tolQuatFunc) {
				t.Failf("Pow(q,2)=%v, want q*q=%v for q=%v", p, quat.Mul(q, q), q)
			}
		}
		// Documented special cases of Pow and PowReal.
		zero, one := quat.Number{}, quat.Number{Real: 1}
		inf := math.Inf(1)
		if p := quat.Pow(zero, zero); p != one {
			t.Failf("Pow(0,0)=%v want 1", p)
		}
		if p := quat.Pow(zero, quat.Number{Real: math.Copysign(0, -1)}); p != one {
			t.Failf("Pow(0,-0)=%v want 1", p)
		}
		if p := quat.Pow(zero, quat.Number{Real: -2}); p != (quat.Number{Real: inf}) {
			t.Failf("Pow(0,-2)=%v want Inf+0i+0j+0k", p)
		}
		if p := quat.Pow(zero, quat.Number{Real: -2, Jmag: 1}); p != quat.Inf() {
			t.Failf("Pow(0,-2+j)=%v want Inf+Inf i+Inf j+Inf k", p)
		}
		if p := quat.PowReal(zero, 0); p != one {
			t.Failf("PowReal(0,0)=%v want 1", p)
		}
		if p := quat.PowReal(zero, math.Copysign(0, -1)); p != one {
			t.Failf("PowReal(0,-0)=%v want 1", p)
		}
	})
}

// ---- dual quaternions and dual complex numbers: power-series and identity oracles ----

func qMulRef(x, y quat.Number) quat.Number {
	return quat.Number{
		Real: x.Real*y.Real - x.Imag*y.Imag - x.Jmag*y.Jmag - x.Kmag*y.Kmag,
		Imag: x.Real*y.Imag + x.Imag*y.Real + x.Jmag*y.Kmag - x.Kmag*y.Jmag,
		Jmag: x.Real*y.Jmag + x.Jmag*y.Real + x.Kmag*y.Imag - x.Imag*y.Kmag,
		Kmag: x.Real*y.Kmag + x.Kmag*y.Real + x.Imag*y.Jmag - x.Jmag*y.Imag,
	}
}

func qAddRef(x, y quat.Number) quat.Number {
	return quat.Number{Real: x.Real + y.Real, Imag: x.Imag + y.Imag, Jmag: x.Jmag + y.Jmag, Kmag: x.Kmag + y.Kmag}
}

func qScaleRef(f float64, x quat.Number) quat.Number {
	return quat.Number{Real: f * x.Real, Imag: f * x.Imag, Jmag: f * x.Jmag, Kmag: f * x.Kmag}
}

func dqMulRef(x, y dualquat.Number) dualquat.Number {
	return dualquat.Number{Real: qMulRef(x.Real, y.Real), Dual: qAddRef(qMulRef(x.Real, y.Dual), qMulRef(x.Dual, y.Real))}
}

// dqExpSeries sums x^n/n! (|x| is at most about 3 on the grid; 60 terms).
func dqExpSeries(x dualquat.Number) dualquat.Number {
	sum := dualquat.Number{Real: quat.Number{Real: 1}}
	term := sum
	for n := 1; n <= 60; n++ {
		term = dqMulRef(term, x)
		term = dualquat.Number{Real: qScaleRef(1/float64(n), term.Real), Dual: qScaleRef(1/float64(n), term.Dual)}
		sum = dualquat.Number{Real: qAddRef(sum.Real, term.Real), Dual: qAddRef(sum.Dual, term.Dual)}
	}
	return sum
}

func dqClose(a, b dualquat.Number, tol float64) bool {
	s := math.Max(1, quat.Abs(b.Real)+quat.Abs(b.Dual))
	return quat.Abs(quat.Sub(a.Real, b.Real))+quat.Abs(quat.Sub(a.Dual, b.Dual)) <= tol*s
}

func genDualquatFuncs(g *vlib.G) {
	reals := []quat.Number{{Real: 1.5}, {Real: 0.5, Imag: 1}, {Real: -0.5, Jmag: 0.75}, {Real: 1, Imag: 0.5, Jmag: -0.5, Kmag: 0.25}, {Imag: 1}, {Real: 2, Kmag: -1},
		{Real: 0.25}, {Real: 1, Imag: 1, Jmag: 1, Kmag: 1}, {Real: -1, Jmag: 0.5, Kmag: 0.5}, {Real: 0.75, Imag: -1.5}, {Jmag: -1.25}, {Real: 1.25, Imag: 0.25, Kmag: -0.75}}
	duals := []quat.Number{{}, {Real: 1}, {Imag: 1}, {Jmag: 1}, {Real: 0.5, Imag: -1, Kmag: 0.5},
		{Kmag: -2}, {Real: -1.5}, {Real: 1, Imag: 1, Jmag: 1, Kmag: 1}, {Imag: 0.5, Jmag: -0.5}, {Real: 2, Kmag: 0.25}}
	for ri, r := range reals {
		for di, d := range duals {
			x := dualquat.Number{Real: r, Dual: d}
			g.Case(fmt.Sprintf("dualquat x=%d,%d", ri, di), func(t *vlib.T) {
				t.Nontrivial()
				commuting := qClose(qMulRef(x.Real, x.Dual), qMulRef(x.Dual, x.Real), 0)
				t.Outcome(fmt.Sprintf("commuting=%v", commuting))
				var broken []string
				report := func(sub string, format string, a ...any) {
					if commuting {
						t.Failf(format, a...)
					} else {
						broken = append(broken, fmt.Sprintf(format, a...))
					}
				}
				defer func() {
					// One report per argument for the known finding (the first message plus the count).
					if len(broken) > 0 {
						t.SubViolation("noncommuting", "dualquat-functions-noncommuting", broken, "%d of the identities fail for an argument whose real and dual part do not commute; first: %s", len(broken), broken[0])
					}
				}()
				const tol = 1e-12
				if got, want := dualquat.Exp(x), dqExpSeries(x); !dqClose(got, want, tol) {
					report("exp", "Exp(%v)=%v, power series gives %v", x, got, want)
				}
				if l := dualquat.Log(x); !dqClose(dqExpSeries(l), x, tol) {
					report("log", "exp(Log(x))=%v for x=%v (Log(x)=%v)", dqExpSeries(l), x, l)
				}
				if s := dualquat.Sqrt(x); !dqClose(dqMulRef(s, s), x, tol) {
					report("sqrt", "Sqrt(x)^2=%v for x=%v (Sqrt(x)=%v)", dqMulRef(s, s), x, s)
				}
				if p, want := dualquat.PowReal(x, 2), dqMulRef(x, x); !dqClose(p, want, tol) {
					report("pow2", "PowReal(x,2)=%v, want x*x=%v for x=%v", p, want, x)
				}
				if p, want := dualquat.PowReal(x, 3), dqMulRef(x, dqMulRef(x, x)); !dqClose(p, want, tol) {
					report("pow3", "PowReal(x,3)=%v, want x*x*x=%v for x=%v", p, want, x)
				}
				if p := dualquat.PowReal(x, -1); !dqClose(dqMulRef(p, x), dualquat.Number{Real: quat.Number{Real: 1}}, tol) {
					report("pow-1", "PowReal(x,-1)*x=%v for x=%v", dqMulRef(p, x), x)
				}
				if p := dualquat.PowReal(x, 1); !dqEq(p, x) {
					t.Failf("PowReal(x,1)=%v want x=%v", p, x)
				}
				if p := dualquat.PowReal(x, 0); !dqClose(p, dualquat.Number{Real: quat.Number{Real: 1}}, tol) {
					t.Failf("PowReal(x,0)=%v want 1", p)
				}
			})
		}
	}
}

func dcExpSeries(x dualcmplx.Number) dualcmplx.Number {
	sum := dualcmplx.Number{Real: 1}
	term := sum
	for n := 1; n <= 60; n++ {
		term = dcMulRef(term, x)
		term = dualcmplx.Number{Real: term.Real / complex(float64(n), 0), Dual: term.Dual / complex(float64(n), 0)}
		sum = dualcmplx.Number{Real: sum.Real + term.Real, Dual: sum.Dual + term.Dual}
	}
	return sum
}

func genDualcmplxFuncs(g *vlib.G) {
	reals := []complex128{1.5, 0.5 + 1i, -0.5 + 0.75i, 1 - 2i, 1i, 2, -1.5 - 0.5i, 0.25, -1i, 1 + 1i, 0.75 - 0.25i, -0.25 + 2i, 3, 0.125 + 0.125i, -2 + 1i, 1.25 + 1.5i}
	duals := []complex128{0, 1, 1i, 0.5 - 1i, -2 + 0.5i, -1, -1i, 3 + 2i, 0.25, -0.5 - 0.5i}
	for _, r := range reals {
		for _, d := range duals {
			x := dualcmplx.Number{Real: r, Dual: d}
			g.Case(fmt.Sprintf("dualcmplx x=%v", x), func(t *vlib.T) {
				t.Nontrivial()
				t.Outcome(fmt.Sprintf("real-axis=%v", imag(x.Real) == 0))
				const tol = 1e-12
				one := dualcmplx.Number{Real: 1}
				if got, want := dualcmplx.Exp(x), dcExpSeries(x); !dcClose(got, want, tol) {
					t.Failf("Exp(%v)=%v, power series gives %v", x, got, want)
				}
				if l := dualcmplx.Log(x); !dcClose(dcExpSeries(l), x, tol) {
					t.Failf("exp(Log(x))=%v for x=%v (Log(x)=%v)", dcExpSeries(l), x, l)
				}
				if s := dualcmplx.Sqrt(x); !dcClose(dcMulRef(s, s), x, tol) {
					t.Failf("Sqrt(x)^2=%v for x=%v (Sqrt(x)=%v)", dcMulRef(s, s), x, s)
				}
				if p, want := dualcmplx.PowReal(x, 2), dcMulRef(x, x); !dcClose(p, want, tol) {
					t.Failf("PowReal(x,2)=%v, want x*x=%v for x=%v", p, want, x)
				}
				if p, want := dualcmplx.PowReal(x, 3), dcMulRef(x, dcMulRef(x, x)); !dcClose(p, want, tol) {
					t.Failf("PowReal(x,3)=%v, want x*x*x=%v for x=%v", p, want, x)
				}
				if p := dualcmplx.PowReal(x, -1); !dcClose(dcMulRef(p, x), one, tol) {
					t.Failf("PowReal(x,-1)*x=%v for x=%v", dcMulRef(p, x), x)
				}
				if p := dualcmplx.PowReal(x, 1); !dcEq(p, x) {
					t.Failf("PowReal(x,1)=%v want x=%v", p, x)
				}
				if p := dualcmplx.Pow(x, dualcmplx.Number{Real: 2}); !dcClose(p, dcMulRef(x, x), tol) {
					t.Failf("Pow(x,2)=%v, want x*x=%v for x=%v", p, dcMulRef(x, x), x)
				}
			})
		}
	}
}
