package main

import (
	"math"
	"math/cmplx"

	"gonum.org/v1/gonum/internal/verif/vlib"
	"gonum.org/v1/gonum/num/dual"
	"gonum.org/v1/gonum/num/dualcmplx"
	"gonum.org/v1/gonum/num/dualquat"
	"gonum.org/v1/gonum/num/hyperdual"
	"gonum.org/v1/gonum/num/quat"
)

// Two-argument functions (Pow, and Add/Sub/Mul against their definitions): EVERY seeding pattern of
// the dual parts of both arguments is enumerated - zero / one / other for dual numbers, zero /
// non-zero for each of the six dual parts of a pair of hyperdual numbers (with E1mag != E2mag) -
// so that a shortcut keyed on "this operand is constant" is exercised with the other operand
// varying. Oracle: closed-form partial derivatives of x^y combined by the chain rule.

var (
	powBases     = []float64{0.25, 0.5, 1, 2, math.E, 3, 10}
	powExponents = []float64{-2, -1, -0.5, 0, 0.5, 1, 2, 3, math.E}
)

// powPartials returns x^y and its partial derivatives up to second order (x > 0).
func powPartials(x, y float64) (v, fx, fy, fxx, fxy, fyy float64) {
	v = math.Pow(x, y)
	l := math.Log(x)
	fx = y * math.Pow(x, y-1)
	fy = v * l
	fxx = y * (y - 1) * math.Pow(x, y-2)
	fxy = math.Pow(x, y-1) * (1 + y*l)
	fyy = v * l * l
	return
}

// sumClose reports |got - sum(terms)| <= tol * sum|terms| (exact zero when all terms vanish).
func sumClose(got, tol float64, terms ...float64) (bool, float64) {
	var s, a float64
	for _, t := range terms {
		s += t
		a += math.Abs(t)
	}
	if math.IsNaN(got) {
		return false, s
	}
	return math.Abs(got-s) <= tol*a, s
}

func genBinaryPatterns(g *vlib.G) {
	g.Case("dual Pow", func(t *vlib.T) { dualPowPatterns(t) })
	g.Case("dual Add Sub Mul", func(t *vlib.T) { dualArithmeticPatterns(t) })
	g.Case("hyperdual Pow", func(t *vlib.T) { hyperdualPowPatterns(t) })
	g.Case("hyperdual Add Sub Mul", func(t *vlib.T) { hyperdualArithmeticPatterns(t) })
	g.Case("dualcmplx Pow", func(t *vlib.T) { dualcmplxPowPatterns(t) })
	g.Case("dualquat Pow", func(t *vlib.T) { dualquatPowPatterns(t) })
	g.Case("quat Pow", func(t *vlib.T) { quatPowPatterns(t) })
}

func dualPowPatterns(t *vlib.T) {
	t.Nontrivial()
	seeds := []float64{0, 1, -2.5}
	n := 0
	for _, x := range powBases {
		for _, y := range powExponents {
			v, fx, fy, _, _, _ := powPartials(x, y)
			for _, ex := range seeds {
				for _, ey := range seeds {
					got := dual.Pow(dual.Number{Real: x, Emag: ex}, dual.Number{Real: y, Emag: ey})
					ok, want := sumClose(got.Emag, 1e-13, fx*ex, fy*ey)
					if !closeTo(got.Real, v, 1e-14, 0) || !ok {
						t.Failf("Pow({%v, %v}, {%v, %v}) = %v, want {%v, %v} (d/dx = y*x^(y-1), d/dy = x^y*ln x)", x, ex, y, ey, got, v, want)
					}
					n++
				}
			}
			// A real exponent given as a dual number agrees with PowReal.
			for _, ex := range seeds {
				a, b := dual.Pow(dual.Number{Real: x, Emag: ex}, dual.Number{Real: y}), dual.PowReal(dual.Number{Real: x, Emag: ex}, y)
				if !closeTo(a.Real, b.Real, 1e-14, 0) || !closeTo(a.Emag, b.Emag, 1e-13, 1e-300) {
					t.Failf("Pow({%v, %v}, %v) = %v but PowReal gives %v", x, ex, y, a, b)
				}
			}
		}
	}
	// Chain rule through the exponent and through both: a^(x^2), (x^2)^x, x^x.
	for _, x0 := range []float64{0.5, 1, 2, 3.25} {
		x := dual.Number{Real: x0, Emag: 1}
		x2 := dual.Mul(x, x)
		l := math.Log(x0)
		type c struct {
			name    string
			got     dual.Number
			v, dvdx float64
		}
		for _, k := range []c{
			{"3^(x*x)", dual.Pow(dual.Number{Real: 3}, x2), math.Pow(3, x0*x0), 2 * x0 * math.Log(3) * math.Pow(3, x0*x0)},
			{"x^x", dual.Pow(x, x), math.Pow(x0, x0), math.Pow(x0, x0) * (1 + l)},
			{"(x*x)^x", dual.Pow(x2, x), math.Pow(x0, 2*x0), math.Pow(x0, 2*x0) * (2*l + 2)},
			{"2^x", dual.Pow(dual.Number{Real: 2}, x), math.Exp2(x0), math.Ln2 * math.Exp2(x0)},
		} {
			if !closeTo(k.got.Real, k.v, 1e-13, 0) || !closeTo(k.got.Emag, k.dvdx, 1e-12, 1e-300) {
				t.Failf("%s at x=%v = %v, want %v%+vϵ", k.name, x0, k.got, k.v, k.dvdx)
			}
		}
	}
	t.Count("binary_pattern_points", int64(n))
	t.Outcome("patterns=9")
}

func dualArithmeticPatterns(t *vlib.T) {
	t.Nontrivial()
	seeds := []float64{0, 1, -2.5}
	vals := []float64{-3, -0.5, 0, 1, 2.25}
	for _, x := range vals {
		for _, y := range vals {
			for _, ex := range seeds {
				for _, ey := range seeds {
					a, b := dual.Number{Real: x, Emag: ex}, dual.Number{Real: y, Emag: ey}
					if got := dual.Add(a, b); got.Real != x+y || got.Emag != ex+ey {
						t.Failf("Add(%v, %v) = %v", a, b, got)
					}
					if got := dual.Sub(a, b); got.Real != x-y || got.Emag != ex-ey {
						t.Failf("Sub(%v, %v) = %v", a, b, got)
					}
					if got := dual.Mul(a, b); got.Real != x*y || got.Emag != x*ey+ex*y {
						t.Failf("Mul(%v, %v) = %v, product rule gives %v%+vϵ", a, b, got, x*y, x*ey+ex*y)
					}
				}
			}
		}
	}
}

// hyperPattern decodes bit pattern k (6 bits) into the dual parts of base and exponent; the
// non-zero values are pairwise different.
func hyperPattern(k int) (a, b [3]float64) {
	va := [3]float64{2, -3, 5}
	vb := [3]float64{-1.5, 0.5, 4}
	for i := 0; i < 3; i++ {
		if k>>uint(i)&1 == 1 {
			a[i] = va[i]
		}
		if k>>uint(3+i)&1 == 1 {
			b[i] = vb[i]
		}
	}
	return a, b
}

func hyperdualPowPatterns(t *vlib.T) {
	t.Nontrivial()
	n := 0
	for _, x := range powBases {
		for _, y := range powExponents {
			v, fx, fy, fxx, fxy, fyy := powPartials(x, y)
			for k := 0; k < 64; k++ {
				a, b := hyperPattern(k)
				X := hyperdual.Number{Real: x, E1mag: a[0], E2mag: a[1], E1E2mag: a[2]}
				Y := hyperdual.Number{Real: y, E1mag: b[0], E2mag: b[1], E1E2mag: b[2]}
				got := hyperdual.Pow(X, Y)
				ok1, w1 := sumClose(got.E1mag, 1e-13, fx*a[0], fy*b[0])
				ok2, w2 := sumClose(got.E2mag, 1e-13, fx*a[1], fy*b[1])
				ok12, w12 := sumClose(got.E1E2mag, 1e-12, fx*a[2], fy*b[2], fxx*a[0]*a[1], fxy*a[0]*b[1], fxy*a[1]*b[0], fyy*b[0]*b[1])
				if !closeTo(got.Real, v, 1e-14, 0) || !ok1 || !ok2 || !ok12 {
					t.Failf("Pow(%v, %v) = %v, partial derivatives of x^y give (%v, %v, %v, %v) [pattern %06b]", X, Y, got, v, w1, w2, w12, k)
				}
				n++
			}
			// A real exponent given as a hyperdual number agrees with PowReal.
			for k := 0; k < 8; k++ {
				a, _ := hyperPattern(k)
				X := hyperdual.Number{Real: x, E1mag: a[0], E2mag: a[1], E1E2mag: a[2]}
				p, q := hyperdual.Pow(X, hyperdual.Number{Real: y}), hyperdual.PowReal(X, y)
				if !closeTo(p.Real, q.Real, 1e-14, 0) || !closeTo(p.E1mag, q.E1mag, 1e-13, 1e-300) || !closeTo(p.E2mag, q.E2mag, 1e-13, 1e-300) ||
					math.Abs(p.E1E2mag-q.E1E2mag) > 1e-12*(math.Abs(fx*a[2])+math.Abs(fxx*a[0]*a[1])) {
					t.Failf("Pow(%v, %v) = %v but PowReal gives %v", X, y, p, q)
				}
			}
		}
	}
	t.Count("binary_pattern_points", int64(n))
	t.Outcome("patterns=64")
}

func hyperdualArithmeticPatterns(t *vlib.T) {
	t.Nontrivial()
	vals := []float64{-3, -0.5, 0, 1, 2.25}
	for _, x := range vals {
		for _, y := range vals {
			for k := 0; k < 64; k++ {
				a, b := hyperPattern(k)
				X := hyperdual.Number{Real: x, E1mag: a[0], E2mag: a[1], E1E2mag: a[2]}
				Y := hyperdual.Number{Real: y, E1mag: b[0], E2mag: b[1], E1E2mag: b[2]}
				if got := hyperdual.Add(X, Y); got != (hyperdual.Number{Real: x + y, E1mag: a[0] + b[0], E2mag: a[1] + b[1], E1E2mag: a[2] + b[2]}) {
					t.Failf("Add(%v, %v) = %v", X, Y, got)
				}
				if got := hyperdual.Sub(X, Y); got != (hyperdual.Number{Real: x - y, E1mag: a[0] - b[0], E2mag: a[1] - b[1], E1E2mag: a[2] - b[2]}) {
					t.Failf("Sub(%v, %v) = %v", X, Y, got)
				}
				want := hyperdual.Number{Real: x * y, E1mag: x*b[0] + a[0]*y, E2mag: x*b[1] + a[1]*y, E1E2mag: x*b[2] + a[0]*b[1] + a[1]*b[0] + a[2]*y}
				if got := hyperdual.Mul(X, Y); !hdEq(got, want) {
					t.Failf("Mul(%v, %v) = %v, product rule gives %v", X, Y, got, want)
				}
			}
		}
	}
}

func dualcmplxPowPatterns(t *vlib.T) {
	t.Nontrivial()
	n := 0
	bases := []complex128{2, 0.5, 1.5 + 1i, -0.5 + 0.75i, 1i, 1}
	baseDuals := []complex128{0, 1, 0.5 - 1i}
	exps := []complex128{2, 3, -1, 0.5, 1.5 + 0.5i, 0, 1}
	expDuals := []complex128{0, 1, -1i + 0.25}
	for _, zr := range bases {
		for _, zd := range baseDuals {
			for _, wr := range exps {
				for _, wd := range expDuals {
					d, p := dualcmplx.Number{Real: zr, Dual: zd}, dualcmplx.Number{Real: wr, Dual: wd}
					got := dualcmplx.Pow(d, p)
					// Definition: exp(p*log(d)) with the harness's own product and exponential series
					// (Log is checked by exp(Log x) = x in dualcmplx-func).
					want := dcExpSeries(dcMulRef(p, dualcmplx.Log(d)))
					if !dcClose(got, want, 1e-12) {
						t.Failf("Pow(%v, %v) = %v, exp(p*log d) gives %v", d, p, got, want)
					}
					// Integer real exponents with a zero dual part are repeated products.
					if wd == 0 && (wr == 2 || wr == 3) {
						prod := dcMulRef(d, d)
						if wr == 3 {
							prod = dcMulRef(prod, d)
						}
						if !dcClose(got, prod, 1e-12) {
							t.Failf("Pow(%v, %v) = %v, repeated product gives %v", d, wr, got, prod)
						}
						if pr := dualcmplx.PowReal(d, real(wr)); !dcClose(pr, prod, 1e-12) {
							t.Failf("PowReal(%v, %v) = %v, repeated product gives %v", d, real(wr), pr, prod)
						}
					}
					n++
				}
			}
		}
	}
	t.Count("binary_pattern_points", int64(n))
}

// In one plane span{1,u} dual quaternions commute and are dual complex numbers: z^w with
// d(z^w) = z^w (w dz/z + log z dw).
func dualquatPowPatterns(t *vlib.T) {
	t.Nontrivial()
	n := 0
	bases := []complex128{2, 0.5, 1.5 + 1i, -0.5 + 0.75i, 1i}
	exps := []complex128{2, -1, 0.5, 1.5 + 0.5i, 0.25i}
	dz := []complex128{0, 1, 0.5 - 1i}
	dw := []complex128{0, 1, -1i + 0.25}
	for _, u := range unitVecs[:5] {
		for _, z := range bases {
			for _, w := range exps {
				for _, a := range dz {
					for _, b := range dw {
						d := dualquat.Number{Real: fromPlane(z, u), Dual: fromPlane(a, u)}
						p := dualquat.Number{Real: fromPlane(w, u), Dual: fromPlane(b, u)}
						got := dualquat.Pow(d, p)
						v := cmplx.Pow(z, w)
						dv := v * (w*a/z + cmplx.Log(z)*b)
						want := dualquat.Number{Real: fromPlane(v, u), Dual: fromPlane(dv, u)}
						if !dqClose(got, want, 1e-12) {
							t.Failf("Pow(%v, %v) = %v, z^w with d(z^w) = z^w (w dz/z + log z dw) in the plane of %s gives %v", d, p, got, u.name, want)
						}
						n++
					}
				}
			}
		}
	}
	t.Count("binary_pattern_points", int64(n))
}

func quatPowPatterns(t *vlib.T) {
	t.Nontrivial()
	n := 0
	bases := []complex128{2, 0.5, 1.5 + 1i, -0.5 + 0.75i, 1i, 3 - 0.25i}
	exps := []complex128{2, -1, 0.5, 1.5 + 0.5i, 0.25i, -0.75 - 1i, 3}
	for _, u := range unitVecs {
		for _, z := range bases {
			for _, w := range exps {
				got := quat.Pow(fromPlane(z, u), fromPlane(w, u))
				want := fromPlane(cmplx.Pow(z, w), u)
				if !qClose(got, want, 1e-12) {
					t.Failf("Pow(%v, %v) = %v, math/cmplx gives %v in the plane of %s", fromPlane(z, u), fromPlane(w, u), got, want, u.name)
				}
				n++
			}
		}
	}
	t.Count("binary_pattern_points", int64(n))
}
