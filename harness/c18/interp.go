package main

import (
	"fmt"
	"math"
	"strings"

	"gonum.org/v1/gonum/internal/verif/vlib"
	"gonum.org/v1/gonum/interp"
)

// Tolerances of the interpolation checks, all relative to the natural scale of the data
// (S0 = max(1,max|y|), S1 = max(1,max slope), S2 = S1/min dx, S3 = S2/min dx): they bound
// rounding only; a wrong coefficient gives O(1) relative defects.
const (
	tolValue  = 1e-12 // value defects (reproduction, C0 jumps), relative to S0
	tolDeriv  = 1e-11 // first-derivative defects (reproduction, C1 jumps, Predict vs PredictDerivative), relative to S1
	tolDeriv2 = 1e-10 // second-derivative jumps and boundary conditions, relative to S2
	tolDeriv3 = 1e-9  // third-derivative jumps (not-a-knot condition), relative to S3
)

type fitted struct {
	P func(float64) float64
	D func(float64) float64 // nil when the method has no PredictDerivative
}

type interpMethod struct {
	name     string
	minN     int
	smooth   int // -1: left-continuous steps, 0: C0, 1: C1, 2: C2
	monotone bool
	// repro returns the highest monomial degree reproduced exactly; guard reports whether
	// degree repro+1 is known not to be reproduced (vacuity guard).
	repro func(n int, uniform bool) (deg int, guard bool)
	// newFit returns a fitting function bound to ONE predictor object, so that consecutive calls
	// refit the same object (stale state of an earlier, larger fit must not leak).
	newFit func() func(xs, ys []float64) (fitted, error)
}

// fit fits a fresh predictor object.
func (me interpMethod) fit(xs, ys []float64) (fitted, error) { return me.newFit()(xs, ys) }

func dp(p interp.DerivativePredictor) fitted { return fitted{P: p.Predict, D: p.PredictDerivative} }

func interpMethods() []interpMethod {
	return []interpMethod{
		{"PiecewiseConstant", 2, -1, false, func(int, bool) (int, bool) { return 0, true },
			func() func(xs, ys []float64) (fitted, error) {
				p := new(interp.PiecewiseConstant)
				return func(xs, ys []float64) (fitted, error) {
					err := p.Fit(xs, ys)
					return fitted{P: p.Predict}, err
				}
			}},
		{"PiecewiseLinear", 2, 0, false, func(int, bool) (int, bool) { return 1, true },
			func() func(xs, ys []float64) (fitted, error) {
				p := new(interp.PiecewiseLinear)
				return func(xs, ys []float64) (fitted, error) {
					err := p.Fit(xs, ys)
					return fitted{P: p.Predict}, err
				}
			}},
		{"AkimaSpline", 2, 1, false, func(n int, uniform bool) (int, bool) {
			if uniform && n >= 3 {
				return 2, false
			}
			return 1, false
		},
			func() func(xs, ys []float64) (fitted, error) {
				p := new(interp.AkimaSpline)
				return func(xs, ys []float64) (fitted, error) {
					err := p.Fit(xs, ys)
					return dp(p), err
				}
			}},
		{"FritschButland", 2, 1, true, func(int, bool) (int, bool) { return 1, false },
			func() func(xs, ys []float64) (fitted, error) {
				p := new(interp.FritschButland)
				return func(xs, ys []float64) (fitted, error) {
					err := p.Fit(xs, ys)
					return dp(p), err
				}
			}},
		{"NaturalCubic", 2, 2, false, func(n int, _ bool) (int, bool) { return 1, n >= 3 },
			func() func(xs, ys []float64) (fitted, error) {
				p := new(interp.NaturalCubic)
				return func(xs, ys []float64) (fitted, error) {
					err := p.Fit(xs, ys)
					return dp(p), err
				}
			}},
		{"ClampedCubic", 2, 2, false, func(int, bool) (int, bool) { return 0, true },
			func() func(xs, ys []float64) (fitted, error) {
				p := new(interp.ClampedCubic)
				return func(xs, ys []float64) (fitted, error) {
					err := p.Fit(xs, ys)
					return dp(p), err
				}
			}},
		{"NotAKnotCubic", 3, 2, false, func(n int, _ bool) (int, bool) {
			if n == 3 {
				// One interior node: the not-a-knot condition alone does not determine the cubic;
				// the parabola through the points is the conventional choice (see NOTES.md).
				return 2, false
			}
			return 3, n >= 5
		},
			func() func(xs, ys []float64) (fitted, error) {
				p := new(interp.NotAKnotCubic)
				return func(xs, ys []float64) (fitted, error) {
					err := p.Fit(xs, ys)
					return dp(p), err
				}
			}},
	}
}

// ---- knot sets ----

// Two knot spacing alphabets: {1,1/2,3} and the clustered {1,1/64,8}.
var knotAlphabets = []spacingSet{
	{"A", []float64{1, 0.5, 3}, []string{"1", "h", "3"}},
	{"B", []float64{1, 1. / 64, 8}, []string{"1", "c", "8"}},
}

func knotsFromCode(ss spacingSet, code, m int) (xs []float64, name string, uniform bool) {
	xs = make([]float64, m+1)
	xs[0] = -2
	var sb strings.Builder
	uniform = true
	first := -1
	for i := 0; i < m; i++ {
		s := code % 3
		code /= 3
		if first < 0 {
			first = s
		} else if s != first {
			uniform = false
		}
		xs[i+1] = xs[i] + ss.h[s]
		sb.WriteString(ss.names[s])
	}
	return xs, sb.String(), uniform
}

const longPatterns = 6

// longKnots returns n knots following one of six spacing patterns: uniform 1/2; alternating 1/2, 3;
// the cycle 1, 1/2, 3; the clustered cycle 1, 1/64, 8; dyadic clusters 2^-(i mod 8); a fixed
// pseudo-random word over {1, 1/2, 3, 1/64, 8}.
func longKnots(n, pattern int) (xs []float64, uniform bool) {
	xs = make([]float64, n)
	xs[0] = -2
	lcg := uint32(12345)
	for i := 1; i < n; i++ {
		var s float64
		switch pattern {
		case 0:
			s = 0.5
		case 1:
			s = []float64{0.5, 3}[i%2]
		case 2:
			s = []float64{1, 0.5, 3}[i%3]
		case 3:
			s = []float64{1, 1. / 64, 8}[i%3]
		case 4:
			s = 1 / float64(int(1)<<uint(i%8))
		default:
			lcg = lcg*1664525 + 1013904223
			s = []float64{1, 0.5, 3, 1. / 64, 8}[(lcg>>16)%5]
		}
		xs[i] = xs[i-1] + s
	}
	return xs, pattern == 0
}

type dataSet struct {
	name string
	ys   []float64
	deg  int // monomial degree, -1 for integer sequences
}

func intSequences(n int) []dataSet {
	base := [][]int{
		{0, 1, 2, 3, 4, 5, 6, 7},         // linear
		{0, 1, 4, 9, 16, 25, 36, 49},     // increasing convex
		{9, 7, 7, 4, 3, 3, 3, -2},        // decreasing with plateaus
		{0, 0, 1, 3, 3, 4, 10, 10},       // increasing with plateaus
		{0, 3, -1, 4, -2, 5, -3, 6},      // zigzag
		{0, 2, 1, 3, -1, 4, 4, 0},        // non-monotone
		{1, 1, 0, 0, 1, 1, 0, 0},         // plateaus (zero Akima weights)
		{0, 0, 0, 5, 0, 0, 0, 5},         // spikes
		{-3, -3, -3, -3, -3, -3, -3, -3}, // constant
	}
	var out []dataSet
	for k, b := range base {
		ys := make([]float64, n)
		for i := range ys {
			v := float64(b[i%8])
			if k == 0 || k == 1 {
				// keep the first two monotone for any n
				if k == 0 {
					v = float64(i)
				} else {
					v = float64(i * i)
				}
			} else if i >= 8 {
				v += float64((i / 8) % 3)
			}
			ys[i] = v
		}
		out = append(out, dataSet{fmt.Sprintf("seq%d", k), ys, -1})
	}
	return out
}

// scales of a data set.
type scales struct{ s0, s1, s2, s3, minDx float64 }

func dataScales(xs, ys []float64) scales {
	s := scales{s0: math.Max(1, maxAbs(ys)), s1: 1, minDx: math.Inf(1)}
	for i := 1; i < len(xs); i++ {
		dx := xs[i] - xs[i-1]
		s.minDx = math.Min(s.minDx, dx)
		s.s1 = math.Max(s.s1, math.Abs((ys[i]-ys[i-1])/dx))
	}
	s.s2 = s.s1 / math.Min(1, s.minDx)
	s.s3 = s.s2 / math.Min(1, s.minDx)
	return s
}

// refineScales enlarges the scales of the data by the amplitude of the interpolant itself, sampled
// at three points per interval: on clustered knots a spline swings far beyond the data (its
// second derivative is of order slope/min dx and acts over the widest interval), and rounding is
// relative to that amplitude. The scale never shrinks below that of the data.
func refineScales(sc scales, f fitted, xs []float64) scales {
	for i := 0; i+1 < len(xs); i++ {
		dx := xs[i+1] - xs[i]
		for _, fr := range []float64{0.25, 0.5, 0.75} {
			x := xs[i] + fr*dx
			if v := math.Abs(f.P(x)); v > sc.s0 && !math.IsInf(v, 0) {
				sc.s0 = v
			}
			if f.D != nil {
				if v := math.Abs(f.D(x)); v > sc.s1 && !math.IsInf(v, 0) {
					sc.s1 = v
				}
			}
		}
	}
	sc.s2 = sc.s1 / math.Min(1, sc.minDx)
	sc.s3 = sc.s2 / math.Min(1, sc.minDx)
	return sc
}

func genInterp(g *vlib.G) {
	// All knot words up to the tier's length over both spacing alphabets; one case = one knot set,
	// run through every interpolator and FitWithDerivatives.
	for ai, ss := range knotAlphabets {
		maxM := vlib.Pick(g, 9, 12)
		if ai == 1 {
			maxM = vlib.Pick(g, 9, 11)
		}
		for m := 1; m <= maxM; m++ {
			for code := 0; code < pow3(m); code++ {
				ss, m, code := ss, m, code
				_, name, _ := knotsFromCode(ss, code, m)
				g.Case("knots "+ss.name+" "+name, func(t *vlib.T) {
					xs, _, uniform := knotsFromCode(ss, code, m)
					knotSetCase(t, xs, uniform, ss.name)
				})
			}
		}
	}
	// Long knot sets: every length 2..100 on six spacing patterns.
	for n := 2; n <= 100; n++ {
		for pattern := 0; pattern < longPatterns; pattern++ {
			n, pattern := n, pattern
			g.Case(fmt.Sprintf("long n=%d pattern=%d", n, pattern), func(t *vlib.T) {
				xs, uniform := longKnots(n, pattern)
				knotSetCase(t, xs, uniform, fmt.Sprintf("pattern%d", pattern))
			})
		}
	}
}

func knotSetCase(t *vlib.T, xs []float64, uniform bool, family string) {
	t.Nontrivial()
	t.Outcome(fmt.Sprintf("%s n=%d uniform=%v", family, min(len(xs), 8), uniform))
	for _, me := range interpMethods() {
		interpCase(t, me, xs, uniform)
		if t.Failed() {
			return
		}
	}
	fitWithDerivativesCase(t, xs)
}

func monomialData(xs []float64, d int) []float64 {
	ys := make([]float64, len(xs))
	for i, x := range xs {
		ys[i] = powi(x, d)
	}
	return ys
}

func interpCase(t *vlib.T, me interpMethod, xs []float64, uniform bool) {
	n := len(xs)
	if n < me.minN {
		if _, p := catch(func() { me.fit(xs, make([]float64, n)) }); !p {
			t.Failf("%s.Fit with %d points did not panic (documented minimum %d)", me.name, n, me.minN)
		}
		return
	}
	deg, guard := me.repro(n, uniform)
	var sets []dataSet
	for d := 0; d <= deg+1; d++ {
		sets = append(sets, dataSet{fmt.Sprintf("x^%d", d), monomialData(xs, d), d})
	}
	if me.name == "ClampedCubic" {
		// The cubic 2x^3-3(a+b)x^2+6abx has zero slope at both ends a, b: it satisfies the clamped
		// boundary conditions and must be reproduced.
		a, b := xs[0], xs[n-1]
		ys := make([]float64, n)
		for i, x := range xs {
			ys[i] = 2*x*x*x - 3*(a+b)*x*x + 6*a*b*x
		}
		sets = append(sets, dataSet{"clamped-cubic", ys, -2})
	}
	sets = append(sets, intSequences(n)...)
	// One predictor object is refitted for all data sets of the case, after a first fit on a
	// longer knot set: state of an earlier fit must not leak into a later one.
	refit := me.newFit()
	prime, _ := longKnots(n+3, 2)
	if _, err := refit(prime, monomialData(prime, 2)); err != nil {
		t.Failf("%s.Fit(%v, x^2) returned error %v", me.name, prime, err)
		return
	}
	for k, ds := range sets {
		f, err := refit(xs, ds.ys)
		if err != nil {
			t.Failf("%s.Fit(%v, %s) returned error %v", me.name, xs, ds.name, err)
			continue
		}
		if k == len(sets)-4 {
			// The refitted object must predict exactly like a freshly fitted one.
			fresh, _ := me.fit(xs, ds.ys)
			for i := 0; i+1 < n; i++ {
				for _, fr := range gridFractions {
					x := xs[i] + fr*(xs[i+1]-xs[i])
					if a, b := f.P(x), fresh.P(x); !sameBits(a, b) {
						t.Failf("%s %s: Predict(%v) of a refitted object = %v, of a fresh one %v", me.name, ds.name, x, a, b)
					}
				}
			}
		}
		if t.Failed() {
			return
		}
		sc := refineScales(dataScales(xs, ds.ys), f, xs)
		checkKnotValues(t, me, f, xs, ds)
		checkSmoothness(t, me, f, xs, ds, sc)
		checkExtrapolation(t, me, f, xs, ds)
		if f.D != nil {
			checkDerivativeConsistency(t, me, f, xs, ds, sc)
		}
		if me.monotone {
			checkMonotone(t, me, f, xs, ds, sc)
		}
		switch {
		case ds.deg >= 0 && ds.deg <= deg:
			checkReproduction(t, me, f, xs, ds, sc, func(x float64) (float64, float64) { return powi(x, ds.deg), monomialDeriv(x, ds.deg, 1) })
		case ds.deg == deg+1 && guard && n <= 6 && sc.minDx >= 0.5: // the truncation term is invisible on clustered knots
			if reproduces(f, xs, func(x float64) float64 { return powi(x, ds.deg) }, sc) {
				t.Failf("vacuity guard: %s reproduces x^%d on %v", me.name, ds.deg, xs)
			}
		case ds.deg == -2:
			a, b := xs[0], xs[n-1]
			checkReproduction(t, me, f, xs, ds, sc, func(x float64) (float64, float64) {
				return 2*x*x*x - 3*(a+b)*x*x + 6*a*b*x, 6*x*x - 6*(a+b)*x + 6*a*b
			})
		}
		t.Count("fits", 1)
	}
}

func checkKnotValues(t *vlib.T, me interpMethod, f fitted, xs []float64, ds dataSet) {
	for i, x := range xs {
		if got := f.P(x); !sameBits(got, ds.ys[i]) {
			t.Failf("%s %s: Predict(knot %d = %v) = %v, want exactly %v", me.name, ds.name, i, x, got, ds.ys[i])
		}
	}
}

// interior offsets of the between-knot grid, as fractions of the interval.
var gridFractions = []float64{0.125, 0.25, 0.375, 0.5, 0.625, 0.75, 0.875}

func reproduces(f fitted, xs []float64, p func(float64) float64, sc scales) bool {
	for i := 0; i+1 < len(xs); i++ {
		for _, fr := range gridFractions {
			x := xs[i] + fr*(xs[i+1]-xs[i])
			if math.Abs(f.P(x)-p(x)) > 1e-6*sc.s0 {
				return false
			}
		}
	}
	return true
}

func checkReproduction(t *vlib.T, me interpMethod, f fitted, xs []float64, ds dataSet, sc scales, p func(float64) (float64, float64)) {
	for i := 0; i+1 < len(xs); i++ {
		for _, fr := range gridFractions {
			x := xs[i] + fr*(xs[i+1]-xs[i])
			want, dwant := p(x)
			if me.smooth < 0 {
				want = ds.ys[i+1] // left-continuous steps: the constant is reproduced trivially
			}
			if got := f.P(x); math.Abs(got-want) > tolValue*sc.s0 {
				t.Failf("%s does not reproduce %s: Predict(%v)=%v want %v (knots %v)", me.name, ds.name, x, got, want, xs)
				return
			}
			if f.D != nil {
				if got := f.D(x); math.Abs(got-dwant) > tolDeriv*sc.s1 {
					t.Failf("%s does not reproduce the derivative of %s: PredictDerivative(%v)=%v want %v (knots %v)", me.name, ds.name, x, got, dwant, xs)
					return
				}
			}
		}
	}
}

// quadExtrap evaluates at t the derivative-quantities of the quadratic through (a,ga),(a+h,gb),(a+2h,gc).
func quadNewton(ga, gb, gc, h float64) (d1, d2 float64) {
	d1 = (gb - ga) / h
	d2 = ((gc-gb)/h - d1) / (2 * h)
	return d1, d2
}

func checkSmoothness(t *vlib.T, me interpMethod, f fitted, xs []float64, ds dataSet, sc scales) {
	n := len(xs)
	switch me.smooth {
	case -1:
		// Left-continuous steps: the value on (x_i, x_{i+1}] is y_{i+1}.
		for i := 0; i+1 < n; i++ {
			for _, x := range []float64{math.Nextafter(xs[i], math.Inf(1)), (xs[i] + xs[i+1]) / 2, math.Nextafter(xs[i+1], math.Inf(-1)), xs[i+1]} {
				if got := f.P(x); !sameBits(got, ds.ys[i+1]) {
					t.Failf("%s %s: Predict(%v)=%v on (%v,%v], want %v (left-continuous)", me.name, ds.name, x, got, xs[i], xs[i+1], ds.ys[i+1])
				}
			}
		}
		return
	}
	for i := 1; i+1 < n; i++ {
		xl := math.Nextafter(xs[i], math.Inf(-1))
		ulp := xs[i] - xl // the left limit is taken one ulp left of the knot: the function moves by slope*ulp
		if j := math.Abs(f.P(xl) - f.P(xs[i])); j > tolValue*sc.s0+4*sc.s1*ulp {
			t.Failf("%s %s: value jump %g at knot %d (x=%v)", me.name, ds.name, j, i, xs[i])
		}
		if me.smooth >= 1 {
			if j := math.Abs(f.D(xl) - f.D(xs[i])); j > tolDeriv*sc.s1+4*sc.s2*ulp {
				t.Failf("%s %s: derivative jump %g at knot %d (x=%v): %v vs %v", me.name, ds.name, j, i, xs[i], f.D(xl), f.D(xs[i]))
			}
		}
		if me.smooth >= 2 {
			l, r := secondDerivLeft(f, xs, i), secondDerivRight(f, xs, i)
			if j := math.Abs(l - r); j > tolDeriv2*sc.s2 {
				t.Failf("%s %s: second derivative jump %g at knot %d (x=%v): %v vs %v", me.name, ds.name, j, i, xs[i], l, r)
			}
		}
	}
	if me.smooth == 0 {
		// Piecewise linear: the value between knots is the chord.
		for i := 0; i+1 < n; i++ {
			for _, fr := range gridFractions {
				x := xs[i] + fr*(xs[i+1]-xs[i])
				want := ds.ys[i] + fr*(ds.ys[i+1]-ds.ys[i])
				if got := f.P(x); math.Abs(got-want) > tolValue*sc.s0 {
					t.Failf("%s %s: Predict(%v)=%v, chord gives %v", me.name, ds.name, x, got, want)
				}
			}
		}
	}
	// Boundary conditions.
	switch me.name {
	case "NaturalCubic":
		if l, r := secondDerivRight(f, xs, 0), secondDerivLeft(f, xs, n-1); math.Abs(l) > tolDeriv2*sc.s2 || math.Abs(r) > tolDeriv2*sc.s2 {
			t.Failf("%s %s: second derivatives at the ends are %v and %v, want 0", me.name, ds.name, l, r)
		}
	case "ClampedCubic":
		if l, r := f.D(xs[0]), f.D(xs[n-1]); math.Abs(l) > tolDeriv*sc.s1 || math.Abs(r) > tolDeriv*sc.s1 {
			t.Failf("%s %s: first derivatives at the ends are %v and %v, want 0", me.name, ds.name, l, r)
		}
	case "NotAKnotCubic":
		for _, i := range []int{1, n - 2} {
			l, r := thirdDeriv(f, xs, i-1), thirdDeriv(f, xs, i)
			if j := math.Abs(l - r); j > tolDeriv3*sc.s3 {
				t.Failf("%s %s: third derivative jump %g at knot %d (x=%v): %v vs %v", me.name, ds.name, j, i, xs[i], l, r)
			}
		}
	}
}

// secondDerivRight estimates P”(x_i+) from P' at three points inside (x_i, x_{i+1}) (P' is a quadratic there).
func secondDerivRight(f fitted, xs []float64, i int) float64 {
	h := (xs[i+1] - xs[i]) / 4
	a := xs[i] + h
	d1, d2 := quadNewton(f.D(a), f.D(a+h), f.D(a+2*h), h)
	return d1 - 3*h*d2
}

// secondDerivLeft estimates P”(x_i-) from P' at three points inside (x_{i-1}, x_i).
func secondDerivLeft(f fitted, xs []float64, i int) float64 {
	h := (xs[i] - xs[i-1]) / 4
	a := xs[i-1] + h
	d1, d2 := quadNewton(f.D(a), f.D(a+h), f.D(a+2*h), h)
	return d1 + 5*h*d2
}

// thirdDeriv estimates the constant P”' on (x_i, x_{i+1}).
func thirdDeriv(f fitted, xs []float64, i int) float64 {
	h := (xs[i+1] - xs[i]) / 4
	a := xs[i] + h
	_, d2 := quadNewton(f.D(a), f.D(a+h), f.D(a+2*h), h)
	return 2 * d2
}

func checkExtrapolation(t *vlib.T, me interpMethod, f fitted, xs []float64, ds dataSet) {
	// The package documentation leaves extrapolated values undefined ("we do our best to return
	// something reasonable"): they must not panic and must not be NaN.
	n := len(xs)
	for _, x := range []float64{xs[0] - 0.5, xs[0] - 1e6, math.Inf(-1), math.Nextafter(xs[0], math.Inf(-1)), xs[n-1] + 0.5, xs[n-1] + 1e6, math.Inf(1), math.Nextafter(xs[n-1], math.Inf(1))} {
		x := x
		msg, p := catch(func() {
			if v := f.P(x); math.IsNaN(v) {
				t.Failf("%s %s: Predict(%v) outside the knots is NaN", me.name, ds.name, x)
			}
			if f.D != nil {
				if v := f.D(x); math.IsNaN(v) {
					t.Failf("%s %s: PredictDerivative(%v) outside the knots is NaN", me.name, ds.name, x)
				}
			}
		})
		if p {
			t.Failf("%s %s: prediction at %v outside the knots panics: %s", me.name, ds.name, x, msg)
		}
	}
}

// checkDerivativeConsistency compares PredictDerivative with the five-point finite difference of
// Predict (exact for quartics, so exact up to rounding inside one cubic piece).
func checkDerivativeConsistency(t *vlib.T, me interpMethod, f fitted, xs []float64, ds dataSet, sc scales) {
	for i := 0; i+1 < len(xs); i++ {
		dx := xs[i+1] - xs[i]
		h := dx / 16
		for _, fr := range []float64{0.25, 0.5, 0.75} {
			x := xs[i] + fr*dx
			fdv := (-f.P(x+2*h) + 8*f.P(x+h) - 8*f.P(x-h) + f.P(x-2*h)) / (12 * h)
			got := f.D(x)
			// rounding of the difference quotient: about 1.5*eps*|P|/h
			if math.Abs(got-fdv) > tolDeriv*sc.s1+1e-13*sc.s0/h {
				t.Failf("%s %s: PredictDerivative(%v)=%v but the finite difference of Predict gives %v", me.name, ds.name, x, got, fdv)
				return
			}
		}
	}
}

func checkMonotone(t *vlib.T, me interpMethod, f fitted, xs []float64, ds dataSet, sc scales) {
	for i := 0; i+1 < len(xs); i++ {
		lo, hi := math.Min(ds.ys[i], ds.ys[i+1]), math.Max(ds.ys[i], ds.ys[i+1])
		sign := 0.0
		if ds.ys[i+1] > ds.ys[i] {
			sign = 1
		} else if ds.ys[i+1] < ds.ys[i] {
			sign = -1
		}
		dx := xs[i+1] - xs[i]
		for k := 0; k <= 32; k++ {
			x := xs[i] + dx*float64(k)/32
			v, d := f.P(x), f.D(x)
			if v < lo-tolValue*sc.s0 || v > hi+tolValue*sc.s0 {
				t.Failf("%s %s: new extremum: Predict(%v)=%v outside [%v,%v] on the interval %d of %v", me.name, ds.name, x, v, lo, hi, i, xs)
				return
			}
			if k == 32 {
				continue // the derivative at the right knot belongs to the next interval
			}
			if sign == 0 && math.Abs(d) > tolDeriv*sc.s1 || sign*d < -tolDeriv*sc.s1 {
				t.Failf("%s %s: derivative sign not preserved: PredictDerivative(%v)=%v on the interval %d with data %v -> %v", me.name, ds.name, x, d, i, ds.ys[i], ds.ys[i+1])
				return
			}
		}
	}
}

func fitWithDerivativesCase(t *vlib.T, xs []float64) {
	n := len(xs)
	me := interpMethod{name: "PiecewiseCubic.FitWithDerivatives", smooth: 1}
	var pc interp.PiecewiseCubic // refitted for every data set
	for d := 0; d <= 4; d++ {
		ys := monomialData(xs, d)
		dys := make([]float64, n)
		for i, x := range xs {
			dys[i] = monomialDeriv(x, d, 1)
		}
		pc.FitWithDerivatives(xs, ys, dys)
		f := dp(&pc)
		ds := dataSet{fmt.Sprintf("x^%d", d), ys, d}
		sc := dataScales(xs, ys)
		checkKnotValues(t, me, f, xs, ds)
		for i, x := range xs {
			if got := f.D(x); !sameBits(got, dys[i]) {
				t.Failf("FitWithDerivatives %s: PredictDerivative(knot %d)=%v, want exactly %v", ds.name, i, got, dys[i])
			}
		}
		checkSmoothness(t, me, f, xs, ds, sc)
		checkExtrapolation(t, me, f, xs, ds)
		checkDerivativeConsistency(t, me, f, xs, ds, sc)
		if d <= 3 {
			checkReproduction(t, me, f, xs, ds, sc, func(x float64) (float64, float64) { return powi(x, d), monomialDeriv(x, d, 1) })
		} else if n <= 6 && sc.minDx >= 0.5 && reproduces(f, xs, func(x float64) float64 { return powi(x, d) }, sc) {
			t.Failf("vacuity guard: FitWithDerivatives reproduces x^4 on %v", xs)
		}
		t.Count("fits", 1)
	}
	// Arbitrary integer values and slopes: Hermite interpolation conditions.
	for _, seq := range intSequences(n)[2:6] {
		dys := make([]float64, n)
		for i := range dys {
			dys[i] = float64((i*7)%5 - 2)
		}
		pc.FitWithDerivatives(xs, seq.ys, dys)
		f := dp(&pc)
		sc := dataScales(xs, seq.ys)
		sc.s1 = math.Max(sc.s1, 2) * 4
		checkKnotValues(t, me, f, xs, seq)
		for i, x := range xs {
			if got := f.D(x); !sameBits(got, dys[i]) {
				t.Failf("FitWithDerivatives %s: PredictDerivative(knot %d)=%v, want exactly %v", seq.name, i, got, dys[i])
			}
		}
		checkSmoothness(t, me, f, xs, seq, sc)
		checkDerivativeConsistency(t, me, f, xs, seq, sc)
		t.Count("fits", 1)
	}
}

// ---- every interpolator over all short integer sequences ----

// genInterpAllY: one case = one knot set; for every method every y in {0,1,3}^n is fitted (refitting one
// object) and checked for exact knot values, the smoothness class, the boundary conditions,
// Predict/PredictDerivative consistency and, for FritschButland, monotonicity.
func genInterpAllY(g *vlib.G) {
	for ai, ss := range knotAlphabets {
		maxM := vlib.Pick(g, 6, 7)
		if ai == 1 {
			maxM = vlib.Pick(g, 5, 7)
		}
		maxM4 := vlib.Pick(g, 4, 6) // four-value alphabet
		for m := 1; m <= maxM; m++ {
			for code := 0; code < pow3(m); code++ {
				_, name, _ := knotsFromCode(ss, code, m)
				ss, m, code := ss, m, code
				// One case runs every method (a case per method would hand all fits of one method
				// to the same shard: 8 methods, 16 shards).
				g.Case("all-y "+ss.name+" "+name, func(t *vlib.T) {
					xs, _, _ := knotsFromCode(ss, code, m)
					t.Nontrivial()
					t.Outcome(fmt.Sprintf("%s n=%d", ss.name, len(xs)))
					for _, me := range interpMethods() {
						if len(xs) >= me.minN && !t.Failed() {
							allYCase(t, me, xs, []float64{0, 1, 3})
						}
					}
				})
				// A second value alphabet with a negative value (sign changes), one knot fewer.
				if m <= maxM4 {
					g.Case("all-y4 "+ss.name+" "+name, func(t *vlib.T) {
						xs, _, _ := knotsFromCode(ss, code, m)
						t.Nontrivial()
						t.Outcome(fmt.Sprintf("%s n=%d four values", ss.name, len(xs)))
						for _, me := range interpMethods() {
							if len(xs) >= me.minN && !t.Failed() {
								allYCase(t, me, xs, []float64{-2, 0, 1, 3})
							}
						}
					})
				}
			}
		}
	}
}

func allYCase(t *vlib.T, me interpMethod, xs []float64, vals []float64) {
	n := len(xs)
	ys := make([]float64, n)
	radices := make([]int, n)
	for i := range radices {
		radices[i] = len(vals)
	}
	refit := me.newFit()
	ds := dataSet{fmt.Sprintf("y in %v^n", vals), ys, -1}
	first := true
	vlib.Product(radices, func(idx []int) bool {
		for i, k := range idx {
			ys[i] = vals[k]
		}
		f, err := refit(xs, ys)
		if err != nil {
			t.Failf("%s.Fit(%v, %v) returned error %v", me.name, xs, ys, err)
			return false
		}
		sc := refineScales(dataScales(xs, ys), f, xs)
		checkKnotValues(t, me, f, xs, ds)
		checkSmoothness(t, me, f, xs, ds, sc)
		if f.D != nil {
			checkDerivativeConsistency(t, me, f, xs, ds, sc)
		}
		if me.monotone {
			checkMonotone(t, me, f, xs, ds, sc)
		}
		if first {
			checkExtrapolation(t, me, f, xs, ds)
			first = false
		}
		t.Count("fits", 1)
		if t.Failed() {
			t.Failf("(data of the failing fit: xs=%v ys=%v)", xs, ys)
			return false
		}
		return true
	})
}

// ---- invalid input ----

func genInterpBadInput(g *vlib.G) {
	methods := interpMethods()
	methods = append(methods, interpMethod{name: "PiecewiseCubic.FitWithDerivatives", minN: 2,
		newFit: func() func(xs, ys []float64) (fitted, error) {
			p := new(interp.PiecewiseCubic)
			return func(xs, ys []float64) (fitted, error) {
				p.FitWithDerivatives(xs, ys, make([]float64, len(xs)))
				return dp(p), nil
			}
		}})
	for _, me := range methods {
		me := me
		g.Case(me.name, func(t *vlib.T) {
			t.Nontrivial()
			expectPanic := func(what string, xs, ys []float64) {
				var err error
				_, p := catch(func() { _, err = me.fit(xs, ys) })
				if p {
					return
				}
				if me.name == "ClampedCubic" && len(xs) == 2 && xs[0] == xs[1] {
					t.SubViolation(what, "clampedcubic-two-equal-xs-no-panic", nil, "ClampedCubic.Fit(%v, %v) returns %v instead of panicking (documented: panics if xs are not strictly increasing)", xs, ys, err)
					return
				}
				t.Failf("%s.Fit(%v, %v) [%s] did not panic (returned %v)", me.name, xs, ys, what, err)
			}
			// Too short.
			for n := 0; n < me.minN; n++ {
				xs := make([]float64, n)
				for i := range xs {
					xs[i] = float64(i)
				}
				expectPanic("too short", xs, make([]float64, n))
			}
			// Mismatched lengths.
			for n := 2; n <= 5; n++ {
				xs := make([]float64, n)
				for i := range xs {
					xs[i] = float64(i)
				}
				expectPanic("ys shorter", xs, make([]float64, n-1))
				expectPanic("ys longer", xs, make([]float64, n+1))
			}
			// Not strictly increasing: one equal or decreasing pair at every position.
			for n := 2; n <= 6; n++ {
				for pos := 0; pos+1 < n; pos++ {
					for _, kind := range []string{"equal", "decreasing"} {
						xs := make([]float64, n)
						ys := make([]float64, n)
						for i := range xs {
							xs[i] = float64(i)
							ys[i] = float64(i % 3)
						}
						if kind == "equal" {
							xs[pos+1] = xs[pos]
						} else {
							xs[pos], xs[pos+1] = xs[pos+1], xs[pos]
						}
						if n < me.minN {
							continue
						}
						expectPanic(fmt.Sprintf("%s pair at %d", kind, pos), xs, ys)
					}
				}
			}
			if me.name == "PiecewiseCubic.FitWithDerivatives" {
				var p interp.PiecewiseCubic
				if _, pn := catch(func() { p.FitWithDerivatives([]float64{0, 1, 2}, []float64{0, 1, 2}, []float64{0, 1}) }); !pn {
					t.Failf("FitWithDerivatives with short dydxs did not panic")
				}
			}
		})
	}
	g.Case("refit", func(t *vlib.T) {
		// Fitting again with fewer points must not keep state of the previous fit.
		t.Nontrivial()
		big, _ := longKnots(9, 2)
		small := []float64{0, 1, 1.5, 4}
		ys := []float64{1, -2, 0, 3}
		type refitter interface {
			Fit(xs, ys []float64) error
			Predict(float64) float64
		}
		objs := map[string][2]refitter{
			"PiecewiseConstant": {&interp.PiecewiseConstant{}, &interp.PiecewiseConstant{}},
			"PiecewiseLinear":   {&interp.PiecewiseLinear{}, &interp.PiecewiseLinear{}},
			"AkimaSpline":       {&interp.AkimaSpline{}, &interp.AkimaSpline{}},
			"FritschButland":    {&interp.FritschButland{}, &interp.FritschButland{}},
			"NaturalCubic":      {&interp.NaturalCubic{}, &interp.NaturalCubic{}},
			"ClampedCubic":      {&interp.ClampedCubic{}, &interp.ClampedCubic{}},
			"NotAKnotCubic":     {&interp.NotAKnotCubic{}, &interp.NotAKnotCubic{}},
		}
		for _, name := range vlib.SortedKeys(objs) {
			o := objs[name]
			if err := o[0].Fit(big, monomialData(big, 2)); err != nil {
				t.Failf("%s: %v", name, err)
			}
			e1, e2 := o[0].Fit(small, ys), o[1].Fit(small, ys)
			if e1 != nil || e2 != nil {
				t.Failf("%s refit errors %v %v", name, e1, e2)
				continue
			}
			for x := -1.0; x <= 5; x += 0.125 {
				if a, b := o[0].Predict(x), o[1].Predict(x); !sameBits(a, b) {
					t.Failf("%s: Predict(%v) after a refit = %v, fresh fit gives %v", name, x, a, b)
				}
			}
		}
	})
}
