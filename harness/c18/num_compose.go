package main

import (
	"fmt"
	"math"

	"gonum.org/v1/gonum/internal/verif/vlib"
	"gonum.org/v1/gonum/num/dual"
	"gonum.org/v1/gonum/num/hyperdual"
)

// Composed functions: the chain rule must be carried through Mul/Add/Sub/Scale and the elementary
// functions, in particular when the argument of the outer function has a non-zero ϵ₁ϵ₂ part and
// when the inner function vanishes exactly (the Real == 0 special cases of the implementations).

// jet is the reference second-order jet (value, two first-order parts, mixed part).
type jet struct{ v, d1, d2, d12 float64 }

// apply is the definition of a smooth function on hyperdual numbers.
func (j jet) apply(f, f1, f2 func(float64) float64) jet {
	a, b := f1(j.v), f2(j.v)
	return jet{f(j.v), a * j.d1, a * j.d2, a*j.d12 + b*j.d1*j.d2}
}

type innerFn struct {
	name      string
	hd        func(hyperdual.Number) hyperdual.Number
	du        func(dual.Number) dual.Number
	g, g1, g2 func(float64) float64
	pts       []float64 // includes exact zeros of g with g' or g'' non-zero
}

func hdConst(c float64) hyperdual.Number { return hyperdual.Number{Real: c} }
func duConst(c float64) dual.Number      { return dual.Number{Real: c} }

func innerFns() []innerFn {
	return []innerFn{
		{"x*x",
			func(x hyperdual.Number) hyperdual.Number { return hyperdual.Mul(x, x) },
			func(x dual.Number) dual.Number { return dual.Mul(x, x) },
			func(x float64) float64 { return x * x }, func(x float64) float64 { return 2 * x }, func(float64) float64 { return 2 },
			[]float64{0, 0.5, -1.25, 1.5, -0.125}},
		{"x*x-1",
			func(x hyperdual.Number) hyperdual.Number { return hyperdual.Sub(hyperdual.Mul(x, x), hdConst(1)) },
			func(x dual.Number) dual.Number { return dual.Sub(dual.Mul(x, x), duConst(1)) },
			func(x float64) float64 { return x*x - 1 }, func(x float64) float64 { return 2 * x }, func(float64) float64 { return 2 },
			[]float64{1, -1, 0.5, 0, 1.25}},
		{"x*x*x-x",
			func(x hyperdual.Number) hyperdual.Number {
				return hyperdual.Sub(hyperdual.Mul(hyperdual.Mul(x, x), x), x)
			},
			func(x dual.Number) dual.Number { return dual.Sub(dual.Mul(dual.Mul(x, x), x), x) },
			func(x float64) float64 { return x*x*x - x }, func(x float64) float64 { return 3*x*x - 1 }, func(x float64) float64 { return 6 * x },
			[]float64{0, 1, -1, 0.5, -0.75, 1.25}},
		{"x*Sin(x)",
			func(x hyperdual.Number) hyperdual.Number { return hyperdual.Mul(x, hyperdual.Sin(x)) },
			func(x dual.Number) dual.Number { return dual.Mul(x, dual.Sin(x)) },
			func(x float64) float64 { return x * math.Sin(x) }, func(x float64) float64 { return math.Sin(x) + x*math.Cos(x) }, func(x float64) float64 { return 2*math.Cos(x) - x*math.Sin(x) },
			[]float64{0, 0.75, -2, 1.25}},
		{"Exp(x)-1-x",
			func(x hyperdual.Number) hyperdual.Number {
				return hyperdual.Sub(hyperdual.Sub(hyperdual.Exp(x), hdConst(1)), x)
			},
			func(x dual.Number) dual.Number { return dual.Sub(dual.Sub(dual.Exp(x), duConst(1)), x) },
			func(x float64) float64 { return math.Exp(x) - 1 - x }, func(x float64) float64 { return math.Exp(x) - 1 }, math.Exp,
			[]float64{0, 0.5, -1, 1.5}},
		{"2x+x*x/2",
			func(x hyperdual.Number) hyperdual.Number {
				return hyperdual.Add(hyperdual.Scale(2, x), hyperdual.Scale(0.5, hyperdual.Mul(x, x)))
			},
			func(x dual.Number) dual.Number { return dual.Add(dual.Scale(2, x), dual.Scale(0.5, dual.Mul(x, x))) },
			func(x float64) float64 { return 2*x + x*x/2 }, func(x float64) float64 { return 2 + x }, func(float64) float64 { return 1 },
			[]float64{0, -4, 0.25, -0.5, -2}},
		{"Sin(x)*Cos(x)",
			func(x hyperdual.Number) hyperdual.Number { return hyperdual.Mul(hyperdual.Sin(x), hyperdual.Cos(x)) },
			func(x dual.Number) dual.Number { return dual.Mul(dual.Sin(x), dual.Cos(x)) },
			func(x float64) float64 { return math.Sin(x) * math.Cos(x) }, func(x float64) float64 { return math.Cos(2 * x) }, func(x float64) float64 { return -2 * math.Sin(2*x) },
			[]float64{0, 0.5, -1.25, 2}},
		{"Inv(x)-1",
			func(x hyperdual.Number) hyperdual.Number { return hyperdual.Sub(hyperdual.Inv(x), hdConst(1)) },
			func(x dual.Number) dual.Number { return dual.Sub(dual.Inv(x), duConst(1)) },
			func(x float64) float64 { return 1/x - 1 }, func(x float64) float64 { return -1 / (x * x) }, func(x float64) float64 { return 2 / (x * x * x) },
			[]float64{1, 2, -0.5, 0.75}},
		{"Log(x)",
			hyperdual.Log, dual.Log,
			math.Log, func(x float64) float64 { return 1 / x }, func(x float64) float64 { return -1 / (x * x) },
			[]float64{1, 2, 0.5, 1.5}},
		{"Sqrt(x)-1",
			func(x hyperdual.Number) hyperdual.Number { return hyperdual.Sub(hyperdual.Sqrt(x), hdConst(1)) },
			func(x dual.Number) dual.Number { return dual.Sub(dual.Sqrt(x), duConst(1)) },
			func(x float64) float64 { return math.Sqrt(x) - 1 }, func(x float64) float64 { return 0.5 / math.Sqrt(x) }, func(x float64) float64 { return -0.25 / (x * math.Sqrt(x)) },
			[]float64{1, 4, 0.25, 2.25}},
	}
}

// wellConditioned keeps the outer function away from its singularities, where the analytic
// derivative table itself loses digits.
func wellConditioned(fn elemFn, r float64) bool {
	if !fn.dom(r) {
		return false
	}
	a, b := math.Abs(fn.d1(r)), math.Abs(fn.d2(r))
	if math.IsNaN(a) || math.IsNaN(b) || a > 50 || b > 500 || math.Abs(r) > 3 {
		return false
	}
	switch fn.name {
	case "Asin", "Acos", "Atanh":
		return math.Abs(r) <= 0.9
	case "Acosh":
		return r >= 1.1
	}
	return true
}

func jetClose(got hyperdual.Number, want jet, scale12 float64) (bool, string) {
	if !closeTo(got.Real, want.v, 1e-14, 1e-300) {
		return false, "Real"
	}
	if !closeTo(got.E1mag, want.d1, 1e-12, 1e-300) {
		return false, "E1mag"
	}
	if !closeTo(got.E2mag, want.d2, 1e-12, 1e-300) {
		return false, "E2mag"
	}
	if math.Abs(got.E1E2mag-want.d12) > 1e-12*scale12 {
		return false, "E1E2mag"
	}
	return true, ""
}

// absApply returns the sum of the absolute terms of the mixed part (the rounding scale).
func absApply(j jet, f1, f2 func(float64) float64) float64 {
	return math.Abs(f1(j.v)*j.d12) + math.Abs(f2(j.v)*j.d1*j.d2)
}

var composeSeeds = [][3]float64{{1, 1, 0}, {2, 3, 5}, {-1, 0.5, -2}, {0.5, -3, 0}, {1, 0, 4}}

func genHyperdualCompose(g *vlib.G) {
	fns := elemFns()
	var smooth []elemFn // defined on the whole line: usable as middle functions
	for _, fn := range fns {
		switch fn.name {
		case "Exp", "Sin", "Cos", "Atan", "Sinh", "Cosh", "Tanh", "Asinh":
			smooth = append(smooth, fn)
		}
	}
	for _, in := range innerFns() {
		in := in
		g.Case("hyperdual f("+in.name+")", func(t *vlib.T) {
			t.Nontrivial()
			n, zeros := 0, 0
			for _, x0 := range in.pts {
				for _, s := range composeSeeds {
					x := hyperdual.Number{Real: x0, E1mag: s[0], E2mag: s[1], E1E2mag: s[2]}
					gi := in.hd(x)
					wantIn := jet{x0, s[0], s[1], s[2]}.apply(in.g, in.g1, in.g2)
					wantIn.v = gi.Real // the same float operations; only the dual parts are under test here
					if ok, part := jetClose(gi, wantIn, absApply(jet{x0, s[0], s[1], s[2]}, in.g1, in.g2)+1e-300); !ok {
						t.Failf("%s at %v = %v, want %+v (%s)", in.name, x, gi, wantIn, part)
						continue
					}
					if gi.Real == 0 {
						zeros++
					}
					for _, fn := range fns {
						if !wellConditioned(fn, gi.Real) {
							continue
						}
						got := fn.hd(gi)
						want := wantIn.apply(fn.f, fn.d1, fn.d2)
						if ok, part := jetClose(got, want, absApply(wantIn, fn.d1, fn.d2)+1e-300); !ok {
							t.Failf("%s(%s) at x=%v: argument %v, got %v, chain rule gives %+v (%s)", fn.name, in.name, x, gi, got, want, part)
						}
						n++
						// One more level: m(f(g(x))) for the entire functions m.
						for _, m := range smooth {
							if math.Abs(want.v) > 3 {
								continue
							}
							got2 := m.hd(got)
							want2 := want.apply(m.f, m.d1, m.d2)
							sc := absApply(want, m.d1, m.d2) + math.Abs(m.d1(want.v))*absApply(wantIn, fn.d1, fn.d2) + 1e-300
							if ok, part := jetClose(got2, want2, 4*sc); !ok {
								t.Failf("%s(%s(%s)) at x=%v: got %v, chain rule gives %+v (%s)", m.name, fn.name, in.name, x, got2, want2, part)
							}
							n++
						}
					}
				}
			}
			if zeros == 0 {
				t.Failf("vacuity guard: the inner function %s never vanished exactly", in.name)
			}
			t.Count("composed_function_points", int64(n))
			t.Outcome(fmt.Sprintf("zeros=%v", zeros > 0))
		})
	}
}

func genDualCompose(g *vlib.G) {
	fns := elemFns()
	for _, in := range innerFns() {
		in := in
		g.Case("dual f("+in.name+")", func(t *vlib.T) {
			t.Nontrivial()
			n := 0
			for _, x0 := range in.pts {
				for _, e := range dualSeeds {
					gi := in.du(dual.Number{Real: x0, Emag: e})
					wantE := in.g1(x0) * e
					if !closeTo(gi.Emag, wantE, 1e-12, 1e-300) {
						t.Failf("%s at %v+%vϵ = %v, want dual part %v", in.name, x0, e, gi, wantE)
						continue
					}
					for _, fn := range fns {
						if !wellConditioned(fn, gi.Real) {
							continue
						}
						got := fn.du(gi)
						if want := fn.d1(gi.Real) * wantE; !closeTo(got.Real, fn.f(gi.Real), 1e-14, 1e-300) || !closeTo(got.Emag, want, 1e-12, 1e-300) {
							t.Failf("%s(%s) at %v+%vϵ = %v, chain rule gives %v%+vϵ", fn.name, in.name, x0, e, got, fn.f(gi.Real), want)
						}
						n++
					}
				}
			}
			t.Count("composed_function_points", int64(n))
		})
	}
}
