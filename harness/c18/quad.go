package main

import (
	"fmt"
	"math"
	"math/big"

	"gonum.org/v1/gonum/integrate/quad"
	"gonum.org/v1/gonum/internal/verif/vlib"
)

// Tolerances of the quadrature exactness classes (all relative to the sum of
// absolute terms sum_i w_i |x_i|^d, i.e. they bound rounding only; the rules
// are exact on the class so there is no truncation error).
const (
	tolLegendreMoment = 1e-13 // degrees <= 40; grows as d/40 above (node rounding enters as d*eps); observed worst 1.5e-14 at d = 200
	tolLegendreSum    = 2e-14 // sum of weights vs b-a
	tolHermiteTight   = 2e-13 // see hermiteTol (observed worst 9e-15)
	tolHermiteLoose   = 1e-9  // see hermiteTol (observed worst 2.9e-11, see NOTES.md)
	tolNodeSymmetry   = 4e-15 // |x_i + x_{n-1-i} - (a+b)| relative to |a|+|b|
)

func legendreTol(d int) float64 {
	switch {
	case d == 0:
		return tolLegendreSum
	case d <= 40:
		return tolLegendreMoment
	}
	return tolLegendreMoment * float64(d) / 40
}

// hermiteTol: the tabulated rules for odd n in 21..199 have outermost weights that are only
// accurate to about 1e-11 relative (absolute error far below 1e-100), which shows in the moments of
// degree above n; the rows for n >= 200 and the asymptotic branch are accurate to 1e-11 overall.
// Everything else is accurate to a few ulps.
func hermiteTol(n, d int) (tol float64, class string) {
	if n >= 200 || (n%2 == 1 && n >= 21 && d > n) {
		return tolHermiteLoose, "loose"
	}
	return tolHermiteTight, "tight"
}

// legendreNs: the design's quick subset {1..40, 99..102, 150, 299, 300} costs almost nothing, so
// both tiers run every n in 1..300 (the n=26 table typo shows why every row matters).
func legendreNs(g *vlib.G) []int { return vlib.Ints(1, 300) }

func hermiteNs(g *vlib.G) []int { return vlib.Ints(1, 300) }

var legendreIntervals = [][2]float64{{-1, 1}, {0, 1}, {-3, 5}, {-10, -9.5}, {0, 1024}, {-5, 0}, {1, 3}, {-1. / 1024, 1. / 1024}}

// maxMomentDegree is the highest monomial degree evaluated (the rules are exact up to 2n-1).
func maxMomentDegree(tier string) int {
	if tier == "thorough" {
		return 250
	}
	return 150
}

func genLegendre(g *vlib.G) {
	for _, n := range legendreNs(g) {
		for _, iv := range legendreIntervals {
			n, a, b := n, iv[0], iv[1]
			maxD := maxMomentDegree(g.Tier)
			g.Case(fmt.Sprintf("n=%d [%g,%g]", n, a, b), func(t *vlib.T) { legendreCase(t, n, a, b, maxD) })
		}
	}
}

// moments returns, for d = 0..D, sum_i w_i x_i^d and sum_i w_i |x_i|^d in 200-bit arithmetic.
func moments(x, w []float64, D int) (sum, abs []*big.Float) {
	sum = make([]*big.Float, D+1)
	abs = make([]*big.Float, D+1)
	for d := range sum {
		sum[d] = bigZero()
		abs[d] = bigZero()
	}
	tmp := bigZero()
	for i := range x {
		p := bigF(w[i])
		xi := bigF(x[i])
		for d := 0; d <= D; d++ {
			sum[d].Add(sum[d], p)
			abs[d].Add(abs[d], tmp.Abs(p))
			p.Mul(p, xi)
		}
	}
	return sum, abs
}

func legendreCase(t *vlib.T, n int, a, b float64, maxD int) {
	x := make([]float64, n)
	w := make([]float64, n)
	for i := range x {
		x[i], w[i] = math.NaN(), math.NaN()
	}
	var rule quad.Legendre
	rule.FixedLocations(x, w, a, b)
	branch := "tabulated"
	if n > 100 {
		branch = "asymptotic"
	}
	t.Outcome(fmt.Sprintf("%s n%%2=%d", branch, n%2))
	t.Nontrivial()
	t.Count("rule_nodes", int64(n))

	// FixedLocations == FixedLocationSingle for every k.
	for k := 0; k < n; k++ {
		xs, ws := rule.FixedLocationSingle(n, k, a, b)
		if !sameBits(xs, x[k]) || !sameBits(ws, w[k]) {
			t.Failf("FixedLocationSingle(n=%d,k=%d)=(%v,%v) but FixedLocations gives (%v,%v)", n, k, xs, ws, x[k], w[k])
			return
		}
	}
	// Known finding: the tabulated weights for n=26 contain "0, .1055...e-1" instead of
	// "0.1055...e-1", so the two outermost weights are exactly zero.
	if n == 26 && (w[0] == 0 || w[n-1] == 0) {
		s := 0.0
		for _, v := range w {
			s += v
		}
		t.FailClass("legendre-n26-zero-weight", "Legendre n=26 on [%v,%v]: weight[0]=%v weight[25]=%v (sum of weights %v, want %v)", a, b, w[0], w[n-1], s, b-a)
		return
	}
	// Weights positive, nodes strictly monotone and strictly inside (a,b).
	for i := range x {
		if !(w[i] > 0) {
			t.Failf("weight[%d]=%v is not positive", i, w[i])
		}
		if !(x[i] > a && x[i] < b) {
			t.Failf("node[%d]=%v outside (%v,%v)", i, x[i], a, b)
		}
		// The documentation does not fix the direction of the ordering (the
		// implementation returns decreasing nodes); it must be strictly monotone.
		if i > 1 && !((x[i] > x[i-1]) == (x[1] > x[0]) && x[i] != x[i-1]) {
			t.Failf("nodes not strictly monotone at %d: %v, %v", i, x[i-1], x[i])
		}
	}
	if n > 1 && x[0] == x[1] {
		t.Failf("nodes 0 and 1 coincide: %v", x[0])
	}
	// Symmetry about the midpoint.
	scale := math.Abs(a) + math.Abs(b)
	for i := 0; i < n; i++ {
		j := n - 1 - i
		if d := math.Abs(x[i] + x[j] - (a + b)); d > tolNodeSymmetry*scale {
			t.Failf("nodes %d and %d not symmetric about the midpoint: %v %v (defect %g)", i, j, x[i], x[j], d)
		}
		if !closeTo(w[i], w[j], 4e-15, 0) {
			t.Failf("weights %d and %d differ: %v %v", i, j, w[i], w[j])
		}
	}
	if t.Failed() {
		return
	}
	// Moments.
	D := 2*n - 1
	guard := 2*n <= 12 && b-a >= 1 && math.Abs(a) <= 5 && math.Abs(b) <= 5 // the first degree beyond the class must not be integrated exactly
	if D > maxD {
		D = maxD
	}
	top := D
	if guard {
		top = 2 * n
	}
	sum, abs := moments(x, w, top)
	worst := 0.0
	defer func() { t.Max("legendre_worst_defect_1e-18", int64(worst*1e18)) }()
	for d := 0; d <= D; d++ {
		want := ratToBig(ratMonomialIntegral(a, b, d))
		tol := legendreTol(d)
		e := bigRelErr(sum[d], want, abs[d])
		if !(e <= tol) {
			t.Failf("moment d=%d: sum w x^d = %s, integral = %s, relative defect %.3g > %g", d, sum[d].Text('g', 25), want.Text('g', 25), e, tol)
		}
		if d > 0 && e > worst {
			worst = e
		}
		t.Count("moments_checked", 1)
	}
	if guard {
		want := ratToBig(ratMonomialIntegral(a, b, 2*n))
		if e := bigRelErr(sum[2*n], want, abs[2*n]); !(e > 1e-9) {
			t.Failf("vacuity guard: degree %d = 2n is integrated exactly (defect %.3g); the oracle cannot see truncation", 2*n, e)
		}
	}
}

func genHermite(g *vlib.G) {
	for _, n := range hermiteNs(g) {
		n := n
		maxD := maxMomentDegree(g.Tier)
		g.Case(fmt.Sprintf("n=%d", n), func(t *vlib.T) { hermiteCase(t, n, maxD) })
	}
}

// hermiteMoment returns int x^d exp(-x^2) dx = Gamma((d+1)/2) for even d, 0 for odd d.
func hermiteMoment(d int) *big.Float {
	if d%2 == 1 {
		return bigZero()
	}
	v := bigSqrtPi()
	for k := 1; k < d; k += 2 {
		v.Mul(v, bigF(float64(k)))
		v.Quo(v, bigF(2))
	}
	return v
}

func hermiteCase(t *vlib.T, n int, maxD int) {
	x := make([]float64, n)
	w := make([]float64, n)
	for i := range x {
		x[i], w[i] = math.NaN(), math.NaN()
	}
	quad.Hermite{}.FixedLocations(x, w, math.Inf(-1), math.Inf(1))
	branch := "tabulated"
	if n > 200 {
		branch = "asymptotic"
	}
	tol, _ := hermiteTol(n, 2*n-1)
	t.Outcome(fmt.Sprintf("%s n%%2=%d", branch, n%2))
	t.Nontrivial()
	t.Count("rule_nodes", int64(n))
	for i := range x {
		if !(w[i] > 0) {
			t.Failf("weight[%d]=%v is not positive", i, w[i])
		}
		if i > 0 && !(x[i] > x[i-1]) {
			t.Failf("nodes not strictly increasing at %d: %v, %v", i, x[i-1], x[i])
		}
		j := n - 1 - i
		if d := math.Abs(x[i] + x[j]); d > 1e-13*(1+math.Abs(x[i])) {
			t.Failf("nodes %d and %d not symmetric about 0: %v %v", i, j, x[i], x[j])
		}
		if !closeTo(w[i], w[j], tol*10, 0) {
			t.Failf("weights %d and %d differ: %v %v", i, j, w[i], w[j])
		}
	}
	if t.Failed() {
		return
	}
	D := 2*n - 1
	guard := 2*n <= 16
	if D > maxD {
		D = maxD
	}
	top := D
	if guard {
		top = 2 * n
	}
	sum, abs := moments(x, w, top)
	worst := map[string]float64{}
	defer func() {
		for class, e := range worst {
			t.Max("hermite_"+class+"_worst_defect_1e-18", int64(e*1e18))
		}
	}()
	for d := 0; d <= D; d++ {
		want := hermiteMoment(d)
		e := bigRelErr(sum[d], want, abs[d])
		tol, class := hermiteTol(n, d)
		if !(e <= tol) {
			t.Failf("moment d=%d: sum w x^d = %s, integral = %s, relative defect %.3g > %g", d, sum[d].Text('g', 25), want.Text('g', 25), e, tol)
		}
		if e > worst[class] {
			worst[class] = e
		}
		t.Count("moments_checked", 1)
	}
	if guard {
		if e := bigRelErr(sum[2*n], hermiteMoment(2*n), abs[2*n]); !(e > 1e-9) {
			t.Failf("vacuity guard: degree %d = 2n is integrated exactly (defect %.3g)", 2*n, e)
		}
	}
	// quad.Fixed with the Hermite rule is the weighted sum.
	for _, conc := range []int{0, 3} {
		got := quad.Fixed(func(v float64) float64 { return v*v + 1 }, math.Inf(-1), math.Inf(1), n, quad.Hermite{}, conc)
		want := 0.0
		for i := range x {
			want += w[i] * (x[i]*x[i] + 1)
		}
		if !closeTo(got, want, 1e-13, 0) {
			t.Failf("Fixed(x^2+1, Hermite, concurrent=%d)=%v want %v", conc, got, want)
		}
	}
}

// onlyLocations hides FixedLocationSingle so that Fixed takes the FixedLocations path.
type onlyLocations struct{ r quad.FixedLocationer }

func (o onlyLocations) FixedLocations(x, w []float64, min, max float64) {
	o.r.FixedLocations(x, w, min, max)
}

type fixedIntegrand struct {
	name   string
	f      func(x, c float64) float64 // c is the finite end point (0 for the whole line)
	lo, hi int                        // -1: -Inf, 0: finite end c, +1: +Inf
	want   float64
}

func genFixed(g *vlib.G) {
	inf := math.Inf(1)
	// (a) Exactness classes of the variable substitutions on semi-infinite ranges:
	// on [c,inf) the integrand s^k/(1+s)^(k+2), s=x-c, becomes t^k on [0,1];
	// on (-inf,c] the integrand s^k/(1+s)^(k+2), s=c-x, becomes (1-t)^k. Integral 1/(k+1).
	for _, side := range []int{+1, -1} {
		for _, c := range []float64{0, 2, -1.5, 0.125, -64} {
			for k := 0; k <= 5; k++ {
				for _, n := range append(vlib.Ints(1, 40), 63, 64, 99, 100, 101, 102, 150, 200, 255, 256, 300) {
					if k > 2*n-1 {
						continue
					}
					side, c, k, n := side, c, k, n
					g.Case(fmt.Sprintf("semi-exact side=%+d c=%g k=%d n=%d", side, c, k, n), func(t *vlib.T) {
						f := func(x float64) float64 {
							s := x - c
							if side < 0 {
								s = c - x
							}
							return powi(s, k) / powi(1+s, k+2)
						}
						lo, hi := c, inf
						if side < 0 {
							lo, hi = -inf, c
						}
						want := 1 / float64(k+1)
						t.Nontrivial()
						t.Outcome(fmt.Sprintf("semi-exact side=%+d", side))
						for _, conc := range []int{0, 1, 4, n + 3} {
							got := quad.Fixed(f, lo, hi, n, nil, conc)
							if !closeTo(got, want, 1e-12, 0) {
								t.Failf("Fixed on [%v,%v] n=%d concurrent=%d = %v, want %v (exactness class of the substitution)", lo, hi, n, conc, got, want)
							}
						}
					})
				}
			}
		}
	}
	// (b) Monotone error tables.
	tabs := []fixedIntegrand{
		{"exp(-x^2)", func(x, c float64) float64 { return math.Exp(-x * x) }, -1, 1, math.SqrtPi},
		{"1/(1+x^2)", func(x, c float64) float64 { return 1 / (1 + x*x) }, -1, 1, math.Pi},
		{"1/(1+x^2)^2", func(x, c float64) float64 { return 1 / ((1 + x*x) * (1 + x*x)) }, -1, 1, math.Pi / 2},
		{"x^2exp(-x^2)", func(x, c float64) float64 { return x * x * math.Exp(-x*x) }, -1, 1, math.SqrtPi / 2},
		{"exp(-(x-c))", func(x, c float64) float64 { return math.Exp(-(x - c)) }, 0, 1, 1},
		{"(x-c)exp(-(x-c))", func(x, c float64) float64 { return (x - c) * math.Exp(-(x - c)) }, 0, 1, 1},
		{"exp(x-c)", func(x, c float64) float64 { return math.Exp(x - c) }, -1, 0, 1},
		{"(c-x)exp(x-c)", func(x, c float64) float64 { return (c - x) * math.Exp(x-c) }, -1, 0, 1},
	}
	for _, tc := range tabs {
		cs := []float64{0}
		if tc.lo == 0 || tc.hi == 0 {
			cs = []float64{0, 2, -1.5}
		}
		for _, c := range cs {
			tc, c := tc, c
			g.Case(fmt.Sprintf("table %s c=%g", tc.name, c), func(t *vlib.T) {
				lo, hi := -inf, inf
				if tc.lo == 0 {
					lo = c
				}
				if tc.hi == 0 {
					hi = c
				}
				t.Nontrivial()
				t.Outcome(fmt.Sprintf("table lo=%d hi=%d", tc.lo, tc.hi))
				f := func(x float64) float64 { return tc.f(x, c) }
				floor := 1e-12 * math.Abs(tc.want)
				prev := math.Inf(1)
				var errs []float64
				for _, n := range []int{2, 4, 8, 16, 32, 64, 128, 256} {
					got := quad.Fixed(f, lo, hi, n, nil, 0)
					e := math.Abs(got - tc.want)
					errs = append(errs, e)
					if math.IsNaN(e) || e > math.Max(prev, floor) {
						t.Failf("error not decreasing at n=%d: %v (table %v)", n, e, errs)
					}
					gotc := quad.Fixed(f, lo, hi, n, nil, 5)
					if !closeTo(gotc, got, 1e-13, math.Abs(tc.want)) {
						t.Failf("n=%d concurrent result %v differs from serial %v", n, gotc, got)
					}
					prev = e
				}
				if prev > floor {
					t.Failf("not converged at n=256: error %v (table %v)", prev, errs)
				}
				if errs[0] < 1e-3 {
					t.Failf("vacuity guard: n=2 already exact (%v)", errs[0])
				}
				t.Detail(map[string]any{"errors": errs})
			})
		}
	}
	// (c) Finite interval through Fixed: default rule, explicit Legendre (single-location
	// path) and a wrapper exposing only FixedLocations.
	for _, n := range append(vlib.Ints(1, 60), 99, 100, 101, 102, 199, 200, 300) {
		n := n
		g.Case(fmt.Sprintf("finite n=%d", n), func(t *vlib.T) {
			a, b := -3.0, 5.0
			t.Nontrivial()
			t.Outcome("finite")
			rules := []struct {
				name string
				r    quad.FixedLocationer
			}{{"nil", nil}, {"Legendre", quad.Legendre{}}, {"locations-only", onlyLocations{quad.Legendre{}}}}
			D := 2*n - 1
			if D > 12 {
				D = 12
			}
			for d := 0; d <= D; d++ {
				want := ratFloat(ratMonomialIntegral(a, b, d))
				scale := powi(5, d) * 8
				for _, r := range rules {
					for _, conc := range []int{0, 1, 3, n + 2} {
						got := quad.Fixed(func(x float64) float64 { return powi(x, d) }, a, b, n, r.r, conc)
						if math.Abs(got-want) > 1e-13*scale {
							t.Failf("Fixed(x^%d,[%v,%v],n=%d,rule=%s,concurrent=%d)=%v want %v", d, a, b, n, r.name, conc, got, want)
						}
					}
				}
			}
		})
	}
	// (d) Documented panics and the empty interval.
	g.Case("panics", func(t *vlib.T) {
		t.Nontrivial()
		one := func(float64) float64 { return 1 }
		for _, n := range []int{0, -1} {
			if _, p := catch(func() { quad.Fixed(one, 0, 1, n, nil, 0) }); !p {
				t.Failf("Fixed with n=%d did not panic", n)
			}
		}
		if _, p := catch(func() { quad.Fixed(one, 1, 0, 3, nil, 0) }); !p {
			t.Failf("Fixed with min > max did not panic")
		}
		for _, conc := range []int{0, 2} {
			if got := quad.Fixed(one, 2, 2, 3, nil, conc); got != 0 {
				t.Failf("Fixed on an empty interval = %v, want 0", got)
			}
		}
		if _, p := catch(func() { quad.Legendre{}.FixedLocations(make([]float64, 3), make([]float64, 2), 0, 1) }); !p {
			t.Failf("Legendre.FixedLocations with mismatched slices did not panic")
		}
		if _, p := catch(func() {
			quad.Hermite{}.FixedLocations(make([]float64, 3), make([]float64, 2), math.Inf(-1), math.Inf(1))
		}); !p {
			t.Failf("Hermite.FixedLocations with mismatched slices did not panic")
		}
	})
}
