package main

import (
	"fmt"
	"math"
	"math/cmplx"

	"gonum.org/v1/gonum/internal/verif/vlib"
	"gonum.org/v1/gonum/num/dual"
	"gonum.org/v1/gonum/num/dualcmplx"
	"gonum.org/v1/gonum/num/dualquat"
	"gonum.org/v1/gonum/num/hyperdual"
	"gonum.org/v1/gonum/num/quat"
)

// ---- dual ----

func dualEq(a, b dual.Number) bool { return sameVal(a.Real, b.Real) && sameVal(a.Emag, b.Emag) }

func dualAlphabet() []dual.Number {
	vals := []float64{-2, -1, 0, 1, 2, 0.5, -0.5, 4}
	var out []dual.Number
	for _, r := range vals {
		for _, e := range vals {
			out = append(out, dual.Number{Real: r, Emag: e})
		}
	}
	return out
}

func genDualRing(g *vlib.G) {
	A := dualAlphabet()
	for _, x := range A {
		x := x
		g.Case(fmt.Sprintf("dual x=%v", x), func(t *vlib.T) {
			t.Nontrivial()
			one := dual.Number{Real: 1}
			if x.Real != 0 {
				if p := dual.Mul(x, dual.Inv(x)); !dualEq(p, one) {
					t.Failf("x*Inv(x)=%v for x=%v", p, x)
				}
				t.Outcome("unit")
			} else {
				t.Outcome("zero-divisor")
			}
			if a := dual.Abs(x); a.Real != math.Abs(x.Real) || (x.Real > 0 && !dualEq(a, x)) || (x.Real < 0 && !dualEq(a, dual.Scale(-1, x))) {
				t.Failf("Abs(%v)=%v", x, a)
			}
			for _, y := range A {
				xy := dual.Mul(x, y)
				if !dualEq(xy, dual.Mul(y, x)) {
					t.Failf("x*y != y*x for %v, %v", x, y)
				}
				if x.Real == 0 && y.Real == 0 && !dualEq(xy, dual.Number{}) {
					t.Failf("product of the nilpotents %v and %v is %v, want 0", x, y, xy)
				}
				if !dualEq(dual.Sub(x, y), dual.Add(x, dual.Scale(-1, y))) {
					t.Failf("x-y != x+(-1)y for %v, %v", x, y)
				}
				if !dualEq(dual.Scale(y.Real, x), dual.Mul(dual.Number{Real: y.Real}, x)) {
					t.Failf("Scale(%v, %v) != Mul", y.Real, x)
				}
				if x.Real != 0 && y.Real != 0 && !dualEq(dual.Abs(xy), dual.Mul(dual.Abs(x), dual.Abs(y))) {
					t.Failf("Abs(xy) != Abs(x)Abs(y) for %v, %v", x, y)
				}
				for _, z := range A {
					if !dualEq(dual.Mul(xy, z), dual.Mul(x, dual.Mul(y, z))) {
						t.Failf("(xy)z != x(yz) for %v, %v, %v", x, y, z)
					}
					if !dualEq(dual.Mul(x, dual.Add(y, z)), dual.Add(xy, dual.Mul(x, z))) {
						t.Failf("x(y+z) != xy+xz for %v, %v, %v", x, y, z)
					}
					if !dualEq(dual.Add(dual.Add(x, y), z), dual.Add(x, dual.Add(y, z))) {
						t.Failf("(x+y)+z != x+(y+z) for %v, %v, %v", x, y, z)
					}
				}
				t.Count("triples", int64(len(A)))
			}
		})
	}
}

// ---- hyperdual ----

func hdEq(a, b hyperdual.Number) bool {
	return sameVal(a.Real, b.Real) && sameVal(a.E1mag, b.E1mag) && sameVal(a.E2mag, b.E2mag) && sameVal(a.E1E2mag, b.E1E2mag)
}

func hdAlphabet() []hyperdual.Number {
	var out []hyperdual.Number
	for _, r := range []float64{-1, 0, 1, 2, 0.5} {
		for _, e1 := range []float64{-1, 0, 1, 2} {
			for _, e2 := range []float64{-1, 0, 2} {
				for _, e12 := range []float64{-1, 0, 2, 0.5} {
					out = append(out, hyperdual.Number{Real: r, E1mag: e1, E2mag: e2, E1E2mag: e12})
				}
			}
		}
	}
	return out
}

func genHyperdualRing(g *vlib.G) {
	A := hdAlphabet()
	for _, x := range A {
		x := x
		g.Case(fmt.Sprintf("hyperdual x=%v", x), func(t *vlib.T) {
			t.Nontrivial()
			one := hyperdual.Number{Real: 1}
			if x.Real != 0 {
				if p := hyperdual.Mul(x, hyperdual.Inv(x)); !hdEq(p, one) {
					t.Failf("x*Inv(x)=%v for x=%v", p, x)
				}
				t.Outcome("unit")
			} else {
				t.Outcome("zero-divisor")
			}
			if a := hyperdual.Abs(x); a.Real != math.Abs(x.Real) || (x.Real > 0 && !hdEq(a, x)) || (x.Real < 0 && !hdEq(a, hyperdual.Scale(-1, x))) {
				t.Failf("Abs(%v)=%v", x, a)
			}
			for _, y := range A {
				xy := hyperdual.Mul(x, y)
				if !hdEq(xy, hyperdual.Mul(y, x)) {
					t.Failf("x*y != y*x for %v, %v", x, y)
				}
				if !hdEq(hyperdual.Sub(x, y), hyperdual.Add(x, hyperdual.Scale(-1, y))) {
					t.Failf("x-y != x+(-1)y for %v, %v", x, y)
				}
				if !hdEq(hyperdual.Scale(y.Real, x), hyperdual.Mul(hyperdual.Number{Real: y.Real}, x)) {
					t.Failf("Scale(%v, %v) != Mul", y.Real, x)
				}
				for _, z := range A {
					if !hdEq(hyperdual.Mul(xy, z), hyperdual.Mul(x, hyperdual.Mul(y, z))) {
						t.Failf("(xy)z != x(yz) for %v, %v, %v", x, y, z)
					}
					if !hdEq(hyperdual.Mul(x, hyperdual.Add(y, z)), hyperdual.Add(xy, hyperdual.Mul(x, z))) {
						t.Failf("x(y+z) != xy+xz for %v, %v, %v", x, y, z)
					}
				}
				t.Count("triples", int64(len(A)))
			}
		})
	}
}

// ---- quat ----

func qEq(a, b quat.Number) bool {
	return sameVal(a.Real, b.Real) && sameVal(a.Imag, b.Imag) && sameVal(a.Jmag, b.Jmag) && sameVal(a.Kmag, b.Kmag)
}

func qClose(a, b quat.Number, tol float64) bool {
	s := math.Max(1, math.Max(quat.Abs(a), quat.Abs(b)))
	return quat.Abs(quat.Sub(a, b)) <= tol*s
}

func qNorm2(a quat.Number) float64 {
	return a.Real*a.Real + a.Imag*a.Imag + a.Jmag*a.Jmag + a.Kmag*a.Kmag
}

func quatAlphabet(vals []float64) []quat.Number {
	var out []quat.Number
	for _, r := range vals {
		for _, i := range vals {
			for _, j := range vals {
				for _, k := range vals {
					out = append(out, quat.Number{Real: r, Imag: i, Jmag: j, Kmag: k})
				}
			}
		}
	}
	return out
}

func genQuatRing(g *vlib.G) {
	A := quatAlphabet(vlib.Pick(g, []float64{-2, -1, 0, 1, 2}, []float64{-2, -1, 0, 1, 2, 0.5}))
	for _, x := range A {
		x := x
		g.Case(fmt.Sprintf("quat x=%v", x), func(t *vlib.T) {
			t.Nontrivial()
			one := quat.Number{Real: 1}
			n2 := qNorm2(x)
			if n2 != 0 {
				xi := quat.Inv(x)
				if p := quat.Mul(x, xi); !qClose(p, one, 1e-15) {
					t.Failf("x*Inv(x)=%v for x=%v", p, x)
				}
				if p := quat.Mul(xi, x); !qClose(p, one, 1e-15) {
					t.Failf("Inv(x)*x=%v for x=%v", p, x)
				}
			}
			if c := quat.Mul(x, quat.Conj(x)); !qEq(c, quat.Number{Real: n2}) {
				t.Failf("x*Conj(x)=%v, want %v", c, n2)
			}
			if !qEq(quat.Conj(quat.Conj(x)), x) {
				t.Failf("Conj is not an involution on %v", x)
			}
			if a := quat.Abs(x); !closeTo(a, math.Sqrt(n2), 4e-16, 0) {
				t.Failf("Abs(%v)=%v want %v", x, a, math.Sqrt(n2))
			}
			noncomm := 0
			for _, y := range A {
				xy := quat.Mul(x, y)
				if !qEq(xy, quat.Mul(y, x)) {
					noncomm++
				}
				if !qEq(quat.Conj(xy), quat.Mul(quat.Conj(y), quat.Conj(x))) {
					t.Failf("Conj(xy) != Conj(y)Conj(x) for %v, %v", x, y)
				}
				if qNorm2(xy) != n2*qNorm2(y) {
					t.Failf("|xy|^2 != |x|^2 |y|^2 for %v, %v", x, y)
				}
				if !closeTo(quat.Abs(xy), quat.Abs(x)*quat.Abs(y), 1e-15, 0) {
					t.Failf("Abs(xy)=%v != Abs(x)Abs(y)=%v for %v, %v", quat.Abs(xy), quat.Abs(x)*quat.Abs(y), x, y)
				}
				if !qEq(quat.Sub(x, y), quat.Add(x, quat.Scale(-1, y))) {
					t.Failf("x-y != x+(-1)y for %v, %v", x, y)
				}
				if !qEq(quat.Scale(y.Real, x), quat.Mul(quat.Number{Real: y.Real}, x)) {
					t.Failf("Scale(%v, %v) != Mul", y.Real, x)
				}
				for _, z := range A {
					if !qEq(quat.Mul(xy, z), quat.Mul(x, quat.Mul(y, z))) {
						t.Failf("(xy)z != x(yz) for %v, %v, %v", x, y, z)
					}
					if !qEq(quat.Mul(x, quat.Add(y, z)), quat.Add(xy, quat.Mul(x, z))) {
						t.Failf("x(y+z) != xy+xz for %v, %v, %v", x, y, z)
					}
					if !qEq(quat.Mul(quat.Add(y, z), x), quat.Add(quat.Mul(y, x), quat.Mul(z, x))) {
						t.Failf("(y+z)x != yx+zx for %v, %v, %v", x, y, z)
					}
				}
				t.Count("triples", int64(len(A)))
			}
			if noncomm > 0 {
				t.Outcome("non-central")
			} else {
				t.Outcome("central")
			}
		})
	}
}

// ---- dualquat ----

func dqEq(a, b dualquat.Number) bool { return qEq(a.Real, b.Real) && qEq(a.Dual, b.Dual) }

func dqAlphabet(thorough bool) []dualquat.Number {
	Q := []quat.Number{
		{}, {Real: 1}, {Imag: 1}, {Jmag: 1}, {Kmag: 1}, {Real: -1, Kmag: 1}, {Real: 1, Imag: 1}, {Jmag: 1, Kmag: -1}, {Real: 1, Imag: 1, Jmag: 1, Kmag: 1},
		{Real: 2}, {Imag: 1, Jmag: 1}, {Real: -1, Imag: 1, Jmag: -1, Kmag: 1}, {Real: 0.5, Jmag: -0.5}, {Imag: -2}, {Real: -1}, {Real: 1, Kmag: -1},
	}
	Q = append(Q, quat.Number{Imag: 1, Kmag: 1}, quat.Number{Real: 1, Jmag: 1}, quat.Number{Jmag: 2}, quat.Number{Real: -1, Imag: -1, Jmag: 1, Kmag: 1})
	if thorough {
		Q = append(Q, quat.Number{Imag: -1, Kmag: 1}, quat.Number{Real: 1, Jmag: -1}, quat.Number{Kmag: 2}, quat.Number{Real: 1, Imag: -1, Jmag: 1, Kmag: -1},
			quat.Number{Real: 0.5, Imag: 0.5, Jmag: 0.5, Kmag: 0.5}, quat.Number{Kmag: -0.5}, quat.Number{Real: 2, Imag: -2}, quat.Number{Real: 1, Imag: -1, Jmag: -1, Kmag: -1})
	}
	var out []dualquat.Number
	for _, r := range Q {
		for _, d := range Q {
			out = append(out, dualquat.Number{Real: r, Dual: d})
		}
	}
	return out
}

func genDualquatRing(g *vlib.G) {
	A := dqAlphabet(g.Thorough())
	for _, x := range A {
		x := x
		g.Case(fmt.Sprintf("dualquat x=%v", x), func(t *vlib.T) {
			t.Nontrivial()
			one := dualquat.Number{Real: quat.Number{Real: 1}}
			zero := quat.Number{}
			commuting := qEq(quat.Mul(x.Real, x.Dual), quat.Mul(x.Dual, x.Real))
			n2 := qNorm2(x.Real)
			if n2 == 1 || n2 == 2 || n2 == 4 || n2 == 0.5 || n2 == 0.25 || n2 == 8 {
				// 1/|q|^2 is a power of two and the squared real part has power-of-two norm: everything is exact
				// up to the rounding of Abs (sqrt), so compare with a tolerance of a few ulps.
				xi := dualquat.Inv(x)
				l, r := dualquat.Mul(x, xi), dualquat.Mul(xi, x)
				ok := qClose(l.Real, one.Real, 1e-15) && qClose(l.Dual, zero, 1e-15) && qClose(r.Real, one.Real, 1e-15) && qClose(r.Dual, zero, 1e-15)
				if !ok && !commuting {
					t.SubViolation("inv", "dualquat-inv-noncommuting", nil, "Inv(x) is not the inverse of x=%v: x*Inv(x)=%v, Inv(x)*x=%v (real and dual part do not commute)", x, l, r)
				} else if !ok {
					t.Failf("Inv(x) is not the inverse of x=%v: x*Inv(x)=%v, Inv(x)*x=%v", x, l, r)
				}
				t.Outcome(fmt.Sprintf("unit commuting=%v", commuting))
			} else {
				t.Outcome("other")
			}
			if !dqEq(dualquat.Conj(x), dualquat.ConjDual(dualquat.ConjQuat(x))) {
				t.Failf("Conj != ConjDual(ConjQuat) on %v", x)
			}
			for _, c := range []func(dualquat.Number) dualquat.Number{dualquat.Conj, dualquat.ConjDual, dualquat.ConjQuat} {
				if !dqEq(c(c(x)), x) {
					t.Failf("a conjugate is not an involution on %v", x)
				}
			}
			if a := dualquat.Abs(x); !closeTo(a.Real, math.Sqrt(n2), 4e-16, 0) {
				t.Failf("Abs(%v).Real=%v want %v", x, a.Real, math.Sqrt(n2))
			}
			for _, y := range A {
				xy := dualquat.Mul(x, y)
				if !dqEq(dualquat.Conj(xy), dualquat.Mul(dualquat.Conj(y), dualquat.Conj(x))) {
					t.Failf("Conj(xy) != Conj(y)Conj(x) for %v, %v", x, y)
				}
				if !dqEq(dualquat.ConjQuat(xy), dualquat.Mul(dualquat.ConjQuat(y), dualquat.ConjQuat(x))) {
					t.Failf("ConjQuat(xy) != ConjQuat(y)ConjQuat(x) for %v, %v", x, y)
				}
				if !dqEq(dualquat.ConjDual(xy), dualquat.Mul(dualquat.ConjDual(x), dualquat.ConjDual(y))) {
					t.Failf("ConjDual(xy) != ConjDual(x)ConjDual(y) for %v, %v", x, y)
				}
				if !dqEq(dualquat.Sub(x, y), dualquat.Add(x, dualquat.Scale(-1, y))) {
					t.Failf("x-y != x+(-1)y for %v, %v", x, y)
				}
				for _, z := range A {
					if !dqEq(dualquat.Mul(xy, z), dualquat.Mul(x, dualquat.Mul(y, z))) {
						t.Failf("(xy)z != x(yz) for %v, %v, %v", x, y, z)
					}
					if !dqEq(dualquat.Mul(x, dualquat.Add(y, z)), dualquat.Add(xy, dualquat.Mul(x, z))) {
						t.Failf("x(y+z) != xy+xz for %v, %v, %v", x, y, z)
					}
					if !dqEq(dualquat.Mul(dualquat.Add(y, z), x), dualquat.Add(dualquat.Mul(y, x), dualquat.Mul(z, x))) {
						t.Failf("(y+z)x != yx+zx for %v, %v, %v", x, y, z)
					}
				}
				t.Count("triples", int64(len(A)))
			}
		})
	}
}

// ---- dualcmplx ----

func dcEq(a, b dualcmplx.Number) bool {
	return sameVal(real(a.Real), real(b.Real)) && sameVal(imag(a.Real), imag(b.Real)) && sameVal(real(a.Dual), real(b.Dual)) && sameVal(imag(a.Dual), imag(b.Dual))
}

func dcClose(a, b dualcmplx.Number, tol float64) bool {
	s := math.Max(1, math.Max(cmplx.Abs(a.Real)+cmplx.Abs(a.Dual), cmplx.Abs(b.Real)+cmplx.Abs(b.Dual)))
	return cmplx.Abs(a.Real-b.Real)+cmplx.Abs(a.Dual-b.Dual) <= tol*s
}

func dcAlphabet(thorough bool) []dualcmplx.Number {
	C := []complex128{0, 1, -1, 1i, -1i, 1 + 1i, 2, 1 - 2i, 0.5, -1 + 1i, 2i, -0.5i, 3, 2 - 1i, -2 - 2i, 1 - 1i, -1 - 1i, 4, 0.25i, 3 + 4i}
	if thorough {
		C = append(C, -3+1i, 0.5+0.5i, -2, 1+2i, 2+2i, -4i, 0.125, 5-1i, -1+3i, 2-3i)
	}
	var out []dualcmplx.Number
	for _, r := range C {
		for _, d := range C {
			out = append(out, dualcmplx.Number{Real: r, Dual: d})
		}
	}
	return out
}

// dcMulRef is the product of the anti-commutative dual complex numbers of
// arXiv:1601.01754: eps*z = conj(z)*eps, eps^2 = 0.
func dcMulRef(x, y dualcmplx.Number) dualcmplx.Number {
	return dualcmplx.Number{Real: x.Real * y.Real, Dual: x.Real*y.Dual + x.Dual*cmplx.Conj(y.Real)}
}

func genDualcmplxRing(g *vlib.G) {
	A := dcAlphabet(g.Thorough())
	for _, x := range A {
		x := x
		g.Case(fmt.Sprintf("dualcmplx x=%v", x), func(t *vlib.T) {
			t.Nontrivial()
			one := dualcmplx.Number{Real: 1}
			if x.Real != 0 {
				xi := dualcmplx.Inv(x)
				if l, r := dualcmplx.Mul(x, xi), dualcmplx.Mul(xi, x); !dcClose(l, one, 1e-15) || !dcClose(r, one, 1e-15) {
					t.Failf("Inv(x) is not the inverse of %v: %v, %v", x, l, r)
				}
				t.Outcome("unit")
			} else {
				t.Outcome("zero-divisor")
			}
			if a := dualcmplx.Abs(x); !closeTo(a, cmplx.Abs(x.Real), 4e-16, 0) {
				t.Failf("Abs(%v)=%v", x, a)
			}
			if !dcEq(dualcmplx.Conj(dualcmplx.Conj(x)), x) {
				t.Failf("Conj is not an involution on %v", x)
			}
			noncomm := 0
			for _, y := range A {
				xy := dualcmplx.Mul(x, y)
				if !dcEq(xy, dcMulRef(x, y)) {
					t.Failf("Mul(%v,%v)=%v, definition gives %v", x, y, xy, dcMulRef(x, y))
				}
				if !dcEq(xy, dualcmplx.Mul(y, x)) {
					noncomm++
				}
				if !dcEq(dualcmplx.Conj(xy), dualcmplx.Mul(dualcmplx.Conj(y), dualcmplx.Conj(x))) {
					t.Failf("Conj(xy) != Conj(y)Conj(x) for %v, %v", x, y)
				}
				if !closeTo(dualcmplx.Abs(xy), dualcmplx.Abs(x)*dualcmplx.Abs(y), 1e-15, 0) {
					t.Failf("Abs(xy) != Abs(x)Abs(y) for %v, %v", x, y)
				}
				if !dcEq(dualcmplx.Sub(x, y), dualcmplx.Add(x, dualcmplx.Scale(-1, y))) {
					t.Failf("x-y != x+(-1)y for %v, %v", x, y)
				}
				for _, z := range A {
					if !dcEq(dualcmplx.Mul(xy, z), dualcmplx.Mul(x, dualcmplx.Mul(y, z))) {
						t.Failf("(xy)z != x(yz) for %v, %v, %v", x, y, z)
					}
					if !dcEq(dualcmplx.Mul(x, dualcmplx.Add(y, z)), dualcmplx.Add(xy, dualcmplx.Mul(x, z))) {
						t.Failf("x(y+z) != xy+xz for %v, %v, %v", x, y, z)
					}
					if !dcEq(dualcmplx.Mul(dualcmplx.Add(y, z), x), dualcmplx.Add(dualcmplx.Mul(y, x), dualcmplx.Mul(z, x))) {
						t.Failf("(y+z)x != yx+zx for %v, %v, %v", x, y, z)
					}
				}
				t.Count("triples", int64(len(A)))
			}
			if noncomm == 0 && x.Dual != 0 {
				t.Failf("vacuity guard: %v commutes with the whole alphabet", x)
			}
		})
	}
}
