package main

import (
	"fmt"
	"math"

	"gonum.org/v1/gonum/internal/verif/vlib"
	"gonum.org/v1/gonum/spatial/barneshut"
	"gonum.org/v1/gonum/spatial/r2"
	"gonum.org/v1/gonum/spatial/r3"
)

// ---------- particles and a dimension-independent view of Plane / Volume ----------

type vec3 [3]float64

type bpart struct {
	c  vec3
	m  float64
	id int
}

func (p *bpart) Coord2() r2.Vec { return r2.Vec{X: p.c[0], Y: p.c[1]} }
func (p *bpart) Coord3() r3.Vec { return r3.Vec{X: p.c[0], Y: p.c[1], Z: p.c[2]} }
func (p *bpart) Mass() float64  { return p.m }

// forceFn is a force law on plain vectors; p2 is nil for an aggregate.
type forceFn func(p1, p2 *bpart, m1, m2 float64, v vec3) vec3

type bhSystem interface {
	build(parts []*bpart) error // NewPlane / NewVolume
	reset() error
	forceOn(p *bpart, theta float64, f forceFn) vec3
	// setParticles replaces the exported Particles field of the built system
	// (a nil slice if asNil); the caller must Reset afterwards.
	setParticles(parts []*bpart, asNil bool)
}

type plane2 struct{ q *barneshut.Plane }

func (s *plane2) build(parts []*bpart) error {
	ps := make([]barneshut.Particle2, len(parts))
	for i, p := range parts {
		ps[i] = p
	}
	q, err := barneshut.NewPlane(ps)
	s.q = q
	return err
}
func (s *plane2) reset() error { return s.q.Reset() }
func (s *plane2) setParticles(parts []*bpart, asNil bool) {
	if asNil {
		s.q.Particles = nil
		return
	}
	ps := make([]barneshut.Particle2, len(parts))
	for i, p := range parts {
		ps[i] = p
	}
	s.q.Particles = ps
}
func (s *plane2) forceOn(p *bpart, theta float64, f forceFn) vec3 {
	r := s.q.ForceOn(p, theta, func(p1, p2 barneshut.Particle2, m1, m2 float64, v r2.Vec) r2.Vec {
		var b2 *bpart
		if p2 != nil {
			b2 = p2.(*bpart)
		}
		o := f(p1.(*bpart), b2, m1, m2, vec3{v.X, v.Y, 0})
		return r2.Vec{X: o[0], Y: o[1]}
	})
	return vec3{r.X, r.Y, 0}
}

type volume3 struct{ q *barneshut.Volume }

func (s *volume3) build(parts []*bpart) error {
	ps := make([]barneshut.Particle3, len(parts))
	for i, p := range parts {
		ps[i] = p
	}
	q, err := barneshut.NewVolume(ps)
	s.q = q
	return err
}
func (s *volume3) reset() error { return s.q.Reset() }
func (s *volume3) setParticles(parts []*bpart, asNil bool) {
	if asNil {
		s.q.Particles = nil
		return
	}
	ps := make([]barneshut.Particle3, len(parts))
	for i, p := range parts {
		ps[i] = p
	}
	s.q.Particles = ps
}
func (s *volume3) forceOn(p *bpart, theta float64, f forceFn) vec3 {
	r := s.q.ForceOn(p, theta, func(p1, p2 barneshut.Particle3, m1, m2 float64, v r3.Vec) r3.Vec {
		var b2 *bpart
		if p2 != nil {
			b2 = p2.(*bpart)
		}
		o := f(p1.(*bpart), b2, m1, m2, vec3{v.X, v.Y, v.Z})
		return r3.Vec{X: o[0], Y: o[1], Z: o[2]}
	})
	return vec3{r.X, r.Y, r.Z}
}

func newSystem(dim int) bhSystem {
	if dim == 2 {
		return &plane2{}
	}
	return &volume3{}
}

// ---------- force laws ----------

// cubic: m1 m2 |v|^2 v - integer/dyadic arithmetic, exact whatever the summation order.
func cubicForce(_, _ *bpart, m1, m2 float64, v vec3) vec3 {
	d2 := v[0]*v[0] + v[1]*v[1] + v[2]*v[2]
	k := m1 * m2 * d2
	return vec3{k * v[0], k * v[1], k * v[2]}
}

// linear: m1 m2 v - the force of an aggregate at its centre of mass equals the
// sum over its members, so every theta must reproduce the direct sum.
func linearForce(_, _ *bpart, m1, m2 float64, v vec3) vec3 {
	k := m1 * m2
	return vec3{k * v[0], k * v[1], k * v[2]}
}

// gravity: the formula documented for Gravity2/Gravity3.
func gravityForce(_, _ *bpart, m1, m2 float64, v vec3) vec3 {
	d2 := v[0]*v[0] + v[1]*v[1] + v[2]*v[2]
	if d2 == 0 {
		return vec3{}
	}
	k := (m1 * m2) / (d2 * math.Sqrt(d2))
	return vec3{k * v[0], k * v[1], k * v[2]}
}

type bhCall struct {
	p2 *bpart
	m2 float64
	v  vec3
}

// recorder wraps a force law and records the calls.
func recorder(f forceFn, calls *[]bhCall) forceFn {
	return func(p1, p2 *bpart, m1, m2 float64, v vec3) vec3 {
		*calls = append(*calls, bhCall{p2, m2, v})
		return f(p1, p2, m1, m2, v)
	}
}

func direct(parts []*bpart, p *bpart, f forceFn) (sum vec3, scale float64) {
	for _, e := range parts {
		v := vec3{e.c[0] - p.c[0], e.c[1] - p.c[1], e.c[2] - p.c[2]}
		o := f(p, e, p.m, e.m, v)
		for i := range sum {
			sum[i] += o[i]
			scale += math.Abs(o[i])
		}
	}
	return sum, scale
}

type bhStats struct {
	forceOn, aggregateCalls, leafCalls int64
	leafDefect                         int64 // calls explained by "leaf centre divided by its mass"
	leafMsg                            string
	errCoincident                      bool
	inexact                            bool // coordinates with many bits: sums are compared to 1e-12 instead of bit for bit
}

const bhTiny = 1e-300

var bhThetas = []float64{0, bhTiny, 1e-200, 0.5, 1, 2, 1000}

// bhCheck compares every ForceOn of sys with the direct pairwise sum.
func bhCheck(t *vlib.T, sys bhSystem, parts []*bpart, probes []*bpart, st *bhStats, ctx string) {
	var total float64
	for _, e := range parts {
		total += e.m
	}
	for _, p := range probes {
		for _, th := range bhThetas {
			if t.Failed() {
				return
			}
			// 1. exact law: calls and result.
			var calls []bhCall
			got := sys.forceOn(p, th, recorder(cubicForce, &calls))
			st.forceOn++
			want, wscale := direct(parts, p, cubicForce)
			if th <= 1e-100 {
				// Every interaction is with a single particle: one call per stored
				// particle with its mass and the exact vector to it.
				seen := make([]int, len(parts))
				bad := ""
				defect := false
				for _, c := range calls {
					if c.p2 == nil {
						bad = fmt.Sprintf("an aggregate interaction (p2=nil, m2=%v, v=%v) although theta=%v opens every cell", c.m2, c.v, th)
						break
					}
					st.leafCalls++
					if c.p2.id < 0 || c.p2.id >= len(parts) || parts[c.p2.id] != c.p2 {
						bad = "an interaction with a particle that is not in Particles"
						break
					}
					seen[c.p2.id]++
					wv := vec3{c.p2.c[0] - p.c[0], c.p2.c[1] - p.c[1], c.p2.c[2] - p.c[2]}
					if c.m2 != c.p2.m {
						bad = fmt.Sprintf("mass %v for particle #%d of mass %v", c.m2, c.p2.id, c.p2.m)
						break
					}
					if c.v != wv {
						// known defect: the leaf's centre was divided by its mass.
						dv := vec3{c.p2.c[0]/c.p2.m - p.c[0], c.p2.c[1]/c.p2.m - p.c[1], c.p2.c[2]/c.p2.m - p.c[2]}
						if th > 0 && c.p2.m != 1 && c.v == dv {
							defect = true
							st.leafDefect++
							if st.leafMsg == "" {
								st.leafMsg = fmt.Sprintf("%s ForceOn(p=%v, theta=%v): interaction with particle #%d (coord %v, mass %v) is passed v=%v, the vector to coord/mass, instead of %v", ctx, p.c, th, c.p2.id, c.p2.c, c.p2.m, c.v, wv)
							}
							continue
						}
						bad = fmt.Sprintf("vector %v to particle #%d at %v (from %v), want %v", c.v, c.p2.id, c.p2.c, p.c, wv)
						break
					}
				}
				if bad == "" {
					for id, n := range seen {
						if n != 1 {
							bad = fmt.Sprintf("%d interactions with particle #%d, want exactly 1", n, id)
							break
						}
					}
				}
				if bad != "" {
					t.Failf("%s ForceOn(p=%v, theta=%v) made %s", ctx, p.c, th, bad)
					return
				}
				if st.inexact {
					for i := range got {
						if math.Abs(got[i]-want[i]) <= 1e-12*wscale {
							got[i] = want[i]
						}
					}
				}
				if !defect && got != want {
					t.Failf("%s ForceOn(p=%v, theta=%v) with the exact cubic law = %v, direct pairwise sum %v", ctx, p.c, th, got, want)
					return
				}
			} else {
				var msum float64
				for _, c := range calls {
					msum += c.m2
					if c.p2 == nil {
						st.aggregateCalls++
					} else {
						st.leafCalls++
					}
				}
				if msum != total {
					t.Failf("%s ForceOn(p=%v, theta=%v): the masses of the interactions sum to %v, total mass %v", ctx, p.c, th, msum, total)
					return
				}
			}
			// 2. linear law: every theta equals the direct sum (1e-12 relative).
			got = sys.forceOn(p, th, linearForce)
			st.forceOn++
			want, scale := direct(parts, p, linearForce)
			for i := range got {
				if math.Abs(got[i]-want[i]) > 1e-12*scale {
					if st.leafDefect > 0 {
						st.leafDefect++ // attributed to the defect established above for this system
						break
					}
					t.Failf("%s ForceOn(p=%v, theta=%v) with the linear law = %v, direct pairwise sum %v", ctx, p.c, th, got, want)
					return
				}
			}
			// 3. gravity for the thetas that open every cell.
			if th <= 1e-100 {
				got = sys.forceOn(p, th, gravityForce)
				st.forceOn++
				want, scale = direct(parts, p, gravityForce)
				for i := range got {
					if math.Abs(got[i]-want[i]) > 1e-12*scale || math.IsNaN(got[i]) {
						if st.leafDefect > 0 {
							st.leafDefect++
							break
						}
						t.Failf("%s ForceOn(p=%v, theta=%v) with gravity = %v, direct pairwise sum %v", ctx, p.c, th, got, want)
						return
					}
				}
			}
		}
	}
}

// bhTrace is the full observable behaviour of a system for the Reset check.
func bhTrace(sys bhSystem, probes []*bpart) (out []float64) {
	for _, p := range probes {
		for _, th := range bhThetas {
			var calls []bhCall
			g := sys.forceOn(p, th, recorder(gravityForce, &calls))
			out = append(out, g[0], g[1], g[2])
			for _, c := range calls {
				id := -1.0
				if c.p2 != nil {
					id = float64(c.p2.id)
				}
				out = append(out, id, c.m2, c.v[0], c.v[1], c.v[2])
			}
		}
	}
	return out
}

func coincident(parts []*bpart) bool {
	for i, a := range parts {
		for _, b := range parts[:i] {
			if a.c == b.c {
				return true
			}
		}
	}
	return false
}

// bhCase: build, check, move every particle, Reset, compare with a fresh build.
func bhCase(t *vlib.T, dim int, coords []vec3, masses []float64, st *bhStats) {
	parts := make([]*bpart, len(coords))
	for i := range coords {
		parts[i] = &bpart{c: coords[i], m: masses[i], id: i}
	}
	probes := append([]*bpart(nil), parts...)
	probes = append(probes, &bpart{c: vec3{-1, -1, -1}, m: 1, id: -1}, &bpart{c: vec3{1.5, 0.5, 0.25}, m: 2, id: -1}, &bpart{c: vec3{100, 100, 100}, m: 3, id: -1})
	if dim == 2 {
		for _, p := range probes[len(parts):] {
			p.c[2] = 0
		}
	}
	sys := newSystem(dim)
	err := sys.build(parts)
	ctx := fmt.Sprintf("coords=%v masses=%v", coords, masses)
	if err != nil {
		if !coincident(parts) {
			t.Failf("%s: constructor returned %v for distinct, small coordinates", ctx, err)
			return
		}
		// Documented: a non-nil error when particle coordinates cannot be
		// distinguished. Coincident particles end here (no hang, no stack overflow).
		st.errCoincident = true
		return
	}
	bhCheck(t, sys, parts, probes, st, ctx)
	if t.Failed() || len(parts) == 0 {
		return
	}
	// Move every particle (a different injective map per coordinate), then:
	// theta=0 needs no Reset (documented); after Reset the system must be
	// indistinguishable from a fresh build.
	for i, p := range parts {
		p.c[0] = p.c[0]*2 + float64(i%2)
		p.c[1] = 7 - p.c[1]
		if dim == 3 {
			p.c[2] = p.c[2] + float64(i)
		}
	}
	moved := coincident(parts)
	for _, p := range probes {
		got := sys.forceOn(p, 0, cubicForce)
		want, _ := direct(parts, p, cubicForce)
		if got != want { // same particles, same order of summation: exact for any coordinates
			t.Failf("%s after moving the particles, without Reset: ForceOn(theta=0) = %v, direct pairwise sum %v", ctx, got, want)
			return
		}
	}
	err = sys.reset()
	fresh := newSystem(dim)
	err2 := fresh.build(parts)
	if (err == nil) != (err2 == nil) {
		t.Failf("%s after moving: Reset returned %v but a fresh build %v", ctx, err, err2)
		return
	}
	if err != nil {
		if !moved {
			t.Failf("%s after moving to distinct coordinates: Reset returned %v", ctx, err)
		}
		return
	}
	a, b := bhTrace(sys, probes), bhTrace(fresh, probes)
	if len(a) != len(b) {
		t.Failf("%s after moving and Reset: %d recorded values, a fresh build gives %d", ctx, len(a), len(b))
		return
	}
	for i := range a {
		if a[i] != b[i] && !(math.IsNaN(a[i]) && math.IsNaN(b[i])) {
			t.Failf("%s after moving and Reset: the interaction trace differs from a fresh build at value %d: %v vs %v", ctx, i, a[i], b[i])
			return
		}
	}
	bhCheck(t, sys, parts, probes, st, ctx+" (moved, after Reset)")
}

func (st *bhStats) finish(t *vlib.T, n int) {
	t.Count("bh_forceon", st.forceOn)
	t.Count("bh_aggregate_interactions", st.aggregateCalls)
	t.Count("bh_leaf_interactions", st.leafCalls)
	t.Count("bh_known_leaf_centre_defect", st.leafDefect)
	if st.leafDefect > 0 {
		classified(t, "leaf-centre", "barneshut-leaf-center-scaled-by-mass", "%s (and %d further wrong interactions/forces in this case)", st.leafMsg, st.leafDefect-1)
	}
	o := fmt.Sprintf("n=%d", n)
	if st.errCoincident {
		o += " coincident->error"
	}
	if st.aggregateCalls > 0 {
		o += " aggregates"
	}
	if st.leafDefect > 0 {
		o += " leaf-defect"
	}
	t.Outcome(o)
	if n >= 2 {
		t.Nontrivial()
	}
}

// ---------- enumeration ----------

type bhAlphabet struct {
	name string
	vals []float64
}

func bhMasses(kind string, n int) []float64 {
	m := make([]float64, n)
	for i := range m {
		switch kind {
		case "unit":
			m[i] = 1
		case "two":
			m[i] = 2
		default:
			m[i] = float64(i%3 + 1)
		}
	}
	return m
}

// genBH: every multiset of up to N positions of the lattice alphabet^dim
// (duplicates = coincident particles), in ascending and descending order,
// with unit, uniform non-unit and mixed integer masses.
func genBH(dim int) func(g *vlib.G) {
	return func(g *vlib.G) {
		var alphas []bhAlphabet
		var N int
		if dim == 2 {
			alphas = []bhAlphabet{{"int", []float64{0, 1, 2, 3}}, {"dyadic", []float64{-3, -0.125, 0, 2}}}
			N = vlib.Pick(g, 3, 4)
		} else {
			alphas = []bhAlphabet{{"int", []float64{0, 1, 3}}, {"dyadic", []float64{-2, 0, 0.25}}}
			N = vlib.Pick(g, 3, 4)
		}
		for _, al := range alphas {
			side := len(al.vals)
			L := ipow(side, dim)
			for n := 0; n <= N; n++ {
				if g.Stopped() {
					return
				}
				multisets(L, n, func(msv []int) {
					ms := cloneInts(msv)
					for _, mk := range []string{"unit", "two", "mixed"} {
						mk, al := mk, al
						g.Case(fmt.Sprintf("%s pos=%s masses=%s", al.name, fmtIdx(ms), mk), func(t *vlib.T) {
							st := &bhStats{}
							for _, rev := range []bool{false, true} {
								coords := make([]vec3, len(ms))
								for i, x := range ms {
									lp := latPoint(dim, side, x)
									for c := range lp {
										coords[i][c] = al.vals[int(lp[c])]
									}
								}
								if rev {
									for i, j := 0, len(coords)-1; i < j; i, j = i+1, j-1 {
										coords[i], coords[j] = coords[j], coords[i]
									}
								}
								bhCase(t, dim, coords, bhMasses(mk, len(ms)), st)
								if t.Failed() || len(ms) < 2 {
									break
								}
							}
							st.finish(t, len(ms))
							t.Detail(map[string]any{"dim": dim, "positions": ms, "alphabet": al.vals, "masses": mk})
						})
					}
				})
			}
		}
	}
}

// genBHStruct: grids and lines up to 64 particles.
func genBHStruct(g *vlib.G) {
	type set struct {
		name string
		dim  int
		c    []vec3
	}
	var sets []set
	var grid2, line2, grid3, close2 []vec3
	for i := 0; i < 8; i++ {
		for j := 0; j < 8; j++ {
			grid2 = append(grid2, vec3{float64(i), float64(j), 0})
		}
	}
	for i := 0; i < 64; i++ {
		line2 = append(line2, vec3{float64(i), 3, 0})
	}
	for i := 0; i < 64; i++ {
		grid3 = append(grid3, vec3{float64(i / 16), float64(i / 4 % 4), float64(i % 4)})
	}
	for i := 0; i < 24; i++ { // geometric cluster: deep subdivision
		close2 = append(close2, vec3{math.Ldexp(1, -i), math.Ldexp(3, -i), 0})
	}
	sets = append(sets, set{"grid8x8", 2, grid2}, set{"line64", 2, line2}, set{"grid4^3", 3, grid3}, set{"geometric24", 2, close2})
	if g.Thorough() {
		var big []vec3
		for i := 0; i < 20; i++ {
			for j := 0; j < 20; j++ {
				big = append(big, vec3{float64(i), float64(j) / 2, float64((i * j) % 5)})
			}
		}
		sets = append(sets, set{"grid20x20-2d", 2, big}, set{"grid20x20-3d", 3, big})
	}
	// The exported force laws: (m1 m2)/|v|^2 in the direction of v, zero for coincident particles.
	g.Case("Gravity2 and Gravity3 law", func(t *vlib.T) {
		var n int64
		for i := 0; i < 125; i++ {
			v := vec3{float64(i/25) - 2, float64(i/5%5) - 2, float64(i%5) - 2}
			for _, m := range [][2]float64{{1, 1}, {2, 3}, {0.5, 4}} {
				d2 := v[0]*v[0] + v[1]*v[1] + v[2]*v[2]
				var want vec3
				if d2 != 0 {
					for c := range want {
						want[c] = m[0] * m[1] / d2 * (v[c] / math.Sqrt(d2))
					}
				}
				g3 := barneshut.Gravity3(nil, nil, m[0], m[1], r3.Vec{X: v[0], Y: v[1], Z: v[2]})
				got := vec3{g3.X, g3.Y, g3.Z}
				for c := range want {
					if math.Abs(got[c]-want[c]) > 1e-14*math.Abs(want[c]) || math.IsNaN(got[c]) {
						t.Failf("Gravity3(m1=%v,m2=%v,v=%v)=%v want %v", m[0], m[1], v, got, want)
						return
					}
				}
				n++
				if v[2] == 0 {
					g2 := barneshut.Gravity2(nil, nil, m[0], m[1], r2.Vec{X: v[0], Y: v[1]})
					got := vec3{g2.X, g2.Y, 0}
					for c := range want {
						if math.Abs(got[c]-want[c]) > 1e-14*math.Abs(want[c]) || math.IsNaN(got[c]) {
							t.Failf("Gravity2(m1=%v,m2=%v,v=%v)=%v want %v", m[0], m[1], v, got, want)
							return
						}
					}
					n++
				}
			}
		}
		t.Count("bh_gravity_law_points", n)
		t.Outcome("gravity-law")
		t.Nontrivial()
	})
	for _, s := range sets {
		for _, mk := range []string{"unit", "two", "mixed"} {
			s, mk := s, mk
			g.Case(fmt.Sprintf("%s masses=%s", s.name, mk), func(t *vlib.T) {
				st := &bhStats{inexact: s.name == "geometric24"}
				c := append([]vec3(nil), s.c...)
				if s.dim == 2 {
					for i := range c {
						c[i][2] = 0
					}
				}
				bhCase(t, s.dim, c, bhMasses(mk, len(c)), st)
				st.finish(t, len(c))
				t.Detail(map[string]any{"set": s.name, "masses": mk})
			})
		}
	}
}
