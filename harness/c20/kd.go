package main

import (
	"fmt"
	"math"

	"gonum.org/v1/gonum/internal/verif/vlib"
	"gonum.org/v1/gonum/spatial/kdtree"
)

// ---------- a user-defined Comparable / Interface with enumerable pivots ----------

type kdCounter struct{ dist int64 }

// cpt is a user-defined kdtree.Comparable (and Extender). Queries count their
// Distance calls so that pruning can be observed (vacuity guard).
type cpt struct {
	v   []float64
	id  int
	ctr *kdCounter
}

func (p *cpt) Compare(c kdtree.Comparable, d kdtree.Dim) float64 { return p.v[d] - c.(*cpt).v[d] }
func (p *cpt) Dims() int                                         { return len(p.v) }
func (p *cpt) Distance(c kdtree.Comparable) float64 {
	if p.ctr != nil {
		p.ctr.dist++
	}
	return sqDist(p.v, c.(*cpt).v)
}
func (p *cpt) Extend(b *kdtree.Bounding) *kdtree.Bounding {
	if b == nil {
		return &kdtree.Bounding{Min: &cpt{v: cloneF(p.v), id: -1}, Max: &cpt{v: cloneF(p.v), id: -1}}
	}
	mn, mx := b.Min.(*cpt), b.Max.(*cpt)
	for i, x := range p.v {
		mn.v[i] = math.Min(mn.v[i], x)
		mx.v[i] = math.Max(mx.v[i], x)
	}
	return b
}

// detPoints is a kdtree.Interface (and Bounder) whose Pivot is chosen by the
// chooser: any element may become the pivot, elements less than or equal to
// it (on the plane) go before it and greater ones after it - the contract of
// kdtree.Partition. Enumerating the chooser enumerates every tree shape the
// builder can produce for any median-selection strategy.
type detPoints struct {
	p  []*cpt
	ch *chooser
}

func (s detPoints) Index(i int) kdtree.Comparable   { return s.p[i] }
func (s detPoints) Len() int                        { return len(s.p) }
func (s detPoints) Slice(a, b int) kdtree.Interface { return detPoints{s.p[a:b], s.ch} }
func (s detPoints) Bounds() *kdtree.Bounding {
	if len(s.p) == 0 {
		return nil
	}
	mn, mx := cloneF(s.p[0].v), cloneF(s.p[0].v)
	for _, e := range s.p[1:] {
		for i, x := range e.v {
			mn[i] = math.Min(mn[i], x)
			mx[i] = math.Max(mx[i], x)
		}
	}
	return &kdtree.Bounding{Min: &cpt{v: mn, id: -1}, Max: &cpt{v: mx, id: -1}}
}
func (s detPoints) Pivot(d kdtree.Dim) int {
	// candidates: first occurrence of every distinct coordinate vector.
	var cands []int
	for i, e := range s.p {
		dup := false
		for _, c := range cands {
			if sqDist(s.p[c].v, e.v) == 0 {
				dup = true
				break
			}
		}
		if !dup {
			cands = append(cands, i)
		}
	}
	c := cands[s.ch.choose(len(cands))]
	pv := s.p[c]
	var le, gt []*cpt
	for i, e := range s.p {
		if i == c {
			continue
		}
		if e.v[d] <= pv.v[d] {
			le = append(le, e)
		} else {
			gt = append(gt, e)
		}
	}
	copy(s.p, le)
	s.p[len(le)] = pv
	copy(s.p[len(le)+1:], gt)
	return len(le)
}

// ---------- backends: user-defined type vs stock kdtree.Points ----------

type kdBackend struct {
	stock bool
	d     int
	pts   [][]float64 // stored coordinates by id
	ctr   kdCounter
	ptrID map[*float64]int // stock: identity of a stored kdtree.Point
}

func (b *kdBackend) newElem(v []float64) kdtree.Comparable {
	id := len(b.pts)
	b.pts = append(b.pts, v)
	if b.stock {
		p := kdtree.Point(cloneF(v))
		b.ptrID[&p[0]] = id
		return p
	}
	return &cpt{v: cloneF(v), id: id}
}

func (b *kdBackend) build(bulk [][]float64, bnd bool, ch *chooser) *kdtree.Tree {
	if b.stock {
		b.ptrID = map[*float64]int{}
		ps := make(kdtree.Points, len(bulk))
		for i, v := range bulk {
			ps[i] = b.newElem(v).(kdtree.Point)
		}
		return kdtree.New(ps, bnd)
	}
	ps := make([]*cpt, len(bulk))
	for i, v := range bulk {
		ps[i] = b.newElem(v).(*cpt)
	}
	return kdtree.New(detPoints{ps, ch}, bnd)
}

func (b *kdBackend) mkq(v []float64) kdtree.Comparable {
	if b.stock {
		return kdtree.Point(v)
	}
	return &cpt{v: v, id: -2, ctr: &b.ctr}
}

func (b *kdBackend) ident(c kdtree.Comparable) int {
	if b.stock {
		p, ok := c.(kdtree.Point)
		if !ok || len(p) == 0 {
			return -1
		}
		if id, ok := b.ptrID[&p[0]]; ok {
			return id
		}
		return -1
	}
	p, ok := c.(*cpt)
	if !ok || p == nil || p.id < 0 || p.id >= len(b.pts) {
		return -1
	}
	return p.id
}

func (b *kdBackend) coords(c kdtree.Comparable) []float64 {
	if b.stock {
		return c.(kdtree.Point)
	}
	return c.(*cpt).v
}

// kdIx adapts a tree to the query oracle.
type kdIx struct {
	tree *kdtree.Tree
	be   *kdBackend
	lq   *float64
	lc   kdtree.Comparable
}

func (x *kdIx) q(v []float64) kdtree.Comparable {
	if x.lq != &v[0] {
		x.lq, x.lc = &v[0], x.be.mkq(v)
	}
	return x.lc
}
func (x *kdIx) unit(sq float64) float64 { return sq }
func (x *kdIx) nearest(q []float64) (int, bool, float64) {
	c, d := x.tree.Nearest(x.q(q))
	if c == nil {
		return -1, true, d
	}
	return x.be.ident(c), false, d
}
func (x *kdIx) hits(h kdtree.Heap) []hit {
	out := make([]hit, len(h))
	for i, e := range h {
		if e.Comparable == nil {
			out[i] = hit{id: -1, nilComp: true, dist: e.Dist}
		} else {
			out[i] = hit{id: x.be.ident(e.Comparable), dist: e.Dist}
		}
	}
	return out
}
func (x *kdIx) nkeep(k int, q []float64) []hit {
	kp := kdtree.NewNKeeper(k)
	x.tree.NearestSet(kp, x.q(q))
	return x.hits(kp.Heap)
}
func (x *kdIx) dkeep(r float64, q []float64) []hit {
	kp := kdtree.NewDistKeeper(r)
	x.tree.NearestSet(kp, x.q(q))
	return x.hits(kp.Heap)
}

// ---------- structural oracle ----------

type kdShape struct {
	depth    []int
	node     []*kdtree.Node
	maxDepth int
	tight    bool // every Bounding is the exact bounding box of its subtree
	eqRight  bool // some right subtree holds a point equal to the plane value
}

// kdCheckTree walks the exported tree: every stored element exactly once,
// Len/Count, the k-d invariant left <= plane <= right at every node, and, if
// the tree is bounded, every node's Bounding contains every point of its subtree.
func kdCheckTree(t *vlib.T, tree *kdtree.Tree, be *kdBackend, wantBounded bool, ctx string) *kdShape {
	n := len(be.pts)
	sh := &kdShape{depth: make([]int, n), node: make([]*kdtree.Node, n), tight: true}
	if tree.Len() != n || tree.Count != n {
		t.Failf("%s Len()=%d Count=%d, %d points were stored", ctx, tree.Len(), tree.Count, n)
	}
	if n == 0 {
		if tree.Root != nil {
			t.Failf("%s empty tree has a non-nil Root", ctx)
		}
		return sh
	}
	if tree.Root == nil {
		t.Failf("%s tree of %d points has a nil Root", ctx, n)
		return sh
	}
	bounded := tree.Root.Bounding != nil
	if bounded != wantBounded {
		t.Failf("%s root Bounding!=nil is %v, documented construction/Insert rules give %v", ctx, bounded, wantBounded)
	}
	seen := make([]bool, n)
	count := 0
	d := be.d
	var walk func(nd *kdtree.Node, depth int) (mn, mx []float64)
	walk = func(nd *kdtree.Node, depth int) (mn, mx []float64) {
		count++
		if count > n+1 {
			return nil, nil
		}
		id := be.ident(nd.Point)
		if id < 0 {
			t.Failf("%s node holds a value that was never stored: %v", ctx, nd.Point)
			return nil, nil
		}
		if seen[id] {
			t.Failf("%s stored element #%d appears twice in the tree", ctx, id)
			return nil, nil
		}
		seen[id] = true
		sh.depth[id], sh.node[id] = depth, nd
		if depth > sh.maxDepth {
			sh.maxDepth = depth
		}
		v := be.pts[id]
		pl := int(nd.Plane)
		if pl < 0 || pl >= d {
			t.Failf("%s node %v has Plane %d outside 0..%d", ctx, v, pl, d-1)
			return nil, nil
		}
		mn, mx = cloneF(v), cloneF(v)
		if nd.Left != nil {
			lmn, lmx := walk(nd.Left, depth+1)
			if lmn == nil {
				return nil, nil
			}
			if lmx[pl] > v[pl] {
				t.Failf("%s k-d invariant broken: left subtree of %v (plane %d) holds coordinate %v > %v", ctx, v, pl, lmx[pl], v[pl])
			}
			for i := range mn {
				mn[i], mx[i] = math.Min(mn[i], lmn[i]), math.Max(mx[i], lmx[i])
			}
		}
		if nd.Right != nil {
			rmn, rmx := walk(nd.Right, depth+1)
			if rmn == nil {
				return nil, nil
			}
			if rmn[pl] < v[pl] {
				t.Failf("%s k-d invariant broken: right subtree of %v (plane %d) holds coordinate %v < %v", ctx, v, pl, rmn[pl], v[pl])
			}
			if rmn[pl] == v[pl] {
				sh.eqRight = true
			}
			for i := range mn {
				mn[i], mx[i] = math.Min(mn[i], rmn[i]), math.Max(mx[i], rmx[i])
			}
		}
		if bounded {
			if nd.Bounding == nil || nd.Bounding.Min == nil || nd.Bounding.Max == nil {
				t.Failf("%s bounded tree: node %v has no Bounding", ctx, v)
				return mn, mx
			}
			bmn, bmx := be.coords(nd.Bounding.Min), be.coords(nd.Bounding.Max)
			for i := range mn {
				if bmn[i] > mn[i] || bmx[i] < mx[i] {
					t.Failf("%s Bounding of node %v is [%v,%v] but its subtree spans [%v,%v]", ctx, v, bmn, bmx, mn, mx)
					break
				}
				if bmn[i] != mn[i] || bmx[i] != mx[i] {
					sh.tight = false
				}
			}
		}
		return mn, mx
	}
	walk(tree.Root, 0)
	if count != n && !t.Failed() {
		t.Failf("%s tree holds %d nodes, %d points were stored", ctx, count, n)
	}
	return sh
}

// kdCheckDo: Do visits every stored element exactly once with the node's
// depth and Bounding, returns false; an Operation returning true stops the
// traversal at once and Do returns true.
func kdCheckDo(t *vlib.T, tree *kdtree.Tree, be *kdBackend, sh *kdShape, ctx string) {
	n := len(be.pts)
	seen := make([]bool, n)
	calls := 0
	done := tree.Do(func(c kdtree.Comparable, b *kdtree.Bounding, depth int) bool {
		calls++
		id := be.ident(c)
		if id < 0 || seen[id] {
			t.Failf("%s Do visited %v (id %d) twice or it was never stored", ctx, c, id)
			return false
		}
		seen[id] = true
		if sh.node[id] != nil && (depth != sh.depth[id] || b != sh.node[id].Bounding) {
			t.Failf("%s Do passed depth %d / bounding %p for element #%d which sits at depth %d with bounding %p", ctx, depth, b, id, sh.depth[id], sh.node[id].Bounding)
		}
		return false
	})
	if done || calls != n {
		t.Failf("%s Do returned %v after %d calls, want false after %d", ctx, done, calls, n)
	}
	stops := []int{1, 2, n}
	for _, s := range stops {
		if s < 1 || s > n || (s == n && n <= 2) {
			continue
		}
		calls = 0
		done = tree.Do(func(kdtree.Comparable, *kdtree.Bounding, int) bool { calls++; return calls == s })
		if !done || calls != s {
			t.Failf("%s Do with an Operation that stops at call %d returned %v after %d calls", ctx, s, done, calls)
		}
	}
}

type kdBox struct{ lo, hi []float64 }

// boxFamily: per-dimension closed intervals with integer and half-integer ends, all products.
func boxFamily(d, side int) []kdBox {
	var iv [][2]float64
	if side == 3 {
		iv = [][2]float64{{0, 0}, {1, 1}, {2, 2}, {0, 1}, {1, 2}, {0, 2}, {-0.5, 0.5}, {0.5, 1.5}, {0.5, 2.5}, {-0.5, 2.5}}
	} else {
		iv = [][2]float64{{0, 0}, {1, 1}, {0, 1}, {-0.5, 0.5}, {0.5, 1.5}}
	}
	if d >= 4 {
		iv = [][2]float64{{0, 0}, {1, 1}, {0, 1}, {0.5, 1.5}}
	}
	m := len(iv)
	n := ipow(m, d)
	out := make([]kdBox, n)
	for i := 0; i < n; i++ {
		lo, hi := make([]float64, d), make([]float64, d)
		x := i
		for c := d - 1; c >= 0; c-- {
			lo[c], hi[c] = iv[x%m][0], iv[x%m][1]
			x /= m
		}
		out[i] = kdBox{lo, hi}
	}
	return out
}

type kdBoxStats struct {
	boxes, partial, knownSkips int64
	knownMsg                   string // first occurrence of the known DoBounded defect (reported once per case)
}

// kdCheckDoBounded: DoBounded(b) visits exactly the stored points inside the
// closed box b, each once; DoBounded(nil) is Do.
func kdCheckDoBounded(t *vlib.T, tree *kdtree.Tree, be *kdBackend, boxes []kdBox, bs *kdBoxStats, ctx string) {
	n := len(be.pts)
	calls := 0
	if done := tree.DoBounded(nil, func(kdtree.Comparable, *kdtree.Bounding, int) bool { calls++; return false }); done || calls != n {
		t.Failf("%s DoBounded(nil) returned %v after %d calls, want false after %d", ctx, done, calls, n)
	}
	mark := make([]int, n)
	stamp := 0
	for _, bx := range boxes {
		stamp++
		bs.boxes++
		want := 0
		for _, p := range be.pts {
			in := true
			for i := range p {
				if p[i] < bx.lo[i] || p[i] > bx.hi[i] {
					in = false
					break
				}
			}
			if in {
				want++
			}
		}
		if want > 0 && want < n {
			bs.partial++
		}
		got, bad := 0, ""
		b := &kdtree.Bounding{Min: be.mkq(bx.lo), Max: be.mkq(bx.hi)}
		done := tree.DoBounded(b, func(c kdtree.Comparable, _ *kdtree.Bounding, _ int) bool {
			id := be.ident(c)
			if id < 0 {
				bad = fmt.Sprintf("visited a value that was never stored: %v", c)
				return false
			}
			if mark[id] == stamp {
				bad = fmt.Sprintf("visited element #%d twice", id)
				return false
			}
			mark[id] = stamp
			p := be.pts[id]
			for i := range p {
				if p[i] < bx.lo[i] || p[i] > bx.hi[i] {
					bad = fmt.Sprintf("visited %v which is outside the box", p)
				}
			}
			got++
			return false
		})
		if done {
			bad = "returned true although no Operation did"
		}
		if bad != "" {
			t.Failf("%s DoBounded([%v,%v]) %s", ctx, bx.lo, bx.hi, bad)
			return
		}
		if got != want {
			// Classify: the known defect only skips points that lie on the box's
			// minimum face in some dimension (a left subtree holding points equal to
			// the plane value is not entered when box.Min equals that value).
			known := got < want
			var missed [][]float64
			for id, p := range be.pts {
				in := true
				onMinFace := false
				for i := range p {
					if p[i] < bx.lo[i] || p[i] > bx.hi[i] {
						in = false
					}
					if p[i] == bx.lo[i] {
						onMinFace = true
					}
				}
				if in && mark[id] != stamp {
					missed = append(missed, p)
					if !onMinFace {
						known = false
					}
				}
			}
			if known {
				// Do not stop: the known defect must not mask the rest of the case.
				bs.knownSkips++
				if bs.knownMsg == "" {
					bs.knownMsg = fmt.Sprintf("%s DoBounded([%v,%v]) visited %d of the %d stored points inside the box; missed %v (points=%v)", ctx, bx.lo, bx.hi, got, want, missed, be.pts)
				}
				continue
			}
			t.Failf("%s DoBounded([%v,%v]) visited %d points, %d stored points are inside the box; missed %v (points=%v)", ctx, bx.lo, bx.hi, got, want, missed, be.pts)
			return
		}
	}
}

// kdCheckContains: Tree.Contains(c) is true for an unbounded tree and box membership otherwise.
func kdCheckContains(t *vlib.T, tree *kdtree.Tree, be *kdBackend, bounded bool, queries [][]float64, ctx string) {
	if len(be.pts) == 0 {
		return // the empty tree is examined by kd-empty
	}
	mn, mx := cloneF(be.pts[0]), cloneF(be.pts[0])
	for _, p := range be.pts {
		for i := range p {
			mn[i], mx[i] = math.Min(mn[i], p[i]), math.Max(mx[i], p[i])
		}
	}
	for _, q := range queries {
		want := true
		if bounded {
			for i := range q {
				if q[i] < mn[i] || q[i] > mx[i] {
					want = false
				}
			}
		}
		if got := tree.Contains(be.mkq(q)); got != want {
			t.Failf("%s Contains(%v)=%v want %v (bounded=%v, bounding box [%v,%v])", ctx, q, got, want, bounded, mn, mx)
			return
		}
	}
}

// ---------- histories ----------

type kdSpace struct {
	d, side int
	queries [][]float64
	boxes   []kdBox
	radii   []float64 // squared
}

func newKDSpace(d int) *kdSpace {
	s := sideFor(d)
	return &kdSpace{d: d, side: s, queries: queryLattice(d, s), boxes: boxFamily(d, s), radii: []float64{0, 0.25, 1, 2, 4, 25}}
}

type kdRunStats struct {
	sw              sweepStats
	bs              kdBoxStats
	trees           int64
	pruned          int64 // queries (user-defined type) that visited fewer nodes than stored
	notTight, eqRgt int64
	maxDepth        int
	onlyKnown       bool
	randomShapes    bool // stock builder: tree shapes depend on the global random source
}

// kdRunHistory bulk-builds bulk, Inserts ins one by one, checking the
// structure after every operation and running the full query sweep at the end
// (every prefix of a history is itself an enumerated history).
const (
	kdFull    = iota // structure, Do, Contains, query sweep, DoBounded
	kdNoSweep        // everything but the query sweep
	kdLite           // structure and DoBounded only
)

func kdRunHistory(t *vlib.T, sp *kdSpace, stock bool, bulk, ins []int, bndNew, bndIns bool, mode int, ch *chooser, st *kdRunStats) {
	be := &kdBackend{stock: stock, d: sp.d}
	bp := make([][]float64, len(bulk))
	for i, x := range bulk {
		bp[i] = latPoint(sp.d, sp.side, x)
	}
	tree := be.build(bp, bndNew, ch)
	st.trees++
	bounded := bndNew && len(bulk) > 0
	ctx := fmt.Sprintf("bulk=%v ins=%v new(bounding=%v) insert(bounding=%v)", bulk, ins, bndNew, bndIns)
	sh := kdCheckTree(t, tree, be, bounded, ctx+" after New:")
	for i, x := range ins {
		if t.Failed() {
			return
		}
		if len(be.pts) == 0 {
			bounded = bndIns
		}
		tree.Insert(be.newElem(latPoint(sp.d, sp.side, x)), bndIns)
		sh = kdCheckTree(t, tree, be, bounded, fmt.Sprintf("%s after Insert #%d:", ctx, i+1))
	}
	if t.Failed() {
		return
	}
	if !sh.tight {
		st.notTight++
	}
	if sh.eqRight {
		st.eqRgt++
	}
	if sh.maxDepth > st.maxDepth {
		st.maxDepth = sh.maxDepth
	}
	if mode != kdLite {
		kdCheckDo(t, tree, be, sh, ctx)
		kdCheckContains(t, tree, be, bounded, sp.queries, ctx)
	}
	if t.Failed() {
		return
	}
	if mode == kdFull {
		ix := &kdIx{tree: tree, be: be}
		before := be.ctr.dist
		s0 := st.sw.searches
		sweep(t, ix, be.pts, sp.queries, ksUpTo(len(be.pts)), sp.radii, &st.sw, ctx)
		if !stock && len(be.pts) > 0 && be.ctr.dist-before < (st.sw.searches-s0)*int64(len(be.pts)) {
			st.pruned++
		}
	}
	if t.Failed() {
		return
	}
	kdCheckDoBounded(t, tree, be, sp.boxes, &st.bs, ctx)
}

// finish reports the known DoBounded defect once per case as a sub-violation
// with its own class (it can never hide an unclassified violation) and
// escalates the number of attempts for the confirmation re-runs.
func (st *kdRunStats) finish(t *vlib.T, group, key string) {
	t.Count("kd_dobounded_known_skips", st.bs.knownSkips)
	if st.bs.knownSkips > 0 {
		classified(t, "dobounded", "kdtree-dobounded-skips-points-on-min-face", "%s (and %d further boxes/trees in this case)", st.bs.knownMsg, st.bs.knownSkips-1)
	}
	if t.Failed() || st.bs.knownSkips > 0 {
		markFailed(group, key)
		if !t.Failed() {
			knownOnly[group+"\x00"+key] = true // re-runs need structure and DoBounded only
		}
	}
}

func (st *kdRunStats) report(t *vlib.T, n int) {
	t.Count("kd_trees", st.trees)
	t.Count("kd_queries", st.sw.queries)
	t.Count("kd_searches", st.sw.searches)
	t.Count("kd_nkeeper_tie_at_k", st.sw.tieAtK)
	t.Count("kd_distkeeper_point_on_radius", st.sw.radiusOnBoundary)
	t.Count("kd_dobounded_boxes", st.bs.boxes)
	t.Count("kd_dobounded_partial_boxes", st.bs.partial)
	t.Count("kd_trees_with_pruned_search", st.pruned)
	t.Count("kd_trees_bounding_not_tight", st.notTight)
	t.Max("kd_depth", int64(st.maxDepth))
	o := fmt.Sprintf("n=%d", n)
	if !st.randomShapes {
		o += fmt.Sprintf(" depth=%d", st.maxDepth) // random builds: keep the outcome classes deterministic
	}
	if st.pruned > 0 {
		o += " pruned"
	}
	if st.sw.tieAtK > 0 {
		o += " ties"
	}
	if st.eqRgt > 0 {
		o += " eq-right"
	}
	t.Outcome(o)
	if n >= 2 {
		t.Nontrivial()
	}
}

// kdPointBudget: maximum number of points per dimension and tier.
func kdMaxPoints(g *vlib.G, d int) int {
	switch d {
	case 1:
		return vlib.Pick(g, 5, 6)
	case 2:
		return vlib.Pick(g, 4, 5)
	case 3:
		return vlib.Pick(g, 4, 5)
	default:
		return vlib.Pick(g, 3, 4)
	}
}

// genKD enumerates, for dimension d, every history "bulk-build a multiset of
// j lattice points, then Insert m further points" with j+m <= N. For d <= 2
// every insertion tuple is used, beyond that three orderings of every multiset.
func genKD(d int, stock bool) func(g *vlib.G) {
	return func(g *vlib.G) {
		sp := newKDSpace(d)
		N := kdMaxPoints(g, d)
		L := ipow(sp.side, d)
		stockReps := vlib.Pick(g, 2, 3)
		if d == 4 {
			stockReps = 1
		}
		group := fmt.Sprintf("kd-%s-d%d", map[bool]string{false: "shapes", true: "stock"}[stock], d)
		for j := 0; j <= N; j++ {
			multisets(L, j, func(bulkv []int) {
				bulk := cloneInts(bulkv)
				for m := 0; m <= N-j; m++ {
					if g.Stopped() {
						return
					}
					emit := func(insv []int) {
						ins := cloneInts(insv)
						key := fmt.Sprintf("bulk=%s ins=%s", fmtIdx(bulk), fmtIdx(ins))
						g.Case(key, func(t *vlib.T) {
							st := &kdRunStats{randomShapes: stock}
							reps, esc := 1, false
							if stock && len(bulk) >= 2 {
								reps, esc = attempts(group, key, stockReps)
							}
							random := stock && len(bulk) >= 2
							// A confirmation re-run of a case whose only failure was the
							// known DoBounded defect re-checks structure and DoBounded only.
							lite := knownOnly[group+"\x00"+key] && !replaying()
							for rep := 0; rep < reps && !t.Failed() && !(esc && st.bs.knownSkips > 0); rep++ {
								for _, bnd := range []bool{false, true} {
									// Searches never read Bounding: beyond d=1 the sweep runs on one
									// of the two (structurally checked) trees only; for random builds
									// the swept tree alternates with the repetition.
									mode := kdFull
									if d > 1 {
										swept := !bnd
										if random {
											swept = bnd == (rep%2 == 1)
										} else if stock && d > 2 {
											// fewer than two bulk points: the build is deterministic and
											// the tree is the one swept by the kd-shapes group.
											swept = false
										} else if !stock && d > 2 && len(bulk) == 1 {
											// a one-point bulk build followed by Inserts gives the tree of
											// the history that Inserts all points (swept there).
											swept = false
										}
										if !swept {
											mode = kdNoSweep
										}
									}
									if lite {
										mode = kdLite
									}
									ch := &chooser{}
									for {
										kdRunHistory(t, sp, stock, bulk, ins, bnd, bnd, mode, ch, st)
										if t.Failed() || stock || !ch.next() {
											break
										}
									}
								}
								// mixed flags: the tree keeps the bounding state it was created with.
								if d <= 2 && len(ins) > 0 && !t.Failed() {
									for _, bnd := range []bool{false, true} {
										mode := kdNoSweep
										if lite {
											mode = kdLite
										}
										kdRunHistory(t, sp, stock, bulk, ins, bnd, !bnd, mode, &chooser{}, st)
									}
								}
							}
							st.finish(t, group, key)
							st.report(t, len(bulk)+len(ins))
							t.Detail(map[string]any{"d": d, "bulk": bulk, "insert": ins, "trees": st.trees})
						})
					}
					if d <= 2 {
						tuples(L, m, emit)
					} else {
						multisets(L, m, func(ms []int) { orderings(ms, d < 4 || g.Thorough(), emit) })
					}
				}
			})
		}
	}
}
