package main

import (
	"fmt"

	"gonum.org/v1/gonum/internal/verif/vlib"
)

// Reuse histories of one Plane / Volume: the documented protocol "Reset must
// be called if the Particles field or elements of Particles have been
// altered" for EVERY kind of alteration, in sequences:
//
//	nil slice, empty non-nil slice, a prefix (first particle only), the last
//	particle dropped, one more particle (outside the old bounds / inside
//	them), reversed order, every element moved in place (same slice), a
//	coincident pair (Reset fails with the documented error), the same
//	particles again, a disjoint new set.
//
// After every alteration: ForceOn(theta=0) is correct even before Reset
// (documented); after Reset the system is indistinguishable from a fresh
// NewPlane/NewVolume on the same particles (same error, same interaction
// trace for every probe and opening angle) and equals the direct pairwise sum.
// A history may start from a system built from the base set or from an empty
// one, and goes on after a failed Reset (reused receiver after a failed call).

var bhAlterations = []string{"nil", "empty", "first1", "dropLast", "plusOutside", "plusInside", "reversed", "movedInPlace", "coincident", "same", "disjoint"}

func mkParts(coords []vec3, masses []float64) []*bpart {
	out := make([]*bpart, len(coords))
	for i := range coords {
		out[i] = &bpart{c: coords[i], m: masses[i], id: i}
	}
	return out
}

// alter returns the next particle slice for one alteration of the history.
func alter(kind string, dim int, base []vec3, mk string, cur []*bpart) (next []*bpart, asNil bool) {
	n := len(base)
	m := bhMasses(mk, n+2)
	z := func(v vec3) vec3 {
		if dim == 2 {
			v[2] = 0
		}
		return v
	}
	switch kind {
	case "nil":
		return nil, true
	case "empty":
		return []*bpart{}, false
	case "first1":
		if n == 0 {
			return []*bpart{}, false
		}
		return mkParts(base[:1], m), false
	case "dropLast":
		if n == 0 {
			return []*bpart{}, false
		}
		return mkParts(base[:n-1], m), false
	case "plusOutside":
		return mkParts(append(append([]vec3(nil), base...), z(vec3{9, -6, 12})), m), false
	case "plusInside":
		return mkParts(append(append([]vec3(nil), base...), z(vec3{0.5, 1.25, 0.75})), m), false
	case "reversed":
		c := make([]vec3, n)
		for i := range base {
			c[i] = base[n-1-i]
		}
		return mkParts(c, m), false
	case "movedInPlace":
		// same slice, same elements, new coordinates and masses
		for i, p := range cur {
			p.c[0] = p.c[0]*2 + float64(i%2)
			p.c[1] = 7 - p.c[1]
			if dim == 3 {
				p.c[2] += float64(i)
			}
			p.m++
		}
		return cur, false
	case "coincident":
		if n == 0 {
			return mkParts([]vec3{z(vec3{1, 1, 1}), z(vec3{1, 1, 1})}, m), false
		}
		return mkParts(append(append([]vec3(nil), base...), base[0]), m), false
	case "same":
		return mkParts(base, m), false
	default: // disjoint
		c := make([]vec3, n+1)
		for i := range c {
			c[i] = z(vec3{20 + float64(i), -5 - float64(2*i), 3 + float64(i*i)})
		}
		return mkParts(c, m), false
	}
}

func reuseProbes(dim int, cur []*bpart) []*bpart {
	probes := append([]*bpart(nil), cur...)
	ext := []*bpart{{c: vec3{-1, -1, -1}, m: 1, id: -1}, {c: vec3{1.5, 0.5, 0.25}, m: 2, id: -1}}
	for _, p := range ext {
		if dim == 2 {
			p.c[2] = 0
		}
	}
	return append(probes, ext...)
}

type reuseStats struct {
	bh                       bhStats
	histories, steps         int64
	failedResets, emptyState int64
}

// runReuseHistory executes one history; false on failure.
func runReuseHistory(t *vlib.T, dim int, base []vec3, mk string, emptyStart bool, seq []string, st *reuseStats) bool {
	st.histories++
	sys := newSystem(dim)
	var cur []*bpart
	if !emptyStart {
		cur = mkParts(base, bhMasses(mk, len(base)+1))
		if err := sys.build(cur); err != nil {
			if !coincident(cur) {
				t.Failf("base=%v: constructor returned %v for distinct coordinates", base, err)
				return false
			}
			emptyStart = true
		}
	}
	if emptyStart {
		cur = nil
		if err := sys.build(nil); err != nil {
			t.Failf("constructor on an empty particle list returned %v", err)
			return false
		}
	}
	for si, kind := range seq {
		st.steps++
		next, asNil := alter(kind, dim, base, mk, cur)
		cur = next
		for i, p := range cur {
			p.id = i
		}
		if kind != "movedInPlace" {
			sys.setParticles(cur, asNil)
		}
		ctx := fmt.Sprintf("base=%v masses=%s start=%s history=%v step %d (%s): particles=%s", base, mk, map[bool]string{false: "built", true: "empty"}[emptyStart], seq, si+1, kind, fmtParts(cur))
		probes := reuseProbes(dim, cur)
		// documented: theta=0 needs no Reset.
		for _, p := range probes {
			got := sys.forceOn(p, 0, cubicForce)
			want, _ := direct(cur, p, cubicForce)
			if got != want {
				t.Failf("%s before Reset: ForceOn(p=%v, theta=0) = %v, direct pairwise sum %v", ctx, p.c, got, want)
				return false
			}
		}
		err := sys.reset()
		fresh := newSystem(dim)
		err2 := fresh.build(cur)
		if (err == nil) != (err2 == nil) {
			t.Failf("%s: Reset returned %v but a fresh constructor %v", ctx, err, err2)
			return false
		}
		if err != nil {
			if !coincident(cur) {
				t.Failf("%s: Reset returned %v for distinct coordinates", ctx, err)
				return false
			}
			st.failedResets++
			continue // the state after a failed Reset is unspecified; the next Reset must repair it
		}
		if len(cur) == 0 {
			st.emptyState++
		}
		a, b := bhTrace(sys, probes), bhTrace(fresh, probes)
		same := len(a) == len(b)
		for i := 0; same && i < len(a); i++ {
			if a[i] != b[i] && (a[i] == a[i] || b[i] == b[i]) {
				same = false
			}
		}
		if !same {
			// say what differs in terms of a probe
			for _, p := range probes {
				for _, th := range bhThetas {
					x, y := sys.forceOn(p, th, gravityForce), fresh.forceOn(p, th, gravityForce)
					if x != y && (x == x || y == y) {
						t.Failf("%s after Reset: ForceOn(p=%v, theta=%v, gravity) = %v, a fresh system on the same particles gives %v", ctx, p.c, th, x, y)
						return false
					}
				}
			}
			t.Failf("%s after Reset: the interaction trace (particles/aggregates passed to the force function) differs from a fresh system on the same particles", ctx)
			return false
		}
		if si == len(seq)-1 || len(cur) == 0 {
			bhCheck(t, sys, cur, probes, &st.bh, ctx+" after Reset")
			if t.Failed() {
				return false
			}
		}
	}
	return true
}

func fmtParts(ps []*bpart) string {
	if ps == nil {
		return "nil"
	}
	s := "["
	for i, p := range ps {
		if i > 0 {
			s += " "
		}
		s += fmt.Sprintf("%v/m%v", p.c, p.m)
	}
	return s + "]"
}

// genBHReuse: every base multiset of up to N lattice positions x mass pattern
// x start state x every alteration sequence of length 1..L.
func genBHReuse(dim int) func(g *vlib.G) {
	return func(g *vlib.G) {
		vals := []float64{0, 1, 3}
		if dim == 3 {
			vals = []float64{0, 3}
		}
		side := len(vals)
		L := ipow(side, dim)
		N := vlib.Pick(g, 2, 3)
		for n := 0; n <= N; n++ {
			maxLen := 2
			if g.Thorough() && n <= 2 {
				maxLen = 3
			}
			multisets(L, n, func(msv []int) {
				ms := cloneInts(msv)
				mks := []string{"mixed"}
				if g.Thorough() {
					mks = []string{"mixed", "unit"}
				}
				for _, mk := range mks {
					for _, emptyStart := range []bool{false, true} {
						mk, emptyStart := mk, emptyStart
						g.Case(fmt.Sprintf("pos=%s masses=%s emptyStart=%v", fmtIdx(ms), mk, emptyStart), func(t *vlib.T) {
							base := make([]vec3, len(ms))
							for i, x := range ms {
								lp := latPoint(dim, side, x)
								for c := range lp {
									base[i][c] = vals[int(lp[c])]
								}
							}
							st := &reuseStats{}
							seq := make([]string, 0, maxLen)
							var rec func() bool
							rec = func() bool {
								if len(seq) > 0 && !runReuseHistory(t, dim, base, mk, emptyStart, seq, st) {
									return false
								}
								if len(seq) == maxLen {
									return true
								}
								for _, k := range bhAlterations {
									seq = append(seq, k)
									ok := rec()
									seq = seq[:len(seq)-1]
									if !ok {
										return false
									}
								}
								return true
							}
							rec()
							t.Count("bh_reuse_histories", st.histories)
							t.Count("bh_reuse_steps", st.steps)
							t.Count("bh_reuse_failed_resets_continued", st.failedResets)
							t.Count("bh_reuse_emptied_states", st.emptyState)
							st.bh.finish(t, len(ms)+1)
							t.Detail(map[string]any{"dim": dim, "base": base, "masses": mk, "emptyStart": emptyStart, "max_history": maxLen})
						})
					}
				}
			})
		}
	}
}
