package main

import (
	"fmt"
	"math"
	"math/rand/v2"

	"gonum.org/v1/gonum/internal/verif/vlib"
	"gonum.org/v1/gonum/spatial/vptree"
)

// vpt is a user-defined vptree.Comparable with identity; queries count their
// Distance calls so that pruning is observable.
type vpt struct {
	v   []float64
	id  int
	ctr *int64
}

func (p *vpt) Distance(c vptree.Comparable) float64 {
	if p.ctr != nil {
		*p.ctr++
	}
	return math.Sqrt(sqDist(p.v, c.(*vpt).v))
}

type vpBackend struct {
	stock bool
	pts   [][]float64
	ctr   int64
	ptrID map[*float64]int
}

func (b *vpBackend) elems(pts [][]float64) []vptree.Comparable {
	b.pts = pts
	out := make([]vptree.Comparable, len(pts))
	if b.stock {
		b.ptrID = map[*float64]int{}
	}
	for i, v := range pts {
		if b.stock {
			p := vptree.Point(cloneF(v))
			b.ptrID[&p[0]] = i
			out[i] = p
		} else {
			out[i] = &vpt{v: cloneF(v), id: i}
		}
	}
	return out
}

func (b *vpBackend) mkq(v []float64) vptree.Comparable {
	if b.stock {
		return vptree.Point(v)
	}
	return &vpt{v: v, id: -2, ctr: &b.ctr}
}

func (b *vpBackend) ident(c vptree.Comparable) int {
	if b.stock {
		p, ok := c.(vptree.Point)
		if !ok || len(p) == 0 {
			return -1
		}
		if id, ok := b.ptrID[&p[0]]; ok {
			return id
		}
		return -1
	}
	p, ok := c.(*vpt)
	if !ok || p == nil || p.id < 0 || p.id >= len(b.pts) {
		return -1
	}
	return p.id
}

type vpIx struct {
	tree *vptree.Tree
	be   *vpBackend
	lq   *float64
	lc   vptree.Comparable
}

func (x *vpIx) q(v []float64) vptree.Comparable {
	if x.lq != &v[0] {
		x.lq, x.lc = &v[0], x.be.mkq(v)
	}
	return x.lc
}
func (x *vpIx) unit(sq float64) float64 { return math.Sqrt(sq) }
func (x *vpIx) nearest(q []float64) (int, bool, float64) {
	c, d := x.tree.Nearest(x.q(q))
	if c == nil {
		return -1, true, d
	}
	return x.be.ident(c), false, d
}
func (x *vpIx) hits(h vptree.Heap) []hit {
	out := make([]hit, len(h))
	for i, e := range h {
		if e.Comparable == nil {
			out[i] = hit{id: -1, nilComp: true, dist: e.Dist}
		} else {
			out[i] = hit{id: x.be.ident(e.Comparable), dist: e.Dist}
		}
	}
	return out
}
func (x *vpIx) nkeep(k int, q []float64) []hit {
	kp := vptree.NewNKeeper(k)
	x.tree.NearestSet(kp, x.q(q))
	return x.hits(kp.Heap)
}
func (x *vpIx) dkeep(r float64, q []float64) []hit {
	kp := vptree.NewDistKeeper(r)
	x.tree.NearestSet(kp, x.q(q))
	return x.hits(kp.Heap)
}

// vpCheckTree walks the exported tree: every stored element exactly once,
// Len/Count, and the vantage-point invariant: every point of Closer is within
// Radius of the vantage point and every point of Further at least Radius away.
//
// Known defect (class vptree-coincident-element-lost): when the vantage point
// has coincident points, partition drops one of them instead of the vantage
// itself, so one stored element appears twice and a coincident one is lost.
// The multiset of coordinate VALUES is intact; the defect is reported once per
// case through st.knownIdent and does not stop the remaining checks.
func vpCheckTree(t *vlib.T, tree *vptree.Tree, be *vpBackend, st *vpStats, ctx string) (maxDepth int) {
	n := len(be.pts)
	if tree.Len() != n || tree.Count != n {
		t.Failf("%s Len()=%d Count=%d, %d points were given", ctx, tree.Len(), tree.Count, n)
	}
	if n == 0 {
		if tree.Root != nil {
			t.Failf("%s empty tree has a non-nil Root", ctx)
		}
		return 0
	}
	if tree.Root == nil {
		t.Failf("%s tree of %d points has a nil Root", ctx, n)
		return 0
	}
	seen := make([]int, n)
	count := 0
	var walk func(nd *vptree.Node, depth int) []int
	walk = func(nd *vptree.Node, depth int) []int {
		count++
		if count > n+1 {
			return nil
		}
		if depth > maxDepth {
			maxDepth = depth
		}
		id := be.ident(nd.Point)
		if id < 0 {
			t.Failf("%s node holds a value never given: %v", ctx, nd.Point)
			return nil
		}
		seen[id]++
		sub := []int{id}
		v := be.pts[id]
		if nd.Closer != nil {
			for _, c := range walk(nd.Closer, depth+1) {
				if d := math.Sqrt(sqDist(v, be.pts[c])); d > nd.Radius {
					t.Failf("%s vantage %v radius %v: Closer holds %v at distance %v", ctx, v, nd.Radius, be.pts[c], d)
				}
				sub = append(sub, c)
			}
		}
		if nd.Further != nil {
			for _, c := range walk(nd.Further, depth+1) {
				if d := math.Sqrt(sqDist(v, be.pts[c])); d < nd.Radius {
					t.Failf("%s vantage %v radius %v: Further holds %v at distance %v", ctx, v, nd.Radius, be.pts[c], d)
				}
				sub = append(sub, c)
			}
		}
		return sub
	}
	walk(tree.Root, 0)
	if count != n && !t.Failed() {
		t.Failf("%s tree holds %d nodes, %d points were given", ctx, count, n)
	}
	if t.Failed() {
		return maxDepth
	}
	// identity: every element exactly once.
	var dup, lost []int
	for id, c := range seen {
		if c == 0 {
			lost = append(lost, id)
		}
		for ; c > 1; c-- {
			dup = append(dup, id)
		}
	}
	if len(dup) > 0 {
		// the known defect replaces an element by a coincident one: the value multiset is intact.
		used := make([]bool, len(lost))
		known := len(dup) == len(lost)
		for _, d := range dup {
			ok := false
			for i, l := range lost {
				if !used[i] && sqDist(be.pts[d], be.pts[l]) == 0 {
					used[i], ok = true, true
					break
				}
			}
			if !ok {
				known = false
			}
		}
		if !known {
			t.Failf("%s elements %v appear more than once in the tree and %v are lost (points=%v)", ctx, dup, lost, be.pts)
			return maxDepth
		}
		st.knownIdent++
		st.identBroken = true
		if st.knownMsg == "" {
			st.knownMsg = fmt.Sprintf("%s stored elements #%v appear twice in the tree and the coincident elements #%v are lost (points=%v)", ctx, dup, lost, be.pts)
		}
	}
	return maxDepth
}

func vpCheckDo(t *vlib.T, tree *vptree.Tree, be *vpBackend, relaxIdentity bool, ctx string) {
	n := len(be.pts)
	seen := make([]bool, n)
	calls := 0
	done := tree.Do(func(c vptree.Comparable, depth int) bool {
		calls++
		id := be.ident(c)
		if id < 0 || (seen[id] && !relaxIdentity) {
			t.Failf("%s Do visited %v (id %d) twice or it was never stored", ctx, c, id)
			return false
		}
		seen[id] = true
		return false
	})
	if done || calls != n {
		t.Failf("%s Do returned %v after %d calls, want false after %d", ctx, done, calls, n)
	}
	for _, s := range []int{1, 2, n} {
		if s < 1 || s > n || (s == n && n <= 2) {
			continue
		}
		calls = 0
		done = tree.Do(func(vptree.Comparable, int) bool { calls++; return calls == s })
		if !done || calls != s {
			t.Failf("%s Do with an Operation that stops at call %d returned %v after %d calls", ctx, s, done, calls)
		}
	}
}

var vpRadii = []float64{0, 0.5, 1, math.Sqrt(2), 2, 5}
var vpExactRadii = []float64{0, 0.5, 1, 2, 5}

type vpStats struct {
	sw           sweepStats
	trees        int64
	pruned       int64
	maxDepth     int
	knownIdent   int64
	knownMsg     string
	randomShapes bool // a build with the global source took part: keep the outcome classes deterministic
	identBroken  bool // the tree just built shows the known identity defect
	onlyKnown    bool
}

func vpRun(t *vlib.T, stock bool, pts [][]float64, effort int, src rand.Source, queries [][]float64, ks []int, st *vpStats, lite bool, ctx string) {
	be := &vpBackend{stock: stock}
	el := be.elems(pts)
	tree, err := vptree.New(el, effort, src)
	st.trees++
	if err != nil || tree == nil {
		t.Failf("%s New returned (%v, %v) for finite points", ctx, tree, err)
		return
	}
	st.identBroken = false
	if md := vpCheckTree(t, tree, be, st, ctx); md > st.maxDepth {
		st.maxDepth = md
	}
	if t.Failed() {
		return
	}
	vpCheckDo(t, tree, be, st.identBroken, ctx)
	if t.Failed() || lite {
		return
	}
	st.sw.relaxIdentity = st.identBroken
	st.sw.roundingClass = true
	ix := &vpIx{tree: tree, be: be}
	c0, s0, q0 := be.ctr, st.sw.searches, st.sw.queries
	radii := vpRadii
	if src == nil {
		// The global source makes the tree shape random. The known rounding
		// defect needs the inexact radius and a particular shape, so it could not
		// be confirmed reliably: the random builds use the exact radii only.
		radii = vpExactRadii
	}
	sweep(t, ix, be.pts, queries, ks, radii, &st.sw, ctx)
	// Nearest evaluates the query's distance once per visited node, searchSet twice.
	nearest := st.sw.queries - q0
	sets := st.sw.searches - s0 - nearest
	if !stock && len(pts) > 0 && be.ctr-c0 < (nearest+2*sets)*int64(len(pts)) {
		st.pruned++
	}
}

// finish reports the known (classified) defects once per case as sub-violations
// with their own class, so that they can never hide an unclassified violation.
func (st *vpStats) finish(t *vlib.T, group, key string) {
	t.Count("vp_trees_with_known_identity_defect", st.knownIdent)
	t.Count("vp_queries_with_known_boundary_rounding", st.sw.knownRounding)
	if st.knownIdent > 0 {
		classified(t, "identity", "vptree-coincident-element-lost", "%s (and %d further trees in this case)", st.knownMsg, st.knownIdent-1)
	}
	if st.sw.knownRounding > 0 {
		classified(t, "radius-rounding", "vptree-radius-boundary-rounding", "%s (and %d further queries in this case)", st.sw.knownRoundMsg, st.sw.knownRounding-1)
	}
	if t.Failed() || st.knownIdent > 0 || st.sw.knownRounding > 0 {
		markFailed(group, key)
		if !t.Failed() && st.sw.knownRounding == 0 {
			knownOnly[group+"\x00"+key] = true // re-runs need the structure check only
		}
	}
}

func (st *vpStats) report(t *vlib.T, n int) {
	t.Count("vp_trees", st.trees)
	t.Count("vp_queries", st.sw.queries)
	t.Count("vp_searches", st.sw.searches)
	t.Count("vp_nkeeper_tie_at_k", st.sw.tieAtK)
	t.Count("vp_distkeeper_point_on_radius", st.sw.radiusOnBoundary)
	t.Count("vp_trees_with_pruned_search", st.pruned)
	t.Max("vp_depth", int64(st.maxDepth))
	o := fmt.Sprintf("n=%d", n)
	if !st.randomShapes {
		o += fmt.Sprintf(" depth=%d", st.maxDepth)
	}
	if st.pruned > 0 {
		o += " pruned"
	}
	if st.sw.tieAtK > 0 {
		o += " ties"
	}
	t.Outcome(o)
	if n >= 2 {
		t.Nontrivial()
	}
}

func vpMaxPoints(g *vlib.G, d int) int {
	switch d {
	case 1:
		return vlib.Pick(g, 5, 6)
	case 2:
		return vlib.Pick(g, 4, 5)
	case 3:
		return vlib.Pick(g, 4, 5)
	default:
		return vlib.Pick(g, 3, 4)
	}
}

func efforts(n int) []int {
	out := []int{1}
	if n >= 2 {
		out = append(out, 2)
	}
	if n > 2 {
		out = append(out, n)
	}
	return out
}

// genVP: every point sequence (d<=2: every tuple, so every element is tried
// at every index the vantage selection may draw; beyond: three orderings of
// every multiset) x effort in {1,2,n} x a few explicit PCG sources.
func genVP(d int) func(g *vlib.G) {
	return func(g *vlib.G) {
		side := sideFor(d)
		queries := queryLattice(d, side)
		N := vpMaxPoints(g, d)
		L := ipow(side, d)
		seeds := vlib.Pick(g, 2, 3)
		if d == 4 {
			seeds = vlib.Pick(g, 1, 2)
		}
		group := fmt.Sprintf("vp-d%d", d)
		for n := 0; n <= N; n++ {
			if g.Stopped() {
				return
			}
			emit := func(seqv []int) {
				seq := cloneInts(seqv)
				key := "pts=" + fmtIdx(seq)
				g.Case(key, func(t *vlib.T) {
					lite := knownOnly[group+"\x00"+key] && !replaying()
					pts := make([][]float64, len(seq))
					for i, x := range seq {
						pts[i] = latPoint(d, side, x)
					}
					st := &vpStats{}
					for _, eff := range efforts(len(seq)) {
						for s := 0; s < seeds && !t.Failed(); s++ {
							ctx := fmt.Sprintf("pts=%v effort=%d src=PCG(%d,%d)", seq, eff, s, 20)
							vpRun(t, false, pts, eff, rand.NewPCG(uint64(s), 20), queries, ksUpTo(len(seq)), st, lite, ctx)
						}
					}
					st.finish(t, group, key)
					st.report(t, len(seq))
					t.Detail(map[string]any{"d": d, "points": pts})
				})
			}
			if d <= 2 {
				tuples(L, n, emit)
			} else {
				multisets(L, n, func(ms []int) { orderings(ms, d < 4 || g.Thorough(), emit) })
			}
		}
	}
}
