// Harness C20: spatial indexes equal a linear scan; curves and enumerations
// are bijections. See NOTES.md.
package main

import (
	"fmt"

	"gonum.org/v1/gonum/internal/verif/vlib"
)

func main() {
	var groups []vlib.Group
	for d := 1; d <= 4; d++ {
		groups = append(groups, vlib.Group{Name: fmt.Sprintf("kd-shapes-d%d", d), Gen: genKD(d, false)})
	}
	for d := 1; d <= 4; d++ {
		groups = append(groups, vlib.Group{Name: fmt.Sprintf("kd-stock-d%d", d), Gen: genKD(d, true)})
	}
	vlib.Main("C20", groups...)
}
