// Harness C20: spatial indexes equal a linear scan; curves and enumerations
// are bijections. See NOTES.md.
package main

import (
	"fmt"

	"gonum.org/v1/gonum/internal/verif/vlib"
)

func main() {
	// Cheap and diverse groups first, the d=4 enumerations (the bulk of the
	// work) last, so that a deadline on a loaded machine cuts only their tail.
	groups := []vlib.Group{
		{Name: "index-empty", Gen: genEmpty},
		{Name: "boxes", Gen: genBoxes},
		{Name: "hilbert", Gen: genHilbert},
		{Name: "combin-combinations", Gen: genCombinations},
		{Name: "combin-permutations", Gen: genPermutations},
		{Name: "combin-cartesian", Gen: genCartesian},
		{Name: "combin-numbers", Gen: genNumbers},
		{Name: "bh-plane", Gen: genBH(2)},
		{Name: "bh-volume", Gen: genBH(3)},
		{Name: "bh-struct", Gen: genBHStruct},
		{Name: "bh-reuse-plane", Gen: genBHReuse(2)},
		{Name: "bh-reuse-volume", Gen: genBHReuse(3)},
	}
	for d := 1; d <= 3; d++ {
		groups = append(groups,
			vlib.Group{Name: fmt.Sprintf("kd-shapes-d%d", d), Gen: genKD(d, false)},
			vlib.Group{Name: fmt.Sprintf("kd-stock-d%d", d), Gen: genKD(d, true)},
			vlib.Group{Name: fmt.Sprintf("vp-d%d", d), Gen: genVP(d)},
		)
	}
	groups = append(groups,
		vlib.Group{Name: "kd-struct", Gen: genKDStruct},
		vlib.Group{Name: "vp-struct", Gen: genVPStruct},
		vlib.Group{Name: "kd-shapes-d4", Gen: genKD(4, false)},
		vlib.Group{Name: "kd-stock-d4", Gen: genKD(4, true)},
		vlib.Group{Name: "vp-d4", Gen: genVP(4)},
	)
	vlib.Main("C20", groups...)
}
