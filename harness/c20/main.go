// Harness C20: spatial indexes equal a linear scan; curves and enumerations
// are bijections. See NOTES.md.
package main

import (
	"fmt"

	"gonum.org/v1/gonum/internal/verif/vlib"
)

func main() {
	var groups []vlib.Group
	for d := 1; d <= 4; d++ {
		groups = append(groups, vlib.Group{Name: fmt.Sprintf("kd-shapes-d%d", d), Gen: genKD(d, false)})
	}
	for d := 1; d <= 4; d++ {
		groups = append(groups, vlib.Group{Name: fmt.Sprintf("kd-stock-d%d", d), Gen: genKD(d, true)})
	}
	for d := 1; d <= 4; d++ {
		groups = append(groups, vlib.Group{Name: fmt.Sprintf("vp-d%d", d), Gen: genVP(d)})
	}
	groups = append(groups,
		vlib.Group{Name: "index-empty", Gen: genEmpty},
		vlib.Group{Name: "kd-struct", Gen: genKDStruct},
		vlib.Group{Name: "vp-struct", Gen: genVPStruct},
		vlib.Group{Name: "bh-plane", Gen: genBH(2)},
		vlib.Group{Name: "bh-volume", Gen: genBH(3)},
		vlib.Group{Name: "bh-struct", Gen: genBHStruct},
		vlib.Group{Name: "boxes", Gen: genBoxes},
		vlib.Group{Name: "hilbert", Gen: genHilbert},
		vlib.Group{Name: "combin-combinations", Gen: genCombinations},
		vlib.Group{Name: "combin-permutations", Gen: genPermutations},
		vlib.Group{Name: "combin-cartesian", Gen: genCartesian},
		vlib.Group{Name: "combin-numbers", Gen: genNumbers},
	)
	vlib.Main("C20", groups...)
}
