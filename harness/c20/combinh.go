package main

import (
	"fmt"
	"math"
	"math/big"
	"math/bits"
	"sort"

	"gonum.org/v1/gonum/internal/verif/vlib"
	"gonum.org/v1/gonum/stat/combin"
)

// ---------- combinations ----------

// lexSubsets: all k-subsets of {0..n-1} as ascending index lists, in
// lexicographic order - by brute force over all 2^n bit masks and a sort.
func lexSubsets(n, k int) [][]int {
	var out [][]int
	for m := 0; m < 1<<n; m++ {
		if bits.OnesCount(uint(m)) != k {
			continue
		}
		s := make([]int, 0, k)
		for i := 0; i < n; i++ {
			if m>>i&1 == 1 {
				s = append(s, i)
			}
		}
		out = append(out, s)
	}
	sort.Slice(out, func(a, b int) bool {
		for i := range out[a] {
			if out[a][i] != out[b][i] {
				return out[a][i] < out[b][i]
			}
		}
		return false
	})
	return out
}

func mustPanic(t *vlib.T, what string, f func()) {
	if r := catch(f); r == nil {
		t.Failf("%s did not panic (documented)", what)
	}
}

func genCombinations(g *vlib.G) {
	N := vlib.Pick(g, 10, 12)
	for n := 0; n <= N; n++ {
		for k := 0; k <= n; k++ {
			n, k := n, k
			g.Case(fmt.Sprintf("n=%d k=%d", n, k), func(t *vlib.T) {
				want := lexSubsets(n, k)
				if b := combin.Binomial(n, k); b != len(want) {
					t.Failf("Binomial(%d,%d)=%d, there are %d subsets", n, k, b, len(want))
					return
				}
				got := combin.Combinations(n, k)
				if len(got) != len(want) {
					t.Failf("Combinations(%d,%d) returned %d rows, want %d", n, k, len(got), len(want))
					return
				}
				for i := range want {
					if !sameInts(got[i], want[i]) {
						t.Failf("Combinations(%d,%d)[%d]=%v, lexicographic enumeration has %v", n, k, i, got[i], want[i])
						return
					}
				}
				// generator
				gen := combin.NewCombinationGenerator(n, k)
				mustPanic(t, "Combination before Next", func() { gen.Combination(nil) })
				dst := make([]int, k)
				for i := range want {
					if !gen.Next() {
						t.Failf("CombinationGenerator(%d,%d).Next()=false after %d of %d combinations", n, k, i, len(want))
						return
					}
					c := gen.Combination(nil)
					if !sameInts(c, want[i]) {
						t.Failf("CombinationGenerator(%d,%d) item %d = %v want %v", n, k, i, c, want[i])
						return
					}
					if r := gen.Combination(dst); !sameInts(r, want[i]) || (k > 0 && &r[0] != &dst[0]) {
						t.Failf("CombinationGenerator(%d,%d).Combination(dst) item %d = %v want %v in place", n, k, i, r, want[i])
						return
					}
					mustPanic(t, "Combination(dst) with len(dst)=k+1", func() { gen.Combination(make([]int, k+1)) })
				}
				if gen.Next() || gen.Next() {
					t.Failf("CombinationGenerator(%d,%d).Next()=true after all %d combinations", n, k, len(want))
				}
				mustPanic(t, "Combination after the last Next()=false", func() { gen.Combination(nil) })
				// index maps
				for i := range want {
					c := combin.IndexToCombination(nil, i, n, k)
					if !sameInts(c, want[i]) {
						t.Failf("IndexToCombination(nil,%d,%d,%d)=%v want %v", i, n, k, c, want[i])
						return
					}
					if r := combin.IndexToCombination(dst, i, n, k); !sameInts(r, want[i]) || (k > 0 && &r[0] != &dst[0]) {
						t.Failf("IndexToCombination(dst,%d,%d,%d)=%v want %v in place", i, n, k, r, want[i])
						return
					}
					if j := combin.CombinationIndex(want[i], n, k); j != i {
						t.Failf("CombinationIndex(%v,%d,%d)=%d want %d", want[i], n, k, j, i)
						return
					}
				}
				// documented panics
				mustPanic(t, fmt.Sprintf("IndexToCombination(idx=-1,%d,%d)", n, k), func() { combin.IndexToCombination(nil, -1, n, k) })
				mustPanic(t, fmt.Sprintf("IndexToCombination(idx=Binomial,%d,%d)", n, k), func() { combin.IndexToCombination(nil, len(want), n, k) })
				mustPanic(t, "IndexToCombination with len(dst)=k+1", func() { combin.IndexToCombination(make([]int, k+1), 0, n, k) })
				mustPanic(t, "CombinationIndex with a combination of length k+1", func() { combin.CombinationIndex(make([]int, k+1), n, k) })
				if k >= 2 {
					c := append([]int(nil), want[len(want)-1]...)
					c[0], c[1] = c[1], c[0]
					mustPanic(t, fmt.Sprintf("CombinationIndex(unsorted %v)", c), func() { combin.CombinationIndex(c, n, k) })
					d := append([]int(nil), want[0]...)
					d[1] = d[0]
					mustPanic(t, fmt.Sprintf("CombinationIndex(repeated element %v)", d), func() { combin.CombinationIndex(d, n, k) })
				}
				if k >= 1 {
					// an element outside [0,n): "panics if comb is not a sorted combination of the first [0,n) integers"
					hi := append([]int(nil), want[len(want)-1]...)
					hi[k-1] = n
					lo := append([]int(nil), want[0]...)
					lo[0] = -1
					for _, c := range [][]int{hi, lo} {
						c := c
						var idx int
						if r := catch(func() { idx = combin.CombinationIndex(c, n, k) }); r == nil {
							classified(t, "range", "combin-combinationindex-range-unchecked", "CombinationIndex(%v, n=%d, k=%d) returned %d instead of panicking: the argument is not a combination of [0,%d) (documented panic)", c, n, k, idx, n)
							break
						}
					}
				}
				mustPanic(t, "Binomial(n,n+1)", func() { combin.Binomial(n, n+1) })
				mustPanic(t, "Binomial(-1,k)", func() { combin.Binomial(-1, k) })
				mustPanic(t, "Binomial(n,-1)", func() { combin.Binomial(n, -1) })
				mustPanic(t, "Combinations(n,n+1)", func() { combin.Combinations(n, n+1) })
				mustPanic(t, "NewCombinationGenerator(n,n+1)", func() { combin.NewCombinationGenerator(n, n+1) })
				mustPanic(t, "CombinationIndex(k>n)", func() { combin.CombinationIndex(make([]int, n+1), n, n+1) })
				mustPanic(t, "IndexToCombination(k>n)", func() { combin.IndexToCombination(nil, 0, n, n+1) })
				t.Count("combinations", int64(len(want)))
				t.Outcome(fmt.Sprintf("rows>1=%v", len(want) > 1))
				t.Nontrivial()
			})
		}
	}
}

// ---------- permutations ----------

func validPerm(p []int, n, k int) bool {
	if len(p) != k {
		return false
	}
	var seen uint64
	for _, v := range p {
		if v < 0 || v >= n || seen>>uint(v)&1 == 1 {
			return false
		}
		seen |= 1 << uint(v)
	}
	return true
}

func exactPerms(n, k int) *big.Int {
	r := big.NewInt(1)
	for i := n - k + 1; i <= n; i++ {
		r.Mul(r, big.NewInt(int64(i)))
	}
	return r
}

const permChunk = 250000

// genPermutations: every (n,k): IndexToPermutation(i) is a valid
// k-permutation for every index i and PermutationIndex inverts it (hence all
// NumPermutations(n,k) = n!/(n-k)! permutations appear exactly once);
// Permutations and PermutationGenerator follow the index order.
func genPermutations(g *vlib.G) {
	N := vlib.Pick(g, 9, 10)
	for n := 0; n <= N; n++ {
		for k := 0; k <= n; k++ {
			n, k := n, k
			total := int(exactPerms(n, k).Int64())
			for lo := 0; lo < total; lo += permChunk {
				lo := lo
				hi := lo + permChunk
				if hi > total {
					hi = total
				}
				g.Case(fmt.Sprintf("n=%d k=%d idx=%d..%d", n, k, lo, hi-1), func(t *vlib.T) {
					if np := combin.NumPermutations(n, k); np != total {
						t.Failf("NumPermutations(%d,%d)=%d want %d", n, k, np, total)
						return
					}
					var all [][]int
					if total <= permChunk {
						all = combin.Permutations(n, k)
						if len(all) != total {
							t.Failf("Permutations(%d,%d) has %d rows want %d", n, k, len(all), total)
							return
						}
					}
					var gen *combin.PermutationGenerator
					if lo == 0 {
						gen = combin.NewPermutationGenerator(n, k)
						mustPanic(t, "Permutation before Next", func() { gen.Permutation(nil) })
					}
					dst := make([]int, k)
					for i := lo; i < hi; i++ {
						p := combin.IndexToPermutation(nil, i, n, k)
						if !validPerm(p, n, k) {
							t.Failf("IndexToPermutation(nil,%d,%d,%d)=%v is not a %d-permutation of [0,%d)", i, n, k, p, k, n)
							return
						}
						if j := combin.PermutationIndex(p, n, k); j != i {
							t.Failf("PermutationIndex(IndexToPermutation(%d))=PermutationIndex(%v,%d,%d)=%d", i, p, n, k, j)
							return
						}
						if i%97 == 0 {
							if r := combin.IndexToPermutation(dst, i, n, k); !sameInts(r, p) || (k > 0 && &r[0] != &dst[0]) {
								t.Failf("IndexToPermutation(dst,%d,%d,%d)=%v want %v in place", i, n, k, r, p)
								return
							}
						}
						if all != nil && !sameInts(all[i], p) {
							t.Failf("Permutations(%d,%d)[%d]=%v but IndexToPermutation gives %v", n, k, i, all[i], p)
							return
						}
					}
					if gen != nil {
						genN := total
						if genN > 4*permChunk {
							genN = permChunk // huge spaces: the first chunk only, no exhaustion
						}
						for i := 0; i < genN; i++ {
							if !gen.Next() {
								t.Failf("PermutationGenerator(%d,%d).Next()=false after %d of %d", n, k, i, total)
								return
							}
							var want []int
							if all != nil {
								want = all[i]
							} else {
								want = combin.IndexToPermutation(nil, i, n, k)
							}
							if r := gen.Permutation(dst); !sameInts(r, want) {
								t.Failf("PermutationGenerator(%d,%d) item %d = %v want %v", n, k, i, r, want)
								return
							}
						}
						if genN == total {
							if gen.Next() || gen.Next() {
								t.Failf("PermutationGenerator(%d,%d).Next()=true after all %d permutations", n, k, total)
							}
							mustPanic(t, "Permutation after the last Next()=false", func() { gen.Permutation(nil) })
						}
					}
					if lo == 0 {
						mustPanic(t, "IndexToPermutation(idx=-1)", func() { combin.IndexToPermutation(nil, -1, n, k) })
						mustPanic(t, "IndexToPermutation(idx=NumPermutations)", func() { combin.IndexToPermutation(nil, total, n, k) })
						mustPanic(t, "IndexToPermutation with len(dst)=k+1", func() { combin.IndexToPermutation(make([]int, k+1), 0, n, k) })
						mustPanic(t, "PermutationIndex with length k+1", func() { combin.PermutationIndex(make([]int, k+1), n, k) })
						if k >= 1 {
							p := combin.IndexToPermutation(nil, 0, n, k)
							p[0] = n
							mustPanic(t, fmt.Sprintf("PermutationIndex(%v) element n", p), func() { combin.PermutationIndex(p, n, k) })
							p[0] = -1
							mustPanic(t, fmt.Sprintf("PermutationIndex(%v) element -1", p), func() { combin.PermutationIndex(p, n, k) })
						}
						if k >= 2 {
							p := combin.IndexToPermutation(nil, 0, n, k)
							p[1] = p[0]
							mustPanic(t, fmt.Sprintf("PermutationIndex(%v) repeated element", p), func() { combin.PermutationIndex(p, n, k) })
						}
						mustPanic(t, "NumPermutations(n,n+1)", func() { combin.NumPermutations(n, n+1) })
						mustPanic(t, "NumPermutations(-1,0)", func() { combin.NumPermutations(-1, 0) })
						mustPanic(t, "NumPermutations(n,-1)", func() { combin.NumPermutations(n, -1) })
						mustPanic(t, "Permutations(n,n+1)", func() { combin.Permutations(n, n+1) })
						mustPanic(t, "NewPermutationGenerator(n,n+1)", func() { combin.NewPermutationGenerator(n, n+1) })
						mustPanic(t, "PermutationIndex(k>n)", func() { combin.PermutationIndex(make([]int, n+1), n, n+1) })
						mustPanic(t, "IndexToPermutation(k>n)", func() { combin.IndexToPermutation(nil, 0, n, n+1) })
					}
					t.Count("permutations", int64(hi-lo))
					t.Outcome(fmt.Sprintf("n==k:%v", n == k))
					t.Nontrivial()
				})
			}
		}
	}
}

// ---------- Cartesian products ----------

func genCartesian(g *vlib.G) {
	for l := 1; l <= 5; l++ {
		tuples(5, l, func(v []int) {
			dims := make([]int, len(v))
			prod := 1
			for i, x := range v {
				dims[i] = x + 1
				prod *= x + 1
			}
			if prod > 10000 {
				return
			}
			g.Case(fmt.Sprintf("dims=%s", fmtIdx(dims)), func(t *vlib.T) {
				if c := combin.Card(dims); c != prod {
					t.Failf("Card(%v)=%d want %d", dims, c, prod)
					return
				}
				rows := combin.Cartesian(append([]int(nil), dims...))
				if len(rows) != prod {
					t.Failf("Cartesian(%v) has %d rows want %d", dims, len(rows), prod)
					return
				}
				gen := combin.NewCartesianGenerator(append([]int(nil), dims...))
				mustPanic(t, "CartesianGenerator.Product before Next", func() { gen.Product(nil) })
				// the documented order: an odometer whose last subscript moves fastest.
				sub := make([]int, len(dims))
				dst := make([]int, len(dims))
				for i := 0; i < prod; i++ {
					if !sameInts(rows[i], sub) {
						t.Failf("Cartesian(%v)[%d]=%v want %v", dims, i, rows[i], sub)
						return
					}
					if !gen.Next() {
						t.Failf("CartesianGenerator(%v).Next()=false at row %d of %d", dims, i, prod)
						return
					}
					if r := gen.Product(nil); !sameInts(r, sub) {
						t.Failf("CartesianGenerator(%v) row %d = %v want %v", dims, i, r, sub)
						return
					}
					if r := gen.Product(dst); !sameInts(r, sub) || &r[0] != &dst[0] {
						t.Failf("CartesianGenerator(%v).Product(dst) row %d = %v want %v in place", dims, i, r, sub)
						return
					}
					if j := combin.IdxFor(sub, dims); j != i {
						t.Failf("IdxFor(%v,%v)=%d want %d", sub, dims, j, i)
						return
					}
					if r := combin.SubFor(nil, i, dims); !sameInts(r, sub) {
						t.Failf("SubFor(nil,%d,%v)=%v want %v", i, dims, r, sub)
						return
					}
					if r := combin.SubFor(dst, i, dims); !sameInts(r, sub) || &r[0] != &dst[0] {
						t.Failf("SubFor(dst,%d,%v)=%v want %v in place", i, dims, r, sub)
						return
					}
					for c := len(sub) - 1; c >= 0; c-- { // advance the odometer
						sub[c]++
						if sub[c] < dims[c] {
							break
						}
						sub[c] = 0
					}
				}
				if gen.Next() || gen.Next() {
					t.Failf("CartesianGenerator(%v).Next()=true after %d rows", dims, prod)
				}
				// documented panics
				mustPanic(t, "SubFor(idx=-1)", func() { combin.SubFor(nil, -1, dims) })
				for _, idx := range []int{prod, prod + 1, 2 * prod} {
					idx := idx
					var r []int
					if p := catch(func() { r = combin.SubFor(nil, idx, dims) }); p == nil {
						if len(dims) == 1 && idx == prod {
							classified(t, "subfor", "combin-subfor-1d-index-equal-dim", "SubFor(nil,%d,%v) returned %v instead of panicking (documented: panics if idx is greater than or equal to the product of the dimensions)", idx, dims, r)
						} else {
							t.Failf("SubFor(nil,%d,%v) returned %v instead of panicking (idx >= product %d)", idx, dims, r, prod)
						}
					}
				}
				mustPanic(t, "SubFor with len(sub)!=len(dims)", func() { combin.SubFor(make([]int, len(dims)+1), 0, dims) })
				for c := range dims {
					s := make([]int, len(dims))
					s[c] = dims[c]
					mustPanic(t, fmt.Sprintf("IdxFor(%v,%v)", s, dims), func() { combin.IdxFor(s, dims) })
					s[c] = -1
					mustPanic(t, fmt.Sprintf("IdxFor(%v,%v)", s, dims), func() { combin.IdxFor(s, dims) })
					bad := append([]int(nil), dims...)
					bad[c] = 0
					mustPanic(t, fmt.Sprintf("Cartesian(%v)", bad), func() { combin.Cartesian(bad) })
					mustPanic(t, fmt.Sprintf("IdxFor(zeros,%v)", bad), func() { combin.IdxFor(make([]int, len(bad)), bad) })
					bad[c] = -2
					mustPanic(t, fmt.Sprintf("Cartesian(%v)", bad), func() { combin.Cartesian(bad) })
					mustPanic(t, fmt.Sprintf("Card(%v)", bad), func() { combin.Card(bad) })
				}
				t.Count("cartesian_rows", int64(prod))
				t.Outcome(fmt.Sprintf("len=%d", len(dims)))
				if prod > 1 {
					t.Nontrivial()
				}
			})
		})
	}
}

// ---------- counting functions against exact big integers ----------

var maxInt = big.NewInt(math.MaxInt64)

func genNumbers(g *vlib.G) {
	g.Case("Binomial n<=70 vs big", func(t *vlib.T) {
		var exact, dontcare int64
		for n := 0; n <= 70; n++ {
			for k := 0; k <= n; k++ {
				want := new(big.Int).Binomial(int64(n), int64(k))
				// The documented algorithm state: "No check is made for overflow".
				// The value must be exact whenever every intermediate product of the
				// multiplicative formula b*(n-k+i) fits an int; otherwise don't care.
				kk := k
				if kk > n/2 {
					kk = n - kk
				}
				fits := true
				b := big.NewInt(1)
				for i := 1; i <= kk; i++ {
					b.Mul(b, big.NewInt(int64(n-kk+i)))
					if b.Cmp(maxInt) > 0 {
						fits = false
					}
					b.Div(b, big.NewInt(int64(i)))
				}
				var got int
				if r := catch(func() { got = combin.Binomial(n, k) }); r != nil {
					t.Failf("Binomial(%d,%d) panicked: %v", n, k, r)
					return
				}
				if !fits {
					dontcare++
					continue
				}
				exact++
				if big.NewInt(int64(got)).Cmp(want) != 0 {
					t.Failf("Binomial(%d,%d)=%d want %v (no intermediate overflows)", n, k, got, want)
					return
				}
			}
		}
		t.Count("binomial_exact", exact)
		t.Count("binomial_overflow_dontcare", dontcare)
		t.Outcome("binomial")
		t.Nontrivial()
	})
	g.Case("NumPermutations n<=25 vs big", func(t *vlib.T) {
		var exact, dontcare int64
		for n := 0; n <= 25; n++ {
			for k := 0; k <= n; k++ {
				want := exactPerms(n, k)
				got := combin.NumPermutations(n, k)
				if want.Cmp(maxInt) > 0 {
					dontcare++ // "No check is made for overflow"
					continue
				}
				exact++
				if big.NewInt(int64(got)).Cmp(want) != 0 {
					t.Failf("NumPermutations(%d,%d)=%d want %v", n, k, got, want)
					return
				}
			}
		}
		t.Count("numperm_exact", exact)
		t.Count("numperm_overflow_dontcare", dontcare)
		t.Outcome("numperm")
		t.Nontrivial()
	})
	g.Case("Card large dims vs big", func(t *vlib.T) {
		vals := []int{1, 2, 3, 7, 1000, 65536, 1 << 31, 3037000499}
		var exact, dontcare int64
		for l := 1; l <= 4; l++ {
			tuples(len(vals), l, func(v []int) {
				dims := make([]int, l)
				want := big.NewInt(1)
				for i, x := range v {
					dims[i] = vals[x]
					want.Mul(want, big.NewInt(int64(vals[x])))
				}
				got := combin.Card(dims)
				if want.Cmp(maxInt) > 0 {
					dontcare++
					return
				}
				exact++
				if big.NewInt(int64(got)).Cmp(want) != 0 {
					t.Failf("Card(%v)=%d want %v", dims, got, want)
				}
			})
		}
		if combin.Card(nil) != 0 {
			t.Failf("Card(nil)=%d want 0", combin.Card(nil))
		}
		t.Count("card_exact", exact)
		t.Count("card_overflow_dontcare", dontcare)
		t.Outcome("card")
		t.Nontrivial()
	})
	g.Case("GeneralizedBinomial half-integer grid", func(t *vlib.T) {
		// Reference: Gamma at integers and half-integers in closed form,
		// Gamma(m+1) = m!, Gamma(m+1/2) = (2m)! sqrt(pi) / (4^m m!), with 200-bit floats.
		const prec = 200
		pi := new(big.Float).SetPrec(prec)
		pi.SetString("3.14159265358979323846264338327950288419716939937510582097494459230781640628620899862803482534211706798")
		sqrtPi := new(big.Float).SetPrec(prec).Sqrt(pi)
		fact := func(m int) *big.Float {
			return new(big.Float).SetPrec(prec).SetInt(new(big.Int).MulRange(1, int64(m)))
		}
		gamma := func(x2 int) *big.Float { // Gamma(x2/2), x2 >= 1
			if x2%2 == 0 {
				return fact(x2/2 - 1)
			}
			m := (x2 - 1) / 2
			num := new(big.Float).SetPrec(prec).Mul(fact(2*m), sqrtPi)
			den := new(big.Float).SetPrec(prec).Mul(new(big.Float).SetPrec(prec).SetInt(new(big.Int).Exp(big.NewInt(4), big.NewInt(int64(m)), nil)), fact(m))
			return num.Quo(num, den)
		}
		var cnt int64
		for n2 := 0; n2 <= 120; n2++ { // n = n2/2 in 0..60
			for k2 := 0; k2 <= n2; k2++ {
				n, k := float64(n2)/2, float64(k2)/2
				ref := gamma(n2 + 2)
				ref.Quo(ref, gamma(k2+2))
				ref.Quo(ref, gamma(n2-k2+2))
				want, _ := ref.Float64()
				got := combin.GeneralizedBinomial(n, k)
				lg := combin.LogGeneralizedBinomial(n, k)
				cnt++
				if math.Abs(got-want) > 1e-10*want {
					t.Failf("GeneralizedBinomial(%v,%v)=%v, Gamma(n+1)/(Gamma(k+1)Gamma(n-k+1))=%v", n, k, got, want)
					return
				}
				if math.Abs(lg-math.Log(want)) > 1e-11*(1+math.Abs(math.Log(want))) {
					t.Failf("LogGeneralizedBinomial(%v,%v)=%v want %v", n, k, lg, math.Log(want))
					return
				}
				if n2%2 == 0 && k2%2 == 0 && n2 <= 110 {
					b := float64(combin.Binomial(n2/2, k2/2))
					if math.Abs(got-b) > 1e-10*b {
						t.Failf("GeneralizedBinomial(%v,%v)=%v but Binomial=%v", n, k, got, b)
						return
					}
				}
				// symmetry and Pascal's rule hold for the Gamma extension too.
				if s := combin.GeneralizedBinomial(n, n-k); math.Abs(s-got) > 1e-10*got {
					t.Failf("GeneralizedBinomial(%v,%v)=%v but (n,n-k) gives %v", n, k, got, s)
					return
				}
				if k2 >= 2 && n2-k2 >= 2 {
					p := combin.GeneralizedBinomial(n-1, k-1) + combin.GeneralizedBinomial(n-1, k)
					if math.Abs(p-got) > 1e-10*got {
						t.Failf("Pascal: GeneralizedBinomial(%v,%v)=%v but C(n-1,k-1)+C(n-1,k)=%v", n, k, got, p)
						return
					}
				}
			}
		}
		mustPanic(t, "GeneralizedBinomial(-0.5,0)", func() { combin.GeneralizedBinomial(-0.5, 0) })
		mustPanic(t, "GeneralizedBinomial(1,-0.5)", func() { combin.GeneralizedBinomial(1, -0.5) })
		mustPanic(t, "GeneralizedBinomial(1,1.5)", func() { combin.GeneralizedBinomial(1, 1.5) })
		mustPanic(t, "LogGeneralizedBinomial(-1,0)", func() { combin.LogGeneralizedBinomial(-1, 0) })
		mustPanic(t, "LogGeneralizedBinomial(1,2)", func() { combin.LogGeneralizedBinomial(1, 2) })
		t.Count("genbinomial_points", cnt)
		t.Outcome("genbinomial")
		t.Nontrivial()
	})
	// Don't-care zone, recorded only: Card / NewCartesianGenerator with a zero
	// length return 0 / an empty generator although the comments say they panic.
	g.Case("Card zero dimension (recorded)", func(t *vlib.T) {
		o := ""
		if r := catch(func() { o += fmt.Sprintf("Card=%d ", combin.Card([]int{2, 0, 3})) }); r != nil {
			o += "Card:panic "
		}
		if r := catch(func() { o += fmt.Sprintf("gen.Next=%v", combin.NewCartesianGenerator([]int{2, 0}).Next()) }); r != nil {
			o += "gen:panic"
		}
		t.Outcome(o)
		t.Nontrivial()
	})
}
