package main

import (
	"fmt"
	"math"

	"gonum.org/v1/gonum/internal/verif/vlib"
	"gonum.org/v1/gonum/spatial/kdtree"
	"gonum.org/v1/gonum/spatial/vptree"
)

// genEmpty: the empty tree (bulk-built from nothing) and the k = 0 keeper.
func genEmpty(g *vlib.G) {
	for d := 1; d <= 4; d++ {
		d := d
		q := make([]float64, d)
		for _, bnd := range []bool{false, true} {
			bnd := bnd
			g.Case(fmt.Sprintf("kd d=%d bounding=%v basics", d, bnd), func(t *vlib.T) {
				tr := kdtree.New(kdtree.Points{}, bnd)
				if tr.Len() != 0 || tr.Root != nil {
					t.Failf("empty tree: Len=%d Root=%v", tr.Len(), tr.Root)
				}
				c, dist := tr.Nearest(kdtree.Point(q))
				if c != nil || !math.IsInf(dist, 1) {
					t.Failf("Nearest on the empty tree = (%v,%v), want (nil,+Inf)", c, dist)
				}
				calls := 0
				fn := func(kdtree.Comparable, *kdtree.Bounding, int) bool { calls++; return false }
				if tr.Do(fn) || tr.DoBounded(nil, fn) || tr.DoBounded(&kdtree.Bounding{Min: kdtree.Point(q), Max: kdtree.Point(q)}, fn) || calls != 0 {
					t.Failf("Do/DoBounded on the empty tree called the Operation %d times or returned true", calls)
				}
				t.Outcome("empty")
				t.Nontrivial()
			})
			g.Case(fmt.Sprintf("kd d=%d bounding=%v Contains", d, bnd), func(t *vlib.T) {
				tr := kdtree.New(kdtree.Points{}, bnd)
				var got bool
				if r := catch(func() { got = tr.Contains(kdtree.Point(q)) }); r != nil {
					classified(t, "", "kdtree-contains-empty-panic", "Tree.Contains on an empty tree panics (%v); documented: \"If no bounding has been constructed Contains returns true\"", r)
				} else if !got {
					t.Failf("Tree.Contains on an empty (unbounded) tree = false, documented true")
				}
				t.Outcome("empty-contains")
				t.Nontrivial()
			})
			for _, kind := range []string{"NKeeper(1)", "NKeeper(3)", "DistKeeper(1)"} {
				kind := kind
				g.Case(fmt.Sprintf("kd d=%d bounding=%v NearestSet %s", d, bnd, kind), func(t *vlib.T) {
					tr := kdtree.New(kdtree.Points{}, bnd)
					var h *kdtree.Heap
					var k kdtree.Keeper
					switch kind {
					case "NKeeper(1)":
						kp := kdtree.NewNKeeper(1)
						h, k = &kp.Heap, kp
					case "NKeeper(3)":
						kp := kdtree.NewNKeeper(3)
						h, k = &kp.Heap, kp
					default:
						kp := kdtree.NewDistKeeper(1)
						h, k = &kp.Heap, kp
					}
					tr.NearestSet(k, kdtree.Point(q))
					if len(*h) != 0 {
						if len(*h) == 1 && (*h)[0].Comparable == nil {
							classified(t, "", "nearestset-empty-tree-sentinel-kept", "kdtree NearestSet(%s) on an empty tree leaves the nil-Comparable sentinel in the keeper: %v (documented: the sentinel is removed before returning)", kind, *h)
						} else {
							t.Failf("kdtree NearestSet(%s) on an empty tree retained %v", kind, *h)
						}
					}
					t.Outcome("empty-nearestset")
					t.Nontrivial()
				})
			}
		}
		g.Case(fmt.Sprintf("vp d=%d basics", d), func(t *vlib.T) {
			for _, eff := range []int{0, 1, 2} {
				tr, err := vptree.New(nil, eff, nil)
				if err != nil || tr == nil {
					t.Failf("vptree.New(nil) = (%v,%v)", tr, err)
					return
				}
				if tr.Len() != 0 || tr.Root != nil {
					t.Failf("empty vptree: Len=%d Root=%v", tr.Len(), tr.Root)
				}
				c, dist := tr.Nearest(vptree.Point(q))
				if c != nil || !math.IsInf(dist, 1) {
					t.Failf("Nearest on the empty vptree = (%v,%v), want (nil,+Inf)", c, dist)
				}
				calls := 0
				if tr.Do(func(vptree.Comparable, int) bool { calls++; return false }) || calls != 0 {
					t.Failf("Do on the empty vptree called the Operation")
				}
			}
			t.Outcome("empty")
			t.Nontrivial()
		})
		for _, kind := range []string{"NKeeper(1)", "NKeeper(3)", "DistKeeper(1)"} {
			kind := kind
			g.Case(fmt.Sprintf("vp d=%d NearestSet %s", d, kind), func(t *vlib.T) {
				tr, _ := vptree.New(nil, 1, nil)
				var h *vptree.Heap
				var k vptree.Keeper
				switch kind {
				case "NKeeper(1)":
					kp := vptree.NewNKeeper(1)
					h, k = &kp.Heap, kp
				case "NKeeper(3)":
					kp := vptree.NewNKeeper(3)
					h, k = &kp.Heap, kp
				default:
					kp := vptree.NewDistKeeper(1)
					h, k = &kp.Heap, kp
				}
				tr.NearestSet(k, vptree.Point(q))
				if len(*h) != 0 {
					if len(*h) == 1 && (*h)[0].Comparable == nil {
						classified(t, "", "nearestset-empty-tree-sentinel-kept", "vptree NearestSet(%s) on an empty tree leaves the nil-Comparable sentinel in the keeper: %v (documented: the sentinel is removed before returning)", kind, *h)
					} else {
						t.Failf("vptree NearestSet(%s) on an empty tree retained %v", kind, *h)
					}
				}
				t.Outcome("empty-nearestset")
				t.Nontrivial()
			})
		}
	}
	// k = 0: NewNKeeper(0) is a don't-care zone (it panics inside make; the
	// documentation neither allows nor forbids n = 0). If it does return a
	// keeper, NearestSet must retain nothing.
	g.Case("NewNKeeper(0)", func(t *vlib.T) {
		out := ""
		var kk *kdtree.NKeeper
		if r := catch(func() { kk = kdtree.NewNKeeper(0) }); r != nil {
			out += "kd:panic "
		} else {
			tr := kdtree.New(kdtree.Points{{0, 0}, {1, 1}}, false)
			if r := catch(func() { tr.NearestSet(kk, kdtree.Point{0, 0}) }); r != nil {
				out += "kd:search-panic "
			} else if len(kk.Heap) != 0 {
				t.Failf("kdtree NKeeper(0) retained %v", kk.Heap)
			} else {
				out += "kd:empty "
			}
		}
		var vk *vptree.NKeeper
		if r := catch(func() { vk = vptree.NewNKeeper(0) }); r != nil {
			out += "vp:panic"
		} else {
			tr, _ := vptree.New([]vptree.Comparable{vptree.Point{0, 0}, vptree.Point{1, 1}}, 1, nil)
			if r := catch(func() { tr.NearestSet(vk, vptree.Point{0, 0}) }); r != nil {
				out += "vp:search-panic"
			} else if len(vk.Heap) != 0 {
				t.Failf("vptree NKeeper(0) retained %v", vk.Heap)
			} else {
				out += "vp:empty"
			}
		}
		t.Outcome(out)
		t.Nontrivial()
	})
	// vptree: a point at infinity is reported as an error, not a panic or a hang.
	g.Case("vptree point at infinity", func(t *vlib.T) {
		for _, eff := range []int{1, 2, 3} {
			pts := []vptree.Comparable{vptree.Point{0, 0}, vptree.Point{math.Inf(1), 0}, vptree.Point{1, 1}}
			tr, err := vptree.New(pts, eff, nil)
			if err == nil || tr != nil {
				t.Failf("vptree.New with a point at infinity (effort %d) = (%v,%v), documented: points must not be infinitely distant (an error is returned)", eff, tr, err)
			}
		}
		t.Outcome("error")
		t.Nontrivial()
	})
}
