package main

import (
	"errors"
	"fmt"

	"gonum.org/v1/gonum/internal/verif/vlib"
	"gonum.org/v1/gonum/spatial/curve"
)

type hcurve interface {
	Dims() []int
	Len() int
	Pos(v []int) int
	Coord(dst []int, pos int) []int
}

func newHilbert(dim, order int) (hcurve, error) {
	switch dim {
	case 2:
		return curve.NewHilbert2D(order)
	case 3:
		return curve.NewHilbert3D(order)
	default:
		return curve.NewHilbert4D(order)
	}
}

// unitStep: a and b differ by exactly 1 in exactly one coordinate.
func unitStep(a, b []int) bool {
	diff := 0
	for i := range a {
		d := a[i] - b[i]
		if d < 0 {
			d = -d
		}
		diff += d
		if d > 1 {
			return false
		}
	}
	return diff == 1
}

func inRange(c []int, dim, order int) bool {
	if len(c) != dim {
		return false
	}
	for _, x := range c {
		if x < 0 || x >= 1<<order {
			return false
		}
	}
	return true
}

type hilbertStats struct {
	positions, dirty int64
	dirtyMsg         string
}

// checkPos checks one position p (and its successor relation with prev, the
// coordinates of p-1, if prev != nil). Returns the coordinates of p.
func checkPos(t *vlib.T, h hcurve, dim, order, p int, prev []int, dst []int, st *hilbertStats, ctx string) []int {
	st.positions++
	c := h.Coord(nil, p)
	if !inRange(c, dim, order) {
		t.Failf("%s Coord(nil,%d)=%v outside the curve's space {0..%d}^%d", ctx, p, c, 1<<order-1, dim)
		return nil
	}
	if prev != nil && !unitStep(prev, c) {
		t.Failf("%s positions %d and %d map to %v and %v: not a unit step in exactly one coordinate", ctx, p-1, p, prev, c)
		return nil
	}
	if q := h.Pos(append([]int(nil), c...)); q != p {
		t.Failf("%s Pos(Coord(%d)) = Pos(%v) = %d", ctx, p, c, q)
		return nil
	}
	// dst given and zeroed: in place, same answer.
	z := make([]int, dim)
	if r := h.Coord(z, p); &r[0] != &z[0] || !sameInts(r, c) {
		t.Failf("%s Coord(dst,%d) with a zeroed dst = %v (in place: %v), Coord(nil,%d) = %v", ctx, p, r, &r[0] == &z[0], p, c)
		return nil
	}
	// dst reused from an earlier call (the allocation-free use the
	// documentation advertises): "Coord writes the spatial coordinates of pos to dst".
	if dst != nil {
		before := append([]int(nil), dst...)
		if r := h.Coord(dst, p); !sameInts(r, c) {
			st.dirty++
			if st.dirtyMsg == "" {
				st.dirtyMsg = fmt.Sprintf("%s Coord(dst,%d) with dst holding %v from an earlier call returns %v, Coord(nil,%d) = %v", ctx, p, before, r, p, c)
			}
			copy(dst, c)
		}
	}
	return c
}

func (st *hilbertStats) finish(t *vlib.T) {
	t.Count("hilbert_positions", st.positions)
	t.Count("hilbert_dirty_dst_mismatches", st.dirty)
	if st.dirty > 0 {
		classified(t, "dirty-dst", "hilbert-coord-dst-not-cleared", "%s (and %d further positions in this case)", st.dirtyMsg, st.dirty-1)
	}
}

func hilbertMaxOrder(dim int) int {
	// largest order the constructors accept on 64-bit ints.
	return map[int]int{2: 31, 3: 21, 4: 15}[dim]
}

func genHilbert(g *vlib.G) {
	full := map[int]int{2: vlib.Pick(g, 6, 8), 3: vlib.Pick(g, 3, 5), 4: vlib.Pick(g, 2, 4)}
	for dim := 2; dim <= 4; dim++ {
		dim := dim
		// Every position and every coordinate vector.
		for order := 1; order <= full[dim]; order++ {
			order := order
			g.Case(fmt.Sprintf("%dD order=%d every position", dim, order), func(t *vlib.T) {
				h, err := newHilbert(dim, order)
				if err != nil {
					t.Failf("NewHilbert%dD(%d): %v", dim, order, err)
					return
				}
				ctx := fmt.Sprintf("Hilbert%dD(order %d)", dim, order)
				n := 1 << (dim * order)
				if h.Len() != n {
					t.Failf("%s Len()=%d want 2^(%d*%d)=%d", ctx, h.Len(), dim, order, n)
				}
				dm := h.Dims()
				if len(dm) != dim {
					t.Failf("%s Dims()=%v", ctx, dm)
				}
				for _, x := range dm {
					if x != 1<<order {
						t.Failf("%s Dims()=%v want all %d", ctx, dm, 1<<order)
						break
					}
				}
				st := &hilbertStats{}
				seen := make([]bool, n)
				var prev []int
				dst := make([]int, dim)
				for p := 0; p < n && !t.Failed(); p++ {
					c := checkPos(t, h, dim, order, p, prev, dst, st, ctx)
					if c == nil {
						break
					}
					idx := 0
					for _, x := range c {
						idx = idx<<order | x
					}
					if seen[idx] {
						t.Failf("%s coordinate %v is visited twice (second time at position %d)", ctx, c, p)
					}
					seen[idx] = true
					prev = c
				}
				// every coordinate vector: Coord(Pos(v)) = v
				v := make([]int, dim)
				for idx := 0; idx < n && !t.Failed(); idx++ {
					x := idx
					for i := dim - 1; i >= 0; i-- {
						v[i] = x & (1<<order - 1)
						x >>= order
					}
					p := h.Pos(append([]int(nil), v...))
					if p < 0 || p >= n {
						t.Failf("%s Pos(%v)=%d outside 0..%d", ctx, v, p, n-1)
						break
					}
					if c := h.Coord(nil, p); !sameInts(c, v) {
						t.Failf("%s Coord(Pos(%v)) = Coord(%d) = %v", ctx, v, p, c)
					}
				}
				// documented panic: dst of the wrong length.
				for _, l := range []int{dim - 1, dim + 1} {
					if r := catch(func() { h.Coord(make([]int, l), 0) }); r == nil {
						t.Failf("%s Coord with len(dst)=%d did not panic (documented)", ctx, l)
					}
				}
				st.finish(t)
				t.Outcome(fmt.Sprintf("%dD full", dim))
				t.Nontrivial()
				t.Detail(map[string]any{"dim": dim, "order": order, "positions": n})
			})
		}
		// Larger orders up to the largest legal one: boundary positions and a
		// fixed stride sample, each with its successor.
		for order := full[dim] + 1; order <= hilbertMaxOrder(dim); order++ {
			order := order
			g.Case(fmt.Sprintf("%dD order=%d boundary positions", dim, order), func(t *vlib.T) {
				h, err := newHilbert(dim, order)
				if err != nil {
					t.Failf("NewHilbert%dD(%d): %v (the order is legal: %d*%d < 64)", dim, order, err, dim, order)
					return
				}
				ctx := fmt.Sprintf("Hilbert%dD(order %d)", dim, order)
				bitsTotal := dim * order
				last := int(^uint(0)>>1) >> (63 - bitsTotal) // 2^(dim*order) - 1 without overflowing
				if bitsTotal < 63 {
					if h.Len() != last+1 {
						t.Failf("%s Len()=%d want %d", ctx, h.Len(), last+1)
					}
				} // bitsTotal == 63 (3D order 21): Len is documented to overflow.
				for _, x := range h.Dims() {
					if x != 1<<order {
						t.Failf("%s Dims()=%v", ctx, h.Dims())
						break
					}
				}
				half := last/2 + 1
				starts := []int{0, 1, half - 2, half - 1, half, last - 2, last - 1, half/2 - 1, half + half/2 - 1}
				// positions where many base-2^dim digits carry at once
				for s := dim; s < bitsTotal; s += dim {
					starts = append(starts, 1<<s-1, last-(1<<s))
				}
				l := vlib.LCG(uint64(dim*100 + order))
				nsamp := vlib.Pick(g, 300, 3000)
				for i := 0; i < nsamp; i++ {
					s := int((l.Next()<<31 | l.Next()) % uint64(last))
					starts = append(starts, s, last-1-s)
				}
				st := &hilbertStats{}
				dst := make([]int, dim)
				for _, p := range starts {
					if p < 0 || p >= last || t.Failed() {
						continue
					}
					c := checkPos(t, h, dim, order, p, nil, dst, st, ctx)
					if c == nil {
						break
					}
					checkPos(t, h, dim, order, p+1, c, dst, st, ctx)
				}
				// corners of the space
				for m := 0; m < 1<<dim && !t.Failed(); m++ {
					v := make([]int, dim)
					for i := range v {
						if m>>i&1 == 1 {
							v[i] = 1<<order - 1
						}
					}
					p := h.Pos(append([]int(nil), v...))
					if p < 0 || p > last {
						t.Failf("%s Pos(%v)=%d outside 0..%d", ctx, v, p, last)
						break
					}
					if c := h.Coord(nil, p); !sameInts(c, v) {
						t.Failf("%s Coord(Pos(%v)) = Coord(%d) = %v", ctx, v, p, c)
					}
				}
				st.finish(t)
				t.Outcome(fmt.Sprintf("%dD boundary", dim))
				t.Nontrivial()
			})
		}
		g.Case(fmt.Sprintf("%dD constructor errors", dim), func(t *vlib.T) {
			for _, o := range []int{0, -1, -64} {
				if _, err := newHilbert(dim, o); !errors.Is(err, curve.ErrUnderflow) {
					t.Failf("NewHilbert%dD(%d) error = %v, want ErrUnderflow", dim, o, err)
				}
			}
			mx := hilbertMaxOrder(dim)
			for _, o := range []int{mx + 1, mx + 2, 64, 1000} {
				if _, err := newHilbert(dim, o); !errors.Is(err, curve.ErrOverflow) {
					t.Failf("NewHilbert%dD(%d) error = %v, want a wrapped ErrOverflow (%d*%d >= 64)", dim, o, err, dim, o)
				}
			}
			for o := 1; o <= mx; o++ {
				if _, err := newHilbert(dim, o); err != nil {
					t.Failf("NewHilbert%dD(%d) error = %v for a legal order", dim, o, err)
				}
			}
			t.Outcome("errors")
			t.Nontrivial()
		})
	}
}
