package main

import (
	"fmt"

	"gonum.org/v1/gonum/internal/verif/vlib"
	"gonum.org/v1/gonum/spatial/r2"
	"gonum.org/v1/gonum/spatial/r3"
)

// genBoxes: r2.Box / r3.Box (the bounds type of the Barnes-Hut trees) on the
// integer lattice {0,1,2}: construction, Canon, Size, Center, Vertices, Add,
// Contains and Union against coordinate-wise definitions. Don't-care zone:
// Contains and Union of boxes with zero volume ("Empty"), whose treatment is
// not specified beyond Empty itself.
func genBoxes(g *vlib.G) {
	g.Case("r2.Box lattice", func(t *vlib.T) {
		var boxes []r2.Box
		var n int64
		for a := 0; a < 81; a++ {
			x0, y0, x1, y1 := float64(a/27), float64(a/9%3), float64(a/3%3), float64(a%3)
			b := r2.NewBox(x0, y0, x1, y1)
			raw := r2.Box{Min: r2.Vec{X: x0, Y: y0}, Max: r2.Vec{X: x1, Y: y1}}
			lo := r2.Vec{X: min(x0, x1), Y: min(y0, y1)}
			hi := r2.Vec{X: max(x0, x1), Y: max(y0, y1)}
			if b.Min != lo || b.Max != hi || raw.Canon() != b {
				t.Failf("NewBox(%v,%v,%v,%v)=%v Canon=%v want [%v,%v]", x0, y0, x1, y1, b, raw.Canon(), lo, hi)
				return
			}
			if b.Size() != (r2.Vec{X: hi.X - lo.X, Y: hi.Y - lo.Y}) || b.Center() != (r2.Vec{X: (lo.X + hi.X) / 2, Y: (lo.Y + hi.Y) / 2}) {
				t.Failf("%v Size=%v Center=%v", b, b.Size(), b.Center())
				return
			}
			if e := b.Empty(); e != (lo.X >= hi.X || lo.Y >= hi.Y) {
				t.Failf("%v Empty=%v", b, e)
				return
			}
			v := b.Vertices()
			wantV := []r2.Vec{lo, {X: hi.X, Y: lo.Y}, hi, {X: lo.X, Y: hi.Y}}
			if len(v) != 4 || v[0] != wantV[0] || v[1] != wantV[1] || v[2] != wantV[2] || v[3] != wantV[3] {
				t.Failf("%v Vertices=%v want %v (CCW from the minimum)", b, v, wantV)
				return
			}
			if s := b.Add(r2.Vec{X: 1, Y: -2}); s.Min != (r2.Vec{X: lo.X + 1, Y: lo.Y - 2}) || s.Max != (r2.Vec{X: hi.X + 1, Y: hi.Y - 2}) {
				t.Failf("%v Add((1,-2))=%v", b, s)
				return
			}
			if !b.Empty() {
				for q := 0; q < 49; q++ {
					p := r2.Vec{X: float64(q/7)/2 - 0.5, Y: float64(q%7)/2 - 0.5}
					want := lo.X <= p.X && p.X <= hi.X && lo.Y <= p.Y && p.Y <= hi.Y
					n++
					if b.Contains(p) != want {
						t.Failf("%v Contains(%v)=%v want %v", b, p, !want, want)
						return
					}
				}
				s := b.Scale(r2.Vec{X: 2, Y: -1})
				c := b.Center()
				if s.Min != (r2.Vec{X: c.X - (hi.X - lo.X), Y: c.Y}) || s.Max != (r2.Vec{X: c.X + (hi.X - lo.X), Y: c.Y}) {
					t.Failf("%v Scale((2,-1))=%v (negative factors count as zero, scaling about the centre)", b, s)
					return
				}
				boxes = append(boxes, b)
			}
		}
		for _, a := range boxes {
			for _, b := range boxes {
				u := a.Union(b)
				n++
				if u.Min != (r2.Vec{X: min(a.Min.X, b.Min.X), Y: min(a.Min.Y, b.Min.Y)}) || u.Max != (r2.Vec{X: max(a.Max.X, b.Max.X), Y: max(a.Max.Y, b.Max.Y)}) {
					t.Failf("%v Union %v = %v", a, b, u)
					return
				}
			}
		}
		t.Count("box_checks", n)
		t.Outcome("r2")
		t.Nontrivial()
	})
	g.Case("r3.Box lattice", func(t *vlib.T) {
		var boxes []r3.Box
		var n int64
		for a := 0; a < 729; a++ {
			c := [6]float64{}
			x := a
			for i := 5; i >= 0; i-- {
				c[i] = float64(x % 3)
				x /= 3
			}
			b := r3.NewBox(c[0], c[1], c[2], c[3], c[4], c[5])
			raw := r3.Box{Min: r3.Vec{X: c[0], Y: c[1], Z: c[2]}, Max: r3.Vec{X: c[3], Y: c[4], Z: c[5]}}
			lo := r3.Vec{X: min(c[0], c[3]), Y: min(c[1], c[4]), Z: min(c[2], c[5])}
			hi := r3.Vec{X: max(c[0], c[3]), Y: max(c[1], c[4]), Z: max(c[2], c[5])}
			if b.Min != lo || b.Max != hi || raw.Canon() != b {
				t.Failf("NewBox(%v)=%v Canon=%v want [%v,%v]", c, b, raw.Canon(), lo, hi)
				return
			}
			if b.Size() != (r3.Vec{X: hi.X - lo.X, Y: hi.Y - lo.Y, Z: hi.Z - lo.Z}) || b.Center() != (r3.Vec{X: (lo.X + hi.X) / 2, Y: (lo.Y + hi.Y) / 2, Z: (lo.Z + hi.Z) / 2}) {
				t.Failf("%v Size=%v Center=%v", b, b.Size(), b.Center())
				return
			}
			if e := b.Empty(); e != (lo.X >= hi.X || lo.Y >= hi.Y || lo.Z >= hi.Z) {
				t.Failf("%v Empty=%v", b, e)
				return
			}
			v := b.Vertices()
			wantV := []r3.Vec{lo, {X: hi.X, Y: lo.Y, Z: lo.Z}, {X: hi.X, Y: hi.Y, Z: lo.Z}, {X: lo.X, Y: hi.Y, Z: lo.Z},
				{X: lo.X, Y: lo.Y, Z: hi.Z}, {X: hi.X, Y: lo.Y, Z: hi.Z}, hi, {X: lo.X, Y: hi.Y, Z: hi.Z}}
			if len(v) != 8 {
				t.Failf("%v Vertices has %d entries", b, len(v))
				return
			}
			for i := range wantV {
				if v[i] != wantV[i] {
					t.Failf("%v Vertices()[%d]=%v want %v", b, i, v[i], wantV[i])
					return
				}
			}
			if !b.Empty() {
				for q := 0; q < 343; q++ {
					p := r3.Vec{X: float64(q/49)/2 - 0.5, Y: float64(q/7%7)/2 - 0.5, Z: float64(q%7)/2 - 0.5}
					want := lo.X <= p.X && p.X <= hi.X && lo.Y <= p.Y && p.Y <= hi.Y && lo.Z <= p.Z && p.Z <= hi.Z
					n++
					if b.Contains(p) != want {
						t.Failf("%v Contains(%v)=%v want %v", b, p, !want, want)
						return
					}
				}
				boxes = append(boxes, b)
			}
		}
		for _, a := range boxes {
			for _, b := range boxes {
				u := a.Union(b)
				n++
				if u.Min != (r3.Vec{X: min(a.Min.X, b.Min.X), Y: min(a.Min.Y, b.Min.Y), Z: min(a.Min.Z, b.Min.Z)}) || u.Max != (r3.Vec{X: max(a.Max.X, b.Max.X), Y: max(a.Max.Y, b.Max.Y), Z: max(a.Max.Z, b.Max.Z)}) {
					t.Failf("%v Union %v = %v", a, b, u)
					return
				}
			}
		}
		t.Count("box_checks", n)
		t.Outcome("r3")
		t.Nontrivial()
	})
}

var _ = fmt.Sprint
