package main

import (
	"fmt"

	"gonum.org/v1/gonum/internal/verif/vlib"
	"gonum.org/v1/gonum/spatial/r2"
	"gonum.org/v1/gonum/spatial/r3"
)

// Box algebra of r2.Box / r3.Box (the bounds type of the Barnes-Hut trees)
// against coordinate-wise definitions, for EVERY kind of operand in EVERY
// position: boxes with volume, degenerate boxes (a point, a flat box), inverted
// boxes (some Min component above its Max) and the zero Box - all literal
// Box{Min,Max} values over a coordinate alphabet, not only NewBox results.
//
// What the documentation fixes, and the oracle used:
//   - NewBox / Canon: component-wise min/max. Size = Max-Min, Center = (Min+Max)/2,
//     Add = translation, Vertices = the documented corner order: any box.
//   - Empty: some Min component >= its Max component: any box.
//   - Scale: well-formed boxes (Min <= Max, degenerate included): same centre,
//     size multiplied by max(factor,0). Inverted boxes: don't care (counted).
//   - Contains: for a box with volume, Min <= v <= Max; for ANY box Contains(v)
//     implies Min <= v <= Max (nothing outside the bounds, so an inverted box
//     contains nothing). Whether a zero-volume box contains the points of its
//     bounds is unspecified (the implementation: only a point box contains its
//     point) - don't care, counted.
//   - Union "returns a box enclosing both the receiver and argument": the result
//     encloses every operand that has volume and lies inside the hull of all
//     operand corners. For two boxes with volume that is the component-wise
//     min/max exactly; with one zero-volume operand anything between the
//     other operand and the hull is accepted (the implementation returns the
//     other operand unchanged); with two zero-volume operands only the hull bound
//     applies. The same bounds are applied to Union chains (bounding-box
//     accumulation acc = acc.Union(next) from the zero Box).

type gbox struct{ min, max vec3 }

type boxAPI struct {
	name     string
	dim      int
	newBox   func(a, b vec3) gbox
	canon    func(b gbox) gbox
	size     func(b gbox) vec3
	center   func(b gbox) vec3
	empty    func(b gbox) bool
	vertices func(b gbox) []vec3
	union    func(a, b gbox) gbox
	add      func(b gbox, v vec3) gbox
	scale    func(b gbox, v vec3) gbox
	contains func(b gbox, v vec3) bool
}

func v2(v vec3) r2.Vec { return r2.Vec{X: v[0], Y: v[1]} }
func f2(v r2.Vec) vec3 { return vec3{v.X, v.Y, 0} }
func b2(b gbox) r2.Box { return r2.Box{Min: v2(b.min), Max: v2(b.max)} }
func g2(b r2.Box) gbox { return gbox{f2(b.Min), f2(b.Max)} }
func v3(v vec3) r3.Vec { return r3.Vec{X: v[0], Y: v[1], Z: v[2]} }
func f3(v r3.Vec) vec3 { return vec3{v.X, v.Y, v.Z} }
func b3(b gbox) r3.Box { return r3.Box{Min: v3(b.min), Max: v3(b.max)} }
func g3(b r3.Box) gbox { return gbox{f3(b.Min), f3(b.Max)} }
func (b gbox) s(dim int) string {
	return fmt.Sprintf("Box{Min:%v Max:%v}", b.min[:dim], b.max[:dim])
}

func boxAPIs() []boxAPI {
	return []boxAPI{
		{
			name: "r2", dim: 2,
			newBox: func(a, b vec3) gbox { return g2(r2.NewBox(a[0], a[1], b[0], b[1])) },
			canon:  func(b gbox) gbox { return g2(b2(b).Canon()) },
			size:   func(b gbox) vec3 { return f2(b2(b).Size()) },
			center: func(b gbox) vec3 { return f2(b2(b).Center()) },
			empty:  func(b gbox) bool { return b2(b).Empty() },
			vertices: func(b gbox) []vec3 {
				var out []vec3
				for _, v := range b2(b).Vertices() {
					out = append(out, f2(v))
				}
				return out
			},
			union:    func(a, b gbox) gbox { return g2(b2(a).Union(b2(b))) },
			add:      func(b gbox, v vec3) gbox { return g2(b2(b).Add(v2(v))) },
			scale:    func(b gbox, v vec3) gbox { return g2(b2(b).Scale(v2(v))) },
			contains: func(b gbox, v vec3) bool { return b2(b).Contains(v2(v)) },
		},
		{
			name: "r3", dim: 3,
			newBox: func(a, b vec3) gbox { return g3(r3.NewBox(a[0], a[1], a[2], b[0], b[1], b[2])) },
			canon:  func(b gbox) gbox { return g3(b3(b).Canon()) },
			size:   func(b gbox) vec3 { return f3(b3(b).Size()) },
			center: func(b gbox) vec3 { return f3(b3(b).Center()) },
			empty:  func(b gbox) bool { return b3(b).Empty() },
			vertices: func(b gbox) []vec3 {
				var out []vec3
				for _, v := range b3(b).Vertices() {
					out = append(out, f3(v))
				}
				return out
			},
			union:    func(a, b gbox) gbox { return g3(b3(a).Union(b3(b))) },
			add:      func(b gbox, v vec3) gbox { return g3(b3(b).Add(v3(v))) },
			scale:    func(b gbox, v vec3) gbox { return g3(b3(b).Scale(v3(v))) },
			contains: func(b gbox, v vec3) bool { return b3(b).Contains(v3(v)) },
		},
	}
}

// rawBoxes: every literal Box{Min,Max} with all coordinates from alpha.
func rawBoxes(dim int, alpha []float64) []gbox {
	m := len(alpha)
	n := ipow(m, 2*dim)
	out := make([]gbox, 0, n)
	for i := 0; i < n; i++ {
		var b gbox
		x := i
		for c := dim - 1; c >= 0; c-- {
			b.max[c] = alpha[x%m]
			x /= m
		}
		for c := dim - 1; c >= 0; c-- {
			b.min[c] = alpha[x%m]
			x /= m
		}
		out = append(out, b)
	}
	return out
}

const (
	bkVolume   = iota // Min < Max in every component
	bkPoint           // Min == Max
	bkFlat            // Min <= Max, some but not all components equal
	bkInverted        // some Min component above its Max
)

func boxKind(b gbox, dim int) int {
	eq, inv := 0, false
	for c := 0; c < dim; c++ {
		if b.min[c] > b.max[c] {
			inv = true
		}
		if b.min[c] == b.max[c] {
			eq++
		}
	}
	switch {
	case inv:
		return bkInverted
	case eq == dim:
		return bkPoint
	case eq > 0:
		return bkFlat
	}
	return bkVolume
}

var boxKindName = []string{"volume", "point", "flat", "inverted"}

// encloses: outer.Min <= inner.Min and outer.Max >= inner.Max.
func encloses(outer, inner gbox, dim int) bool {
	for c := 0; c < dim; c++ {
		if outer.min[c] > inner.min[c] || outer.max[c] < inner.max[c] {
			return false
		}
	}
	return true
}

// cornerHull: the smallest well-formed box holding every corner of the operands.
func cornerHull(dim int, bs ...gbox) gbox {
	h := gbox{}
	for c := 0; c < dim; c++ {
		h.min[c], h.max[c] = bs[0].min[c], bs[0].min[c]
		for _, b := range bs {
			h.min[c] = min(h.min[c], b.min[c], b.max[c])
			h.max[c] = max(h.max[c], b.min[c], b.max[c])
		}
	}
	return h
}

type boxStats struct {
	checks                                int64
	unionVolVol, unionVolEmpty, unionEE   int64
	pointContainsSelf, flatContainsInside int64
	scaleInverted                         int64
	kinds                                 [4]int64
}

func (st *boxStats) report(t *vlib.T, name string) {
	t.Count("box_checks", st.checks)
	t.Count("box_union_volume_volume", st.unionVolVol)
	t.Count("box_union_one_zero_volume_operand", st.unionVolEmpty)
	t.Count("box_union_two_zero_volume_operands", st.unionEE)
	t.Count("box_dontcare_point_box_contains_its_point", st.pointContainsSelf)
	t.Count("box_dontcare_flat_box_contains_point_of_its_bounds", st.flatContainsInside)
	t.Count("box_dontcare_scale_of_inverted_box", st.scaleInverted)
	for k, n := range st.kinds {
		t.Count("box_operands_"+boxKindName[k], n)
	}
	t.Outcome(name)
	t.Nontrivial()
}

// checkUnion applies the Union oracle to one ordered pair.
func checkUnion(t *vlib.T, api boxAPI, a, b gbox, st *boxStats) bool {
	dim := api.dim
	u := api.union(a, b)
	st.checks++
	av, bv := boxKind(a, dim) == bkVolume, boxKind(b, dim) == bkVolume
	hull := cornerHull(dim, a, b)
	switch {
	case av && bv:
		st.unionVolVol++
		if u != hull {
			t.Failf("%s: %s.Union(%s) = %s, component-wise min/max is %s", api.name, a.s(dim), b.s(dim), u.s(dim), hull.s(dim))
			return false
		}
	default:
		if av || bv {
			st.unionVolEmpty++
		} else {
			st.unionEE++
		}
		if av && !encloses(u, a, dim) {
			t.Failf("%s: %s.Union(%s) = %s does not enclose the receiver (argument is a %s box)", api.name, a.s(dim), b.s(dim), u.s(dim), boxKindName[boxKind(b, dim)])
			return false
		}
		if bv && !encloses(u, b, dim) {
			t.Failf("%s: %s.Union(%s) = %s does not enclose the argument (receiver is a %s box)", api.name, a.s(dim), b.s(dim), u.s(dim), boxKindName[boxKind(a, dim)])
			return false
		}
		if !encloses(hull, cornerHull(dim, u), dim) {
			t.Failf("%s: %s.Union(%s) = %s reaches outside the hull %s of the operands", api.name, a.s(dim), b.s(dim), u.s(dim), hull.s(dim))
			return false
		}
	}
	return true
}

func genBoxes(g *vlib.G) {
	alphas := [][]float64{{0, 1, 2}, {-1.5, 0, 0.5}}
	for _, api := range boxAPIs() {
		api := api
		dim := api.dim
		for ai, alpha := range alphas {
			ai, alpha := ai, alpha
			// --- unary operations and Contains on every literal box ---
			g.Case(fmt.Sprintf("%s alphabet=%d unary", api.name, ai), func(t *vlib.T) {
				st := &boxStats{}
				// points: half steps around the alphabet's range
				var pts []vec3
				np := ipow(9, dim)
				for i := 0; i < np; i++ {
					var p vec3
					x := i
					for c := dim - 1; c >= 0; c-- {
						p[c] = alpha[0] - 1 + float64(x%9)/2
						x /= 9
					}
					pts = append(pts, p)
				}
				adds := []vec3{{1, -2, 0.5}, {0, 0, 0}, {-0.25, 4, -8}}
				scales := []vec3{{2, -1, 0.5}, {0, 0, 0}, {1, 1, 1}, {0.5, 3, -2}}
				for _, b := range rawBoxes(dim, alpha) {
					if t.Failed() {
						return
					}
					kind := boxKind(b, dim)
					st.kinds[kind]++
					var lo, hi, sz, ctr vec3
					emp := false
					for c := 0; c < dim; c++ {
						lo[c], hi[c] = min(b.min[c], b.max[c]), max(b.min[c], b.max[c])
						sz[c] = b.max[c] - b.min[c]
						ctr[c] = (b.min[c] + b.max[c]) / 2
						if b.min[c] >= b.max[c] {
							emp = true
						}
					}
					st.checks += 6
					if nb := api.newBox(b.min, b.max); nb != (gbox{lo, hi}) {
						t.Failf("%s.NewBox(%v,%v) = %s want Min %v Max %v", api.name, b.min[:dim], b.max[:dim], nb.s(dim), lo[:dim], hi[:dim])
					}
					if cb := api.canon(b); cb != (gbox{lo, hi}) {
						t.Failf("%s: %s.Canon() = %s want Min %v Max %v", api.name, b.s(dim), cb.s(dim), lo[:dim], hi[:dim])
					}
					if got := api.size(b); got != sz {
						t.Failf("%s: %s.Size() = %v want %v", api.name, b.s(dim), got[:dim], sz[:dim])
					}
					if got := api.center(b); got != ctr {
						t.Failf("%s: %s.Center() = %v want %v", api.name, b.s(dim), got[:dim], ctr[:dim])
					}
					if got := api.empty(b); got != emp {
						t.Failf("%s: %s.Empty() = %v want %v (%s box)", api.name, b.s(dim), got, emp, boxKindName[kind])
					}
					// Vertices: CCW in the XY plane from the minimum; r3: first at Min.Z, then at Max.Z.
					vs := api.vertices(b)
					var want []vec3
					zs := []float64{0}
					if dim == 3 {
						zs = []float64{b.min[2], b.max[2]}
					}
					for _, z := range zs {
						want = append(want, vec3{b.min[0], b.min[1], z}, vec3{b.max[0], b.min[1], z}, vec3{b.max[0], b.max[1], z}, vec3{b.min[0], b.max[1], z})
					}
					if len(vs) != len(want) {
						t.Failf("%s: %s.Vertices() has %d entries want %d", api.name, b.s(dim), len(vs), len(want))
					} else {
						for i := range want {
							if vs[i] != want[i] {
								t.Failf("%s: %s.Vertices()[%d] = %v want %v", api.name, b.s(dim), i, vs[i][:dim], want[i][:dim])
								break
							}
						}
					}
					for _, v := range adds {
						var w gbox
						for c := 0; c < dim; c++ {
							w.min[c], w.max[c] = b.min[c]+v[c], b.max[c]+v[c]
						}
						st.checks++
						if got := api.add(b, v); got != w {
							t.Failf("%s: %s.Add(%v) = %s want %s", api.name, b.s(dim), v[:dim], got.s(dim), w.s(dim))
						}
					}
					for _, f := range scales {
						got := api.scale(b, f)
						if kind == bkInverted {
							st.scaleInverted++ // don't care
							continue
						}
						var w gbox
						for c := 0; c < dim; c++ {
							h := max(f[c], 0) * sz[c] / 2
							w.min[c], w.max[c] = ctr[c]-h, ctr[c]+h
						}
						st.checks++
						if got != w {
							t.Failf("%s: %s.Scale(%v) = %s want %s (same centre, size times max(factor,0))", api.name, b.s(dim), f[:dim], got.s(dim), w.s(dim))
						}
					}
					for _, p := range pts {
						in := true
						for c := 0; c < dim; c++ {
							if p[c] < b.min[c] || p[c] > b.max[c] {
								in = false
							}
						}
						got := api.contains(b, p)
						st.checks++
						switch {
						case got && !in:
							t.Failf("%s: %s.Contains(%v) = true for a point outside the bounds (%s box)", api.name, b.s(dim), p[:dim], boxKindName[kind])
						case kind == bkVolume && in && !got:
							t.Failf("%s: %s.Contains(%v) = false for a point inside the bounds", api.name, b.s(dim), p[:dim])
						case got && kind == bkPoint:
							st.pointContainsSelf++
						case got && kind == bkFlat:
							st.flatContainsInside++
						}
						if t.Failed() {
							return
						}
					}
				}
				st.report(t, api.name+" unary")
			})
			// --- Union: every ordered pair, every kind of operand in both positions ---
			g.Case(fmt.Sprintf("%s alphabet=%d Union pairs", api.name, ai), func(t *vlib.T) {
				st := &boxStats{}
				bs := rawBoxes(dim, alpha)
				for _, a := range bs {
					st.kinds[boxKind(a, dim)]++
					for _, b := range bs {
						if !checkUnion(t, api, a, b, st) {
							return
						}
					}
				}
				st.report(t, api.name+" union pairs")
			})
		}
		// --- Union chains: bounding-box accumulation from the zero Box ---
		g.Case(fmt.Sprintf("%s Union chains", api.name), func(t *vlib.T) {
			st := &boxStats{}
			alpha := []float64{0, 1, 2}
			if dim == 3 {
				alpha = []float64{-1, 1} // 64 boxes: all four kinds
			}
			bs := rawBoxes(dim, alpha)
			if dim == 3 {
				// the zero Box and a point box as members too
				bs = append(bs, gbox{}, gbox{vec3{1, 1, 1}, vec3{1, 1, 1}})
			}
			for _, x := range bs {
				for _, y := range bs {
					for _, z := range bs {
						acc := gbox{}
						members := []gbox{x, y, z}
						for _, m := range members {
							acc = api.union(acc, m)
						}
						st.checks++
						hull := cornerHull(dim, gbox{}, x, y, z)
						if !encloses(hull, cornerHull(dim, acc), dim) {
							t.Failf("%s: Box{}.Union(%s).Union(%s).Union(%s) = %s reaches outside the hull %s", api.name, x.s(dim), y.s(dim), z.s(dim), acc.s(dim), hull.s(dim))
							return
						}
						for _, m := range members {
							if boxKind(m, dim) == bkVolume && !encloses(acc, m, dim) {
								t.Failf("%s: Box{}.Union(%s).Union(%s).Union(%s) = %s does not enclose its member %s", api.name, x.s(dim), y.s(dim), z.s(dim), acc.s(dim), m.s(dim))
								return
							}
						}
					}
				}
			}
			st.report(t, api.name+" union chains")
		})
	}
}
