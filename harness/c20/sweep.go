package main

import (
	"fmt"
	"math"

	"gonum.org/v1/gonum/internal/verif/vlib"
)

// hit is one retained element of a Keeper after NearestSet.
type hit struct {
	id      int  // index of the stored element, -1 if it is not a stored element
	nilComp bool // the Comparable is nil (a sentinel)
	dist    float64
}

// index abstracts the k-d tree and the vantage-point tree for the query oracle.
type index interface {
	nearest(q []float64) (id int, isNil bool, dist float64)
	nkeep(k int, q []float64) []hit
	dkeep(r float64, q []float64) []hit
	// unit converts an exact squared distance to the unit of the index
	// (squared for kdtree.Point, Euclidean for vptree.Point).
	unit(sq float64) float64
}

type sweepStats struct {
	queries, searches int64
	tieAtK            int64 // NKeeper queries where the k-th and (k+1)-th distances tie
	radiusOnBoundary  int64 // DistKeeper queries with a point exactly on the radius
	relaxIdentity     bool  // a known identity defect was established for this tree: compare values only
	// roundingClass: set for the vantage-point tree only. A DistKeeper(r)
	// result that lacks nothing but points at distance exactly r, for an r that
	// is not a half-integer (an inexact square root), is the known rounding
	// defect of the triangle-inequality pruning; it is counted and reported
	// once per case by the caller instead of stopping the sweep.
	roundingClass bool
	knownRounding int64
	knownRoundMsg string
}

// sweep runs Nearest, NearestSet(NKeeper(k)) for k in ks(n) and
// NearestSet(DistKeeper(r)) for every r against the brute-force scan.
// pts are the stored coordinates (index = element id). radii are in index units.
func sweep(t *vlib.T, ix index, pts [][]float64, queries [][]float64, ks []int, radii []float64, st *sweepStats, ctx string) {
	n := len(pts)
	used := make([]int, n)
	stamp := 0
	for _, q := range queries {
		if t.Failed() {
			return
		}
		st.queries++
		bd := bruteSorted(q, pts)
		for i := range bd {
			bd[i] = ix.unit(bd[i])
		}

		// Nearest.
		id, isNil, dist := ix.nearest(q)
		st.searches++
		if n == 0 {
			if !isNil || !math.IsInf(dist, 1) {
				t.Failf("%s q=%v Nearest on empty tree = (nil=%v,%v), want (nil,+Inf)", ctx, q, isNil, dist)
			}
			continue // NearestSet on the empty tree is examined by the *-empty groups
		}
		if isNil || id < 0 {
			t.Failf("%s q=%v Nearest returned nil=%v id=%d dist=%v for a tree of %d points", ctx, q, isNil, id, dist, n)
		} else {
			if dist != bd[0] {
				t.Failf("%s q=%v Nearest dist=%v, brute-force minimum %v", ctx, q, dist, bd[0])
			}
			if d := ix.unit(sqDist(q, pts[id])); d != dist {
				t.Failf("%s q=%v Nearest returned element %v whose distance is %v, reported %v", ctx, q, pts[id], d, dist)
			}
		}

		check := func(kind string, par float64, got []hit, want []float64) {
			st.searches++
			if st.roundingClass && kind == "DistKeeper" && len(got) < len(want) && par*2 != math.Floor(par*2) {
				onlyBoundary := true
				for i := range want {
					if i < len(got) && (got[i].nilComp || got[i].dist != want[i]) {
						onlyBoundary = false
					}
					if i >= len(got) && want[i] != par {
						onlyBoundary = false
					}
				}
				if onlyBoundary {
					st.knownRounding++
					if st.knownRoundMsg == "" {
						st.knownRoundMsg = fmt.Sprintf("%s q=%v DistKeeper(%v) retained %d elements %v, brute force has %d: %v (points exactly at the radius are pruned by a rounding error in d-r <= Radius)", ctx, q, par, len(got), hitDists(got), len(want), want)
					}
					return
				}
			}
			if len(got) != len(want) {
				t.Failf("%s q=%v %s(%v) retained %d elements %v, brute force has %d: %v", ctx, q, kind, par, len(got), hitDists(got), len(want), want)
				return
			}
			stamp++
			for i, h := range got {
				if h.nilComp {
					t.Failf("%s q=%v %s(%v) element %d is a nil-Comparable sentinel (not removed)", ctx, q, kind, par, i)
					return
				}
				if h.dist != want[i] {
					t.Failf("%s q=%v %s(%v) distances %v, brute-force distance multiset (ascending) %v", ctx, q, kind, par, hitDists(got), want)
					return
				}
				if h.id < 0 || h.id >= n {
					t.Failf("%s q=%v %s(%v) element %d is not a stored element", ctx, q, kind, par, i)
					return
				}
				if used[h.id] == stamp && !st.relaxIdentity {
					t.Failf("%s q=%v %s(%v) retained stored element #%d twice", ctx, q, kind, par, h.id)
					return
				}
				used[h.id] = stamp
				if d := ix.unit(sqDist(q, pts[h.id])); d != h.dist {
					t.Failf("%s q=%v %s(%v) element %v has distance %v but is reported at %v", ctx, q, kind, par, pts[h.id], d, h.dist)
					return
				}
			}
		}

		for _, k := range ks {
			m := k
			if m > n {
				m = n
			}
			if k < n && bd[k-1] == bd[k] {
				st.tieAtK++
			}
			check("NKeeper", float64(k), ix.nkeep(k, q), bd[:m])
			if t.Failed() {
				return
			}
		}
		for _, r := range radii {
			c := 0
			for c < n && bd[c] <= r {
				c++
			}
			if c > 0 && bd[c-1] == r {
				st.radiusOnBoundary++
			}
			check("DistKeeper", r, ix.dkeep(r, q), bd[:c])
			if t.Failed() {
				return
			}
		}
	}
}

func hitDists(h []hit) []float64 {
	out := make([]float64, len(h))
	for i := range h {
		out[i] = h[i].dist
		if h[i].nilComp {
			out[i] = math.NaN()
		}
	}
	return out
}

func ksUpTo(n int) []int {
	ks := make([]int, 0, n+1)
	for k := 1; k <= n+1; k++ {
		ks = append(ks, k)
	}
	return ks
}

// ksSampled is used for the large structured sets.
func ksSampled(n int) []int {
	if n <= 70 {
		return ksUpTo(n)
	}
	cand := []int{1, 2, 3, 7, n / 2, n - 1, n, n + 1}
	var ks []int
	seen := map[int]bool{}
	for _, k := range cand {
		if k >= 1 && !seen[k] {
			seen[k] = true
			ks = append(ks, k)
		}
	}
	return ks
}
