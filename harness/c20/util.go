package main

import (
	"fmt"
	"os"
	"sort"

	"gonum.org/v1/gonum/internal/verif/vlib"
)

// ---------- lattices ----------

// side returns the lattice side used for dimension d: {0,1,2} for d<=2 and {0,1} beyond.
func sideFor(d int) int {
	if d <= 2 {
		return 3
	}
	return 2
}

func ipow(b, e int) int {
	r := 1
	for i := 0; i < e; i++ {
		r *= b
	}
	return r
}

// latPoint decodes lattice point number idx of {0..side-1}^d (first coordinate most significant).
func latPoint(d, side, idx int) []float64 {
	v := make([]float64, d)
	for i := d - 1; i >= 0; i-- {
		v[i] = float64(idx % side)
		idx /= side
	}
	return v
}

// queryLattice returns every point of {-1/2, 0, 1/2, ..., side-1/2}^d.
func queryLattice(d, side int) [][]float64 {
	m := 2*side + 1
	n := ipow(m, d)
	out := make([][]float64, n)
	for i := 0; i < n; i++ {
		v := make([]float64, d)
		x := i
		for c := d - 1; c >= 0; c-- {
			v[c] = float64(x%m)/2 - 0.5
			x /= m
		}
		out[i] = v
	}
	return out
}

// multisets calls f with every nondecreasing vector of length n over 0..L-1.
// The slice passed to f is reused.
func multisets(L, n int, f func(v []int)) {
	v := make([]int, n)
	var rec func(pos, lo int)
	rec = func(pos, lo int) {
		if pos == n {
			f(v)
			return
		}
		for x := lo; x < L; x++ {
			v[pos] = x
			rec(pos+1, x)
		}
	}
	rec(0, 0)
}

// tuples calls f with every vector of length n over 0..L-1 (reused slice).
func tuples(L, n int, f func(v []int)) {
	v := make([]int, n)
	var rec func(pos int)
	rec = func(pos int) {
		if pos == n {
			f(v)
			return
		}
		for x := 0; x < L; x++ {
			v[pos] = x
			rec(pos + 1)
		}
	}
	rec(0)
}

// orderings calls f with the insertion orders used for a multiset when not
// every tuple is enumerated: ascending, descending and (if requested and
// different) an inside-out interleaving.
func orderings(ms []int, insideOut bool, f func(v []int)) {
	n := len(ms)
	asc := append([]int(nil), ms...)
	f(asc)
	desc := make([]int, n)
	for i := range ms {
		desc[i] = ms[n-1-i]
	}
	if !sameInts(asc, desc) {
		f(desc)
	}
	if n >= 3 && insideOut {
		mid := make([]int, 0, n)
		lo, hi := (n-1)/2, (n-1)/2+1
		for lo >= 0 || hi < n {
			if lo >= 0 {
				mid = append(mid, ms[lo])
				lo--
			}
			if hi < n {
				mid = append(mid, ms[hi])
				hi++
			}
		}
		if !sameInts(mid, asc) && !sameInts(mid, desc) {
			f(mid)
		}
	}
}

func sameInts(a, b []int) bool {
	if len(a) != len(b) {
		return false
	}
	for i := range a {
		if a[i] != b[i] {
			return false
		}
	}
	return true
}

func cloneInts(v []int) []int { return append([]int(nil), v...) }

func cloneF(v []float64) []float64 { return append([]float64(nil), v...) }

// sqDist is the definitional squared Euclidean distance. All coordinates used
// by this harness are dyadic with few bits, so the sum is exact whatever the
// order of summation.
func sqDist(a, b []float64) float64 {
	var s float64
	for i := range a {
		d := a[i] - b[i]
		s += d * d
	}
	return s
}

// bruteSorted returns the ascending squared distances from q to every point.
func bruteSorted(q []float64, pts [][]float64) []float64 {
	out := make([]float64, len(pts))
	for i, p := range pts {
		out[i] = sqDist(q, p)
	}
	sort.Float64s(out)
	return out
}

func fmtIdx(v []int) string {
	s := "["
	for i, x := range v {
		if i > 0 {
			s += ","
		}
		s += fmt.Sprint(x)
	}
	return s + "]"
}

// ---------- choice enumeration (replayable DFS over answer sequences) ----------

type chooser struct {
	path  []int
	radix []int
	pos   int
}

func (c *chooser) choose(n int) int {
	if n <= 1 {
		return 0
	}
	if c.pos == len(c.path) {
		c.path = append(c.path, 0)
		c.radix = append(c.radix, n)
	}
	v := c.path[c.pos]
	c.pos++
	return v
}

// next advances to the next choice vector; false when exhausted.
func (c *chooser) next() bool {
	c.path = c.path[:c.pos]
	c.radix = c.radix[:c.pos]
	for len(c.path) > 0 {
		l := len(c.path) - 1
		c.path[l]++
		if c.path[l] < c.radix[l] {
			c.pos = 0
			return true
		}
		c.path = c.path[:l]
		c.radix = c.radix[:l]
	}
	c.pos = 0
	return false
}

// ---------- escalation of attempts for pivot-dependent failures ----------

// The stock k-d tree builder draws pivots from the global math/rand/v2 source,
// which cannot be intercepted. A case whose build is random repeats the build
// `base` times; once a case has failed (or when a single case is replayed)
// the number of attempts is raised to 64 so that the confirmation re-runs of
// the runtime reproduce the failure. No comparison depends on the random
// source: every attempt is checked against the same schedule-independent
// oracle and the case holds only if all attempts hold.
var escalated = map[string]bool{}

func attempts(group, key string, base int) (n int, esc bool) {
	if escalated[group+"\x00"+key] || os.Getenv("VERIF_REPLAY_KEY") != "" {
		return 64, true
	}
	return base, false
}

func markFailed(group, key string) { escalated[group+"\x00"+key] = true }

// catch runs f and returns the recovered panic value (nil if none).
func catch(f func()) (r any) {
	defer func() { r = recover() }()
	f()
	return nil
}

// knownOnly records cases whose only failure is a known (classified) defect;
// see the users for how confirmation re-runs are shortened.
var knownOnly = map[string]bool{}

func replaying() bool { return os.Getenv("VERIF_REPLAY_KEY") != "" }

// classified reports a violation that belongs to a named, triaged defect class
// (see NOTES.md). It is recorded as a violation of its own (sub-key + class),
// never merged with unclassified failures of the case, and counted per class.
func classified(t *vlib.T, sub, class, format string, a ...any) {
	t.Count("classified:"+class, 1)
	if sub == "" {
		sub = class
	}
	t.SubViolation(" ["+sub+"]", class, nil, format, a...)
}
