package main

import (
	"fmt"
	"math/rand/v2"

	"gonum.org/v1/gonum/internal/verif/vlib"
	"gonum.org/v1/gonum/spatial/kdtree"
)

// Structured point sets: grids, lines, all-equal sets and a dyadic scatter, up
// to 64 points in d <= 6 (plus larger ones that reach the rand.Shuffle branch
// of kdtree.MedianOfRandoms, taken for slices of 100 or more points).

type pointSet struct {
	name string
	d    int
	pts  [][]float64
}

func gridSet(d, side int) pointSet {
	n := ipow(side, d)
	p := make([][]float64, n)
	for i := range p {
		p[i] = latPoint(d, side, i)
	}
	return pointSet{fmt.Sprintf("grid%d^%d", side, d), d, p}
}

func lineSet(d, n int, diag bool) pointSet {
	p := make([][]float64, n)
	for i := range p {
		v := make([]float64, d)
		v[0] = float64(i)
		if diag {
			for c := range v {
				v[c] = float64(i)
			}
		}
		p[i] = v
	}
	kind := "axis"
	if diag {
		kind = "diag"
	}
	return pointSet{fmt.Sprintf("line-%s-d%d-n%d", kind, d, n), d, p}
}

func equalSet(d, n int) pointSet {
	p := make([][]float64, n)
	for i := range p {
		v := make([]float64, d)
		for c := range v {
			v[c] = 1
		}
		p[i] = v
	}
	return pointSet{fmt.Sprintf("equal-d%d-n%d", d, n), d, p}
}

// scatterSet: "continuous-looking" coordinates that are multiples of 1/4 in
// [0,8): squared distances stay exact.
func scatterSet(d, n int, seed uint64) pointSet {
	l := vlib.LCG(seed)
	p := make([][]float64, n)
	for i := range p {
		v := make([]float64, d)
		for c := range v {
			v[c] = float64(lcgIntn(&l, 32)) / 4
		}
		p[i] = v
	}
	return pointSet{fmt.Sprintf("scatter-d%d-n%d", d, n), d, p}
}

func lcgIntn(l *vlib.LCG, n int) int { return int(l.Next()) % n }

func structuredSets(g *vlib.G) []pointSet {
	sets := []pointSet{
		gridSet(2, 8), gridSet(3, 4), gridSet(4, 2), gridSet(5, 2), gridSet(6, 2),
		lineSet(1, 64, false), lineSet(3, 32, true), lineSet(6, 24, false),
		equalSet(2, 64), equalSet(6, 20),
		scatterSet(3, 48, 7), scatterSet(6, 40, 11),
		gridSet(2, 11), // 121 points: rand.Shuffle branch of MedianOfRandoms
	}
	if g.Thorough() {
		sets = append(sets, gridSet(2, 45), gridSet(6, 3), gridSet(3, 5), lineSet(2, 150, true), scatterSet(4, 300, 13), equalSet(3, 130))
	}
	return sets
}

// scrambled returns a fixed permutation of the set (an LCG-driven shuffle).
func scrambled(p [][]float64) [][]float64 {
	out := append([][]float64(nil), p...)
	l := vlib.LCG(12345)
	for i := len(out) - 1; i > 0; i-- {
		j := lcgIntn(&l, i+1)
		out[i], out[j] = out[j], out[i]
	}
	return out
}

// sampleQueries: stored points, midpoints of consecutive points (between the
// points, on splitting planes), points half a unit off, and far outside.
func sampleQueries(p [][]float64, d int, maxQ int) [][]float64 {
	var q [][]float64
	n := len(p)
	if n == 0 {
		return [][]float64{make([]float64, d)}
	}
	stride := 1
	for n/stride > maxQ/3 {
		stride++
	}
	for i := 0; i < n; i += stride {
		q = append(q, cloneF(p[i]))
		j := (i + 1) % n
		mid := make([]float64, d)
		off := make([]float64, d)
		for c := range mid {
			mid[c] = (p[i][c] + p[j][c]) / 2
			off[c] = p[i][c] + 0.5
		}
		q = append(q, mid, off)
	}
	lo, hi := make([]float64, d), make([]float64, d)
	for c := 0; c < d; c++ {
		lo[c], hi[c] = -3.5, 100.5
	}
	q = append(q, lo, hi)
	return q
}

func sampleBoxes(p [][]float64, d int) []kdBox {
	var out []kdBox
	n := len(p)
	if n == 0 {
		return nil
	}
	idx := []int{0, n / 3, n / 2, (2 * n) / 3, n - 1}
	for _, a := range idx {
		for _, b := range idx {
			lo, hi := make([]float64, d), make([]float64, d)
			lo2, hi2 := make([]float64, d), make([]float64, d)
			for c := 0; c < d; c++ {
				lo[c], hi[c] = p[a][c], p[b][c]
				if lo[c] > hi[c] {
					lo[c], hi[c] = hi[c], lo[c]
				}
				lo2[c], hi2[c] = lo[c]-0.5, hi[c]+0.5
			}
			out = append(out, kdBox{lo, hi}, kdBox{lo2, hi2})
		}
	}
	lo, hi := make([]float64, d), make([]float64, d)
	lo3, hi3 := make([]float64, d), make([]float64, d)
	for c := 0; c < d; c++ {
		lo[c], hi[c] = -1000, 1000
		lo3[c], hi3[c] = 500, 600
	}
	return append(out, kdBox{lo, hi}, kdBox{lo3, hi3})
}

func isPow2(n int) bool { return n > 0 && n&(n-1) == 0 }

// genKDStruct: for every structured set, in generated and scrambled order,
// every split j in {0,1,n/2,n-1,n}: bulk-build the first j points with the
// stock kdtree.Points (random pivots), Insert the rest; structure after every
// operation; full checks after the build, after 1,2,4,8,... insertions and at the end.
func genKDStruct(g *vlib.G) {
	const group = "kd-struct"
	for _, set := range structuredSets(g) {
		for oi, pts := range [][][]float64{set.pts, scrambled(set.pts)} {
			n := len(pts)
			seenJ := map[int]bool{}
			for _, j := range []int{0, 1, n / 2, n - 1, n} {
				if j < 0 || seenJ[j] {
					continue
				}
				seenJ[j] = true
				set, pts, j, oi := set, pts, j, oi
				if n > 500 && j != n && j != n/2 {
					continue // the big sets: bulk and half/half only
				}
				if n > 40 && (j == 1 || j == n-1) && !g.Thorough() {
					continue // quick: the one-off splits for the small sets only
				}
				key := fmt.Sprintf("%s order=%d bulk=%d ins=%d", set.name, oi, j, n-j)
				g.Case(key, func(t *vlib.T) {
					st := &kdRunStats{randomShapes: true}
					reps, esc := attempts(group, key, 2)
					for rep := 0; rep < reps && !t.Failed() && !(esc && st.bs.knownSkips > 0); rep++ {
						for _, bnd := range []bool{false, true} {
							kdStructHistory(t, set.d, pts, j, bnd, st)
						}
					}
					st.finish(t, group, key)
					st.report(t, n)
					t.Detail(map[string]any{"set": set.name, "d": set.d, "n": n, "bulk": j})
				})
			}
		}
	}
}

func kdStructHistory(t *vlib.T, d int, pts [][]float64, j int, bnd bool, st *kdRunStats) {
	be := &kdBackend{stock: true, d: d}
	tree := be.build(pts[:j], bnd, nil)
	st.trees++
	bounded := bnd && j > 0
	radii := []float64{0, 0.25, 1, 2, 4, 9, 25}
	full := func(ctx string) {
		sh := kdCheckTree(t, tree, be, bounded, ctx)
		if t.Failed() {
			return
		}
		if sh.maxDepth > st.maxDepth {
			st.maxDepth = sh.maxDepth
		}
		if !sh.tight {
			st.notTight++
		}
		qs := sampleQueries(be.pts, d, 60)
		kdCheckDo(t, tree, be, sh, ctx)
		kdCheckContains(t, tree, be, bounded, qs, ctx)
		if t.Failed() {
			return
		}
		sweep(t, &kdIx{tree: tree, be: be}, be.pts, qs, ksSampled(len(be.pts)), radii, &st.sw, ctx)
		if t.Failed() {
			return
		}
		kdCheckDoBounded(t, tree, be, sampleBoxes(be.pts, d), &st.bs, ctx)
	}
	base := fmt.Sprintf("bulk=%d bounding=%v", j, bnd)
	full(base + " after New:")
	for i := j; i < len(pts) && !t.Failed(); i++ {
		if len(be.pts) == 0 {
			bounded = bnd
		}
		tree.Insert(be.newElem(pts[i]), bnd)
		k := i - j + 1
		ctx := fmt.Sprintf("%s after Insert #%d:", base, k)
		if isPow2(k) || i == len(pts)-1 {
			full(ctx)
		} else if len(pts) <= 130 {
			kdCheckTree(t, tree, be, bounded, ctx)
		}
	}
}

// genVPStruct: structured sets through vptree.New with the stock vptree.Point,
// effort in {1,2,5,n}, explicit PCG sources and (once) the global source.
func genVPStruct(g *vlib.G) {
	const group = "vp-struct"
	for _, set := range structuredSets(g) {
		for oi, pts := range [][][]float64{set.pts, scrambled(set.pts)} {
			n := len(pts)
			for _, eff := range []int{1, 2, 5, n} {
				set, pts, oi, eff := set, pts, oi, eff
				if n > 500 && eff == n {
					continue // effort n is quadratic per node
				}
				key := fmt.Sprintf("%s order=%d effort=%d", set.name, oi, eff)
				g.Case(key, func(t *vlib.T) {
					st := &vpStats{randomShapes: true}
					lite := knownOnly[group+"\x00"+key] && !replaying()
					qs := sampleQueries(pts, set.d, 60)
					for s := 0; s < 2 && !t.Failed(); s++ {
						vpRun(t, true, pts, eff, rand.NewPCG(uint64(s), 77), qs, ksSampled(n), st, lite, fmt.Sprintf("effort=%d src=PCG(%d,77)", eff, s))
					}
					// the global source: nothing compared depends on it; repeated
					// (up to 64 times once a failure was seen) so that a failure reproduces.
					reps, esc := attempts(group, key, 1)
					for rep := 0; rep < reps && !t.Failed() && !(esc && st.knownIdent+st.sw.knownRounding > 0); rep++ {
						vpRun(t, true, pts, eff, nil, qs, ksSampled(n), st, lite, fmt.Sprintf("effort=%d src=nil", eff))
					}
					st.finish(t, group, key)
					st.report(t, n)
					t.Detail(map[string]any{"set": set.name, "d": set.d, "n": n, "effort": eff})
				})
			}
		}
	}
}

var _ = kdtree.Point(nil)
