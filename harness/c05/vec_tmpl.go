package main

import (
	"gonum.org/v1/gonum/mat"
)

func vecShapes(maxN int) func(r, c int) [][2]int {
	var out [][2]int
	for n := 1; n <= maxN; n++ {
		out = append(out, [2]int{n, 1})
	}
	return func(r, c int) [][2]int { return out }
}

func vecTemplates(maxN, K int) []*tmpl {
	var out []*tmpl
	add := func(t *tmpl) {
		t.recv = kVec
		if t.nf == 0 {
			t.nf = 1
		}
		out = append(out, t)
	}
	xv := func(x mat.Matrix) mat.Vector { return x.(mat.Vector) }

	add(&tmpl{method: "VecDense.ScaleVec", pos: "a", xs: xsVec, vecArg: true,
		call: func(recv, x mat.Matrix, fv int) error { recv.(*mat.VecDense).ScaleVec(3, xv(x)); return nil },
		ref:  func(c *refCtx, i, j int) float64 { return 3 * xv(c.x).AtVec(i) }})
	add(&tmpl{method: "VecDense.CopyVec", pos: "a", xs: xsVec, vecArg: true, shapes: vecShapes(maxN), copySem: true,
		call: func(recv, x mat.Matrix, fv int) error { recv.(*mat.VecDense).CopyVec(xv(x)); return nil },
		ref: func(c *refCtx, i, j int) float64 {
			if i < xv(c.x).Len() {
				return xv(c.x).AtVec(i)
			}
			return c.old(i, 0)
		}})

	// AddScaledVec: fv selects alpha (2: axpy paths, 0: copy path) and the
	// kind of the fresh vector.
	asAlpha := func(fv int) float64 { return []float64{2, 0}[fv/2] }
	add(&tmpl{method: "VecDense.AddScaledVec", pos: "a", xs: xsVec, vecArg: true, nf: 4,
		call: func(recv, x mat.Matrix, fv int) error {
			v := recv.(*mat.VecDense)
			v.AddScaledVec(xv(x), asAlpha(fv), fVector(fv%2, v.Len(), 1))
			return nil
		},
		ref: func(c *refCtx, i, j int) float64 { return xv(c.x).AtVec(i) + asAlpha(c.fv)*rVec(c.rr, 1).AtVec(i) }})
	add(&tmpl{method: "VecDense.AddScaledVec", pos: "b", xs: xsVec, vecArg: true, nf: 4,
		call: func(recv, x mat.Matrix, fv int) error {
			v := recv.(*mat.VecDense)
			v.AddScaledVec(fVector(fv%2, v.Len(), 1), asAlpha(fv), xv(x))
			return nil
		},
		ref: func(c *refCtx, i, j int) float64 { return rVec(c.rr, 1).AtVec(i) + asAlpha(c.fv)*xv(c.x).AtVec(i) }})
	add(&tmpl{method: "VecDense.AddScaledVec", pos: "ab", xs: xsVec, vecArg: true, nf: 2,
		call: func(recv, x mat.Matrix, fv int) error {
			recv.(*mat.VecDense).AddScaledVec(xv(x), asAlpha(2*fv), xv(x))
			return nil
		},
		ref: func(c *refCtx, i, j int) float64 { return xv(c.x).AtVec(i) + asAlpha(2*c.fv)*xv(c.x).AtVec(i) }})
	add(&tmpl{method: "VecDense.AddScaledVec", pos: "a=recv,b", xs: xsVec, vecArg: true, nf: 2,
		call: func(recv, x mat.Matrix, fv int) error {
			v := recv.(*mat.VecDense)
			v.AddScaledVec(v, asAlpha(2*fv), xv(x))
			return nil
		},
		ref: func(c *refCtx, i, j int) float64 { return c.old(i, 0) + asAlpha(2*c.fv)*xv(c.x).AtVec(i) }})

	type binop struct {
		name string
		do   func(v *mat.VecDense, a, b mat.Vector)
		f    func(a, b float64) float64
	}
	for _, op := range []binop{
		{"AddVec", func(v *mat.VecDense, a, b mat.Vector) { v.AddVec(a, b) }, func(a, b float64) float64 { return a + b }},
		{"SubVec", func(v *mat.VecDense, a, b mat.Vector) { v.SubVec(a, b) }, func(a, b float64) float64 { return a - b }},
		{"MulElemVec", func(v *mat.VecDense, a, b mat.Vector) { v.MulElemVec(a, b) }, func(a, b float64) float64 { return a * b }},
		{"DivElemVec", func(v *mat.VecDense, a, b mat.Vector) { v.DivElemVec(a, b) }, func(a, b float64) float64 { return a / b }},
	} {
		op := op
		add(&tmpl{method: "VecDense." + op.name, pos: "a", xs: xsVec, vecArg: true, nf: 2,
			call: func(recv, x mat.Matrix, fv int) error {
				v := recv.(*mat.VecDense)
				op.do(v, xv(x), fVector(fv, v.Len(), 1))
				return nil
			},
			ref: func(c *refCtx, i, j int) float64 { return op.f(xv(c.x).AtVec(i), rVec(c.rr, 1).AtVec(i)) }})
		add(&tmpl{method: "VecDense." + op.name, pos: "b", xs: xsVec, vecArg: true, nf: 2,
			call: func(recv, x mat.Matrix, fv int) error {
				v := recv.(*mat.VecDense)
				op.do(v, fVector(fv, v.Len(), 1), xv(x))
				return nil
			},
			ref: func(c *refCtx, i, j int) float64 { return op.f(rVec(c.rr, 1).AtVec(i), xv(c.x).AtVec(i)) }})
		add(&tmpl{method: "VecDense." + op.name, pos: "ab", xs: xsVec, vecArg: true,
			call: func(recv, x mat.Matrix, fv int) error {
				op.do(recv.(*mat.VecDense), xv(x), xv(x))
				return nil
			},
			ref: func(c *refCtx, i, j int) float64 { return op.f(xv(c.x).AtVec(i), xv(c.x).AtVec(i)) }})
		// The receiver itself in one position and an overlapping view in the other.
		add(&tmpl{method: "VecDense." + op.name, pos: "a=recv,b", xs: xsVec, vecArg: true,
			call: func(recv, x mat.Matrix, fv int) error {
				v := recv.(*mat.VecDense)
				op.do(v, v, xv(x))
				return nil
			},
			ref: func(c *refCtx, i, j int) float64 { return op.f(c.old(i, 0), xv(c.x).AtVec(i)) }})
		add(&tmpl{method: "VecDense." + op.name, pos: "a,b=recv", xs: xsVec, vecArg: true,
			call: func(recv, x mat.Matrix, fv int) error {
				v := recv.(*mat.VecDense)
				op.do(v, xv(x), v)
				return nil
			},
			ref: func(c *refCtx, i, j int) float64 { return op.f(xv(c.x).AtVec(i), c.old(i, 0)) }})
	}

	// MulVec: receiver (n) = A (n×k) * b (k).
	const fvDenseT2 = nfvAll // A = fresh (k×n).T()
	mkA := func(fv, n, k int) (mat.Matrix, bool) {
		if fv == fvDenseT2 {
			return fDense(k, n, 2).T(), true
		}
		return fMat(fv, n, k, 2)
	}
	rA := func(fv, n, k int) mat.Matrix {
		if fv == fvDenseT2 {
			m, _ := rMat(fvDense, k, n, 2)
			return m.T()
		}
		m, _ := rMat(fv, n, k, 2)
		return m
	}
	add(&tmpl{method: "VecDense.MulVec", pos: "b", xs: xsVec[:1], vecArg: true, shapes: vecShapes(maxN), nf: nfvAll + 1,
		call: func(recv, x mat.Matrix, fv int) error {
			v := recv.(*mat.VecDense)
			a, ok := mkA(fv, v.Len(), xv(x).Len())
			if !ok {
				return errSkip
			}
			v.MulVec(a, xv(x))
			return nil
		},
		ref: func(c *refCtx, i, j int) float64 {
			k := xv(c.x).Len()
			a := rA(c.fv, c.rr, k)
			var s float64
			for l := 0; l < k; l++ {
				s += a.At(i, l) * xv(c.x).AtVec(l)
			}
			return s
		}})
	add(&tmpl{method: "VecDense.MulVec", pos: "a", xs: xsMat, nf: 2,
		shapes: func(r, c int) (out [][2]int) {
			for k := 1; k <= K; k++ {
				out = append(out, [2]int{r, k})
			}
			return out
		},
		call: func(recv, x mat.Matrix, fv int) error {
			_, k := x.Dims()
			recv.(*mat.VecDense).MulVec(x, fVector(fv, k, 3))
			return nil
		},
		ref: func(c *refCtx, i, j int) float64 {
			_, k := c.x.Dims()
			var s float64
			for l := 0; l < k; l++ {
				s += c.x.At(i, l) * rVec(k, 3).AtVec(l)
			}
			return s
		}})

	// SolveVec: A (mm×n) * receiver (n) = b (mm). Differential oracle.
	add(&tmpl{method: "VecDense.SolveVec", pos: "b", xs: xsVec[:1], vecArg: true, shapes: vecShapes(maxN), nf: 3,
		call: func(recv, x mat.Matrix, fv int) error {
			v := recv.(*mat.VecDense)
			mm, n := xv(x).Len(), v.Len()
			var a mat.Matrix = fDom(mm, n, 6)
			switch fv {
			case 1:
				a = basic{a}
			case 2:
				if mm != n {
					return errSkip
				}
				t := mat.NewTriDense(n, mat.Upper, nil)
				t.Copy(a)
				a = t
			}
			return v.SolveVec(a, xv(x))
		}})
	add(&tmpl{method: "VecDense.SolveVec", pos: "a", xs: xsSquare, nf: 2,
		shapes: func(r, c int) (out [][2]int) {
			for mm := 1; mm <= K; mm++ {
				out = append(out, [2]int{mm, r})
			}
			return out
		},
		call: func(recv, x mat.Matrix, fv int) error {
			mm, _ := x.Dims()
			return recv.(*mat.VecDense).SolveVec(x, fVector(fv, mm, 5))
		}})
	return out
}
