package main

import (
	"fmt"
	"math"
	"math/cmplx"

	"gonum.org/v1/gonum/internal/verif/vlib"
	"gonum.org/v1/gonum/mat"
)

// CDense: same geometry (Dense windows of the matrix space), complex128
// backing array, methods Conj and Copy, operand plain / T() / H().

type cop struct {
	name string
	mode int // 0 plain, 1 T, 2 H
}

var cops = []cop{{"", 0}, {".T()", 1}, {".H()", 2}}

func cbuild(v *view, data []complex128) *mat.CDense {
	pr := v.par
	p := mat.NewCDense(pr.rows, pr.cols, data[pr.base:pr.base+pr.rows*pr.cols])
	return p.Slice(v.i0, v.i0+v.r, v.j0, v.j0+v.c).(*mat.CDense)
}

func cfill(s *space) []complex128 {
	out := make([]complex128, s.L)
	for i := range out {
		out[i] = complex(s.fill[i], s.fill[(i*5+2)%s.L])
	}
	return out
}

func sameBitsC(a, b complex128) bool {
	return math.Float64bits(real(a)) == math.Float64bits(real(b)) && math.Float64bits(imag(a)) == math.Float64bits(imag(b))
}

func cdenseTemplates() []*tmpl {
	return []*tmpl{
		{recv: kDense, method: "CDense.Conj", pos: "a", identTPanics: false},
		{recv: kDense, method: "CDense.Copy", pos: "a", copySem: true, identTPanics: true},
	}
}

func cexpr(x *mat.CDense, mode int) mat.CMatrix {
	switch mode {
	case 1:
		return x.T()
	case 2:
		return x.H()
	}
	return x
}

func genCDense(g *vlib.G, s *space) {
	fill := cfill(s)
	for _, tm := range cdenseTemplates() {
		for _, rv := range s.recv[kDense] {
			tm, rv := tm, rv
			g.Case(fmt.Sprintf("%s(%s) recv=%s", tm.method, tm.pos, rv), func(t *vlib.T) {
				c := &caseRun{t: t, s: s, tm: tm, rv: rv}
				isCopy := tm.copySem
				for _, op := range cops {
					var shapes [][2]int
					if isCopy {
						shapes = s.shapes[kDense]
					} else {
						shapes = [][2]int{{rv.r, rv.c}}
					}
					for _, sh := range shapes {
						vr, vc := sh[0], sh[1]
						if op.mode != 0 {
							vr, vc = vc, vr
						}
						for _, ov := range s.views[vkey{kDense, vr, vc}] {
							c.pairC(fill, ov, op, false)
							if ov.sameGeom(rv) {
								c.pairC(fill, ov, op, true)
							}
						}
					}
				}
				c.finish()
			})
		}
	}
}

func (c *caseRun) pairC(fill []complex128, ov *view, op cop, ident bool) {
	tm, rv, s := c.tm, c.rv, c.s
	L := s.L
	trans := op.mode != 0
	isCopy := tm.copySem
	call := func(m *mat.CDense, x mat.CMatrix) error {
		if isCopy {
			m.Copy(x)
		} else {
			m.Conj(x)
		}
		return nil
	}
	data := append([]complex128(nil), fill...)
	dataR := append([]complex128(nil), fill...)
	dataX := append([]complex128(nil), fill...)
	recv := cbuild(rv, data)
	xd := recv
	if !ident {
		xd = cbuild(ov, data)
	}
	a := invoke(func() error { return call(recv, cexpr(xd, op.mode)) })
	c.calls++
	r := relation(rv, ov, ident)

	recv2 := cbuild(rv, dataR)
	x2 := cexpr(cbuild(ov, dataX), op.mode)
	// Definition.
	want := make([]complex128, rv.r*rv.c)
	xr, xc := x2.Dims()
	for i := 0; i < rv.r; i++ {
		for j := 0; j < rv.c; j++ {
			switch {
			case !isCopy:
				want[i*rv.c+j] = cmplx.Conj(x2.At(i, j))
			case i < xr && j < xc:
				want[i*rv.c+j] = x2.At(i, j)
			default:
				want[i*rv.c+j] = fill[rv.start+i*rv.stride+j]
			}
		}
	}
	u := invoke(func() error { return call(recv2, x2) })
	failC := func(what, format string, args ...any) {
		c.counts[r][outBad]++
		c.failNamed(what, ov, trans, op.name, ident, 0, r, format, args...)
	}
	if u.panicked {
		failC("unaliased-run-panicked", "the call on private copies panicked: %s", u.pval)
		return
	}
	for i := 0; i < L; i++ {
		if !sameBitsC(dataX[i], fill[i]) {
			failC("operand-mutated", "unaliased operand changed at backing index %d", i)
			return
		}
		in := rv.rect&(1<<uint(i)) != 0
		if !in && !sameBitsC(dataR[i], fill[i]) {
			failC("write-outside-receiver", "unaliased receiver run wrote backing index %d outside its window", i)
			return
		}
	}
	for i := 0; i < rv.r; i++ {
		for j := 0; j < rv.c; j++ {
			if ix := rv.start + i*rv.stride + j; !sameBitsC(dataR[ix], want[i*rv.c+j]) {
				failC("unaliased-result-wrong", "unaliased result (%d,%d)=%v, definition gives %v", i, j, dataR[ix], want[i*rv.c+j])
				return
			}
		}
	}
	changed := -1
	for i := 0; i < L; i++ {
		if !sameBitsC(data[i], fill[i]) {
			changed = i
			break
		}
	}
	if a.panicked {
		if !a.region {
			failC("unexpected-panic", "panicked with %q (the unaliased call returns normally)", a.pval)
			return
		}
		bad := false
		switch r {
		case relIdent:
			if !(tm.identTPanics && trans) {
				bad = true
				c.failNamed("ident-panic", ov, trans, op.name, ident, 0, r, "receiver used as its own operand panicked with %q", a.pval)
			}
		case relDisjRange, relDisjElems:
			bad = true
			c.failNamed("false-overlap-panic", ov, trans, op.name, ident, 0, r, "panicked with %q although the windows share no element", a.pval)
		case relOverlap:
			if tm.copySem && !trans {
				bad = true
				c.failNamed("copy-panic", ov, trans, op.name, ident, 0, r, "copy from an overlapping untransposed source panicked with %q", a.pval)
			}
		}
		if changed >= 0 {
			bad = true
			c.failNamed("write-before-panic", ov, trans, op.name, ident, 0, r, "panicked with %q after modifying backing index %d", a.pval, changed)
		}
		if bad {
			c.counts[r][outBad]++
		} else {
			c.counts[r][outPanic]++
		}
		return
	}
	for i := 0; i < L; i++ {
		exp := fill[i]
		in := rv.rect&(1<<uint(i)) != 0
		if in {
			exp = dataR[i]
		}
		if !sameBitsC(data[i], exp) {
			what := "disjoint-wrong-result"
			switch r {
			case relIdent:
				what = "ident-wrong-result"
			case relOverlap:
				what = "silent-corruption"
			}
			failC(what, "returned without panic; backing index %d (inside receiver window: %v) = %v, the call on unaliased copies gives %v (strides recv %d operand %d)", i, in, data[i], exp, rv.stride, ov.stride)
			return
		}
	}
	if r == relOverlap {
		c.counts[r][outBenign]++
		return
	}
	c.counts[r][outOK]++
}
