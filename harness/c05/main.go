// Harness C05: mat never mutates inputs and never returns a result corrupted
// by aliasing. See NOTES.md.
package main

import (
	"gonum.org/v1/gonum/internal/verif/vlib"
)

func main() {
	var ms *space
	mspace := func(g *vlib.G) *space {
		if ms == nil {
			ms = matSpace(vlib.Pick(g, 5, 6), g.Seed, g.Thorough())
		}
		return ms
	}
	K := func(g *vlib.G) int { return vlib.Pick(g, 5, 6) + 1 }
	vlib.Main("C05",
		vlib.Group{Name: "vec", Gen: func(g *vlib.G) {
			gen(g, vecSpace(g.Seed, g.Thorough()), vecTemplates(5, 4))
		}},
		vlib.Group{Name: "dense", Gen: func(g *vlib.G) { gen(g, mspace(g), denseTemplates(K(g))) }},
		vlib.Group{Name: "sym", Gen: func(g *vlib.G) { gen(g, mspace(g), symTemplates(K(g))) }},
		vlib.Group{Name: "tri", Gen: func(g *vlib.G) {
			gen(g, mspace(g), triTemplates(K(g), kTriU))
			gen(g, mspace(g), triTemplates(K(g), kTriL))
		}},
		vlib.Group{Name: "cdense", Gen: func(g *vlib.G) { genCDense(g, mspace(g)) }},
		// dst of the ...To methods of the factorization / structured types.
		vlib.Group{Name: "to", Gen: func(g *vlib.G) {
			gen(g, vecSpace(g.Seed, g.Thorough()), toVecTemplates())
			gen(g, mspace(g), toDenseTemplates())
			gen(g, mspace(g), toExtractTemplates())
		}},
		// The same object in two operand positions, one under T().
		vlib.Group{Name: "sameop", Gen: func(g *vlib.G) {
			gen(g, vecSpace(g.Seed, g.Thorough()), vecSameOpTemplates())
			gen(g, mspace(g), denseSameOpTemplates(K(g)))
			gen(g, mspace(g), symSameOpTemplates())
		}},
		// Error-returning paths: operand windows of a rank-one backing array.
		vlib.Group{Name: "singular", Gen: func(g *vlib.G) {
			N := vlib.Pick(g, 5, 6)
			ms := rank1Fill(matSpace(N, g.Seed, g.Thorough()), N)
			sel := []string{"Dense.Inverse", "Dense.Solve", "TriDense.SolveTo"}
			gen(g, ms, pickTemplates(denseTemplates(N+1), sel...))
			gen(g, ms, pickTemplates(denseSelfOpTemplates(N+1), sel...))
			gen(g, ms, pickTemplates(denseSameOpTemplates(N+1), sel...))
			vs := rank1Fill(vecSpace(g.Seed, g.Thorough()), 4)
			gen(g, vs, pickTemplates(vecTemplates(5, 4), "VecDense.SolveVec"))
			gen(g, vs, pickTemplates(vecSelfOpTemplates(4), "VecDense.SolveVec"))
		}},
		// Histories of aliased operations sharing the workspace pools.
		vlib.Group{Name: "history", Gen: genHistory},
		// The receiver itself as one operand, every window as the other.
		vlib.Group{Name: "selfop", Gen: func(g *vlib.G) {
			gen(g, vecSpace(g.Seed, g.Thorough()), vecSelfOpTemplates(4))
			gen(g, mspace(g), denseSelfOpTemplates(K(g)))
			gen(g, mspace(g), symSelfOpTemplates())
			gen(g, mspace(g), triSelfOpTemplates(kTriU))
			gen(g, mspace(g), triSelfOpTemplates(kTriL))
		}},
	)
}
