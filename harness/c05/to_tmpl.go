package main

import (
	"fmt"
	"math"
	"strings"

	"gonum.org/v1/gonum/mat"
)

// Group "to": the dst argument of the ...To methods of the factorization and
// structured-matrix types plays the receiver's role (doc.go: "the mutated
// matrix will be the receiver of a method, or will be the first, dst, argument
// to a method named with a To suffix"). dst is a window of the backing array,
// the right-hand side b (or x of MulVecTo) is every window of the same array:
// the very same pointer, its T() where shapes allow, partially overlapping,
// interleaved, disjoint. The factorization itself owns private storage built
// from fresh matrices. Oracle: the same call with dst and b over private copies
// (bit-equal: same arithmetic), plus the residual of the system as definition.

// Fresh system matrices (deterministic in n and sysCond).

// sysCond selects the conditioning of the fresh system matrices built below:
// 0 well conditioned; 1 ill conditioned (index 1 decoupled with diagonal 1e-18:
// the factorization succeeds, the condition estimate exceeds
// mat.ConditionTolerance, so the solve is performed AND a finite Condition error
// is returned); 2 exactly singular (that diagonal is 0). It is set by the
// templates around each call, identically for the aliased and the unaliased run.
var sysCond int

const (
	condWell = iota
	condIll
	condSingular
	nCond
)

func withCond(cond int, f func() error) error {
	old := sysCond
	sysCond = cond
	defer func() { sysCond = old }()
	return f()
}

// pivotValue returns the replacement diagonal and whether to perturb at all.
func pivotValue(n int) (float64, bool) {
	if n < 2 {
		return 0, false
	}
	switch sysCond {
	case condIll:
		return 1e-18, true
	case condSingular:
		return 0, true
	}
	return 0, false
}

// sysDom is the general square system matrix.
func sysDom(n int) *mat.Dense {
	d := fDom(n, n, 6)
	if v, ok := pivotValue(n); ok {
		for k := 0; k < n; k++ {
			d.Set(1, k, 0)
			d.Set(k, 1, 0)
		}
		d.Set(1, 1, v)
	}
	return d
}

func aSPD(n int) *mat.SymDense {
	s := mat.NewSymDense(n, nil)
	for i := 0; i < n; i++ {
		for j := i; j < n; j++ {
			v := float64((i+2*j)%3 - 1)
			if i == j {
				v = 8
			}
			s.SetSym(i, j, v)
		}
	}
	if v, ok := pivotValue(n); ok {
		for k := 0; k < n; k++ {
			s.SetSym(1, k, 0)
		}
		s.SetSym(1, 1, v)
	}
	return s
}

func aSymBand(n int) *mat.SymBandDense {
	k := 1
	if n == 1 {
		k = 0
	}
	s := mat.NewSymBandDense(n, k, nil)
	for i := 0; i < n; i++ {
		s.SetSymBand(i, i, 8)
		if i+1 < n {
			s.SetSymBand(i, i+1, float64(i%3-1))
		}
	}
	if v, ok := pivotValue(n); ok {
		s.SetSymBand(0, 1, 0)
		if n > 2 {
			s.SetSymBand(1, 2, 0)
		}
		s.SetSymBand(1, 1, v)
	}
	return s
}

func aBand(n int) *mat.BandDense {
	k := 1
	if n == 1 {
		k = 0
	}
	b := mat.NewBandDense(n, n, k, k, nil)
	for i := 0; i < n; i++ {
		b.SetBand(i, i, float64(3+i))
		if i+1 < n {
			b.SetBand(i, i+1, float64(i%3+1))
			b.SetBand(i+1, i, -float64(i%2+1))
		}
	}
	return b
}

func aTriBand(n int, kind mat.TriKind) *mat.TriBandDense {
	k := 1
	if n == 1 {
		k = 0
	}
	t := mat.NewTriBandDense(n, k, kind, nil)
	for i := 0; i < n; i++ {
		t.SetTriBand(i, i, float64(int(2)<<uint(i%2)))
		if i+1 < n {
			if kind == mat.Upper {
				t.SetTriBand(i, i+1, float64(i%3-1))
			} else {
				t.SetTriBand(i+1, i, float64(i%3-1))
			}
		}
	}
	if v, ok := pivotValue(n); ok {
		t.SetTriBand(1, 1, v)
	}
	return t
}

func aTridiag(n int) *mat.Tridiag {
	d := make([]float64, n)
	var dl, du []float64
	if n > 1 {
		dl, du = make([]float64, n-1), make([]float64, n-1)
	}
	for i := range d {
		d[i] = 8
		if i+1 < n {
			dl[i] = float64(i%3 - 1)
			du[i] = float64((i+1)%3 - 1)
		}
	}
	if v, ok := pivotValue(n); ok {
		d[1] = v
		dl[0], du[0] = 0, 0
		if n > 2 {
			dl[1], du[1] = 0, 0
		}
	}
	return mat.NewTridiag(n, dl, d, du)
}

func aTri(n int, kind mat.TriKind) *mat.TriDense {
	t := mat.NewTriDense(n, kind, nil)
	t.Copy(sysDom(n))
	return t
}

// residual returns a message when op(A)*X != B beyond rounding.
func residual(a mat.Matrix, trans bool, b mat.Matrix, rr, rc int, x func(i, j int) float64) string {
	if trans {
		a = a.T()
	}
	_, n := a.Dims()
	for i := 0; i < rr; i++ {
		for j := 0; j < rc; j++ {
			var s, scale float64
			for k := 0; k < n; k++ {
				s += a.At(i, k) * x(k, j)
				scale += math.Abs(a.At(i, k) * x(k, j))
			}
			want := b.At(i, j)
			if d := math.Abs(s - want); !(d <= 1e-9*(scale+math.Abs(want)+1)) {
				return fmt.Sprintf("(op(A)*X)(%d,%d) = %v, B(%d,%d) = %v", i, j, s, i, j, want)
			}
		}
	}
	return ""
}

func mkLU(n int) *mat.LU { var f mat.LU; f.Factorize(sysDom(n)); return &f }
func mkChol(n int) *mat.Cholesky {
	var f mat.Cholesky
	if !f.Factorize(aSPD(n)) {
		return nil
	}
	return &f
}
func mkQR(n int) *mat.QR        { var f mat.QR; f.Factorize(sysDom(n)); return &f }
func mkLQ(n int) *mat.LQ        { var f mat.LQ; f.Factorize(sysDom(n)); return &f }
func mkSVD(n int) *mat.SVD      { var f mat.SVD; f.Factorize(sysDom(n), mat.SVDFull); return &f }
func mkEig(n int) *mat.EigenSym { var f mat.EigenSym; f.Factorize(aSPD(n), true); return &f }
func mkBChol(n int) *mat.BandCholesky {
	var f mat.BandCholesky
	if !f.Factorize(aSymBand(n)) {
		return nil
	}
	return &f
}
func mkPChol(n int) *mat.PivotedCholesky {
	var f mat.PivotedCholesky
	tol := -1.0
	if sysCond != condWell {
		tol = 0 // do not stop at the tiny pivot
	}
	if !f.Factorize(aSPD(n), tol) {
		return nil
	}
	return &f
}

type solver struct {
	name   string
	hasTr  bool // has a trans flag (fv = 0: false, 1: true)
	a      func(n int) mat.Matrix
	mat    func(dst *mat.Dense, n int, trans bool, b mat.Matrix) error
	vec    func(dst *mat.VecDense, n int, trans bool, b mat.Vector) error
	transA func(trans bool) bool // whether the system solved is Aᵀ X = B
}

// fv of the solver templates: trans = fv&1 (methods with a trans flag),
// conditioning = the remaining part.
func (s *solver) nf() int {
	if s.hasTr {
		return 2 * nCond
	}
	return nCond
}

func (s *solver) decode(fv int) (trans bool, cond int) {
	if s.hasTr {
		return fv&1 == 1, fv >> 1
	}
	return false, fv
}

func solvers() []solver {
	lu, chol, pchol, bchol, qr, lq, svd := mkLU, mkChol, mkPChol, mkBChol, mkQR, mkLQ, mkSVD
	dom := func(n int) mat.Matrix { return sysDom(n) }
	id := func(t bool) bool { return t }
	no := func(bool) bool { return false }
	return []solver{
		{"LU", true, dom,
			func(d *mat.Dense, n int, t bool, b mat.Matrix) error { return lu(n).SolveTo(d, t, b) },
			func(d *mat.VecDense, n int, t bool, b mat.Vector) error { return lu(n).SolveVecTo(d, t, b) }, id},
		{"Cholesky", false, func(n int) mat.Matrix { return aSPD(n) },
			func(d *mat.Dense, n int, t bool, b mat.Matrix) error {
				f := chol(n)
				if f == nil {
					return errSkip
				}
				return f.SolveTo(d, b)
			},
			func(d *mat.VecDense, n int, t bool, b mat.Vector) error {
				f := chol(n)
				if f == nil {
					return errSkip
				}
				return f.SolveVecTo(d, b)
			}, no},
		{"PivotedCholesky", false, func(n int) mat.Matrix { return aSPD(n) },
			func(d *mat.Dense, n int, t bool, b mat.Matrix) error {
				f := pchol(n)
				if f == nil {
					return errSkip
				}
				return f.SolveTo(d, b)
			},
			func(d *mat.VecDense, n int, t bool, b mat.Vector) error {
				f := pchol(n)
				if f == nil {
					return errSkip
				}
				return f.SolveVecTo(d, b)
			}, no},
		{"BandCholesky", false, func(n int) mat.Matrix { return aSymBand(n) },
			func(d *mat.Dense, n int, t bool, b mat.Matrix) error {
				f := bchol(n)
				if f == nil {
					return errSkip
				}
				return f.SolveTo(d, b)
			},
			func(d *mat.VecDense, n int, t bool, b mat.Vector) error {
				f := bchol(n)
				if f == nil {
					return errSkip
				}
				return f.SolveVecTo(d, b)
			}, no},
		{"QR", true, dom,
			func(d *mat.Dense, n int, t bool, b mat.Matrix) error { return qr(n).SolveTo(d, t, b) },
			func(d *mat.VecDense, n int, t bool, b mat.Vector) error { return qr(n).SolveVecTo(d, t, b) }, id},
		{"LQ", true, dom,
			func(d *mat.Dense, n int, t bool, b mat.Matrix) error { return lq(n).SolveTo(d, t, b) },
			func(d *mat.VecDense, n int, t bool, b mat.Vector) error { return lq(n).SolveVecTo(d, t, b) }, id},
		{"SVD", false, dom,
			func(d *mat.Dense, n int, t bool, b mat.Matrix) error { svd(n).SolveTo(d, b, n); return nil },
			func(d *mat.VecDense, n int, t bool, b mat.Vector) error { svd(n).SolveVecTo(d, b, n); return nil }, no},
		{"TriDense[Upper]", true, func(n int) mat.Matrix { return aTri(n, mat.Upper) },
			func(d *mat.Dense, n int, t bool, b mat.Matrix) error { return aTri(n, mat.Upper).SolveTo(d, t, b) }, nil, id},
		{"TriDense[Lower]", true, func(n int) mat.Matrix { return aTri(n, mat.Lower) },
			func(d *mat.Dense, n int, t bool, b mat.Matrix) error { return aTri(n, mat.Lower).SolveTo(d, t, b) }, nil, id},
		{"TriBandDense[Upper]", true, func(n int) mat.Matrix { return aTriBand(n, mat.Upper) },
			func(d *mat.Dense, n int, t bool, b mat.Matrix) error { return aTriBand(n, mat.Upper).SolveTo(d, t, b) },
			func(d *mat.VecDense, n int, t bool, b mat.Vector) error {
				return aTriBand(n, mat.Upper).SolveVecTo(d, t, b)
			}, id},
		{"TriBandDense[Lower]", true, func(n int) mat.Matrix { return aTriBand(n, mat.Lower) },
			func(d *mat.Dense, n int, t bool, b mat.Matrix) error { return aTriBand(n, mat.Lower).SolveTo(d, t, b) },
			func(d *mat.VecDense, n int, t bool, b mat.Vector) error {
				return aTriBand(n, mat.Lower).SolveVecTo(d, t, b)
			}, id},
		{"Tridiag", true, func(n int) mat.Matrix { return aTridiag(n) },
			func(d *mat.Dense, n int, t bool, b mat.Matrix) error { return aTridiag(n).SolveTo(d, t, b) },
			func(d *mat.VecDense, n int, t bool, b mat.Vector) error { return aTridiag(n).SolveVecTo(d, t, b) }, id},
	}
}

// Cached system matrices for the residual checks (never passed to gonum).
var acache = map[string]mat.Matrix{}

func cachedA(s *solver, n int) mat.Matrix {
	k := fmt.Sprintf("%s/%d", s.name, n)
	if a, ok := acache[k]; ok {
		return a
	}
	a := mat.DenseCopyOf(s.a(n))
	acache[k] = a
	return a
}

// toDenseTemplates: dst *Dense (n×k window), b n×k.
func toDenseTemplates() []*tmpl {
	var out []*tmpl
	for _, sv := range solvers() {
		sv := sv
		out = append(out, &tmpl{recv: kDense, method: sv.name + ".SolveTo", pos: "b", xs: xsMat, nf: sv.nf(),
			thinFv: func(fv int) bool { _, cond := sv.decode(fv); return cond != condWell },
			call: func(recv, x mat.Matrix, fv int) error {
				d := recv.(*mat.Dense)
				n, _ := d.Dims()
				trans, cond := sv.decode(fv)
				if cond != condWell && (n < 2 || sv.name == "SVD") {
					return errSkip
				}
				return withCond(cond, func() error { return sv.mat(d, n, trans, x) })
			},
			verify: func(c *refCtx, res func(i, j int) float64) string {
				trans, cond := sv.decode(c.fv)
				if cond == condIll && (sv.name == "Tridiag" || strings.HasPrefix(sv.name, "TriBandDense")) {
					return "" // these two have no condition estimate: only exact singularity is an error
				}
				if cond != condWell {
					// verify only runs when the call returned no error: the
					// ill-conditioned / singular system failed to reach the
					// error-returning path (vacuity guard of the harness).
					return "the ill-conditioned or singular system returned no error: error path not exercised"
				}
				return residual(cachedA(&sv, c.rr), sv.transA(trans), c.x, c.rr, c.rc, res)
			}})
	}
	// Non-square least-squares / minimum-norm systems (differential oracle only).
	tall := func(n int) *mat.Dense { return fDom(n+1, n, 6) }
	wide := func(n int) *mat.Dense { return fDom(n, n+1, 6) }
	rowsPlus := func(d int) func(r, c int) [][2]int {
		return func(r, c int) [][2]int {
			if r+d < 1 {
				return nil
			}
			return [][2]int{{r + d, c}}
		}
	}
	out = append(out,
		// A (n+1)×n tall: A x = b, dst n×k, b (n+1)×k.
		&tmpl{recv: kDense, method: "QR.SolveTo[tall,NoTrans]", pos: "b", xs: xsMat, nf: 1, shapes: rowsPlus(1),
			call: func(recv, x mat.Matrix, fv int) error {
				d := recv.(*mat.Dense)
				n, _ := d.Dims()
				var f mat.QR
				f.Factorize(tall(n))
				return f.SolveTo(d, false, x)
			}},
		// Aᵀ x = b with A (n)×(n-1) tall: dst n×k, b (n-1)×k.
		&tmpl{recv: kDense, method: "QR.SolveTo[tall,Trans]", pos: "b", xs: xsMat, nf: 1, shapes: rowsPlus(-1),
			call: func(recv, x mat.Matrix, fv int) error {
				d := recv.(*mat.Dense)
				n, _ := d.Dims()
				var f mat.QR
				f.Factorize(tall(n - 1))
				return f.SolveTo(d, true, x)
			}},
		// A (n-1)×n wide: dst n×k, b (n-1)×k.
		&tmpl{recv: kDense, method: "LQ.SolveTo[wide,NoTrans]", pos: "b", xs: xsMat, nf: 1, shapes: rowsPlus(-1),
			call: func(recv, x mat.Matrix, fv int) error {
				d := recv.(*mat.Dense)
				n, _ := d.Dims()
				var f mat.LQ
				f.Factorize(wide(n - 1))
				return f.SolveTo(d, false, x)
			}},
		// Aᵀ x = b with A n×(n+1) wide: dst n×k, b (n+1)×k.
		&tmpl{recv: kDense, method: "LQ.SolveTo[wide,Trans]", pos: "b", xs: xsMat, nf: 1, shapes: rowsPlus(1),
			call: func(recv, x mat.Matrix, fv int) error {
				d := recv.(*mat.Dense)
				n, _ := d.Dims()
				var f mat.LQ
				f.Factorize(wide(n))
				return f.SolveTo(d, true, x)
			}},
	)
	return out
}

// toVecTemplates: dst *VecDense (length n, any increment), b a vector window.
func toVecTemplates() []*tmpl {
	var out []*tmpl
	for _, sv := range solvers() {
		sv := sv
		if sv.vec == nil {
			continue
		}
		out = append(out, &tmpl{recv: kVec, method: sv.name + ".SolveVecTo", pos: "b", xs: xsVec[:1], vecArg: true, nf: sv.nf(),
			thinFv: func(fv int) bool { _, cond := sv.decode(fv); return cond != condWell },
			call: func(recv, x mat.Matrix, fv int) error {
				d := recv.(*mat.VecDense)
				trans, cond := sv.decode(fv)
				if cond != condWell && (d.Len() < 2 || sv.name == "SVD") {
					return errSkip
				}
				return withCond(cond, func() error { return sv.vec(d, d.Len(), trans, x.(mat.Vector)) })
			},
			verify: func(c *refCtx, res func(i, j int) float64) string {
				trans, cond := sv.decode(c.fv)
				if cond == condIll && (sv.name == "Tridiag" || strings.HasPrefix(sv.name, "TriBandDense")) {
					return "" // these two have no condition estimate: only exact singularity is an error
				}
				if cond != condWell {
					// verify only runs when the call returned no error: the
					// ill-conditioned / singular system failed to reach the
					// error-returning path (vacuity guard of the harness).
					return "the ill-conditioned or singular system returned no error: error path not exercised"
				}
				return residual(cachedA(&sv, c.rr), sv.transA(trans), c.x, c.rr, 1, res)
			}})
	}
	// MulVecTo of the banded types: dst = op(A) * x.
	type mulv struct {
		name string
		a    func(n int) mat.Matrix
		do   func(d *mat.VecDense, n int, trans bool, x mat.Vector)
	}
	for _, mv := range []mulv{
		{"BandDense", func(n int) mat.Matrix { return aBand(n) }, func(d *mat.VecDense, n int, t bool, x mat.Vector) { aBand(n).MulVecTo(d, t, x) }},
		{"SymBandDense", func(n int) mat.Matrix { return aSymBand(n) }, func(d *mat.VecDense, n int, t bool, x mat.Vector) { aSymBand(n).MulVecTo(d, t, x) }},
		{"Tridiag", func(n int) mat.Matrix { return aTridiag(n) }, func(d *mat.VecDense, n int, t bool, x mat.Vector) { aTridiag(n).MulVecTo(d, t, x) }},
	} {
		mv := mv
		out = append(out, &tmpl{recv: kVec, method: mv.name + ".MulVecTo", pos: "x", xs: xsVec[:1], vecArg: true, nf: 2,
			call: func(recv, x mat.Matrix, fv int) error {
				d := recv.(*mat.VecDense)
				mv.do(d, d.Len(), fv == 1, x.(mat.Vector))
				return nil
			},
			ref: func(c *refCtx, i, j int) float64 {
				k := fmt.Sprintf("mv:%s/%d", mv.name, c.rr)
				a, ok := acache[k]
				if !ok {
					a = mat.DenseCopyOf(mv.a(c.rr))
					acache[k] = a
				}
				var s float64
				for l := 0; l < c.rr; l++ {
					if c.fv == 1 {
						s += a.At(l, i) * c.x.(mat.Vector).AtVec(l)
					} else {
						s += a.At(i, l) * c.x.(mat.Vector).AtVec(l)
					}
				}
				return s
			}})
	}
	return out
}

// toExtractTemplates: the ...To extractors have no operand besides the
// factorization's private storage. dst is a (strided, non-empty) window of the
// backing array; the definition is the same extraction into an empty
// destination, and nothing outside the window may change.
func toExtractTemplates() []*tmpl {
	type ext struct {
		name  string
		k     kind
		run   func(dst mat.Matrix, n int) error
		fresh func() mat.Matrix
	}
	tri := func() mat.Matrix { return &mat.TriDense{} }
	sym := func() mat.Matrix { return &mat.SymDense{} }
	den := func() mat.Matrix { return &mat.Dense{} }
	T := func(m mat.Matrix) *mat.TriDense { return m.(*mat.TriDense) }
	S := func(m mat.Matrix) *mat.SymDense { return m.(*mat.SymDense) }
	D := func(m mat.Matrix) *mat.Dense { return m.(*mat.Dense) }
	exts := []ext{
		{"LU.LTo", kTriL, func(d mat.Matrix, n int) error { mkLU(n).LTo(T(d)); return nil }, tri},
		{"LU.UTo", kTriU, func(d mat.Matrix, n int) error { mkLU(n).UTo(T(d)); return nil }, tri},
		{"Cholesky.UTo", kTriU, func(d mat.Matrix, n int) error { mkChol(n).UTo(T(d)); return nil }, tri},
		{"Cholesky.LTo", kTriL, func(d mat.Matrix, n int) error { mkChol(n).LTo(T(d)); return nil }, tri},
		{"Cholesky.ToSym", kSym, func(d mat.Matrix, n int) error { mkChol(n).ToSym(S(d)); return nil }, sym},
		{"Cholesky.InverseTo", kSym, func(d mat.Matrix, n int) error { return mkChol(n).InverseTo(S(d)) }, sym},
		{"Cholesky.SolveCholTo", kDense, func(d mat.Matrix, n int) error { return mkChol(n).SolveCholTo(D(d), mkChol(n)) }, den},
		{"PivotedCholesky.UTo", kTriU, func(d mat.Matrix, n int) error { mkPChol(n).UTo(T(d)); return nil }, tri},
		{"QR.RTo", kDense, func(d mat.Matrix, n int) error { mkQR(n).RTo(D(d)); return nil }, den},
		{"QR.QTo", kDense, func(d mat.Matrix, n int) error { mkQR(n).QTo(D(d)); return nil }, den},
		{"LQ.LTo", kDense, func(d mat.Matrix, n int) error { mkLQ(n).LTo(D(d)); return nil }, den},
		{"LQ.QTo", kDense, func(d mat.Matrix, n int) error { mkLQ(n).QTo(D(d)); return nil }, den},
		{"SVD.UTo", kDense, func(d mat.Matrix, n int) error { mkSVD(n).UTo(D(d)); return nil }, den},
		{"SVD.VTo", kDense, func(d mat.Matrix, n int) error { mkSVD(n).VTo(D(d)); return nil }, den},
		{"EigenSym.VectorsTo", kDense, func(d mat.Matrix, n int) error { mkEig(n).VectorsTo(D(d)); return nil }, den},
	}
	var out []*tmpl
	for _, e := range exts {
		e := e
		out = append(out, &tmpl{recv: e.k, method: e.name, pos: "dst", nf: 1, noOperand: true, shapes: squareOnly,
			call: func(recv, x mat.Matrix, fv int) error {
				n, _ := recv.Dims()
				return e.run(recv, n)
			},
			ref: func(c *refCtx, i, j int) float64 {
				k := fmt.Sprintf("ext:%s/%d", e.name, c.rr)
				m, ok := acache[k]
				if !ok {
					m = e.fresh()
					if err := e.run(m, c.rr); err != nil {
						panic(fmt.Sprintf("c05: %s into an empty destination failed: %v", e.name, err))
					}
					acache[k] = m
				}
				return m.At(i, j)
			}})
	}
	return out
}
