package main

import (
	"gonum.org/v1/gonum/mat"
)

// Group "sameop": two OPERAND positions hold the very same object X, one of
// them under T()/TVec() (the both-plain case is the "ab" position of the other
// groups); the receiver is any window, distinct from X, overlapping X, or X
// itself. The unaliased twin gets two different private copies of X in the
// two positions (tmpl.call2), so a shortcut keyed on the identity of the
// operands (Dense.Solve's "a == b, so x = I") cannot hide behind a twin that
// takes the same shortcut.

func squareByK(K int, first bool) func(r, c int) [][2]int {
	// first: X is k×c (Xᵀ X is c×c); else X is r×k (X Xᵀ is r×r).
	return func(r, c int) (out [][2]int) {
		if r != c {
			return nil
		}
		for k := 1; k <= K; k++ {
			if first {
				out = append(out, [2]int{k, c})
			} else {
				out = append(out, [2]int{r, k})
			}
		}
		return out
	}
}

func denseSameOpTemplates(K int) []*tmpl {
	var out []*tmpl
	add := func(t *tmpl) {
		t.recv = kDense
		if t.nf == 0 {
			t.nf = 1
		}
		out = append(out, t)
	}
	xsSq := []xspec{{kDense, false}, {kTriU, false}, {kTriL, false}}
	xsAny := []xspec{{kDense, false}, {kTriU, false}, {kTriL, false}, {kVec, false}}
	type binop struct {
		name string
		do   func(m *mat.Dense, a, b mat.Matrix)
		f    func(a, b float64) float64
	}
	for _, op := range []binop{
		{"Add", func(m *mat.Dense, a, b mat.Matrix) { m.Add(a, b) }, func(a, b float64) float64 { return a + b }},
		{"Sub", func(m *mat.Dense, a, b mat.Matrix) { m.Sub(a, b) }, func(a, b float64) float64 { return a - b }},
		{"MulElem", func(m *mat.Dense, a, b mat.Matrix) { m.MulElem(a, b) }, func(a, b float64) float64 { return a * b }},
		{"DivElem", func(m *mat.Dense, a, b mat.Matrix) { m.DivElem(a, b) }, func(a, b float64) float64 { return a / b }},
	} {
		op := op
		add(&tmpl{method: "Dense." + op.name, pos: "a=XT,b=X", xs: xsSq, shapes: squareOnly,
			call2: func(recv, xa, xb mat.Matrix, fv int) error { op.do(recv.(*mat.Dense), xa.T(), xb); return nil },
			ref:   func(c *refCtx, i, j int) float64 { return op.f(c.x.At(j, i), c.x.At(i, j)) }})
		add(&tmpl{method: "Dense." + op.name, pos: "a=X,b=XT", xs: xsSq, shapes: squareOnly,
			call2: func(recv, xa, xb mat.Matrix, fv int) error { op.do(recv.(*mat.Dense), xa, xb.T()); return nil },
			ref:   func(c *refCtx, i, j int) float64 { return op.f(c.x.At(i, j), c.x.At(j, i)) }})
	}
	add(&tmpl{method: "Dense.Mul", pos: "a=XT,b=X", xs: xsAny, shapes: squareByK(K, true),
		call2: func(recv, xa, xb mat.Matrix, fv int) error { recv.(*mat.Dense).Mul(xa.T(), xb); return nil },
		ref: func(c *refCtx, i, j int) float64 {
			k, _ := c.x.Dims()
			var s float64
			for l := 0; l < k; l++ {
				s += c.x.At(l, i) * c.x.At(l, j)
			}
			return s
		}})
	add(&tmpl{method: "Dense.Mul", pos: "a=X,b=XT", xs: xsAny, shapes: squareByK(K, false),
		call2: func(recv, xa, xb mat.Matrix, fv int) error { recv.(*mat.Dense).Mul(xa, xb.T()); return nil },
		ref: func(c *refCtx, i, j int) float64 {
			_, k := c.x.Dims()
			var s float64
			for l := 0; l < k; l++ {
				s += c.x.At(i, l) * c.x.At(j, l)
			}
			return s
		}})

	// Solve: Xᵀ * recv = X and X * recv = Xᵀ (differential + residual).
	add(&tmpl{method: "Dense.Solve", pos: "a=XT,b=X", xs: xsSq, shapes: squareOnly,
		call2: func(recv, xa, xb mat.Matrix, fv int) error { return recv.(*mat.Dense).Solve(xa.T(), xb) },
		verify: func(c *refCtx, res func(i, j int) float64) string {
			return residual(c.x, true, c.x, c.rr, c.rc, res)
		}})
	add(&tmpl{method: "Dense.Solve", pos: "a=X,b=XT", xs: xsSq, shapes: squareOnly,
		call2: func(recv, xa, xb mat.Matrix, fv int) error { return recv.(*mat.Dense).Solve(xa, xb.T()) },
		verify: func(c *refCtx, res func(i, j int) float64) string {
			return residual(c.x, false, c.x.T(), c.rr, c.rc, res)
		}})
	// The both-plain order with a twin of two different objects: the exact
	// identity of the a == b shortcut against the numerically solved twin is
	// not bit-comparable, so this one is judged by the residual only
	// (differential part: see Solve(ab) in group dense).

	// Kronecker: Xᵀ ⊗ X and X ⊗ Xᵀ with X ra×ca, receiver (ra*ca)×(ra*ca).
	kronShapes := func(r, c int) (out [][2]int) {
		if r != c {
			return nil
		}
		for ra := 1; ra <= r; ra++ {
			if r%ra == 0 {
				out = append(out, [2]int{ra, r / ra})
			}
		}
		return out
	}
	add(&tmpl{method: "Dense.Kronecker", pos: "a=XT,b=X", xs: xsAny, shapes: kronShapes,
		call2: func(recv, xa, xb mat.Matrix, fv int) error { recv.(*mat.Dense).Kronecker(xa.T(), xb); return nil },
		ref: func(c *refCtx, i, j int) float64 {
			rb, cb := c.x.Dims()
			return c.x.At(j/cb, i/rb) * c.x.At(i%rb, j%cb)
		}})
	add(&tmpl{method: "Dense.Kronecker", pos: "a=X,b=XT", xs: xsAny, shapes: kronShapes,
		call2: func(recv, xa, xb mat.Matrix, fv int) error { recv.(*mat.Dense).Kronecker(xa, xb.T()); return nil },
		ref: func(c *refCtx, i, j int) float64 {
			ra, ca := c.x.Dims() // b = Xᵀ is ca×ra
			return c.x.At(i/ca, j/ra) * c.x.At(j%ra, i%ca)
		}})

	// Product with X and Xᵀ adjacent (differential oracle).
	add(&tmpl{method: "Dense.Product", pos: "0=XT,1=X,2=F", xs: xsAny[:1],
		shapes: func(r, c int) (out [][2]int) {
			for k := 1; k <= K; k++ {
				out = append(out, [2]int{k, r})
			}
			return out
		},
		call2: func(recv, xa, xb mat.Matrix, fv int) error {
			m := recv.(*mat.Dense)
			r, c := m.Dims()
			m.Product(xa.T(), xb, fDense(r, c, 4))
			return nil
		}})
	add(&tmpl{method: "Dense.Product", pos: "0=F,1=X,2=XT", xs: xsAny[:1],
		shapes: func(r, c int) (out [][2]int) {
			for k := 1; k <= K; k++ {
				out = append(out, [2]int{c, k})
			}
			return out
		},
		call2: func(recv, xa, xb mat.Matrix, fv int) error {
			m := recv.(*mat.Dense)
			r, c := m.Dims()
			m.Product(fDense(r, c, 3), xa, xb.T())
			return nil
		}})

	// RankOne / Outer with x and y the same vector.
	sqCol := func(r, c int) [][2]int {
		if r != c {
			return nil
		}
		return [][2]int{{r, 1}}
	}
	add(&tmpl{method: "Dense.RankOne", pos: "x=y", xs: xsVec[:1], vecArg: true, shapes: sqCol,
		call2: func(recv, xa, xb mat.Matrix, fv int) error {
			m := recv.(*mat.Dense)
			r, c := m.Dims()
			m.RankOne(fDense(r, c, 10), 2, xa.(mat.Vector), xb.(mat.Vector))
			return nil
		},
		ref: func(c *refCtx, i, j int) float64 {
			return rDense(c.rr, c.rc, 10).At(i, j) + 2*c.x.(mat.Vector).AtVec(i)*c.x.(mat.Vector).AtVec(j)
		}})
	add(&tmpl{method: "Dense.Outer", pos: "x=XT,y=X", xs: xsVec[:1], vecArg: true, shapes: sqCol,
		call2: func(recv, xa, xb mat.Matrix, fv int) error {
			recv.(*mat.Dense).Outer(2, xa.(*mat.VecDense).TVec(), xb.(mat.Vector))
			return nil
		},
		ref: func(c *refCtx, i, j int) float64 {
			return 2 * c.x.(mat.Vector).AtVec(i) * c.x.(mat.Vector).AtVec(j)
		}})

	// TriDense.SolveTo with the triangular matrix itself (or its transpose) as b.
	for _, k := range []kind{kTriU, kTriL} {
		k := k
		add(&tmpl{method: "TriDense.SolveTo", pos: "t=X,b=X|XT:" + kindName[k], xs: []xspec{{k, false}}, shapes: squareOnly, nf: 4,
			call2: func(recv, xa, xb mat.Matrix, fv int) error {
				b := xb
				if fv&2 != 0 {
					b = xb.T()
				}
				return xa.(*mat.TriDense).SolveTo(recv.(*mat.Dense), fv&1 == 1, b)
			}})
	}
	return out
}

func vecSameOpTemplates() []*tmpl {
	var out []*tmpl
	add := func(t *tmpl) {
		t.recv = kVec
		if t.nf == 0 {
			t.nf = 1
		}
		out = append(out, t)
	}
	xv := func(x mat.Matrix) mat.Vector { return x.(mat.Vector) }
	tv := func(x mat.Matrix) mat.Vector { return x.(*mat.VecDense).TVec() }
	type binop struct {
		name string
		do   func(v *mat.VecDense, a, b mat.Vector)
		f    func(a, b float64) float64
	}
	for _, op := range []binop{
		{"AddVec", func(v *mat.VecDense, a, b mat.Vector) { v.AddVec(a, b) }, func(a, b float64) float64 { return a + b }},
		{"SubVec", func(v *mat.VecDense, a, b mat.Vector) { v.SubVec(a, b) }, func(a, b float64) float64 { return a - b }},
		{"MulElemVec", func(v *mat.VecDense, a, b mat.Vector) { v.MulElemVec(a, b) }, func(a, b float64) float64 { return a * b }},
		{"DivElemVec", func(v *mat.VecDense, a, b mat.Vector) { v.DivElemVec(a, b) }, func(a, b float64) float64 { return a / b }},
	} {
		op := op
		add(&tmpl{method: "VecDense." + op.name, pos: "a=XT,b=X", xs: xsVec[:1], vecArg: true,
			call2: func(recv, xa, xb mat.Matrix, fv int) error { op.do(recv.(*mat.VecDense), tv(xa), xv(xb)); return nil },
			ref:   func(c *refCtx, i, j int) float64 { return op.f(xv(c.x).AtVec(i), xv(c.x).AtVec(i)) }})
		add(&tmpl{method: "VecDense." + op.name, pos: "a=X,b=XT", xs: xsVec[:1], vecArg: true,
			call2: func(recv, xa, xb mat.Matrix, fv int) error { op.do(recv.(*mat.VecDense), xv(xa), tv(xb)); return nil },
			ref:   func(c *refCtx, i, j int) float64 { return op.f(xv(c.x).AtVec(i), xv(c.x).AtVec(i)) }})
	}
	add(&tmpl{method: "VecDense.AddScaledVec", pos: "a=XT,b=X", xs: xsVec[:1], vecArg: true,
		call2: func(recv, xa, xb mat.Matrix, fv int) error {
			recv.(*mat.VecDense).AddScaledVec(tv(xa), 2, xv(xb))
			return nil
		},
		ref: func(c *refCtx, i, j int) float64 { return xv(c.x).AtVec(i) + 2*xv(c.x).AtVec(i) }})
	one := func(maxN int) func(r, c int) [][2]int {
		return func(r, c int) (out [][2]int) {
			if r != 1 {
				return nil
			}
			for n := 1; n <= maxN; n++ {
				out = append(out, [2]int{n, 1})
			}
			return out
		}
	}
	// v (length 1) = Xᵀ X.
	add(&tmpl{method: "VecDense.MulVec", pos: "a=XT,b=X", xs: xsVec[:1], vecArg: true, shapes: one(5),
		call2: func(recv, xa, xb mat.Matrix, fv int) error { recv.(*mat.VecDense).MulVec(xa.T(), xv(xb)); return nil },
		ref: func(c *refCtx, i, j int) float64 {
			var s float64
			for l := 0; l < xv(c.x).Len(); l++ {
				s += xv(c.x).AtVec(l) * xv(c.x).AtVec(l)
			}
			return s
		}})
	// Least squares X (n×1) * v = X: v = [1].
	add(&tmpl{method: "VecDense.SolveVec", pos: "a=X,b=X", xs: xsVec[:1], vecArg: true, shapes: one(5),
		call2: func(recv, xa, xb mat.Matrix, fv int) error { return recv.(*mat.VecDense).SolveVec(xa, xv(xb)) }})
	return out
}

func symSameOpTemplates() []*tmpl {
	return []*tmpl{{recv: kSym, method: "SymDense.RankTwo", pos: "x=y", xs: xsVec[:1], vecArg: true, nf: 1,
		shapes: func(r, c int) [][2]int { return [][2]int{{r, 1}} },
		call2: func(recv, xa, xb mat.Matrix, fv int) error {
			s := recv.(*mat.SymDense)
			s.RankTwo(fSym(s.SymmetricDim(), 1), 2, xa.(mat.Vector), xb.(mat.Vector))
			return nil
		},
		ref: func(c *refCtx, i, j int) float64 {
			x := c.x.(mat.Vector)
			return rSym(c.rr, 1).At(i, j) + 2*(x.AtVec(i)*x.AtVec(j)+x.AtVec(j)*x.AtVec(i))
		}}}
}

// pickTemplates returns the templates whose method is in the list.
func pickTemplates(tms []*tmpl, methods ...string) []*tmpl {
	var out []*tmpl
	for _, t := range tms {
		for _, m := range methods {
			if t.method == m {
				out = append(out, t)
			}
		}
	}
	return out
}
