package main

import (
	"gonum.org/v1/gonum/mat"
)

func fSymmetric(fv, n, salt int) mat.Symmetric {
	if fv == fvBasic {
		return basicSym{fSym(n, salt)}
	}
	return fSym(n, salt)
}

func rSym(n, salt int) mat.Matrix { m, _ := rMat(fvSym, n, n, salt); return m }

func squareShapes(K int) func(r, c int) [][2]int {
	var out [][2]int
	for n := 1; n <= K; n++ {
		out = append(out, [2]int{n, n})
	}
	return func(r, c int) [][2]int { return out }
}

func symTemplates(K int) []*tmpl {
	var out []*tmpl
	add := func(t *tmpl) {
		t.recv = kSym
		if t.nf == 0 {
			t.nf = 1
		}
		out = append(out, t)
	}
	xsSym := []xspec{{kSym, false}}
	xsym := func(x mat.Matrix) mat.Symmetric { return x.(mat.Symmetric) }
	xv := func(x mat.Matrix) mat.Vector { return x.(mat.Vector) }
	colShape := func(r, c int) [][2]int { return [][2]int{{r, 1}} }

	add(&tmpl{method: "SymDense.AddSym", pos: "a", xs: xsSym, nf: 2,
		call: func(recv, x mat.Matrix, fv int) error {
			s := recv.(*mat.SymDense)
			s.AddSym(xsym(x), fSymmetric(fv, s.SymmetricDim(), 1))
			return nil
		},
		ref: func(c *refCtx, i, j int) float64 { return c.x.At(i, j) + rSym(c.rr, 1).At(i, j) }})
	add(&tmpl{method: "SymDense.AddSym", pos: "b", xs: xsSym, nf: 2,
		call: func(recv, x mat.Matrix, fv int) error {
			s := recv.(*mat.SymDense)
			s.AddSym(fSymmetric(fv, s.SymmetricDim(), 1), xsym(x))
			return nil
		},
		ref: func(c *refCtx, i, j int) float64 { return rSym(c.rr, 1).At(i, j) + c.x.At(i, j) }})
	add(&tmpl{method: "SymDense.AddSym", pos: "ab", xs: xsSym,
		call: func(recv, x mat.Matrix, fv int) error { recv.(*mat.SymDense).AddSym(xsym(x), xsym(x)); return nil },
		ref:  func(c *refCtx, i, j int) float64 { return c.x.At(i, j) + c.x.At(i, j) }})
	add(&tmpl{method: "SymDense.CopySym", pos: "a", xs: xsSym, shapes: squareShapes(K),
		call: func(recv, x mat.Matrix, fv int) error { recv.(*mat.SymDense).CopySym(xsym(x)); return nil },
		ref: func(c *refCtx, i, j int) float64 {
			n, _ := c.x.Dims()
			if i < n && j < n {
				return c.x.At(i, j)
			}
			return c.old(i, j)
		}})
	add(&tmpl{method: "SymDense.ScaleSym", pos: "a", xs: xsSym,
		call: func(recv, x mat.Matrix, fv int) error { recv.(*mat.SymDense).ScaleSym(3, xsym(x)); return nil },
		ref:  func(c *refCtx, i, j int) float64 { return 3 * c.x.At(i, j) }})

	add(&tmpl{method: "SymDense.SymRankOne", pos: "a", xs: xsSym, nf: 2,
		call: func(recv, x mat.Matrix, fv int) error {
			s := recv.(*mat.SymDense)
			s.SymRankOne(xsym(x), 2, fVector(fv, s.SymmetricDim(), 8))
			return nil
		},
		ref: func(c *refCtx, i, j int) float64 {
			return c.x.At(i, j) + 2*rVec(c.rr, 8).AtVec(i)*rVec(c.rr, 8).AtVec(j)
		}})
	add(&tmpl{method: "SymDense.SymRankOne", pos: "x", xs: xsVec, vecArg: true, shapes: colShape, nf: 2,
		call: func(recv, x mat.Matrix, fv int) error {
			s := recv.(*mat.SymDense)
			s.SymRankOne(fSymmetric(fv, s.SymmetricDim(), 1), 2, xv(x))
			return nil
		},
		ref: func(c *refCtx, i, j int) float64 { return rSym(c.rr, 1).At(i, j) + 2*xv(c.x).AtVec(i)*xv(c.x).AtVec(j) }})
	add(&tmpl{method: "SymDense.SymRankOne", pos: "a=recv,x", xs: xsVec, vecArg: true, shapes: colShape,
		call: func(recv, x mat.Matrix, fv int) error {
			s := recv.(*mat.SymDense)
			s.SymRankOne(s, 2, xv(x))
			return nil
		},
		ref: func(c *refCtx, i, j int) float64 { return c.old(i, j) + 2*xv(c.x).AtVec(i)*xv(c.x).AtVec(j) }})

	xxT := func(x mat.Matrix, i, j int) float64 {
		_, k := x.Dims()
		var s float64
		for l := 0; l < k; l++ {
			s += x.At(i, l) * x.At(j, l)
		}
		return s
	}
	nByK := func(r, c int) (out [][2]int) {
		for k := 1; k <= K; k++ {
			out = append(out, [2]int{r, k})
		}
		return out
	}
	add(&tmpl{method: "SymDense.SymRankK", pos: "a", xs: xsSym, nf: 2,
		call: func(recv, x mat.Matrix, fv int) error {
			s := recv.(*mat.SymDense)
			f, _ := fMat(fv, s.SymmetricDim(), 2, 3)
			s.SymRankK(xsym(x), 2, f)
			return nil
		},
		ref: func(c *refCtx, i, j int) float64 { return c.x.At(i, j) + 2*xxT(rDense(c.rr, 2, 3), i, j) }})
	add(&tmpl{method: "SymDense.SymRankK", pos: "x", xs: xsMat, shapes: nByK, nf: 2,
		call: func(recv, x mat.Matrix, fv int) error {
			s := recv.(*mat.SymDense)
			s.SymRankK(fSymmetric(fv, s.SymmetricDim(), 1), 2, x)
			return nil
		},
		ref: func(c *refCtx, i, j int) float64 { return rSym(c.rr, 1).At(i, j) + 2*xxT(c.x, i, j) }})
	add(&tmpl{method: "SymDense.SymRankK", pos: "a=recv,x", xs: xsMat, shapes: nByK,
		call: func(recv, x mat.Matrix, fv int) error {
			s := recv.(*mat.SymDense)
			s.SymRankK(s, 2, x)
			return nil
		},
		ref: func(c *refCtx, i, j int) float64 { return c.old(i, j) + 2*xxT(c.x, i, j) }})
	add(&tmpl{method: "SymDense.SymOuterK", pos: "x", xs: xsMat, shapes: nByK,
		call: func(recv, x mat.Matrix, fv int) error { recv.(*mat.SymDense).SymOuterK(2, x); return nil },
		ref:  func(c *refCtx, i, j int) float64 { return 2 * xxT(c.x, i, j) }})

	add(&tmpl{method: "SymDense.RankTwo", pos: "a", xs: xsSym, nf: 2,
		call: func(recv, x mat.Matrix, fv int) error {
			s := recv.(*mat.SymDense)
			n := s.SymmetricDim()
			s.RankTwo(xsym(x), 2, fVector(fv, n, 8), fVector(fv, n, 9))
			return nil
		},
		ref: func(c *refCtx, i, j int) float64 {
			xx, yy := rVec(c.rr, 8), rVec(c.rr, 9)
			return c.x.At(i, j) + 2*(xx.AtVec(i)*yy.AtVec(j)+yy.AtVec(i)*xx.AtVec(j))
		}})
	add(&tmpl{method: "SymDense.RankTwo", pos: "x", xs: xsVec, vecArg: true, shapes: colShape, nf: 2,
		call: func(recv, x mat.Matrix, fv int) error {
			s := recv.(*mat.SymDense)
			n := s.SymmetricDim()
			s.RankTwo(fSymmetric(fv, n, 1), 2, xv(x), fVec(n, 9))
			return nil
		},
		ref: func(c *refCtx, i, j int) float64 {
			xx, yy := xv(c.x), rVec(c.rr, 9)
			return rSym(c.rr, 1).At(i, j) + 2*(xx.AtVec(i)*yy.AtVec(j)+yy.AtVec(i)*xx.AtVec(j))
		}})
	add(&tmpl{method: "SymDense.RankTwo", pos: "y", xs: xsVec, vecArg: true, shapes: colShape, nf: 2,
		call: func(recv, x mat.Matrix, fv int) error {
			s := recv.(*mat.SymDense)
			n := s.SymmetricDim()
			s.RankTwo(fSymmetric(fv, n, 1), 2, fVec(n, 8), xv(x))
			return nil
		},
		ref: func(c *refCtx, i, j int) float64 {
			xx, yy := rVec(c.rr, 8), xv(c.x)
			return rSym(c.rr, 1).At(i, j) + 2*(xx.AtVec(i)*yy.AtVec(j)+yy.AtVec(i)*xx.AtVec(j))
		}})
	add(&tmpl{method: "SymDense.RankTwo", pos: "a=recv,x", xs: xsVec, vecArg: true, shapes: colShape,
		call: func(recv, x mat.Matrix, fv int) error {
			s := recv.(*mat.SymDense)
			s.RankTwo(s, 2, xv(x), fVec(s.SymmetricDim(), 9))
			return nil
		},
		ref: func(c *refCtx, i, j int) float64 {
			xx, yy := xv(c.x), rVec(c.rr, 9)
			return c.old(i, j) + 2*(xx.AtVec(i)*yy.AtVec(j)+yy.AtVec(i)*xx.AtVec(j))
		}})

	subset := func(n, na int) []int {
		set := make([]int, n)
		for i := range set {
			set[i] = (2*i + 1) % na
		}
		return set
	}
	add(&tmpl{method: "SymDense.SubsetSym", pos: "a", xs: xsSym, shapes: squareShapes(K),
		call: func(recv, x mat.Matrix, fv int) error {
			s := recv.(*mat.SymDense)
			s.SubsetSym(xsym(x), subset(s.SymmetricDim(), xsym(x).SymmetricDim()))
			return nil
		},
		ref: func(c *refCtx, i, j int) float64 {
			na, _ := c.x.Dims()
			set := subset(c.rr, na)
			return c.x.At(set[i], set[j])
		}})
	return out
}

func triTemplates(K int, rk kind) []*tmpl {
	var out []*tmpl
	add := func(t *tmpl) {
		t.recv = rk
		if t.nf == 0 {
			t.nf = 1
		}
		out = append(out, t)
	}
	other := kTriL
	tk := mat.Upper
	name := "TriDense[Upper]."
	if rk == kTriL {
		other, tk, name = kTriU, mat.Lower, "TriDense[Lower]."
	}
	// A Triangular-typed parameter must have the receiver's kind: the same
	// kind untransposed or the other kind under TTri().
	xsTri := []xspec{{rk, false}, {other, true}}
	xt := func(x mat.Matrix) mat.Triangular { return x.(mat.Triangular) }
	fT := func(fv, n, salt int) mat.Triangular {
		if fv == fvBasic {
			return basicTri{fTri(n, tk, salt)}
		}
		return fTri(n, tk, salt)
	}
	rT := func(n, salt int) mat.Matrix {
		k := rkey{-2 - int(rk), n, n, salt}
		if m, ok := rcache[k]; ok {
			return m
		}
		m := fTri(n, tk, salt)
		rcache[k] = m
		return m
	}
	dot := func(a, b mat.Matrix, i, j int) float64 {
		_, k := a.Dims()
		var s float64
		for l := 0; l < k; l++ {
			s += a.At(i, l) * b.At(l, j)
		}
		return s
	}

	add(&tmpl{method: name + "Copy", pos: "a", xs: xsMat[:7], shapes: allShapes(K),
		call: func(recv, x mat.Matrix, fv int) error { recv.(*mat.TriDense).Copy(x); return nil },
		ref: func(c *refCtx, i, j int) float64 {
			xr, xc := c.x.Dims()
			if i < xr && j < xc {
				return c.x.At(i, j)
			}
			return c.old(i, j)
		}})
	add(&tmpl{method: name + "ScaleTri", pos: "a", xs: xsTri, triArg: true,
		call: func(recv, x mat.Matrix, fv int) error { recv.(*mat.TriDense).ScaleTri(3, xt(x)); return nil },
		ref:  func(c *refCtx, i, j int) float64 { return 3 * c.x.At(i, j) }})
	add(&tmpl{method: name + "InverseTri", pos: "a", xs: xsTri, triArg: true,
		call: func(recv, x mat.Matrix, fv int) error { return recv.(*mat.TriDense).InverseTri(xt(x)) }})
	add(&tmpl{method: name + "MulTri", pos: "a", xs: xsTri, triArg: true, nf: 2,
		call: func(recv, x mat.Matrix, fv int) error {
			t := recv.(*mat.TriDense)
			n, _ := t.Dims()
			t.MulTri(xt(x), fT(fv, n, 2))
			return nil
		},
		ref: func(c *refCtx, i, j int) float64 { return dot(c.x, rT(c.rr, 2), i, j) }})
	add(&tmpl{method: name + "MulTri", pos: "b", xs: xsTri, triArg: true, nf: 2,
		call: func(recv, x mat.Matrix, fv int) error {
			t := recv.(*mat.TriDense)
			n, _ := t.Dims()
			t.MulTri(fT(fv, n, 2), xt(x))
			return nil
		},
		ref: func(c *refCtx, i, j int) float64 { return dot(rT(c.rr, 2), c.x, i, j) }})
	add(&tmpl{method: name + "MulTri", pos: "ab", xs: xsTri, triArg: true,
		call: func(recv, x mat.Matrix, fv int) error { recv.(*mat.TriDense).MulTri(xt(x), xt(x)); return nil },
		ref:  func(c *refCtx, i, j int) float64 { return dot(c.x, c.x, i, j) }})
	return out
}
