package main

import (
	"errors"
	"fmt"
	"math"
	"os"
	"sort"
	"strings"

	"gonum.org/v1/gonum/internal/verif/vlib"
	"gonum.org/v1/gonum/mat"
)

// xspec is one way the aliased operand is presented: its concrete kind and
// whether it is passed under T() / TVec() / TTri().
type xspec struct {
	k     kind
	trans bool
}

// tmpl is one (method, argument position of the alias) combination.
type tmpl struct {
	recv   kind
	method string // "Dense.Add"
	pos    string // which parameter(s) the alias occupies
	xs     []xspec
	vecArg bool // the alias goes into a Vector-typed parameter (transposition by TVec)
	triArg bool // the alias goes into a Triangular-typed parameter (transposition by TTri)
	// shapes lists the dimensions of the alias *expression* (after transposition)
	// admissible for a receiver of r×c; nil means "same as the receiver".
	shapes func(r, c int) [][2]int
	nf     int // number of variants of the other (fresh, unaliased) operands
	// call performs the method; it returns errSkip (before touching anything)
	// when the variant does not apply to the shapes.
	call func(recv, x mat.Matrix, fv int) error
	// call2, when non-nil, replaces call: the method takes the same operand
	// object in two positions (xa and xb are the very same value in the aliased
	// run; the method applies T() to one of them itself). In the unaliased run
	// xa and xb are the same view of two different private copies, so a
	// shortcut keyed on object identity cannot hide behind the twin.
	call2 func(recv, xa, xb mat.Matrix, fv int) error
	// ref, when non-nil, is the definition of receiver element (i,j) in terms
	// of the argument values before the call.
	ref func(c *refCtx, i, j int) float64

	// copySem: Copy-like method documented as "similar to the built-in copy".
	// For an untransposed Dense/VecDense source it must never panic and must
	// behave as a copy through a temporary.
	copySem bool
	// identTPanics: m.M(m.T()) is documented to panic (doc.go: Copy).
	identTPanics bool
	// verify, when non-nil, checks the unaliased result against a definition
	// that is not an element-wise closed form (e.g. the residual of a solve);
	// it returns a non-empty message on failure.
	verify func(c *refCtx, res func(i, j int) float64) string
	// noOperand: the method has no matrix operand besides its own private
	// storage (the ...To extractors of the factorization types); the
	// destination window is judged against ref only.
	noOperand bool
	// thinFv marks fresh-operand variants that the quick tier runs only on
	// window pairs whose address ranges intersect (the thorough tier runs them
	// on every pair).
	thinFv func(fv int) bool
	// noSamePointer: do not additionally pass the window of identical geometry
	// as the very same pointer (selfop Solve: m.Solve(m, m) takes the a == b
	// shortcut and returns the exact identity, while the unaliased twin solves
	// numerically; that case is covered as Solve(ab) in group dense).
	noSamePointer bool
}

type refCtx struct {
	x      mat.Matrix // the alias expression over an unaliased copy, values as before the call
	fv     int
	rr, rc int
	old    func(i, j int) float64 // receiver element before the call
}

var errSkip = errors.New("variant not applicable")

// Debugging aid (reporting only, never changes enumeration or verdicts):
// C05_DEBUG_CLASS=<substring> prints the first failures of matching classes
// to stderr.
var (
	dbgClass = os.Getenv("C05_DEBUG_CLASS")
	dbgLeft  = 30
)

// rel is the ground-truth relation between receiver and operand windows,
// computed from sets of backing indices only.
type rel uint8

const (
	relIdent      rel = iota // the very same value (pointer identity, possibly under transposition)
	relDisjRange             // address ranges of the data slices do not intersect
	relDisjElems             // ranges intersect, same stride, rectangles share no element
	relOverlap               // referenced elements intersect (and not pointer-identical)
	relRectOnly              // rectangles intersect but only through an unreferenced triangle: don't-care
	relDiffStride            // ranges intersect, strides differ, no shared element: don't-care ("assume the worst")
	nRel
)

var relName = [...]string{"ident", "disjoint-range", "disjoint-elems", "overlap", "tri-only", "diff-stride"}

func relation(rv, ov *view, ident bool) rel {
	switch {
	case ident:
		return relIdent
	case !(rv.lo < ov.hi && ov.lo < rv.hi):
		return relDisjRange
	case rv.used&ov.used != 0:
		return relOverlap
	case rv.rect&ov.rect != 0:
		return relRectOnly
	case rv.stride != ov.stride:
		return relDiffStride
	}
	return relDisjElems
}

// Outcomes per relation.
const (
	outOK     = iota // returned, storage as the unaliased run predicts
	outPanic         // panicked with a mat region error, storage untouched
	outBenign        // relOverlap only: returned, and the result is the value-semantics one
	outBad           // violation
	nOut
)

var outName = [...]string{"ok", "region-panic", "undetected-but-correct", "VIOLATION"}

type result struct {
	panicked bool
	region   bool
	pval     string
	err      error
}

func invoke(f func() error) (r result) {
	defer func() {
		if e := recover(); e != nil {
			r.panicked = true
			switch e := e.(type) {
			case string:
				r.pval = e
			case error:
				r.pval = e.Error()
			default:
				r.pval = fmt.Sprint(e)
			}
			r.region = strings.HasPrefix(r.pval, "mat: bad region")
		}
	}()
	r.err = f()
	return r
}

// caseRun accumulates what happened inside one Case (one template × one
// receiver window, all operand windows).
type caseRun struct {
	t      *vlib.T
	s      *space
	tm     *tmpl
	rv     *view
	counts [nRel][nOut]int64
	calls  int64
	perCls map[string]int
	benign int64
	// errCalls: calls whose unaliased twin returned an error; softDiffs: of
	// those with an undefined-contents error, how many left different bits in
	// the receiver (don't-care, counted only).
	errCalls, softDiffs int64
	quick               bool
	benignBy            map[string]int64
}

// undefinedOnError reports whether the receiver contents are undefined after
// err: any error other than a finite mat.Condition.
func undefinedOnError(err error) bool {
	if err == nil {
		return false
	}
	var cond mat.Condition
	if errors.As(err, &cond) {
		return math.IsInf(float64(cond), 0) || math.IsNaN(float64(cond))
	}
	return true
}

func sameBits(a, b []float64) int {
	for i := range a {
		if math.Float64bits(a[i]) != math.Float64bits(b[i]) {
			return i
		}
	}
	return -1
}

func transposeOf(x mat.Matrix, tm *tmpl) mat.Matrix {
	switch {
	case tm.vecArg:
		return x.(*mat.VecDense).TVec()
	case tm.triArg:
		return x.(*mat.TriDense).TTri()
	}
	return x.T()
}

func (c *caseRun) fail(kindOfFailure string, ov *view, trans, ident bool, fv int, r rel, format string, a ...any) {
	name := ".T()"
	switch {
	case c.tm.vecArg:
		name = ".TVec()"
	case c.tm.triArg:
		name = ".TTri()"
	}
	c.failNamed(kindOfFailure, ov, trans, name, ident, fv, r, format, a...)
}

func (c *caseRun) failNamed(kindOfFailure string, ov *view, trans bool, transName string, ident bool, fv int, r rel, format string, a ...any) {
	tm := c.tm
	x := kindName[ov.k]
	if trans {
		x += strings.ToUpper(strings.Trim(transName, ".()"))[:1]
	}
	if c.rv.stride != ov.stride && !ident {
		x += "@ds" // strides differ
	}
	class := rootCause(kindOfFailure, tm, c.rv, ov, trans, ident, fv, r)
	if class == "" {
		class = fmt.Sprintf("%s/%s/%s:%s", kindOfFailure, tm.method, tm.pos, x)
	}
	if c.perCls == nil {
		c.perCls = map[string]int{}
	}
	c.perCls[class]++
	if dbgClass != "" && strings.Contains(class, dbgClass) && dbgLeft > 0 {
		dbgLeft--
		fmt.Fprintf(os.Stderr, "C05DBG %s: %s(%s) recv=%s X=%s trans=%v same-pointer=%v fv=%d [%s]: %s\n", class, tm.method, tm.pos, c.rv, ov, trans, ident, fv, relName[r], fmt.Sprintf(format, a...))
	}
	if c.perCls[class] > 2 {
		return
	}
	mode := ""
	if ident {
		mode = " same-pointer"
	}
	sub := fmt.Sprintf("X=%s%s%s fv=%d", ov, map[bool]string{false: "", true: transName}[trans], mode, fv)
	msg := fmt.Sprintf("%s(%s) recv=%s %s [%s]: ", tm.method, tm.pos, c.rv, sub, relName[r]) + fmt.Sprintf(format, a...)
	c.t.SubViolation(sub, class, map[string]any{
		"method": tm.method, "pos": tm.pos, "recv": c.rv.String(), "x": ov.String(), "trans": trans,
		"same_pointer": ident, "fv": fv, "relation": relName[r], "space": c.s.name,
	}, "%s", msg)
}

// pair runs one call with the alias and the same call on unaliased copies,
// and judges the outcome against the set-based ground truth.
func (c *caseRun) pair(ov *view, trans, ident bool, fv int) {
	tm, rv, s := c.tm, c.rv, c.s
	L := s.L
	if c.quick && tm.thinFv != nil && tm.thinFv(fv) && relation(rv, ov, ident) == relDisjRange {
		return
	}

	// Aliased run: everything is a view of the one array `data`.
	data := make([]float64, 4*L)
	dataR, dataX, dataY := data[L:2*L:2*L], data[2*L:3*L:3*L], data[3*L:4*L:4*L]
	data = data[:L:L]
	copy(data, s.fill)
	recv := rv.build(data)
	var x mat.Matrix
	if ident {
		x = recv
	} else {
		x = ov.build(data)
	}
	if trans {
		x = transposeOf(x, tm)
	}
	a := invoke(func() error {
		if tm.call2 != nil {
			return tm.call2(recv, x, x, fv)
		}
		return tm.call(recv, x, fv)
	})
	if a.err == errSkip {
		return
	}
	c.calls++
	r := relation(rv, ov, ident)

	// Unaliased run: receiver and operand are the same views of two private
	// copies of the array.
	copy(dataR, s.fill)
	copy(dataX, s.fill)
	recv2 := rv.build(dataR)
	x2 := ov.build(dataX)
	if trans {
		x2 = transposeOf(x2, tm)
	}
	var want []float64
	rc := &refCtx{x: x2, fv: fv, rr: rv.r, rc: rv.c, old: func(i, j int) float64 { return s.fill[rv.start+i*rv.stride+j] }}
	if tm.ref != nil {
		want = make([]float64, rv.r*rv.c)
		for i := 0; i < rv.r; i++ {
			for j := 0; j < rv.c; j++ {
				if rv.used&(1<<uint(rv.start+i*rv.stride+j)) != 0 {
					want[i*rv.c+j] = tm.ref(rc, i, j)
				}
			}
		}
	}
	u := invoke(func() error {
		if tm.call2 != nil {
			copy(dataY, s.fill)
			x3 := ov.build(dataY)
			if trans {
				x3 = transposeOf(x3, tm)
			}
			return tm.call2(recv2, x2, x3, fv)
		}
		return tm.call(recv2, x2, fv)
	})
	if tm.call2 != nil && !u.panicked {
		if i := sameBits(dataY, s.fill); i >= 0 {
			c.counts[r][outBad]++
			c.fail("operand-mutated", ov, trans, ident, fv, r, "unaliased second operand changed at backing index %d: %v -> %v", i, s.fill[i], dataY[i])
			return
		}
	}
	if u.panicked {
		c.counts[r][outBad]++
		c.fail("unaliased-run-panicked", ov, trans, ident, fv, r, "the call on private copies panicked: %s", u.pval)
		return
	}
	if i := sameBits(dataX, s.fill); i >= 0 {
		c.counts[r][outBad]++
		c.fail("operand-mutated", ov, trans, ident, fv, r, "unaliased operand changed at backing index %d: %v -> %v", i, s.fill[i], dataX[i])
		return
	}
	for i := 0; i < L; i++ {
		if rv.rect&(1<<uint(i)) == 0 && math.Float64bits(dataR[i]) != math.Float64bits(s.fill[i]) {
			c.counts[r][outBad]++
			c.fail("write-outside-receiver", ov, trans, ident, fv, r, "unaliased receiver run wrote backing index %d outside its window", i)
			return
		}
	}
	if want != nil && u.err == nil {
		for i := 0; i < rv.r; i++ {
			for j := 0; j < rv.c; j++ {
				ix := rv.start + i*rv.stride + j
				if rv.used&(1<<uint(ix)) != 0 && math.Float64bits(dataR[ix]) != math.Float64bits(want[i*rv.c+j]) {
					c.counts[r][outBad]++
					c.fail("unaliased-result-wrong", ov, trans, ident, fv, r, "unaliased result (%d,%d)=%v, definition gives %v", i, j, dataR[ix], want[i*rv.c+j])
					return
				}
			}
		}
	}

	if tm.verify != nil && u.err == nil {
		if msg := tm.verify(rc, func(i, j int) float64 { return dataR[rv.start+i*rv.stride+j] }); msg != "" {
			c.counts[r][outBad]++
			c.fail("unaliased-result-wrong", ov, trans, ident, fv, r, "unaliased result violates the definition: %s", msg)
			return
		}
	}

	if a.panicked {
		if !a.region {
			c.counts[r][outBad]++
			c.fail("unexpected-panic", ov, trans, ident, fv, r, "panicked with %q (the unaliased call returns normally)", a.pval)
			return
		}
		bad := false
		switch r {
		case relIdent:
			if !(tm.identTPanics && trans) {
				bad = true
				c.fail("ident-panic", ov, trans, ident, fv, r, "receiver used as its own operand panicked with %q; doc.go: pointer identity after untransposing does not panic", a.pval)
			}
		case relDisjRange, relDisjElems:
			bad = true
			c.fail("false-overlap-panic", ov, trans, ident, fv, r, "panicked with %q although the windows share no element (recv range [%d,%d) stride %d, operand range [%d,%d) stride %d)", a.pval, rv.lo, rv.hi, rv.stride, ov.lo, ov.hi, ov.stride)
		case relOverlap:
			if tm.copySem && !trans && (ov.k == kDense || ov.k == kVec) {
				bad = true
				c.fail("copy-panic", ov, trans, ident, fv, r, "copy from an overlapping untransposed source panicked with %q", a.pval)
			}
		}
		if i := sameBits(data, s.fill); i >= 0 {
			bad = true
			c.fail("write-before-panic", ov, trans, ident, fv, r, "panicked with %q after modifying storage: backing index %d: %v -> %v (operand element: %v)", a.pval, i, s.fill[i], data[i], ov.used&(1<<uint(i)) != 0)
		}
		if bad {
			c.counts[r][outBad]++
		} else {
			c.counts[r][outPanic]++
		}
		return
	}

	// Returned normally: storage must be what the unaliased run predicts: the
	// receiver window holds the unaliased result, every other cell is untouched.
	firstBad, inRecv, softDiff := -1, false, false
	for i := 0; i < L; i++ {
		exp := s.fill[i]
		in := rv.rect&(1<<uint(i)) != 0
		if in {
			if undefinedOnError(u.err) {
				// Exactly singular (Condition == Inf, "the solve algorithm may have
				// completed early") or a non-Condition error: contents undefined.
				if math.Float64bits(data[i]) != math.Float64bits(dataR[i]) {
					softDiff = true
				}
				continue
			}
			// A finite Condition error is a warning: "the solve algorithm will
			// be performed", the result is delivered and must be the same.
			exp = dataR[i]
		}
		if math.Float64bits(data[i]) != math.Float64bits(exp) {
			firstBad, inRecv = i, in
			break
		}
	}
	if u.err != nil {
		c.errCalls++
		if softDiff {
			c.softDiffs++
		}
	}
	errMismatch := (a.err == nil) != (u.err == nil) || (a.err != nil && a.err.Error() != u.err.Error())
	if firstBad >= 0 || errMismatch {
		what := "silent-corruption"
		switch r {
		case relIdent:
			what = "ident-wrong-result"
		case relOverlap:
			if !inRecv && firstBad >= 0 && ov.used&(1<<uint(firstBad)) != 0 {
				what = "silent-corruption" // the operand was damaged outside the receiver window
			}
		default:
			what = "disjoint-wrong-result"
		}
		c.counts[r][outBad]++
		if firstBad >= 0 {
			exp := s.fill[firstBad]
			if inRecv {
				exp = dataR[firstBad]
			}
			c.fail(what, ov, trans, ident, fv, r, "returned without panic; backing index %d (inside receiver window: %v, operand element: %v) = %v, the call on unaliased copies gives %v (strides recv %d operand %d)",
				firstBad, inRecv, ov.used&(1<<uint(firstBad)) != 0, data[firstBad], exp, rv.stride, ov.stride)
		} else {
			c.fail(what, ov, trans, ident, fv, r, "error result differs: aliased %v, unaliased %v", a.err, u.err)
		}
		return
	}
	if r == relOverlap {
		key := tm.method + "/" + tm.pos + ":" + kindName[ov.k]
		if trans {
			key += "T"
		}
		if benignAllow != nil && !benignAllow[key] {
			// An undetected overlap that happens to be value-correct is accepted
			// only for the (method, position, operand kind) combinations where the
			// reference tree behaves so (benign_allow.go); anywhere else the
			// overlap check that used to panic has been lost.
			c.counts[r][outBad]++
			c.fail("overlap-not-detected", ov, trans, ident, fv, r, "returned without the region panic (result value-correct, operand overwritten inside the receiver window); this combination panics on the reference tree")
			return
		}
		if c.benignBy == nil {
			c.benignBy = map[string]int64{}
		}
		c.benignBy[key]++
		c.counts[r][outBenign]++
		return
	}
	c.counts[r][outOK]++
}

// run enumerates every operand window for the template and receiver.
func (c *caseRun) run() {
	tm, rv, s := c.tm, c.rv, c.s
	shapes := [][2]int{{rv.r, rv.c}}
	if tm.shapes != nil {
		shapes = tm.shapes(rv.r, rv.c)
	}
	if tm.noOperand {
		for fv := 0; fv < tm.nf && len(shapes) > 0; fv++ {
			c.pair(rv, false, true, fv)
		}
		shapes = nil
	}
	for _, sh := range shapes {
		for _, xs := range tm.xs {
			vr, vc := sh[0], sh[1]
			if xs.trans && !tm.vecArg {
				vr, vc = vc, vr
			}
			for _, ov := range s.views[vkey{xs.k, vr, vc}] {
				same := ov.sameGeom(rv) && ov.route == rv.route && !tm.noSamePointer
				for fv := 0; fv < tm.nf; fv++ {
					c.pair(ov, xs.trans, false, fv)
					if same {
						c.pair(ov, xs.trans, true, fv)
					}
				}
			}
		}
	}
	c.finish()
}

// finish reports the counters and the outcome class of the case.
func (c *caseRun) finish() {
	tm, rv := c.tm, c.rv
	t := c.t
	t.Count("calls", c.calls)
	if c.errCalls > 0 {
		t.Count("calls-with-error-return", c.errCalls)
	}
	if c.softDiffs > 0 {
		t.Count("singular-receiver-bits-differ(dont-care)", c.softDiffs)
	}
	var seen []string
	nontrivial := false
	for r := rel(0); r < nRel; r++ {
		for o := 0; o < nOut; o++ {
			if n := c.counts[r][o]; n > 0 {
				t.Count(relName[r]+":"+outName[o], n)
				seen = append(seen, relName[r]+":"+outName[o])
				if r != relDisjRange {
					nontrivial = true
				}
			}
		}
	}
	for _, k := range vlib.SortedKeys(c.benignBy) {
		t.Count("undetected-but-correct/"+k, c.benignBy[k])
	}
	for _, cls := range vlib.SortedKeys(c.perCls) {
		t.Count("V:"+cls, int64(c.perCls[cls]))
	}
	sort.Strings(seen)
	t.Outcome(tm.method + " " + strings.Join(seen, ","))
	if nontrivial {
		t.Nontrivial()
	}
	t.Detail(map[string]any{"method": tm.method, "pos": tm.pos, "recv": rv.String(), "calls": c.calls})
}

// gen registers one Case per (template, receiver window).
func gen(g *vlib.G, s *space, tms []*tmpl) {
	for _, tm := range tms {
		for _, rv := range s.recv[tm.recv] {
			if g.Stopped() {
				return
			}
			tm, rv := tm, rv
			g.Case(fmt.Sprintf("%s(%s) recv=%s", tm.method, tm.pos, rv), func(t *vlib.T) {
				c := &caseRun{t: t, s: s, tm: tm, rv: rv, quick: !g.Thorough()}
				c.run()
			})
		}
	}
}
