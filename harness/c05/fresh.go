package main

import (
	"gonum.org/v1/gonum/mat"
)

// Fresh (unaliased) operands: separately allocated, deterministic small
// non-zero integers.

func fval(i, j, salt int) float64 {
	v := float64((i*5+j*3+salt*7)%8 + 1)
	if (i+j+salt)%2 == 1 {
		v = -v
	}
	return v
}

func fDense(r, c, salt int) *mat.Dense {
	d := mat.NewDense(r, c, nil)
	for i := 0; i < r; i++ {
		for j := 0; j < c; j++ {
			d.Set(i, j, fval(i, j, salt))
		}
	}
	return d
}

// fDom is a strictly diagonally dominant (hence well conditioned,
// non-singular) r×c matrix (dominant "diagonal" i==j).
func fDom(r, c, salt int) *mat.Dense {
	d := mat.NewDense(r, c, nil)
	for i := 0; i < r; i++ {
		for j := 0; j < c; j++ {
			v := float64((i*2+j+salt)%3 - 1)
			if i == j {
				v = 8
			}
			d.Set(i, j, v)
		}
	}
	return d
}

func fVec(n, salt int) *mat.VecDense {
	v := mat.NewVecDense(n, nil)
	for i := 0; i < n; i++ {
		v.SetVec(i, fval(i, 2, salt))
	}
	return v
}

func fSym(n, salt int) *mat.SymDense {
	s := mat.NewSymDense(n, nil)
	for i := 0; i < n; i++ {
		for j := i; j < n; j++ {
			s.SetSym(i, j, fval(i, j, salt))
		}
	}
	return s
}

func fTri(n int, kind mat.TriKind, salt int) *mat.TriDense {
	t := mat.NewTriDense(n, kind, nil)
	for i := 0; i < n; i++ {
		for j := 0; j < n; j++ {
			if (kind == mat.Upper && i <= j) || (kind == mat.Lower && i >= j) {
				t.SetTri(i, j, fval(i, j, salt))
			}
		}
	}
	return t
}

// basic hides every Raw method and concrete type of a matrix, so that mat
// takes its generic At-based code paths for this operand.
type basic struct{ m mat.Matrix }

func (b basic) Dims() (int, int)    { return b.m.Dims() }
func (b basic) At(i, j int) float64 { return b.m.At(i, j) }
func (b basic) T() mat.Matrix       { return mat.Transpose{Matrix: b} }

type basicVec struct{ v mat.Vector }

func (b basicVec) Dims() (int, int)    { return b.v.Dims() }
func (b basicVec) At(i, j int) float64 { return b.v.At(i, j) }
func (b basicVec) T() mat.Matrix       { return mat.Transpose{Matrix: b} }
func (b basicVec) AtVec(i int) float64 { return b.v.AtVec(i) }
func (b basicVec) Len() int            { return b.v.Len() }

type basicSym struct{ s mat.Symmetric }

func (b basicSym) Dims() (int, int)    { return b.s.Dims() }
func (b basicSym) At(i, j int) float64 { return b.s.At(i, j) }
func (b basicSym) T() mat.Matrix       { return b }
func (b basicSym) SymmetricDim() int   { return b.s.SymmetricDim() }

type basicTri struct{ t mat.Triangular }

func (b basicTri) Dims() (int, int)             { return b.t.Dims() }
func (b basicTri) At(i, j int) float64          { return b.t.At(i, j) }
func (b basicTri) T() mat.Matrix                { return mat.Transpose{Matrix: b} }
func (b basicTri) Triangle() (int, mat.TriKind) { return b.t.Triangle() }
func (b basicTri) TTri() mat.Triangular         { return mat.TransposeTri{Triangular: b} }

// Fresh-operand variants for a general r×c matrix position.
const (
	fvDense  = iota // *mat.Dense
	fvBasic         // type without Raw methods
	fvSym           // *mat.SymDense (square only)
	fvTriU          // *mat.TriDense upper (square only)
	fvVec           // *mat.VecDense (single column only)
	fvDenseT        // a *mat.Dense under T()
	nfvAll
)

func fMat(fv, r, c, salt int) (mat.Matrix, bool) {
	switch fv {
	case fvDense:
		return fDense(r, c, salt), true
	case fvBasic:
		return basic{fDense(r, c, salt)}, true
	case fvSym:
		if r != c {
			return nil, false
		}
		return fSym(r, salt), true
	case fvTriU:
		if r != c {
			return nil, false
		}
		return fTri(r, mat.Upper, salt), true
	case fvVec:
		if c != 1 {
			return nil, false
		}
		return fVec(r, salt), true
	case fvDenseT:
		return fDense(c, r, salt).T(), true
	}
	return nil, false
}

func fVector(fv, n, salt int) mat.Vector {
	if fv == fvBasic {
		return basicVec{fVec(n, salt)}
	}
	return fVec(n, salt)
}

// Cached copies of the fresh operands for the reference computations only.
// They are never passed to gonum code, so they stay immutable.
type rkey struct{ fv, r, c, salt int }

var rcache = map[rkey]mat.Matrix{}

func rMat(fv, r, c, salt int) (mat.Matrix, bool) {
	k := rkey{fv, r, c, salt}
	if m, ok := rcache[k]; ok {
		return m, m != nil
	}
	m, ok := fMat(fv, r, c, salt)
	if !ok {
		m = nil
	}
	rcache[k] = m
	return m, ok
}

func rDense(r, c, salt int) mat.Matrix { m, _ := rMat(fvDense, r, c, salt); return m }

func rVec(n, salt int) *mat.VecDense {
	k := rkey{-1, n, 1, salt}
	if m, ok := rcache[k]; ok {
		return m.(*mat.VecDense)
	}
	v := fVec(n, salt)
	rcache[k] = v
	return v
}
