package main

import (
	"gonum.org/v1/gonum/mat"
)

var (
	xsMat = []xspec{
		{kDense, false}, {kDense, true},
		{kSym, false},
		{kTriU, false}, {kTriU, true}, {kTriL, false}, {kTriL, true},
		{kVec, false}, {kVec, true},
	}
	xsSquare = []xspec{
		{kDense, false}, {kDense, true},
		{kSym, false},
		{kTriU, false}, {kTriU, true}, {kTriL, false}, {kTriL, true},
	}
	xsVec = []xspec{{kVec, false}, {kVec, true}}
)

func squareOnly(r, c int) [][2]int {
	if r != c {
		return nil
	}
	return [][2]int{{r, c}}
}

func allShapes(K int) func(r, c int) [][2]int {
	var out [][2]int
	for a := 1; a <= K; a++ {
		for b := 1; b <= K; b++ {
			out = append(out, [2]int{a, b})
		}
	}
	return func(r, c int) [][2]int { return out }
}

func denseTemplates(K int) []*tmpl {
	var out []*tmpl
	add := func(t *tmpl) {
		t.recv = kDense
		if t.nf == 0 {
			t.nf = 1
		}
		out = append(out, t)
	}

	// Element-wise binary operations.
	type binop struct {
		name string
		do   func(m *mat.Dense, a, b mat.Matrix)
		f    func(a, b float64) float64
	}
	for _, op := range []binop{
		{"Add", func(m *mat.Dense, a, b mat.Matrix) { m.Add(a, b) }, func(a, b float64) float64 { return a + b }},
		{"Sub", func(m *mat.Dense, a, b mat.Matrix) { m.Sub(a, b) }, func(a, b float64) float64 { return a - b }},
		{"MulElem", func(m *mat.Dense, a, b mat.Matrix) { m.MulElem(a, b) }, func(a, b float64) float64 { return a * b }},
		{"DivElem", func(m *mat.Dense, a, b mat.Matrix) { m.DivElem(a, b) }, func(a, b float64) float64 { return a / b }},
	} {
		op := op
		add(&tmpl{method: "Dense." + op.name, pos: "a", xs: xsMat, nf: 4,
			call: func(recv, x mat.Matrix, fv int) error {
				m := recv.(*mat.Dense)
				r, c := m.Dims()
				f, ok := fMat(fv, r, c, 1)
				if !ok {
					return errSkip
				}
				op.do(m, x, f)
				return nil
			},
			ref: func(c *refCtx, i, j int) float64 {
				f, _ := rMat(c.fv, c.rr, c.rc, 1)
				return op.f(c.x.At(i, j), f.At(i, j))
			}})
		add(&tmpl{method: "Dense." + op.name, pos: "b", xs: xsMat, nf: 4,
			call: func(recv, x mat.Matrix, fv int) error {
				m := recv.(*mat.Dense)
				r, c := m.Dims()
				f, ok := fMat(fv, r, c, 1)
				if !ok {
					return errSkip
				}
				op.do(m, f, x)
				return nil
			},
			ref: func(c *refCtx, i, j int) float64 {
				f, _ := rMat(c.fv, c.rr, c.rc, 1)
				return op.f(f.At(i, j), c.x.At(i, j))
			}})
		add(&tmpl{method: "Dense." + op.name, pos: "ab", xs: xsMat,
			call: func(recv, x mat.Matrix, fv int) error {
				op.do(recv.(*mat.Dense), x, x)
				return nil
			},
			ref: func(c *refCtx, i, j int) float64 { return op.f(c.x.At(i, j), c.x.At(i, j)) }})
	}

	add(&tmpl{method: "Dense.Scale", pos: "a", xs: xsMat,
		call: func(recv, x mat.Matrix, fv int) error { recv.(*mat.Dense).Scale(3, x); return nil },
		ref:  func(c *refCtx, i, j int) float64 { return 3 * c.x.At(i, j) }})
	applyFn := func(i, j int, v float64) float64 { return 2*v + float64(10*i+j) }
	add(&tmpl{method: "Dense.Apply", pos: "a", xs: xsMat,
		call: func(recv, x mat.Matrix, fv int) error { recv.(*mat.Dense).Apply(applyFn, x); return nil },
		ref:  func(c *refCtx, i, j int) float64 { return applyFn(i, j, c.x.At(i, j)) }})

	add(&tmpl{method: "Dense.Copy", pos: "a", xs: xsMat, shapes: allShapes(K), copySem: true, identTPanics: true,
		call: func(recv, x mat.Matrix, fv int) error { recv.(*mat.Dense).Copy(x); return nil },
		ref: func(c *refCtx, i, j int) float64 {
			xr, xc := c.x.Dims()
			if i < xr && j < xc {
				return c.x.At(i, j)
			}
			return c.old(i, j)
		}})

	// Mul.
	dot := func(a, b mat.Matrix, i, j int) float64 {
		_, k := a.Dims()
		var s float64
		for l := 0; l < k; l++ {
			s += a.At(i, l) * b.At(l, j)
		}
		return s
	}
	add(&tmpl{method: "Dense.Mul", pos: "a", xs: xsMat, nf: nfvAll,
		shapes: func(r, c int) (out [][2]int) {
			for k := 1; k <= K; k++ {
				out = append(out, [2]int{r, k})
			}
			return out
		},
		call: func(recv, x mat.Matrix, fv int) error {
			m := recv.(*mat.Dense)
			_, c := m.Dims()
			_, k := x.Dims()
			f, ok := fMat(fv, k, c, 2)
			if !ok {
				return errSkip
			}
			m.Mul(x, f)
			return nil
		},
		ref: func(c *refCtx, i, j int) float64 {
			_, k := c.x.Dims()
			f, _ := rMat(c.fv, k, c.rc, 2)
			return dot(c.x, f, i, j)
		}})
	add(&tmpl{method: "Dense.Mul", pos: "b", xs: xsMat, nf: nfvAll,
		shapes: func(r, c int) (out [][2]int) {
			for k := 1; k <= K; k++ {
				out = append(out, [2]int{k, c})
			}
			return out
		},
		call: func(recv, x mat.Matrix, fv int) error {
			m := recv.(*mat.Dense)
			r, _ := m.Dims()
			k, _ := x.Dims()
			f, ok := fMat(fv, r, k, 2)
			if !ok {
				return errSkip
			}
			m.Mul(f, x)
			return nil
		},
		ref: func(c *refCtx, i, j int) float64 {
			k, _ := c.x.Dims()
			f, _ := rMat(c.fv, c.rr, k, 2)
			return dot(f, c.x, i, j)
		}})
	add(&tmpl{method: "Dense.Mul", pos: "ab", xs: xsSquare, shapes: squareOnly,
		call: func(recv, x mat.Matrix, fv int) error { recv.(*mat.Dense).Mul(x, x); return nil },
		ref:  func(c *refCtx, i, j int) float64 { return dot(c.x, c.x, i, j) }})

	// Product of three factors.
	add(&tmpl{method: "Dense.Product", pos: "0of3", xs: xsMat[:2],
		shapes: func(r, c int) (out [][2]int) {
			for k := 1; k <= K; k++ {
				out = append(out, [2]int{r, k})
			}
			return out
		},
		call: func(recv, x mat.Matrix, fv int) error {
			m := recv.(*mat.Dense)
			_, c := m.Dims()
			_, k := x.Dims()
			m.Product(x, fDense(k, k, 3), fDense(k, c, 4))
			return nil
		}})
	add(&tmpl{method: "Dense.Product", pos: "1of3", xs: xsMat[:2],
		shapes: func(r, c int) (out [][2]int) {
			for k := 1; k <= K; k++ {
				out = append(out, [2]int{k, k})
			}
			return out
		},
		call: func(recv, x mat.Matrix, fv int) error {
			m := recv.(*mat.Dense)
			r, c := m.Dims()
			k, _ := x.Dims()
			m.Product(fDense(r, k, 3), x, fDense(k, c, 4))
			return nil
		}})
	add(&tmpl{method: "Dense.Product", pos: "2of3", xs: xsMat[:2],
		shapes: func(r, c int) (out [][2]int) {
			for k := 1; k <= K; k++ {
				out = append(out, [2]int{k, c})
			}
			return out
		},
		call: func(recv, x mat.Matrix, fv int) error {
			m := recv.(*mat.Dense)
			r, _ := m.Dims()
			k, _ := x.Dims()
			m.Product(fDense(r, k, 3), fDense(k, k, 4), x)
			return nil
		}})

	// Square-matrix functions (differential oracle only: the same LAPACK code
	// runs on the same values in the same strides in both runs).
	add(&tmpl{method: "Dense.Inverse", pos: "a", xs: xsSquare, shapes: squareOnly,
		call: func(recv, x mat.Matrix, fv int) error { return recv.(*mat.Dense).Inverse(x) }})
	add(&tmpl{method: "Dense.Pow", pos: "a", xs: xsSquare, shapes: squareOnly, nf: 4,
		call: func(recv, x mat.Matrix, fv int) error { recv.(*mat.Dense).Pow(x, fv); return nil }})
	add(&tmpl{method: "Dense.Exp", pos: "a", xs: xsSquare, shapes: squareOnly,
		call: func(recv, x mat.Matrix, fv int) error { recv.(*mat.Dense).Exp(x); return nil }})

	// Solve: receiver r×c solves a (mm×r) * recv = b (mm×c).
	add(&tmpl{method: "Dense.Solve", pos: "a", xs: xsSquare, nf: 2,
		shapes: func(r, c int) (out [][2]int) {
			for mm := 1; mm <= K; mm++ {
				out = append(out, [2]int{mm, r})
			}
			return out
		},
		call: func(recv, x mat.Matrix, fv int) error {
			m := recv.(*mat.Dense)
			_, c := m.Dims()
			mm, _ := x.Dims()
			f, _ := fMat(fv, mm, c, 5)
			return m.Solve(x, f)
		}})
	add(&tmpl{method: "Dense.Solve", pos: "b", xs: xsMat, nf: 3,
		shapes: func(r, c int) (out [][2]int) {
			for mm := 1; mm <= K; mm++ {
				out = append(out, [2]int{mm, c})
			}
			return out
		},
		call: func(recv, x mat.Matrix, fv int) error {
			m := recv.(*mat.Dense)
			r, _ := m.Dims()
			mm, _ := x.Dims()
			var a mat.Matrix = fDom(mm, r, 6)
			switch fv {
			case 1:
				a = basic{a}
			case 2:
				if mm != r {
					return errSkip
				}
				t := mat.NewTriDense(r, mat.Upper, nil)
				t.Copy(a)
				a = t
			}
			return m.Solve(a, x)
		}})
	add(&tmpl{method: "Dense.Solve", pos: "ab", xs: xsSquare, shapes: squareOnly,
		call: func(recv, x mat.Matrix, fv int) error { return recv.(*mat.Dense).Solve(x, x) }})

	// Kronecker.
	add(&tmpl{method: "Dense.Kronecker", pos: "a", xs: xsMat, nf: 2,
		shapes: func(r, c int) (out [][2]int) {
			for ra := 1; ra <= r; ra++ {
				for ca := 1; ca <= c; ca++ {
					if r%ra == 0 && c%ca == 0 {
						out = append(out, [2]int{ra, ca})
					}
				}
			}
			return out
		},
		call: func(recv, x mat.Matrix, fv int) error {
			m := recv.(*mat.Dense)
			r, c := m.Dims()
			ra, ca := x.Dims()
			f, _ := fMat(fv, r/ra, c/ca, 7)
			m.Kronecker(x, f)
			return nil
		},
		ref: func(c *refCtx, i, j int) float64 {
			ra, ca := c.x.Dims()
			rb, cb := c.rr/ra, c.rc/ca
			f, _ := rMat(c.fv, rb, cb, 7)
			return c.x.At(i/rb, j/cb) * f.At(i%rb, j%cb)
		}})
	add(&tmpl{method: "Dense.Kronecker", pos: "b", xs: xsMat, nf: 2,
		shapes: func(r, c int) (out [][2]int) {
			for rb := 1; rb <= r; rb++ {
				for cb := 1; cb <= c; cb++ {
					if r%rb == 0 && c%cb == 0 {
						out = append(out, [2]int{rb, cb})
					}
				}
			}
			return out
		},
		call: func(recv, x mat.Matrix, fv int) error {
			m := recv.(*mat.Dense)
			r, c := m.Dims()
			rb, cb := x.Dims()
			f, _ := fMat(fv, r/rb, c/cb, 7)
			m.Kronecker(f, x)
			return nil
		},
		ref: func(c *refCtx, i, j int) float64 {
			rb, cb := c.x.Dims()
			f, _ := rMat(c.fv, c.rr/rb, c.rc/cb, 7)
			return f.At(i/rb, j/cb) * c.x.At(i%rb, j%cb)
		}})
	add(&tmpl{method: "Dense.Kronecker", pos: "ab", xs: xsMat,
		shapes: func(r, c int) (out [][2]int) {
			for ra := 1; ra*ra <= r; ra++ {
				for ca := 1; ca*ca <= c; ca++ {
					if ra*ra == r && ca*ca == c {
						out = append(out, [2]int{ra, ca})
					}
				}
			}
			return out
		},
		call: func(recv, x mat.Matrix, fv int) error { recv.(*mat.Dense).Kronecker(x, x); return nil },
		ref: func(c *refCtx, i, j int) float64 {
			rb, cb := c.x.Dims()
			return c.x.At(i/rb, j/cb) * c.x.At(i%rb, j%cb)
		}})

	// RankOne / Outer.
	add(&tmpl{method: "Dense.RankOne", pos: "a", xs: xsSquare, nf: 2,
		call: func(recv, x mat.Matrix, fv int) error {
			m := recv.(*mat.Dense)
			r, c := m.Dims()
			m.RankOne(x, 2, fVector(fv, r, 8), fVector(fv, c, 9))
			return nil
		},
		ref: func(c *refCtx, i, j int) float64 {
			return c.x.At(i, j) + 2*rVec(c.rr, 8).AtVec(i)*rVec(c.rc, 9).AtVec(j)
		}})
	colShape := func(r, c int) [][2]int { return [][2]int{{r, 1}} }
	rowShape := func(r, c int) [][2]int { return [][2]int{{c, 1}} }
	add(&tmpl{method: "Dense.RankOne", pos: "x", xs: xsVec, vecArg: true, shapes: colShape, nf: 2,
		call: func(recv, x mat.Matrix, fv int) error {
			m := recv.(*mat.Dense)
			r, c := m.Dims()
			f, _ := fMat(fv, r, c, 10)
			m.RankOne(f, 2, x.(mat.Vector), fVec(c, 9))
			return nil
		},
		ref: func(c *refCtx, i, j int) float64 {
			return rDense(c.rr, c.rc, 10).At(i, j) + 2*c.x.(mat.Vector).AtVec(i)*rVec(c.rc, 9).AtVec(j)
		}})
	add(&tmpl{method: "Dense.RankOne", pos: "y", xs: xsVec, vecArg: true, shapes: rowShape, nf: 2,
		call: func(recv, x mat.Matrix, fv int) error {
			m := recv.(*mat.Dense)
			r, c := m.Dims()
			f, _ := fMat(fv, r, c, 10)
			m.RankOne(f, 2, fVec(r, 8), x.(mat.Vector))
			return nil
		},
		ref: func(c *refCtx, i, j int) float64 {
			return rDense(c.rr, c.rc, 10).At(i, j) + 2*rVec(c.rr, 8).AtVec(i)*c.x.(mat.Vector).AtVec(j)
		}})
	add(&tmpl{method: "Dense.RankOne", pos: "a=recv,x", xs: xsVec, vecArg: true, shapes: colShape,
		call: func(recv, x mat.Matrix, fv int) error {
			m := recv.(*mat.Dense)
			_, c := m.Dims()
			m.RankOne(m, 2, x.(mat.Vector), fVec(c, 9))
			return nil
		},
		ref: func(c *refCtx, i, j int) float64 {
			return c.old(i, j) + 2*c.x.(mat.Vector).AtVec(i)*rVec(c.rc, 9).AtVec(j)
		}})
	add(&tmpl{method: "Dense.Outer", pos: "x", xs: xsVec, vecArg: true, shapes: colShape, nf: 2,
		call: func(recv, x mat.Matrix, fv int) error {
			m := recv.(*mat.Dense)
			_, c := m.Dims()
			m.Outer(2, x.(mat.Vector), fVector(fv, c, 9))
			return nil
		},
		ref: func(c *refCtx, i, j int) float64 { return 2 * c.x.(mat.Vector).AtVec(i) * rVec(c.rc, 9).AtVec(j) }})
	add(&tmpl{method: "Dense.Outer", pos: "y", xs: xsVec, vecArg: true, shapes: rowShape, nf: 2,
		call: func(recv, x mat.Matrix, fv int) error {
			m := recv.(*mat.Dense)
			r, _ := m.Dims()
			m.Outer(2, fVector(fv, r, 8), x.(mat.Vector))
			return nil
		},
		ref: func(c *refCtx, i, j int) float64 { return 2 * rVec(c.rr, 8).AtVec(i) * c.x.(mat.Vector).AtVec(j) }})
	add(&tmpl{method: "Dense.Outer", pos: "xy", xs: xsVec, vecArg: true,
		shapes: func(r, c int) [][2]int {
			if r != c {
				return nil
			}
			return [][2]int{{r, 1}}
		},
		call: func(recv, x mat.Matrix, fv int) error {
			recv.(*mat.Dense).Outer(2, x.(mat.Vector), x.(mat.Vector))
			return nil
		},
		ref: func(c *refCtx, i, j int) float64 {
			return 2 * c.x.(mat.Vector).AtVec(i) * c.x.(mat.Vector).AtVec(j)
		}})

	// Stack / Augment.
	add(&tmpl{method: "Dense.Stack", pos: "a", xs: xsMat, nf: 2,
		shapes: func(r, c int) (out [][2]int) {
			for ar := 1; ar < r; ar++ {
				out = append(out, [2]int{ar, c})
			}
			return out
		},
		call: func(recv, x mat.Matrix, fv int) error {
			m := recv.(*mat.Dense)
			r, c := m.Dims()
			ar, _ := x.Dims()
			f, _ := fMat(fv, r-ar, c, 11)
			m.Stack(x, f)
			return nil
		},
		ref: func(c *refCtx, i, j int) float64 {
			ar, _ := c.x.Dims()
			if i < ar {
				return c.x.At(i, j)
			}
			return rDense(c.rr-ar, c.rc, 11).At(i-ar, j)
		}})
	add(&tmpl{method: "Dense.Stack", pos: "b", xs: xsMat, nf: 2,
		shapes: func(r, c int) (out [][2]int) {
			for br := 1; br < r; br++ {
				out = append(out, [2]int{br, c})
			}
			return out
		},
		call: func(recv, x mat.Matrix, fv int) error {
			m := recv.(*mat.Dense)
			r, c := m.Dims()
			br, _ := x.Dims()
			f, _ := fMat(fv, r-br, c, 11)
			m.Stack(f, x)
			return nil
		},
		ref: func(c *refCtx, i, j int) float64 {
			br, _ := c.x.Dims()
			if i < c.rr-br {
				return rDense(c.rr-br, c.rc, 11).At(i, j)
			}
			return c.x.At(i-(c.rr-br), j)
		}})
	add(&tmpl{method: "Dense.Augment", pos: "a", xs: xsMat, nf: 2,
		shapes: func(r, c int) (out [][2]int) {
			for ac := 1; ac < c; ac++ {
				out = append(out, [2]int{r, ac})
			}
			return out
		},
		call: func(recv, x mat.Matrix, fv int) error {
			m := recv.(*mat.Dense)
			r, c := m.Dims()
			_, ac := x.Dims()
			f, _ := fMat(fv, r, c-ac, 11)
			m.Augment(x, f)
			return nil
		},
		ref: func(c *refCtx, i, j int) float64 {
			_, ac := c.x.Dims()
			if j < ac {
				return c.x.At(i, j)
			}
			return rDense(c.rr, c.rc-ac, 11).At(i, j-ac)
		}})
	add(&tmpl{method: "Dense.Augment", pos: "b", xs: xsMat, nf: 2,
		shapes: func(r, c int) (out [][2]int) {
			for bc := 1; bc < c; bc++ {
				out = append(out, [2]int{r, bc})
			}
			return out
		},
		call: func(recv, x mat.Matrix, fv int) error {
			m := recv.(*mat.Dense)
			r, c := m.Dims()
			_, bc := x.Dims()
			f, _ := fMat(fv, r, c-bc, 11)
			m.Augment(f, x)
			return nil
		},
		ref: func(c *refCtx, i, j int) float64 {
			_, bc := c.x.Dims()
			if j < c.rc-bc {
				return rDense(c.rr, c.rc-bc, 11).At(i, j)
			}
			return c.x.At(i, j-(c.rc-bc))
		}})
	return out
}
