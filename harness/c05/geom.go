package main

import (
	"fmt"

	"gonum.org/v1/gonum/blas"
	"gonum.org/v1/gonum/blas/blas64"
	"gonum.org/v1/gonum/mat"
)

// kind is the concrete mat type a window of the backing array is presented as.
type kind uint8

const (
	kDense kind = iota
	kVec
	kSym
	kTriU
	kTriL
	nKinds
)

var kindName = [...]string{"Dense", "Vec", "Sym", "TriU", "TriL"}

// parent is one reshape NewDense(rows, cols, data[base:base+rows*cols]) of the
// single backing array. Its stride is cols.
type parent struct {
	id               int
	base, rows, cols int
}

// Construction routes of a view.
const (
	rtParent  = iota // window of a parent Dense: Slice / ColView+SliceVec / RowView+SliceVec / SetRawSymmetric / SetRawTriangular
	rtNewVec         // NewVecDense(n, data[off:off+n])                      (inc 1)
	rtSliceV         // NewVecDense(vecLen, data[:vecLen]).SliceVec(off, off+n) (inc 1)
	rtColView        // NewDense(R, inc, data[:R*inc]).ColView(off%inc).SliceVec(off/inc, off/inc+n)
	rtRawVec         // SetRawVector(blas64.Vector{N: n, Inc: inc, Data: data[off:off+(n-1)*inc+1]})
	rtRowView        // NewDense(4, 4, data[:16]).RowView(off/4).SliceVec(off%4, off%4+n)    (inc 1)
)

var routeName = [...]string{"", "NewVec", "SliceVec", "ColView", "RawVec", "RowView"}

// view is one window of the backing array presented as a mat value.
type view struct {
	k      kind
	par    parent
	i0, j0 int // origin inside the parent (rtParent)
	r, c   int // dimensions as a matrix (Vec: n×1)
	rowvec bool
	route  int

	start  int // index in the backing array of element (0,0)
	stride int // row stride (Vec: increment)

	// Ground truth, from index sets only.
	used   uint64 // backing indices of the elements the type references
	rect   uint64 // backing indices of the whole r×c rectangle
	lo, hi int    // address range [lo,hi) of the data slice
}

func (v *view) finish() {
	v.lo = v.start
	v.hi = v.start + (v.r-1)*v.stride + v.c
	v.used, v.rect = 0, 0
	for i := 0; i < v.r; i++ {
		for j := 0; j < v.c; j++ {
			b := uint64(1) << uint(v.start+i*v.stride+j)
			v.rect |= b
			switch v.k {
			case kSym, kTriU:
				if i <= j {
					v.used |= b
				}
			case kTriL:
				if i >= j {
					v.used |= b
				}
			default:
				v.used |= b
			}
		}
	}
}

func (v *view) String() string {
	if v.route != rtParent {
		return fmt.Sprintf("Vec(%s off=%d n=%d inc=%d)", routeName[v.route], v.start, v.r, v.stride)
	}
	s := fmt.Sprintf("%s(P%d[%d,%d] %dx%d", kindName[v.k], v.par.id, v.i0, v.j0, v.r, v.c)
	if v.k == kVec {
		if v.rowvec {
			s = fmt.Sprintf("Vec(P%d row %d[%d:%d] inc=1", v.par.id, v.i0, v.j0, v.j0+v.r)
		} else {
			s = fmt.Sprintf("Vec(P%d col %d[%d:%d] inc=%d", v.par.id, v.j0, v.i0, v.i0+v.r, v.stride)
		}
	}
	return s + fmt.Sprintf(" @%d s=%d)", v.start, v.stride)
}

// sameGeom reports whether two views denote exactly the same mat value
// (same type, same data slice, same shape, same stride).
func (v *view) sameGeom(o *view) bool {
	return v.k == o.k && v.start == o.start && v.stride == o.stride && v.r == o.r && v.c == o.c
}

// build constructs the mat value over the given copy of the backing array,
// using only the public mat API.
func (v *view) build(data []float64) mat.Matrix {
	switch v.route {
	case rtNewVec:
		return mat.NewVecDense(v.r, data[v.start:v.start+v.r])
	case rtSliceV:
		return mat.NewVecDense(vecLen, data[:vecLen]).SliceVec(v.start, v.start+v.r)
	case rtColView:
		inc := v.stride
		R := (vecLen + inc - 1) / inc
		p := mat.NewDense(R, inc, data[:R*inc])
		return p.ColView(v.start%inc).(*mat.VecDense).SliceVec(v.start/inc, v.start/inc+v.r)
	case rtRawVec:
		var x mat.VecDense
		x.SetRawVector(blas64.Vector{N: v.r, Inc: v.stride, Data: data[v.lo:v.hi]})
		return &x
	case rtRowView:
		p := mat.NewDense(4, 4, data[:16])
		return p.RowView(v.start/4).(*mat.VecDense).SliceVec(v.start%4, v.start%4+v.r)
	}
	pr := v.par
	p := mat.NewDense(pr.rows, pr.cols, data[pr.base:pr.base+pr.rows*pr.cols])
	switch v.k {
	case kDense:
		return p.Slice(v.i0, v.i0+v.r, v.j0, v.j0+v.c)
	case kVec:
		if v.rowvec {
			return p.RowView(v.i0).(*mat.VecDense).SliceVec(v.j0, v.j0+v.r)
		}
		return p.ColView(v.j0).(*mat.VecDense).SliceVec(v.i0, v.i0+v.r)
	case kSym:
		var s mat.SymDense
		s.SetRawSymmetric(blas64.Symmetric{N: v.r, Stride: v.stride, Data: data[v.lo:v.hi], Uplo: blas.Upper})
		return &s
	case kTriU, kTriL:
		ul := blas.Upper
		if v.k == kTriL {
			ul = blas.Lower
		}
		var t mat.TriDense
		t.SetRawTriangular(blas64.Triangular{N: v.r, Stride: v.stride, Data: data[v.lo:v.hi], Uplo: ul, Diag: blas.NonUnit})
		return &t
	}
	panic("c05: bad view")
}

type vkey struct {
	k    kind
	r, c int
}

// space is one backing array with all the windows enumerated over it.
type space struct {
	name    string
	L       int // length of the backing array
	fill    []float64
	parents []parent
	recv    [nKinds][]*view   // receiver windows (of parent 0 / the receiver routes)
	views   map[vkey][]*view  // operand windows by (kind, rows, cols)
	shapes  map[kind][][2]int // distinct (rows, cols) present per kind
}

func (s *space) add(v *view) {
	v.finish()
	k := vkey{v.k, v.r, v.c}
	if len(s.views[k]) == 0 {
		s.shapes[v.k] = append(s.shapes[v.k], [2]int{v.r, v.c})
	}
	s.views[k] = append(s.views[k], v)
}

// fillVals returns L distinct non-zero integers of magnitude <= L/2+1 in a
// fixed scrambled order. All sums of products of a few of them are exact in
// float64, so results do not depend on summation order.
func fillVals(L int, seed int64) []float64 {
	mults := []int{7, 11, 13, 17, 19, 23}
	m := mults[int(uint64(seed)%uint64(len(mults)))]
	for gcd(m, L) != 1 {
		m += 2
	}
	out := make([]float64, L)
	h := L / 2
	for i := range out {
		k := (i*m + 3) % L
		if k < h {
			out[i] = float64(k - h)
		} else {
			out[i] = float64(k - h + 1)
		}
	}
	return out
}

func gcd(a, b int) int {
	for b != 0 {
		a, b = b, a%b
	}
	return a
}

// addParentWindows enumerates every sub-rectangle of p as Dense, and where the
// shape allows as Sym/TriU/TriL (square) and as column/row vectors.
func (s *space) addParentWindows(p parent, vecs bool) {
	for i0 := 0; i0 < p.rows; i0++ {
		for j0 := 0; j0 < p.cols; j0++ {
			for r := 1; i0+r <= p.rows; r++ {
				for c := 1; j0+c <= p.cols; c++ {
					base := view{par: p, i0: i0, j0: j0, r: r, c: c, start: p.base + i0*p.cols + j0, stride: p.cols}
					d := base
					d.k = kDense
					s.add(&d)
					if p.id == 0 {
						s.recv[kDense] = append(s.recv[kDense], &d)
					}
					if r == c {
						for _, k := range []kind{kSym, kTriU, kTriL} {
							q := base
							q.k = k
							s.add(&q)
							if p.id == 0 {
								s.recv[k] = append(s.recv[k], &q)
							}
						}
					}
					if vecs && c == 1 {
						q := base
						q.k = kVec
						s.add(&q)
					}
					if vecs && r == 1 {
						q := base
						q.k, q.rowvec = kVec, true
						q.r, q.c, q.stride = c, 1, 1
						s.add(&q)
					}
				}
			}
		}
	}
}

// matSpace is the matrix geometry: backing N×N, parent 0 the N×N matrix the
// receivers are windows of, the other parents reshapes of the same data with
// a different stride, and one shifted reshape with the same stride (whose
// windows can wrap around the rows of parent 0).
func matSpace(N int, seed int64, thorough bool) *space {
	s := &space{name: fmt.Sprintf("mat%dx%d", N, N), L: N * N, views: map[vkey][]*view{}, shapes: map[kind][][2]int{}}
	s.fill = fillVals(s.L, seed)
	s.parents = []parent{
		{0, 0, N, N},
		{1, 0, N - 1, N + 1},
		{2, 0, N + 1, N - 1},
		{3, 2, N - 1, N},
	}
	if thorough {
		s.parents = append(s.parents, parent{4, 0, N - 2, N + 3}, parent{5, 1, N - 1, N})
	}
	for _, p := range s.parents {
		if p.base+p.rows*p.cols > s.L {
			panic("c05: parent does not fit")
		}
		s.addParentWindows(p, true)
	}
	return s
}

const (
	vecLen  = 16 // logical length of the vector backing array
	vecPhys = 20 // physical length (slack so that the ColView parents exist); cells >= vecLen belong to no window
)

// vecSpace is the vector geometry: backing length 16, every (offset, n<=5,
// inc<=4) vector, by every construction route; plus the 4×4 reshape of the
// same data for matrix operands.
func vecSpace(seed int64, allRecvRoutes bool) *space {
	s := &space{name: "vec16", L: vecPhys, views: map[vkey][]*view{}, shapes: map[kind][][2]int{}}
	s.fill = fillVals(s.L, seed)
	s.parents = []parent{{0, 0, 4, 4}}
	for n := 1; n <= 5; n++ {
		for inc := 1; inc <= 4; inc++ {
			for off := 0; off+(n-1)*inc < vecLen; off++ {
				var routes []int
				if inc == 1 {
					routes = []int{rtNewVec, rtSliceV}
					if off%4+n <= 4 {
						routes = append(routes, rtRowView)
					}
				} else {
					routes = []int{rtColView, rtRawVec}
				}
				for ri, rt := range routes {
					v := &view{k: kVec, r: n, c: 1, start: off, stride: inc, route: rt}
					s.add(v)
					if ri == 0 || allRecvRoutes {
						s.recv[kVec] = append(s.recv[kVec], v)
					}
				}
			}
		}
	}
	// Matrix operands over the same data. The recv lists filled here for the
	// matrix kinds are not used by the vector groups.
	s.addParentWindows(s.parents[0], false)
	return s
}

// rank1Fill overwrites the fill of a space with an outer product u vᵀ laid
// out with the given row length: every square window (n >= 2) of the parent
// with that stride is exactly singular or, after rounding in the elimination,
// numerically singular, so Solve/Inverse take their error-returning paths
// (Condition errors, finite or infinite) under every aliasing geometry.
func rank1Fill(s *space, cols int) *space {
	u := []float64{1, 2, -3, 5, 7, -4, 9}
	v := []float64{3, -1, 2, 5, -7, 4, 11}
	for i := range s.fill {
		s.fill[i] = u[(i/cols)%len(u)] * v[(i%cols)%len(v)]
	}
	s.name += "-rank1"
	return s
}
