package main

import (
	"fmt"
	"math"
	"math/cmplx"
	"runtime/debug"

	"gonum.org/v1/gonum/internal/verif/vlib"
	"gonum.org/v1/gonum/mat"
)

// Group "history": receiver-aliasing operations draw their isolated workspaces
// from size-stratified pools shared by the whole process, so the result of an
// aliased call must not depend on which aliased calls ran before it. Every
// case runs a short history D1(size a), D2(size b), T(size a) of aliased
// operations (a != b in 1..6, so neighbouring sizes inside and across the
// power-of-two size classes of the pools) on fresh compact operands and
// requires every step to produce exactly the definitional / unaliased result.

// hop is one aliased operation on fresh operands of size n: got is the
// receiver after the aliased call, want the definition (closed form, or the
// same method with an unaliased receiver where no closed form exists).
type hop struct {
	family string
	name   string
	run    func(n int) (got, want []float64)
}

func flat(m mat.Matrix) []float64 {
	r, c := m.Dims()
	out := make([]float64, 0, r*c)
	for i := 0; i < r; i++ {
		for j := 0; j < c; j++ {
			out = append(out, m.At(i, j))
		}
	}
	return out
}

func matMul(a, b mat.Matrix) *mat.Dense {
	r, k := a.Dims()
	_, c := b.Dims()
	out := mat.NewDense(r, c, nil)
	for i := 0; i < r; i++ {
		for j := 0; j < c; j++ {
			var s float64
			for l := 0; l < k; l++ {
				s += a.At(i, l) * b.At(l, j)
			}
			out.Set(i, j, s)
		}
	}
	return out
}

func hops() []hop {
	applyFn := func(i, j int, v float64) float64 { return 2*v + float64(10*i+j) }
	hs := []hop{
		// ---- Dense workspaces
		{"dense", "Dense.Add(m.T(),F)", func(n int) ([]float64, []float64) {
			m, f := fDense(n, n, 1), basic{fDense(n, n, 2)}
			want := mat.NewDense(n, n, nil)
			for i := 0; i < n; i++ {
				for j := 0; j < n; j++ {
					want.Set(i, j, m.At(j, i)+f.At(i, j))
				}
			}
			m.Add(m.T(), f)
			return flat(m), flat(want)
		}},
		{"dense", "Dense.Scale(3,m.T())", func(n int) ([]float64, []float64) {
			m := fDense(n, n, 1)
			want := mat.NewDense(n, n, nil)
			for i := 0; i < n; i++ {
				for j := 0; j < n; j++ {
					want.Set(i, j, 3*m.At(j, i))
				}
			}
			m.Scale(3, m.T())
			return flat(m), flat(want)
		}},
		{"dense", "Dense.Apply(fn,m.T())", func(n int) ([]float64, []float64) {
			m := fDense(n, n, 1)
			want := mat.NewDense(n, n, nil)
			for i := 0; i < n; i++ {
				for j := 0; j < n; j++ {
					want.Set(i, j, applyFn(i, j, m.At(j, i)))
				}
			}
			m.Apply(applyFn, m.T())
			return flat(m), flat(want)
		}},
		{"dense", "Dense.Mul(m,F)", func(n int) ([]float64, []float64) {
			m, f := fDense(n, n, 1), fDense(n, n, 2)
			want := matMul(m, f)
			m.Mul(m, f)
			return flat(m), flat(want)
		}},
		{"dense", "Dense.Mul(F,m.T())", func(n int) ([]float64, []float64) {
			m, f := fDense(n, n, 1), fDense(n, n, 2)
			want := matMul(f, m.T())
			m.Mul(f, m.T())
			return flat(m), flat(want)
		}},
		{"dense", "Dense.Pow(m,3)", func(n int) ([]float64, []float64) {
			m := fDense(n, n, 1)
			want := matMul(matMul(m, m), m)
			m.Pow(m, 3)
			return flat(m), flat(want)
		}},
		{"dense", "Dense.Product(m,F,G)", func(n int) ([]float64, []float64) {
			m, f, g := fDense(n, n, 1), fDense(n, n, 2), fDense(n, n, 3)
			want := matMul(matMul(m, f), g)
			m.Product(m, f, g)
			return flat(m), flat(want)
		}},
		{"dense", "Dense.Inverse(m.T())", func(n int) ([]float64, []float64) {
			m := fDom(n, n, 6)
			var want mat.Dense
			_ = want.Inverse(mat.DenseCopyOf(m).T())
			_ = m.Inverse(m.T())
			return flat(m), flat(&want)
		}},
		{"dense", "Dense.Exp(m)", func(n int) ([]float64, []float64) {
			m := fDense(n, n, 1)
			m.Scale(1.0/16, m)
			var want mat.Dense
			want.Exp(mat.DenseCopyOf(m))
			m.Exp(m)
			return flat(m), flat(&want)
		}},
		{"dense", "Dense.Solve(A,m)", func(n int) ([]float64, []float64) {
			m, a := fDense(n, n, 1), fDom(n, n, 6)
			var want mat.Dense
			_ = want.Solve(a, mat.DenseCopyOf(m))
			_ = m.Solve(a, m)
			return flat(m), flat(&want)
		}},
		{"dense", "LU.SolveTo(m,false,m)", func(n int) ([]float64, []float64) {
			m := fDense(n, n, 1)
			var want mat.Dense
			_ = mkLU(n).SolveTo(&want, false, mat.DenseCopyOf(m))
			_ = mkLU(n).SolveTo(m, false, m)
			return flat(m), flat(&want)
		}},
		{"dense", "QR.SolveTo(m,false,m)", func(n int) ([]float64, []float64) {
			m := fDense(n, n, 1)
			var want mat.Dense
			_ = mkQR(n).SolveTo(&want, false, mat.DenseCopyOf(m))
			_ = mkQR(n).SolveTo(m, false, m)
			return flat(m), flat(&want)
		}},
		{"dense", "Cholesky.SolveTo(m,m.T())", func(n int) ([]float64, []float64) {
			m := fDense(n, n, 1)
			var want mat.Dense
			_ = mkChol(n).SolveTo(&want, mat.DenseCopyOf(m).T())
			_ = mkChol(n).SolveTo(m, m.T())
			return flat(m), flat(&want)
		}},
		// ---- VecDense workspaces
		{"vec", "VecDense.MulVec(A,v)", func(n int) ([]float64, []float64) {
			v, a := fVec(n, 1), fDense(n, n, 2)
			want := matMul(a, v)
			v.MulVec(a, v)
			return flat(v), flat(want)
		}},
		{"vec", "VecDense.SolveVec(A,v)", func(n int) ([]float64, []float64) {
			v, a := fVec(n, 1), fDom(n, n, 6)
			var want mat.VecDense
			_ = want.SolveVec(a, mat.VecDenseCopyOf(v))
			_ = v.SolveVec(a, v)
			return flat(v), flat(&want)
		}},
		{"vec", "LU.SolveVecTo(v,true,v)", func(n int) ([]float64, []float64) {
			v := fVec(n, 1)
			var want mat.VecDense
			_ = mkLU(n).SolveVecTo(&want, true, mat.VecDenseCopyOf(v))
			_ = mkLU(n).SolveVecTo(v, true, v)
			return flat(v), flat(&want)
		}},
		{"vec", "QR.SolveVecTo(v,false,v)", func(n int) ([]float64, []float64) {
			v := fVec(n, 1)
			var want mat.VecDense
			_ = mkQR(n).SolveVecTo(&want, false, mat.VecDenseCopyOf(v))
			_ = mkQR(n).SolveVecTo(v, false, v)
			return flat(v), flat(&want)
		}},
		// ---- SymDense workspaces
		{"sym", "SymDense.SymOuterK(2,s)", func(n int) ([]float64, []float64) {
			s := fSym(n, 1)
			want := matMul(s, s)
			want.Scale(2, want)
			s.SymOuterK(2, s)
			return flat(s), flat(want)
		}},
		{"sym", "SymDense.SubsetSym(s,set)", func(n int) ([]float64, []float64) {
			s := fSym(n, 1)
			set := make([]int, n)
			for i := range set {
				set[i] = (2*i + 1) % n
			}
			want := mat.NewDense(n, n, nil)
			for i := 0; i < n; i++ {
				for j := 0; j < n; j++ {
					want.Set(i, j, s.At(set[i], set[j]))
				}
			}
			s.SubsetSym(s, set)
			return flat(s), flat(want)
		}},
		// ---- TriDense workspaces
		{"tri", "TriDense.MulTri(t,F)", func(n int) ([]float64, []float64) {
			t, f := fTri(n, mat.Upper, 1), fTri(n, mat.Upper, 2)
			want := matMul(t, f)
			t.MulTri(t, f)
			return flat(t), flat(want)
		}},
		{"tri", "TriDense.MulTri(F,t)", func(n int) ([]float64, []float64) {
			t, f := fTri(n, mat.Lower, 1), fTri(n, mat.Lower, 2)
			want := matMul(f, t)
			t.MulTri(f, t)
			return flat(t), flat(want)
		}},
		{"tri", "TriDense.MulTri(t,t)", func(n int) ([]float64, []float64) {
			t := fTri(n, mat.Upper, 1)
			want := matMul(t, t)
			t.MulTri(t, t)
			return flat(t), flat(want)
		}},
		// ---- CDense workspaces
		{"cdense", "CDense.Conj(m.T())", func(n int) ([]float64, []float64) {
			m := mat.NewCDense(n, n, nil)
			for i := 0; i < n; i++ {
				for j := 0; j < n; j++ {
					m.Set(i, j, complex(fval(i, j, 1), fval(i, j, 2)))
				}
			}
			var want []float64
			for i := 0; i < n; i++ {
				for j := 0; j < n; j++ {
					z := cmplx.Conj(m.At(j, i))
					want = append(want, real(z), imag(z))
				}
			}
			m.Conj(m.T())
			var got []float64
			for i := 0; i < n; i++ {
				for j := 0; j < n; j++ {
					got = append(got, real(m.At(i, j)), imag(m.At(i, j)))
				}
			}
			return got, want
		}},
	}
	return hs
}

func firstDiff(a, b []float64) int {
	if len(a) != len(b) {
		return 0
	}
	for i := range a {
		if math.Float64bits(a[i]) != math.Float64bits(b[i]) {
			return i
		}
	}
	return -1
}

// genHistory: one case per (target operation T, size a); inside, every
// dirtying pair (D1 at size a, D2 at size b != a) precedes T at size a.
// quick: D1, D2 from T's own workspace family; thorough: from all families
// (the float64/int scratch pools are shared across families).
func genHistory(g *vlib.G) {
	hs := hops()
	maxN := 6
	for ti := range hs {
		for a := 1; a <= maxN; a++ {
			ti, a := ti, a
			T := hs[ti]
			g.Case(fmt.Sprintf("%s a=%d", T.name, a), func(t *vlib.T) {
				// Keep the pools' contents: a collection between the steps would
				// drop the dirty workspaces the history is meant to leave behind.
				defer debug.SetGCPercent(debug.SetGCPercent(-1))
				var seqs, calls int64
				reported := 0
				check := func(step string, h hop, n int, d1, d2 hop, b int) {
					got, want := h.run(n)
					calls++
					if i := firstDiff(got, want); i >= 0 && reported < 4 {
						reported++
						t.SubViolation(fmt.Sprintf("%s after D1=%s(n=%d) D2=%s(n=%d)", step, d1.name, a, d2.name, b),
							"pool-history/"+h.name,
							map[string]any{"target": T.name, "a": a, "b": b, "d1": d1.name, "d2": d2.name, "step": step},
							"history %s(n=%d), %s(n=%d), %s(n=%d): step %s: %s(n=%d) element %d = %v, definition/unaliased gives %v",
							d1.name, a, d2.name, b, T.name, a, step, h.name, n, i, got[i], want[i])
					}
				}
				for _, d1 := range hs {
					for _, d2 := range hs {
						if !g.Thorough() && (d1.family != T.family || d2.family != T.family) {
							continue
						}
						for b := 1; b <= maxN; b++ {
							if b == a {
								continue
							}
							seqs++
							check("D1", d1, a, d1, d2, b)
							check("D2", d2, b, d1, d2, b)
							check("T", T, a, d1, d2, b)
						}
					}
				}
				t.Count("history-sequences", seqs)
				t.Count("calls", calls)
				t.Nontrivial()
				t.Outcome("history " + T.family)
				t.Detail(map[string]any{"target": T.name, "a": a, "sequences": seqs})
			})
		}
	}
}
