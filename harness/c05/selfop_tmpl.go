package main

import (
	"gonum.org/v1/gonum/mat"
)

// Templates of group "selfop": the receiver itself (same pointer, or its
// T()/TVec() where shapes allow) occupies one operand position and every
// window X of the same backing array occupies the other, in both argument
// orders. The receiver being its own operand is legal; X is judged by the
// usual index-set relation: a method must not skip the check of X just
// because the receiver is (also) an operand.
//
// pos names: "a=recv,b" means a is the receiver and b is X; "recvT" means
// the receiver is passed under T() (TVec() for vectors).

func denseSelfOpTemplates(K int) []*tmpl {
	var out []*tmpl
	add := func(t *tmpl) {
		t.recv = kDense
		if t.nf == 0 {
			t.nf = 1
		}
		out = append(out, t)
	}
	type binop struct {
		name string
		do   func(m *mat.Dense, a, b mat.Matrix)
		f    func(a, b float64) float64
	}
	for _, op := range []binop{
		{"Add", func(m *mat.Dense, a, b mat.Matrix) { m.Add(a, b) }, func(a, b float64) float64 { return a + b }},
		{"Sub", func(m *mat.Dense, a, b mat.Matrix) { m.Sub(a, b) }, func(a, b float64) float64 { return a - b }},
		{"MulElem", func(m *mat.Dense, a, b mat.Matrix) { m.MulElem(a, b) }, func(a, b float64) float64 { return a * b }},
		{"DivElem", func(m *mat.Dense, a, b mat.Matrix) { m.DivElem(a, b) }, func(a, b float64) float64 { return a / b }},
	} {
		op := op
		add(&tmpl{method: "Dense." + op.name, pos: "a=recv,b", xs: xsMat,
			call: func(recv, x mat.Matrix, fv int) error { op.do(recv.(*mat.Dense), recv, x); return nil },
			ref:  func(c *refCtx, i, j int) float64 { return op.f(c.old(i, j), c.x.At(i, j)) }})
		add(&tmpl{method: "Dense." + op.name, pos: "a,b=recv", xs: xsMat,
			call: func(recv, x mat.Matrix, fv int) error { op.do(recv.(*mat.Dense), x, recv); return nil },
			ref:  func(c *refCtx, i, j int) float64 { return op.f(c.x.At(i, j), c.old(i, j)) }})
		add(&tmpl{method: "Dense." + op.name, pos: "a=recvT,b", xs: xsSquare, shapes: squareOnly,
			call: func(recv, x mat.Matrix, fv int) error { op.do(recv.(*mat.Dense), recv.T(), x); return nil },
			ref:  func(c *refCtx, i, j int) float64 { return op.f(c.old(j, i), c.x.At(i, j)) }})
		add(&tmpl{method: "Dense." + op.name, pos: "a,b=recvT", xs: xsSquare, shapes: squareOnly,
			call: func(recv, x mat.Matrix, fv int) error { op.do(recv.(*mat.Dense), x, recv.T()); return nil },
			ref:  func(c *refCtx, i, j int) float64 { return op.f(c.x.At(i, j), c.old(j, i)) }})
	}

	// Mul: recv (r×c) = recv (r×c) * X (c×c), or X (r×r) * recv.
	add(&tmpl{method: "Dense.Mul", pos: "a=recv,b", xs: xsMat,
		shapes: func(r, c int) [][2]int { return [][2]int{{c, c}} },
		call:   func(recv, x mat.Matrix, fv int) error { recv.(*mat.Dense).Mul(recv, x); return nil },
		ref: func(c *refCtx, i, j int) float64 {
			var s float64
			for k := 0; k < c.rc; k++ {
				s += c.old(i, k) * c.x.At(k, j)
			}
			return s
		}})
	add(&tmpl{method: "Dense.Mul", pos: "a,b=recv", xs: xsMat,
		shapes: func(r, c int) [][2]int { return [][2]int{{r, r}} },
		call:   func(recv, x mat.Matrix, fv int) error { recv.(*mat.Dense).Mul(x, recv); return nil },
		ref: func(c *refCtx, i, j int) float64 {
			var s float64
			for k := 0; k < c.rr; k++ {
				s += c.x.At(i, k) * c.old(k, j)
			}
			return s
		}})
	add(&tmpl{method: "Dense.Mul", pos: "a=recvT,b", xs: xsSquare, shapes: squareOnly,
		call: func(recv, x mat.Matrix, fv int) error { recv.(*mat.Dense).Mul(recv.T(), x); return nil },
		ref: func(c *refCtx, i, j int) float64 {
			var s float64
			for k := 0; k < c.rr; k++ {
				s += c.old(k, i) * c.x.At(k, j)
			}
			return s
		}})
	add(&tmpl{method: "Dense.Mul", pos: "a,b=recvT", xs: xsSquare, shapes: squareOnly,
		call: func(recv, x mat.Matrix, fv int) error { recv.(*mat.Dense).Mul(x, recv.T()); return nil },
		ref: func(c *refCtx, i, j int) float64 {
			var s float64
			for k := 0; k < c.rr; k++ {
				s += c.x.At(i, k) * c.old(j, k)
			}
			return s
		}})

	// Product of three factors with the receiver first / last.
	add(&tmpl{method: "Dense.Product", pos: "0=recv,1of3", xs: xsMat[:2],
		shapes: func(r, c int) (out [][2]int) {
			for k := 1; k <= K; k++ {
				out = append(out, [2]int{c, k})
			}
			return out
		},
		call: func(recv, x mat.Matrix, fv int) error {
			m := recv.(*mat.Dense)
			_, c := m.Dims()
			_, k := x.Dims()
			m.Product(m, x, fDense(k, c, 4))
			return nil
		}})
	add(&tmpl{method: "Dense.Product", pos: "1of3,2=recv", xs: xsMat[:2],
		shapes: func(r, c int) (out [][2]int) {
			for k := 1; k <= K; k++ {
				out = append(out, [2]int{k, r})
			}
			return out
		},
		call: func(recv, x mat.Matrix, fv int) error {
			m := recv.(*mat.Dense)
			r, _ := m.Dims()
			k, _ := x.Dims()
			m.Product(fDense(r, k, 3), x, m)
			return nil
		}})

	// Solve (differential oracle).
	add(&tmpl{method: "Dense.Solve", pos: "a=recv,b", xs: xsSquare, shapes: squareOnly, noSamePointer: true,
		call: func(recv, x mat.Matrix, fv int) error { return recv.(*mat.Dense).Solve(recv, x) }})
	add(&tmpl{method: "Dense.Solve", pos: "a,b=recv", xs: xsSquare, noSamePointer: true,
		shapes: func(r, c int) [][2]int { return [][2]int{{r, r}} },
		call:   func(recv, x mat.Matrix, fv int) error { return recv.(*mat.Dense).Solve(x, recv) }})

	// Kronecker with a 1×1 other operand.
	one := func(r, c int) [][2]int { return [][2]int{{1, 1}} }
	add(&tmpl{method: "Dense.Kronecker", pos: "a=recv,b", xs: xsMat, shapes: one,
		call: func(recv, x mat.Matrix, fv int) error { recv.(*mat.Dense).Kronecker(recv, x); return nil },
		ref:  func(c *refCtx, i, j int) float64 { return c.old(i, j) * c.x.At(0, 0) }})
	add(&tmpl{method: "Dense.Kronecker", pos: "a,b=recv", xs: xsMat, shapes: one,
		call: func(recv, x mat.Matrix, fv int) error { recv.(*mat.Dense).Kronecker(x, recv); return nil },
		ref:  func(c *refCtx, i, j int) float64 { return c.x.At(0, 0) * c.old(i, j) }})

	// RankOne with a = receiver and the alias in y (x is covered in group dense).
	add(&tmpl{method: "Dense.RankOne", pos: "a=recv,y", xs: xsVec, vecArg: true,
		shapes: func(r, c int) [][2]int { return [][2]int{{c, 1}} },
		call: func(recv, x mat.Matrix, fv int) error {
			m := recv.(*mat.Dense)
			r, _ := m.Dims()
			m.RankOne(m, 2, fVec(r, 8), x.(mat.Vector))
			return nil
		},
		ref: func(c *refCtx, i, j int) float64 {
			return c.old(i, j) + 2*rVec(c.rr, 8).AtVec(i)*c.x.(mat.Vector).AtVec(j)
		}})
	return out
}

func vecSelfOpTemplates(K int) []*tmpl {
	var out []*tmpl
	add := func(t *tmpl) {
		t.recv = kVec
		if t.nf == 0 {
			t.nf = 1
		}
		out = append(out, t)
	}
	xv := func(x mat.Matrix) mat.Vector { return x.(mat.Vector) }
	type binop struct {
		name string
		do   func(v *mat.VecDense, a, b mat.Vector)
		f    func(a, b float64) float64
	}
	for _, op := range []binop{
		{"AddVec", func(v *mat.VecDense, a, b mat.Vector) { v.AddVec(a, b) }, func(a, b float64) float64 { return a + b }},
		{"SubVec", func(v *mat.VecDense, a, b mat.Vector) { v.SubVec(a, b) }, func(a, b float64) float64 { return a - b }},
		{"MulElemVec", func(v *mat.VecDense, a, b mat.Vector) { v.MulElemVec(a, b) }, func(a, b float64) float64 { return a * b }},
		{"DivElemVec", func(v *mat.VecDense, a, b mat.Vector) { v.DivElemVec(a, b) }, func(a, b float64) float64 { return a / b }},
	} {
		op := op
		// The plain-receiver orders are in group vec ("a=recv,b", "a,b=recv").
		add(&tmpl{method: "VecDense." + op.name, pos: "a=recvT,b", xs: xsVec, vecArg: true,
			call: func(recv, x mat.Matrix, fv int) error {
				v := recv.(*mat.VecDense)
				op.do(v, v.TVec(), xv(x))
				return nil
			},
			ref: func(c *refCtx, i, j int) float64 { return op.f(c.old(i, 0), xv(c.x).AtVec(i)) }})
		add(&tmpl{method: "VecDense." + op.name, pos: "a,b=recvT", xs: xsVec, vecArg: true,
			call: func(recv, x mat.Matrix, fv int) error {
				v := recv.(*mat.VecDense)
				op.do(v, xv(x), v.TVec())
				return nil
			},
			ref: func(c *refCtx, i, j int) float64 { return op.f(xv(c.x).AtVec(i), c.old(i, 0)) }})
	}
	asAlpha := func(fv int) float64 { return []float64{2, 0}[fv] }
	add(&tmpl{method: "VecDense.AddScaledVec", pos: "a,b=recv", xs: xsVec, vecArg: true, nf: 2,
		call: func(recv, x mat.Matrix, fv int) error {
			v := recv.(*mat.VecDense)
			v.AddScaledVec(xv(x), asAlpha(fv), v)
			return nil
		},
		ref: func(c *refCtx, i, j int) float64 { return xv(c.x).AtVec(i) + asAlpha(c.fv)*c.old(i, 0) }})

	// MulVec: v = X (n×n) * v, and v = v (as n×1 matrix) * X (length 1).
	add(&tmpl{method: "VecDense.MulVec", pos: "a,b=recv", xs: xsSquare,
		shapes: func(r, c int) [][2]int { return [][2]int{{r, r}} },
		call: func(recv, x mat.Matrix, fv int) error {
			v := recv.(*mat.VecDense)
			v.MulVec(x, v)
			return nil
		},
		ref: func(c *refCtx, i, j int) float64 {
			var s float64
			for l := 0; l < c.rr; l++ {
				s += c.x.At(i, l) * c.old(l, 0)
			}
			return s
		}})
	add(&tmpl{method: "VecDense.MulVec", pos: "a=recv,b", xs: xsVec[:1], vecArg: true,
		shapes: func(r, c int) [][2]int { return [][2]int{{1, 1}} },
		call: func(recv, x mat.Matrix, fv int) error {
			v := recv.(*mat.VecDense)
			v.MulVec(v, xv(x))
			return nil
		},
		ref: func(c *refCtx, i, j int) float64 { return c.old(i, 0) * xv(c.x).AtVec(0) }})
	add(&tmpl{method: "VecDense.SolveVec", pos: "a,b=recv", xs: xsSquare,
		shapes: func(r, c int) [][2]int { return [][2]int{{r, r}} },
		call: func(recv, x mat.Matrix, fv int) error {
			v := recv.(*mat.VecDense)
			return v.SolveVec(x, v)
		}})
	_ = K
	return out
}

func symSelfOpTemplates() []*tmpl {
	var out []*tmpl
	add := func(t *tmpl) {
		t.recv = kSym
		t.nf = 1
		out = append(out, t)
	}
	xsSym := []xspec{{kSym, false}}
	xsym := func(x mat.Matrix) mat.Symmetric { return x.(mat.Symmetric) }
	add(&tmpl{method: "SymDense.AddSym", pos: "a=recv,b", xs: xsSym,
		call: func(recv, x mat.Matrix, fv int) error {
			s := recv.(*mat.SymDense)
			s.AddSym(s, xsym(x))
			return nil
		},
		ref: func(c *refCtx, i, j int) float64 { return c.old(i, j) + c.x.At(i, j) }})
	add(&tmpl{method: "SymDense.AddSym", pos: "a,b=recv", xs: xsSym,
		call: func(recv, x mat.Matrix, fv int) error {
			s := recv.(*mat.SymDense)
			s.AddSym(xsym(x), s)
			return nil
		},
		ref: func(c *refCtx, i, j int) float64 { return c.x.At(i, j) + c.old(i, j) }})
	add(&tmpl{method: "SymDense.RankTwo", pos: "a=recv,y", xs: xsVec, vecArg: true,
		shapes: func(r, c int) [][2]int { return [][2]int{{r, 1}} },
		call: func(recv, x mat.Matrix, fv int) error {
			s := recv.(*mat.SymDense)
			s.RankTwo(s, 2, fVec(s.SymmetricDim(), 8), x.(mat.Vector))
			return nil
		},
		ref: func(c *refCtx, i, j int) float64 {
			xx, yy := rVec(c.rr, 8), c.x.(mat.Vector)
			return c.old(i, j) + 2*(xx.AtVec(i)*yy.AtVec(j)+yy.AtVec(i)*xx.AtVec(j))
		}})
	return out
}

func triSelfOpTemplates(rk kind) []*tmpl {
	var out []*tmpl
	add := func(t *tmpl) {
		t.recv = rk
		t.nf = 1
		out = append(out, t)
	}
	other, name := kTriL, "TriDense[Upper]."
	if rk == kTriL {
		other, name = kTriU, "TriDense[Lower]."
	}
	xsTri := []xspec{{rk, false}, {other, true}}
	xt := func(x mat.Matrix) mat.Triangular { return x.(mat.Triangular) }
	// old(i,j) reads the raw backing cell; outside the stored triangle the
	// receiver's value is zero.
	inTri := func(i, j int) bool { return (rk == kTriU && i <= j) || (rk == kTriL && i >= j) }
	add(&tmpl{method: name + "MulTri", pos: "a=recv,b", xs: xsTri, triArg: true,
		call: func(recv, x mat.Matrix, fv int) error {
			t := recv.(*mat.TriDense)
			t.MulTri(t, xt(x))
			return nil
		},
		ref: func(c *refCtx, i, j int) float64 {
			var s float64
			for k := 0; k < c.rr; k++ {
				if inTri(i, k) {
					s += c.old(i, k) * c.x.At(k, j)
				}
			}
			return s
		}})
	add(&tmpl{method: name + "MulTri", pos: "a,b=recv", xs: xsTri, triArg: true,
		call: func(recv, x mat.Matrix, fv int) error {
			t := recv.(*mat.TriDense)
			t.MulTri(xt(x), t)
			return nil
		},
		ref: func(c *refCtx, i, j int) float64 {
			var s float64
			for k := 0; k < c.rr; k++ {
				if inTri(k, j) {
					s += c.x.At(i, k) * c.old(k, j)
				}
			}
			return s
		}})
	return out
}
