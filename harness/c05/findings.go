package main

import "strings"

// rootCause maps a failed judgement to the class name of a triaged gonum
// defect (see NOTES.md, "Findings"). It never influences whether a call is
// judged a violation, only the name the violation is filed under. An empty
// result means "not triaged": the caller files it under a generated
// "<failure>/<Method>/<pos>:<operand kind>" class, so that anything new (a
// regression, a mutant) stays visible even when the triaged classes are listed
// in known_findings.jsonl.
func rootCause(failure string, tm *tmpl, rv, ov *view, trans, ident bool, fv int, r rel) string {
	m := tm.method
	if i := strings.IndexByte(m, '.'); i >= 0 && strings.HasPrefix(m, "TriDense[") {
		m = "TriDense" + m[i:]
	}
	isTri := ov.k == kTriU || ov.k == kTriL
	diffStride := rv.stride != ov.stride
	corrupt := failure == "silent-corruption"
	in := func(s string, set ...string) bool {
		for _, x := range set {
			if s == x {
				return true
			}
		}
		return false
	}

	switch {
	// ---- VecDense
	case m == "VecDense.DivElemVec" && in(failure, "ident-wrong-result", "unaliased-result-wrong"):
		return "vecdense-divelemvec-missing-return" // F2
	case in(m, "VecDense.AddVec", "VecDense.SubVec", "VecDense.MulElemVec", "VecDense.DivElemVec") && corrupt && fv == fvBasic && in(tm.pos, "a", "b"):
		return "vecdense-elementwise-unchecked-when-other-operand-not-vecdense" // F3
	case strings.HasPrefix(m, "VecDense.") && failure == "ident-panic" && ov.k == kVec && trans:
		return "vecdense-tvec-of-receiver-panics" // F4
	case in(m, "VecDense.ScaleVec", "VecDense.CopyVec") && corrupt && ov.k == kVec && trans:
		return "vecdense-scalevec-copyvec-tvec-unchecked" // F5
	case m == "VecDense.CopyVec" && corrupt && ov.k == kVec && !trans:
		return "vecdense-copyvec-overlap-unhandled" // F6
	case m == "VecDense.MulVec" && tm.pos == "a" && corrupt && fv == fvBasic:
		return "vecdense-mulvec-unchecked-when-b-not-vecdense" // F7
	case m == "VecDense.MulVec" && tm.pos == "a" && failure == "write-before-panic" && isTri:
		return "vecdense-mulvec-tri-copies-before-check" // F8
	case in(m, "Dense.Solve", "VecDense.SolveVec") && tm.pos == "a" && corrupt && isTri:
		return "tridense-solveto-dst-unchecked" // F9

	}

	// F1. (*VecDense).checkOverlap tests off&inc == 0 where off%inc == 0 is
	// meant (mat/shadow.go). It matters when both vectors have the same
	// increment > 1, the data slices intersect and the two predicates disagree.
	if rv.k == kVec && ov.k == kVec && !ident && rv.stride == ov.stride && rv.stride > 1 && rv.lo < ov.hi && ov.lo < rv.hi {
		off := ov.start - rv.start // signed, as computed by mat's offset()
		inc := rv.stride
		if off != 0 && (off&inc == 0) != (off%inc == 0) && in(failure, "false-overlap-panic", "silent-corruption") {
			return "vecdense-overlap-bitand"
		}
	}

	switch {
	// ---- Dense
	case m == "Dense.Mul" && in(tm.pos, "a", "b") && corrupt && (isTri || ov.k == kSym):
		return "dense-mul-sym-tri-operand-unchecked" // F10
	case in(m, "Dense.Scale", "Dense.Apply") && corrupt && trans && (isTri || ov.k == kVec):
		return "dense-scale-apply-transposed-operand-unchecked" // F11
	case m == "Dense.Kronecker" && (in(failure, "silent-corruption", "ident-wrong-result", "ident-panic", "write-before-panic") ||
		// m.Kronecker(x, m): the receiver as b panics "identical" even when x is unrelated.
		(failure == "unaliased-run-panicked" && tm.pos == "a,b=recv")):
		return "dense-kronecker-aliasing-unhandled" // F12
	case in(m, "Dense.Stack", "Dense.Augment") && tm.pos == "b" && in(failure, "silent-corruption", "write-before-panic"):
		return "dense-stack-augment-aliasing-unhandled" // F13
	case corrupt && diffStride && !trans && (ov.k == kDense || ov.k == kVec) &&
		(m == "Dense.Copy" || (in(m, "Dense.Stack", "Dense.Augment") && tm.pos == "a") || (m == "Dense.Pow" && fv == 1) || m == "Dense.Exp" || (m == "Dense.Solve" && tm.pos == "b" && ov.k == kVec) ||
			// ...SolveTo of the factorization types copy b into dst with Dense.Copy.
			(strings.Contains(m, ".SolveTo") && tm.pos == "b")):
		return "dense-copy-differing-strides" // F14
	case m == "Dense.Exp" && corrupt && ov.k == kDense && !trans && !diffStride:
		return "dense-exp-rereads-operand-after-write" // F15
	case in(m, "Dense.Exp", "Dense.Pow", "Dense.RankOne") && failure == "ident-panic" && ov.k == kDense && trans:
		return "dense-own-transpose-panics" // F16
	case in(m, "Cholesky.SolveTo", "BandCholesky.SolveTo", "PivotedCholesky.SolveTo") && failure == "ident-panic" && ov.k == kDense && trans:
		return "cholesky-solveto-own-transpose-panics" // F27
	case m == "Dense.RankOne" && tm.pos == "a" && corrupt && (isTri || ov.k == kSym) && fv == fvBasic:
		return "dense-rankone-nondense-a-unchecked" // F17
	case m == "Dense.Outer" && failure == "write-before-panic":
		return "dense-outer-zeroes-before-check" // F18

	// ---- SymDense
	case m == "SymDense.CopySym" && corrupt:
		return "symdense-copysym-overlap-unhandled" // F19
	case m == "SymDense.SymOuterK" && corrupt && (ov.k == kVec || trans):
		return "symdense-symouterk-operand-unchecked" // F20
	case m == "SymDense.SymRankK" && corrupt && ov.k == kDense && in(tm.pos, "x", "a=recv,x"):
		return "symdense-symrankk-x-unchecked" // F21
	case m == "SymDense.SymRankOne" && tm.pos == "x" && failure == "write-before-panic":
		return "symdense-symrankone-copies-before-check" // F22

	// ---- TriDense
	case m == "TriDense.Copy" && corrupt:
		return "tridense-copy-overlap-unhandled" // F23
	case m == "TriDense.Copy" && in(failure, "unaliased-run-panicked", "unaliased-result-wrong"):
		return "tridense-copy-general-source" // F24 (not an aliasing defect)
	case in(m, "TriDense.InverseTri", "TriDense.ScaleTri") && corrupt && trans:
		return "tridense-transposed-operand-unchecked" // F25

	// ---- CDense
	case m == "CDense.Copy" && in(failure, "silent-corruption", "ident-wrong-result"):
		return "cdense-copy-overlap-unhandled" // F26
	}
	return ""
}
