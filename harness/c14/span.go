package main

import (
	"fmt"
	"math"

	"gonum.org/v1/gonum/graph"
	"gonum.org/v1/gonum/graph/iterator"
	"gonum.org/v1/gonum/graph/multi"
	"gonum.org/v1/gonum/graph/path"
	"gonum.org/v1/gonum/graph/simple"
	"gonum.org/v1/gonum/internal/verif/vlib"
)

// wUnit is the value of one weight unit: the weight functions of this file
// return integers, the graphs carry w*wUnit. It is 1 for the integer
// alphabet {0,1,2} and 1/4 for the dyadic alphabet of und-span-frac (all sums
// stay exact in float64). Every case body sets it before building graphs.
var wUnit = 1.0

// ordWUndirected is the harness's deterministic weighted undirected graph.
type ordWUndirected struct {
	ordUndirected
	w func(i, j int) int
}

func (o ordWUndirected) Weight(xid, yid int64) (float64, bool) {
	if xid == yid {
		_, ok := o.idx[xid]
		return 0, ok
	}
	if !o.hasArc(xid, yid) {
		return math.Inf(1), false
	}
	return float64(o.w(o.idx[xid], o.idx[yid])) * wUnit, true
}
func (o ordWUndirected) WeightedEdge(uid, vid int64) graph.WeightedEdge {
	if !o.hasArc(uid, vid) {
		return nil
	}
	return simple.WeightedEdge{F: simple.Node(uid), T: simple.Node(vid), W: float64(o.w(o.idx[uid], o.idx[vid])) * wUnit}
}
func (o ordWUndirected) WeightedEdgeBetween(xid, yid int64) graph.WeightedEdge {
	return o.WeightedEdge(xid, yid)
}
func (o ordWUndirected) WeightedEdges() graph.WeightedEdges {
	var es []graph.WeightedEdge
	for _, i := range o.order {
		for _, j := range o.out[i] {
			if o.ids[i] < o.ids[j] {
				es = append(es, o.WeightedEdge(o.ids[i], o.ids[j]))
			}
		}
	}
	if len(es) == 0 {
		return graph.Empty
	}
	return iterator.NewOrderedWeightedEdges(es)
}

var _ path.UndirectedWeightLister = ordWUndirected{}

// buildWeighted constructs the weighted input graph.
func buildWeighted(s *gspec, idKind, variant int, w func(i, j int) int) (*built, path.UndirectedWeightLister) {
	ids := idsFor(idKind, s.n)
	idx := make(map[int64]int, s.n)
	for i, id := range ids {
		idx[id] = i
	}
	b := &built{s: s, ids: ids, idx: idx}
	switch variant {
	case vOrdAsc, vOrdDesc:
		g := ordWUndirected{ordUndirected{newOrdBase(s, ids, idx, variant == vOrdDesc)}, w}
		b.g = g
		return b, g
	case vSimple:
		g := simple.NewWeightedUndirectedGraph(0, math.Inf(1))
		for _, id := range ids {
			g.AddNode(simple.Node(id))
		}
		for i := 0; i < s.n; i++ {
			for j := i + 1; j < s.n; j++ {
				if s.has(i, j) {
					e := simple.WeightedEdge{F: simple.Node(ids[i]), T: simple.Node(ids[j]), W: float64(w(i, j)) * wUnit}
					if (i+j)%2 == 1 {
						e.F, e.T = e.T, e.F
					}
					g.SetWeightedEdge(e)
				}
			}
		}
		b.g = g
		return b, g
	default:
		g := multi.NewWeightedUndirectedGraph()
		for _, id := range ids {
			g.AddNode(multi.Node(id))
		}
		for i := 0; i < s.n; i++ {
			for j := i + 1; j < s.n; j++ {
				if !s.has(i, j) {
					continue
				}
				// the edge weight of a multigraph edge is the sum of its lines.
				wt := w(i, j)
				if doubled(i, j, idKind) {
					a := wt / 2
					g.SetWeightedLine(g.NewWeightedLine(multi.Node(ids[i]), multi.Node(ids[j]), float64(a)*wUnit))
					g.SetWeightedLine(g.NewWeightedLine(multi.Node(ids[j]), multi.Node(ids[i]), float64(wt-a)*wUnit))
				} else {
					g.SetWeightedLine(g.NewWeightedLine(multi.Node(ids[i]), multi.Node(ids[j]), float64(wt)*wUnit))
				}
			}
		}
		b.g = g
		return b, g
	}
}

// checkForest validates dst as a minimum spanning forest of s under w.
// exact: compare with the enumerated minimum want; otherwise use the cycle property.
func checkForest(c *chk, what string, b *built, w func(i, j int) int, dst *simple.WeightedUndirectedGraph, ret float64, want int, exact bool, comps int) {
	s := b.s
	m, ok := b.maskOf(graph.NodesOf(dst.Nodes()))
	if !ok || m != s.all() {
		c.failf("%s: dst nodes %s, want all nodes", what, maskStr(m))
		return
	}
	var pairs [][2]int
	total := 0
	for _, e := range graph.WeightedEdgesOf(dst.WeightedEdges()) {
		u, v := b.ix(e.From().ID()), b.ix(e.To().ID())
		if u < 0 || v < 0 || !s.has(u, v) {
			c.failf("%s: dst edge %d-%d is not an edge of g", what, u, v)
			return
		}
		if e.Weight() != float64(w(u, v))*wUnit {
			c.failf("%s: dst edge %d-%d has weight %v, want %d", what, u, v, e.Weight(), w(u, v))
			return
		}
		total += w(u, v)
		pairs = append(pairs, [2]int{u, v})
	}
	lab, acyclic := forestLabels(s.n, pairs)
	if !acyclic || len(pairs) != s.n-comps {
		c.failf("%s: dst has %d edges %v (acyclic=%v); a spanning forest has n-c=%d", what, len(pairs), pairs, acyclic, s.n-comps)
		return
	}
	for u := 0; u < s.n; u++ {
		for v := 0; v < s.n; v++ {
			if s.has(u, v) && lab[u] != lab[v] {
				c.failf("%s: dst does not span: %d and %d are joined in g only", what, u, v)
				return
			}
		}
	}
	if ret != float64(total)*wUnit {
		c.failf("%s: returned weight %v but dst edges sum to %d", what, ret, total)
		return
	}
	if exact {
		if total != want {
			c.failf("%s: forest weight %v, minimum over all spanning forests is %v", what, float64(total)*wUnit, float64(want)*wUnit)
		}
		return
	}
	// cycle property: every non-tree edge is at least as heavy as every
	// edge on the tree path between its ends.
	var tadj [maxN]uint8
	for _, p := range pairs {
		tadj[p[0]] |= 1 << uint(p[1])
		tadj[p[1]] |= 1 << uint(p[0])
	}
	ts := gspec{n: s.n, adj: tadj}
	for u := 0; u < s.n; u++ {
		for v := u + 1; v < s.n; v++ {
			if !s.has(u, v) || ts.has(u, v) {
				continue
			}
			// tree edges on the path u..v are those whose removal separates u from v.
			for _, p := range pairs {
				a, bb := p[0], p[1]
				r := ts.reachFrom(u, ts.all(), func(x, y int) bool { return !(x == a && y == bb) && !(x == bb && y == a) })
				if r>>uint(v)&1 == 0 && w(a, bb) > w(u, v) {
					c.failf("%s: tree edge %d-%d (w=%d) can be swapped for %d-%d (w=%d)", what, a, bb, w(a, bb), u, v, w(u, v))
					return
				}
			}
		}
	}
}

func spanChecks(c *chk, b *built, g path.UndirectedWeightLister, w func(i, j int) int, want int, exact bool, comps int) {
	catch(c, "Prim", func() {
		dst := simple.NewWeightedUndirectedGraph(0, math.Inf(1))
		ret := path.Prim(dst, g)
		checkForest(c, "Prim", b, w, dst, ret, want, exact, comps)
	})
	catch(c, "Kruskal", func() {
		dst := simple.NewWeightedUndirectedGraph(0, math.Inf(1))
		ret := path.Kruskal(dst, g)
		checkForest(c, "Kruskal", b, w, dst, ret, want, exact, comps)
	})
}

func pow3(m int) int {
	r := 1
	for ; m > 0; m-- {
		r *= 3
	}
	return r
}

func genUndSpan(g *vlib.G) {
	forUndirected(g, undMax(g), func(key string, s gspec) {
		g.Case(key, func(t *vlib.T) {
			s := s
			wUnit = 1
			m := s.edges()
			comps := len(s.components())
			// weight assignments: w-th assignment gives pair p the p-th base-3 digit.
			var pidx [maxN][maxN]int
			k := 0
			for j := 1; j < s.n; j++ {
				for i := 0; i < j; i++ {
					if s.has(i, j) {
						pidx[i][j], pidx[j][i] = k, k
						k++
					}
				}
			}
			total := pow3(m)
			step, exact := 1, true
			switch {
			case s.n == 5 && !g.Thorough():
				step = 7
			case s.n == 6:
				// thorough only: a fixed sample of assignments, cycle-property oracle.
				step, exact = max(1, total/33)|1, false
				if step%3 == 0 {
					step += 2
				}
			}
			evals := 0
			for wi := 0; wi < total; wi += step {
				digits := wi
				var dig [16]int
				for p := 0; p < m; p++ {
					dig[p] = digits % 3
					digits /= 3
				}
				w := func(i, j int) int { return dig[pidx[i][j]] }
				want := 0
				if exact {
					want = s.minSpanningForestWeight(w)
				}
				for idk := 0; idk < nIDMaps; idk++ {
					if s.n >= 5 && idk != (wi/step)%nIDMaps {
						continue
					}
					for v := 0; v < nVariants; v++ {
						b, wg := buildWeighted(&s, idk, v, w)
						run(t, "und-span", key+fmt.Sprintf("|w=%d", wi), idk, v, func(c *chk) {
							spanChecks(c, b, wg, w, want, exact, comps)
						})
						evals++
					}
				}
			}
			t.Count("weighted_graphs", int64(evals))
			if m >= 2 {
				t.Nontrivial()
			}
			t.Outcome(sizeOutcome(&s, fmt.Sprintf("comps=%d", comps)))
			t.Detail(s.String())
		})
	})
}

// fracAlphabet is the weight alphabet of und-span-frac in quarter units:
// negative, zero and positive dyadic fractions k/4, so that differences below
// 1 (which an integer-truncating comparison treats as ties), genuine ties,
// zero and negative weights all occur; all sums are exact.
var fracAlphabet = []int{-5, -2, 0, 1, 2, 3, 4, 5, 6, 7, 9, 12}

// genUndSpanFrac: Prim and Kruskal with fractional, zero, negative and tied
// weights. Graphs with at most 3 edges: every assignment from the alphabet;
// larger graphs: a fixed LCG-drawn set of assignments per graph (plus the
// ascending and descending ramps). Oracle as in und-span: minimum over all
// spanning forests by subset enumeration.
func genUndSpanFrac(g *vlib.G) {
	perGraph := vlib.Pick(g, 6, 60)
	forUndirected(g, 5, func(key string, s gspec) {
		if s.edges() == 0 {
			return
		}
		g.Case(key, func(t *vlib.T) {
			s := s
			wUnit = 0.25
			defer func() { wUnit = 1 }()
			m := s.edges()
			comps := len(s.components())
			var pidx [maxN][maxN]int
			k := 0
			for j := 1; j < s.n; j++ {
				for i := 0; i < j; i++ {
					if s.has(i, j) {
						pidx[i][j], pidx[j][i] = k, k
						k++
					}
				}
			}
			A := len(fracAlphabet)
			var assigns [][]int
			if m <= 3 {
				total := 1
				for i := 0; i < m; i++ {
					total *= A
				}
				for wi := 0; wi < total; wi++ {
					a := make([]int, m)
					d := wi
					for p := range a {
						a[p] = fracAlphabet[d%A]
						d /= A
					}
					assigns = append(assigns, a)
				}
			} else {
				up, down := make([]int, m), make([]int, m)
				for p := range up {
					up[p] = fracAlphabet[p%A]
					down[p] = fracAlphabet[A-1-p%A]
				}
				assigns = append(assigns, up, down)
				r := &lcg{x: uint64(s.mask)*977 + uint64(s.n)}
				for q := 0; q < perGraph; q++ {
					a := make([]int, m)
					// every other assignment draws from a narrow window of the alphabet (many near-ties).
					lo, span := 0, A
					if q%2 == 1 {
						lo, span = 3, 5
					}
					for p := range a {
						a[p] = fracAlphabet[lo+r.next(span)]
					}
					assigns = append(assigns, a)
				}
			}
			evals := 0
			for ai, a := range assigns {
				w := func(i, j int) int { return a[pidx[i][j]] }
				want := s.minSpanningForestWeight(w)
				idk := ai % nIDMaps
				for v := 0; v < nVariants; v++ {
					b, wg := buildWeighted(&s, idk, v, w)
					run(t, "und-span-frac", key+fmt.Sprintf("|a=%d", ai), idk, v, func(c *chk) {
						spanChecks(c, b, wg, w, want, true, comps)
					})
					evals++
				}
			}
			t.Count("weighted_graphs", int64(evals))
			if m >= 2 {
				t.Nontrivial()
			}
			t.Outcome(sizeOutcome(&s, fmt.Sprintf("comps=%d", comps)))
			t.Detail(s.String())
		})
	})
}
