package main

import (
	"errors"
	"fmt"
	"math/rand/v2"

	"gonum.org/v1/gonum/graph"
	"gonum.org/v1/gonum/graph/coloring"
	"gonum.org/v1/gonum/internal/verif/vlib"
)

// splitmix is a deterministic rand.Source implemented in the harness.
type splitmix struct{ x uint64 }

func (s *splitmix) Uint64() uint64 {
	s.x += 0x9e3779b97f4a7c15
	z := s.x
	z = (z ^ (z >> 30)) * 0xbf58476d1ce4e5b9
	z = (z ^ (z >> 27)) * 0x94d049bb133111eb
	return z ^ (z >> 31)
}

// partialSpec is a partial colouring on node indices; absent adds an entry
// for a node ID that is not in the graph.
type partialSpec struct {
	name   string
	nodes  []int
	cols   []int
	absent bool
	isNil  bool
}

// partials enumerates nil, empty, every assignment of <=2 nodes with <=3
// colours, and one assignment naming an absent node.
func partials(n int) []partialSpec {
	ps := []partialSpec{{name: "nil", isNil: true}, {name: "empty"}}
	for i := 0; i < n; i++ {
		for a := 0; a < 3; a++ {
			ps = append(ps, partialSpec{name: fmt.Sprintf("%d:%d", i, a), nodes: []int{i}, cols: []int{a}})
		}
	}
	for i := 0; i < n; i++ {
		for j := i + 1; j < n; j++ {
			for a := 0; a < 3; a++ {
				for bb := 0; bb < 3; bb++ {
					ps = append(ps, partialSpec{name: fmt.Sprintf("%d:%d,%d:%d", i, a, j, bb), nodes: []int{i, j}, cols: []int{a, bb}})
				}
			}
		}
	}
	ps = append(ps, partialSpec{name: "absent", absent: true})
	if n > 0 {
		ps = append(ps, partialSpec{name: "0:1,absent", nodes: []int{0}, cols: []int{1}, absent: true})
	}
	return ps
}

const absentID = 999

func (p *partialSpec) build(b *built) map[int64]int {
	if p.isNil {
		return nil
	}
	m := map[int64]int{}
	for k, i := range p.nodes {
		m[b.ids[i]] = p.cols[k]
	}
	if p.absent {
		m[absentID] = 0
	}
	return m
}

func (p *partialSpec) valid(s *gspec) bool {
	if p.absent {
		return false
	}
	if len(p.nodes) == 2 && s.has(p.nodes[0], p.nodes[1]) && p.cols[0] == p.cols[1] {
		return false
	}
	return true
}

// checkColoring validates (k, colors, err) for a graph with n >= 1 nodes.
func checkColoring(c *chk, what string, b *built, p *partialSpec, k int, colors map[int64]int, err error) (used int) {
	s := b.s
	if p != nil && !p.valid(s) {
		if err != coloring.ErrInvalidPartialColoring {
			c.failf("%s: invalid partial colouring accepted: k=%d err=%v", what, k, err)
		}
		return -1
	}
	if err != nil {
		c.failf("%s: unexpected error %v", what, err)
		return -1
	}
	return checkProper(c, what, b, p, k, colors)
}

func checkProper(c *chk, what string, b *built, p *partialSpec, k int, colors map[int64]int) int {
	s := b.s
	if len(colors) != s.n {
		c.failf("%s: %d nodes coloured, graph has %d (k=%d)", what, len(colors), s.n, k)
		return -1
	}
	var col [maxN]int
	for i := 0; i < s.n; i++ {
		cc, ok := colors[b.ids[i]]
		if !ok {
			c.failf("%s: node %d has no colour", what, i)
			return -1
		}
		col[i] = cc
	}
	distinct := map[int]bool{}
	for i := 0; i < s.n; i++ {
		distinct[col[i]] = true
		for j := i + 1; j < s.n; j++ {
			if s.has(i, j) && col[i] == col[j] {
				c.failf("%s: adjacent nodes %d and %d share colour %d", what, i, j, col[i])
				return -1
			}
		}
	}
	if p != nil {
		for q, i := range p.nodes {
			if col[i] != p.cols[q] {
				c.failf("%s: node %d coloured %d, partial colouring demands %d", what, i, col[i], p.cols[q])
				return -1
			}
		}
	}
	if k != len(distinct) {
		c.failf("%s: k=%d but the colouring uses %d colours", what, k, len(distinct))
		return -1
	}
	return k
}

func sameMap(a, b map[int64]int) bool {
	if (a == nil) != (b == nil) || len(a) != len(b) {
		return false
	}
	for k, v := range a {
		if w, ok := b[k]; !ok || w != v {
			return false
		}
	}
	return true
}

// heuristicColorings runs the four partial-colouring heuristics and RLF.
func heuristicColorings(c *chk, b *built, ps []partialSpec, srcKind int) {
	g := b.g.(graph.Undirected)
	for pi := range ps {
		p := &ps[pi]
		part := p.build(b)
		orig := p.build(b)
		k, colors, err := coloring.Dsatur(g, part)
		checkColoring(c, "Dsatur partial="+p.name, b, p, k, colors, err)
		k, colors, err = coloring.SanSegundo(g, part)
		checkColoring(c, "SanSegundo partial="+p.name, b, p, k, colors, err)
		k, colors, err = coloring.WelshPowell(g, part)
		checkColoring(c, "WelshPowell partial="+p.name, b, p, k, colors, err)
		var src rand.Source
		switch (srcKind + pi) % 3 {
		case 0:
			src = rand.NewPCG(uint64(pi)+1, 7)
		case 1:
			src = &splitmix{x: uint64(pi) * 77}
		default:
			src = rand.NewPCG(12345, uint64(pi))
		}
		k, colors, err = coloring.Randomized(g, part, src)
		checkColoring(c, "Randomized partial="+p.name, b, p, k, colors, err)
		if !sameMap(part, orig) {
			c.failf("partial colouring %s was modified by a colouring function", p.name)
		}
		if c.failed() {
			return
		}
	}
	k, colors := coloring.RecursiveLargestFirst(g)
	checkProper(c, "RecursiveLargestFirst", b, nil, k, colors)
}

var errCancelled = errors.New("c14: cancelled by the harness terminator")

// lastCancelSuboptimal is set by exactColoring when some cancelled run
// returned the terminator error together with a colouring that uses fewer
// colours than the DSATUR heuristic (statistics only: shows that the
// "cancelled while holding an improved colouring" path was taken).
var lastCancelSuboptimal bool

// pollTerm is a coloring.Terminator that is cancelled at its cancelAt-th
// poll (call of Done); cancelAt = 0 never cancels. Done always returns the
// same channel, Err is nil until the channel is closed.
type pollTerm struct {
	polls, cancelAt int
	ch              chan struct{}
	closed          bool
}

func newPollTerm(cancelAt int) *pollTerm {
	return &pollTerm{cancelAt: cancelAt, ch: make(chan struct{})}
}
func (p *pollTerm) Done() <-chan struct{} {
	p.polls++
	if p.polls == p.cancelAt && !p.closed {
		close(p.ch)
		p.closed = true
	}
	return p.ch
}
func (p *pollTerm) Err() error {
	if p.closed {
		return errCancelled
	}
	return nil
}

// exactColoring checks DsaturExact with a nil terminator, with a terminator
// that never fires and with cancellation at every poll.
func exactColoring(c *chk, b *built, chi int, lean bool) (polls int) {
	g := b.g.(graph.Undirected)
	lastCancelSuboptimal = false
	// lean (the thorough sweep over all 7-node graphs): the nil-terminator
	// run is skipped; the never-cancelled terminator run checks the same result.
	if !lean {
		k, colors, err := coloring.DsaturExact(nil, g)
		if err != nil {
			c.failf("DsaturExact(nil): error %v", err)
			return 0
		}
		if checkProper(c, "DsaturExact(nil)", b, nil, k, colors) >= 0 && k != chi {
			c.failf("DsaturExact(nil): k=%d, chromatic number by exhaustive colouring is %d", k, chi)
		}
		if c.failed() {
			return 0
		}
	}
	pt := newPollTerm(0)
	k, colors, err := coloring.DsaturExact(pt, g)
	if err != nil {
		c.failf("DsaturExact(never cancelled): error %v", err)
		return 0
	}
	if checkProper(c, "DsaturExact(never cancelled)", b, nil, k, colors) >= 0 && k != chi {
		c.failf("DsaturExact(never cancelled): k=%d, chromatic number is %d", k, chi)
	}
	polls = pt.polls
	heur := chi
	if polls > 0 {
		heur, _, _ = coloring.Dsatur(g, nil)
	}
	// the search order is not deterministic (map iteration inside gonum), so
	// the number of polls varies a little from run to run: go one past it.
	for j := 1; j <= min(polls+1, 64) && !c.failed(); j++ {
		pt := newPollTerm(j)
		k, colors, err := coloring.DsaturExact(pt, g)
		what := fmt.Sprintf("DsaturExact(cancel at poll %d)", j)
		switch {
		case err == nil:
			// finished before the poll, or the result is provably optimal.
			if checkProper(c, what, b, nil, k, colors) >= 0 && k != chi {
				c.failf("%s: err=nil but k=%d, chromatic number is %d (cancelled=%v)", what, k, chi, pt.closed)
			}
		case err == errCancelled:
			if !pt.closed {
				c.failf("%s: terminator error returned although never cancelled", what)
				break
			}
			if checkProper(c, what, b, nil, k, colors) >= 0 && k < chi {
				c.failf("%s: k=%d below the chromatic number %d", what, k, chi)
			}
			if k < heur {
				lastCancelSuboptimal = true
			}
		default:
			c.failf("%s: unexpected error %v", what, err)
		}
	}
	return polls
}

func genUndColor(g *vlib.G) {
	forUndirected(g, 6, func(key string, s gspec) {
		if s.n == 0 {
			return
		}
		// quick tier: the 6-node graphs whose edge mask is a multiple of 8 (a fixed eighth).
		if s.n == 6 && !g.Thorough() && s.mask%8 != 0 {
			return
		}
		plan := undPlan(g, &s)
		quick6 := s.n == 6 && !g.Thorough()
		g.Case(key, func(t *vlib.T) {
			s := s
			ps := partials(s.n)
			evals := 0
			for ci, cb := range plan {
				// Partial colourings: all of them on the ascending harness
				// graph for n <= 5 and (thorough) n = 6; elsewhere a rotating
				// third (n <= 5), sixth (n = 6 thorough) or twenty-fourth (n = 6
				// quick; ascending graph: twelfth) chosen by combination
				// and edge mask. nil, empty and absent-node always.
				stride := 1
				switch {
				case quick6 && cb.v == vOrdAsc:
					stride = 12
				case quick6:
					stride = 24
				case cb.v == vOrdAsc:
					stride = 1
				case s.n >= 6:
					stride = 6
				case s.n == 5:
					stride = 3
				}
				sub := ps
				if stride > 1 {
					sub = nil
					for pi := range ps {
						if pi < 2 || (pi+ci+int(s.mask))%stride == 0 || ps[pi].absent {
							sub = append(sub, ps[pi])
						}
					}
				}
				b := build(&s, cb.idk, cb.v)
				run(t, "und-color", key, cb.idk, cb.v, func(c *chk) { heuristicColorings(c, b, sub, cb.idk+cb.v) })
				evals += len(sub)
			}
			t.Count("partial_colourings", int64(evals))
			if s.edges() >= 1 {
				t.Nontrivial()
			}
			t.Outcome(sizeOutcome(&s, ""))
			t.Detail(s.String())
		})
	})
}

func genUndColorExact(g *vlib.G) {
	tomita := vlib.Env("VERIF_CONFIG", "default") != "default"
	forUndirected(g, 6, func(key string, s gspec) {
		if s.n == 0 {
			return
		}
		// quick tier: the 6-node graphs with an even edge mask, default configuration
		// only (und-topo covers the cliques of 6-node graphs under tomita).
		if s.n == 6 && !g.Thorough() && (tomita || s.mask%2 == 1) {
			return
		}
		plan := undPlan(g, &s)
		g.Case(key, func(t *vlib.T) {
			s := s
			chi := s.chromatic()
			maxPolls := 0
			for _, cb := range plan {
				b := build(&s, cb.idk, cb.v)
				runSticky(t, "und-color-exact", key, cb.idk, cb.v, func(c *chk) {
					maxPolls = max(maxPolls, exactColoring(c, b, chi, false))
				})
			}
			t.Max("dsatur_exact_polls", int64(maxPolls))
			if maxPolls > 0 {
				t.Nontrivial()
			}
			t.Outcome(fmt.Sprintf("n=%d chi=%d searched=%v", s.n, chi, maxPolls > 0))
			t.Detail(s.String())
		})
	})
}

// hard8 is a fixed list of 8-node graphs with heuristic colours 5 > chromatic
// number 4 > clique number 3 (for at least one node order; found by sampling):
// the exact search first improves on the heuristic and then has to keep
// searching below the improved bound, so a cancellation can hit it while it
// holds an improved best colouring.
var hard8 = []uint32{
	0xc6d55ba, 0x4fe31d9, 0xeaf6e17, 0x5dd515b, 0xc7617f1, 0x7b9d87d, 0x72fde8e, 0xab639dd, 0xad5657e, 0x8f76ae3,
	0xe391e7e, 0xcf527ce, 0x67f1eea, 0xbb63ed3, 0xf94cdbd, 0xab8adbc, 0x5dac8fa, 0xcb4abd6, 0xbdcccaf, 0x67696f4,
	0x767db29, 0x8eeef0d, 0xf9996bb, 0xceedb99, 0x5bd2bce, 0xe9749fb, 0x7dae51d, 0xc7a2b73, 0x9da695b, 0x2fd3a4e,
	0xc6cdb2d, 0xb25df35, 0xc72dbba, 0xac9bf6d, 0xcb8cafe, 0xdb8d8fc, 0x759d13b, 0xd8cd4f5, 0x67e26a7, 0x67e5a7d,
}

// genUndColorHard extends the exact-colouring check to 7 and 8 nodes, where
// the heuristic upper bound is not always optimal: the hard7 (1302 graphs)
// and hard8 (40 graphs) lists under all ID maps and implementations, in both
// tiers and both configurations.
func genUndColorHard(g *vlib.G) {
	one := func(group string, n int, mask uint32, all bool) { hardCase(g, group, n, mask, all) }
	for _, m := range hard8 {
		one("und-color-hard", 8, m, true)
	}
	for _, m := range hard7 {
		one("und-color-hard", 7, m, true)
	}
}

// hardCase is one graph of the hard lists (all: every ID map and
// implementation) or of the 7-node sweep.
func hardCase(g *vlib.G, group string, n int, mask uint32, all bool) {
	lean := !all && !g.Thorough()
	{
		s := undirectedSpec(n, mask)
		key := fmt.Sprintf("n=%d edges=%#x", n, mask)
		g.Case(key, func(t *vlib.T) {
			s := s
			chi := s.chromatic()
			maxPolls, improved, cancelledWithBest := 0, false, false
			for idk := 0; idk < nIDMaps; idk++ {
				for v := 0; v < nVariants; v++ {
					if !all {
						// sweep: ident/asc always; two more combinations only
						// for graphs on which the exact search is entered.
						first := idk == idIdentity && v == vOrdAsc
						more := (idk == idSparse && v == vOrdDesc) || (idk == idReversed && v == vSimple)
						if !first && !(more && maxPolls > 0) {
							continue
						}
					}
					b := build(&s, idk, v)
					runSticky(t, group, key, idk, v, func(c *chk) {
						if all && (v == vOrdAsc || v == vOrdDesc) {
							if k, _, _ := coloring.Dsatur(b.g.(graph.Undirected), nil); k > chi {
								improved = true
							}
						}
						maxPolls = max(maxPolls, exactColoring(c, b, chi, lean))
						if lastCancelSuboptimal {
							cancelledWithBest = true
						}
					})
				}
			}
			t.Max("dsatur_exact_polls", int64(maxPolls))
			if cancelledWithBest {
				t.Count("cancelled_runs_returning_improved_but_unproven_colouring", 1)
			}
			if improved {
				t.Count("exact_search_had_to_improve_on_heuristic", 1)
			}
			if maxPolls > 0 {
				t.Nontrivial()
			}
			t.Outcome(fmt.Sprintf("n=%d chi=%d searched=%v improved=%v cancelled-with-best=%v", n, chi, maxPolls > 0, improved, cancelledWithBest))
			t.Detail(s.String())
		})
	}
}

// genUndColorSweep7 runs the exact-colouring check over the 7-node graphs in
// scrambled order: a fixed 1/32 in the quick tier (ident/asc, plus sparse/desc
// and rev/simple when the exact search is entered; without the nil-terminator
// call), the first 2^20 (half of them) in the thorough tier. Default configuration only.
func genUndColorSweep7(g *vlib.G) {
	if vlib.Env("VERIF_CONFIG", "default") != "default" {
		return
	}
	n := vlib.Pick(g, uint32(1)<<16, uint32(1)<<20)
	for k := uint32(0); k < n; k++ {
		if g.Stopped() {
			return
		}
		hardCase(g, "und-color-sweep7", 7, scramble(k, 21), false)
	}
}
