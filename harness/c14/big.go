package main

import (
	"fmt"

	"gonum.org/v1/gonum/internal/verif/vlib"
)

// Pseudo-random larger graphs (6..8 nodes) from a fixed linear congruential
// sequence: a declared, finite, reproducible family that adds shapes the
// exhaustive enumeration cannot reach (deeper DFS trees for the dominator
// forests, longer cycles, larger cliques). The same brute-force oracles apply.

type lcg struct{ x uint64 }

func (l *lcg) next(n int) int {
	l.x = l.x*6364136223846793005 + 1442695040888963407
	return int((l.x >> 33) % uint64(n))
}

// randomSpec draws a graph with about m edges/arcs.
func randomSpec(n, m int, directed bool, seed uint64) gspec {
	s := gspec{n: n, directed: directed}
	r := &lcg{x: seed*0x9E3779B97F4A7C15 + uint64(n*1000+m)}
	for k := 0; k < m; k++ {
		i, j := r.next(n), r.next(n)
		if i == j {
			continue
		}
		s.adj[i] |= 1 << uint(j)
		if !directed {
			s.adj[j] |= 1 << uint(i)
		}
	}
	return s
}

func genDirBig(g *vlib.G) {
	seeds := vlib.Pick(g, 150, 600)
	for n := 6; n <= 8; n++ {
		for _, m := range []int{n, n + n/2, 2 * n, 3 * n} {
			for seed := 0; seed < seeds; seed++ {
				if g.Stopped() {
					return
				}
				s := randomSpec(n, m, true, uint64(seed))
				key := fmt.Sprintf("n=%d m~%d seed=%d", n, m, seed)
				g.Case(key, func(t *vlib.T) {
					s := s
					classes, comp := s.sccs()
					cycles := s.elementaryCycles()
					var roots []int
					var idoms [][maxN]int
					var reach []uint8
					deep := false
					for r := 0; r < s.n; r++ {
						id, rc := s.idoms(r)
						roots = append(roots, r)
						idoms = append(idoms, id)
						reach = append(reach, rc)
						for v := 0; v < s.n; v++ {
							if id[v] >= 0 && id[v] != r {
								deep = true
							}
						}
					}
					for idk := 0; idk < nIDMaps; idk++ {
						var stab [2]string
						for v := 0; v < nVariants; v++ {
							b := build(&s, idk, v)
							run(t, "dir-big", key, idk, v, func(c *chk) {
								directedTopo(c, b, classes, comp, cycles, &stab)
								dominators(c, b, roots, idoms, reach)
							})
						}
					}
					t.Nontrivial()
					t.Outcome(fmt.Sprintf("n=%d sccs=%d cycles>=%d deepdom=%v", s.n, len(classes), min(len(cycles), 20)/5*5, deep))
					t.Detail(s.String())
				})
			}
		}
	}
}

func genUndBig(g *vlib.G) {
	seeds := vlib.Pick(g, 30, 250)
	for n := 7; n <= 8; n++ {
		for _, m := range []int{n, 2 * n, 3 * n, 5 * n} {
			for seed := 0; seed < seeds; seed++ {
				if g.Stopped() {
					return
				}
				s := randomSpec(n, m, false, uint64(seed))
				key := fmt.Sprintf("n=%d m~%d seed=%d", n, m, seed)
				g.Case(key, func(t *vlib.T) {
					s := s
					wUnit = 1
					o := newUndirOracle(&s)
					chi := s.chromatic()
					ps := partials(s.n)
					var sub []partialSpec
					for pi := range ps {
						if pi < 2 || pi%7 == seed%7 || ps[pi].absent {
							sub = append(sub, ps[pi])
						}
					}
					r := &lcg{x: uint64(seed) + 99}
					var wt [maxN][maxN]int
					for i := 0; i < s.n; i++ {
						for j := i + 1; j < s.n; j++ {
							wt[i][j] = r.next(3)
							wt[j][i] = wt[i][j]
						}
					}
					w := func(i, j int) int { return wt[i][j] }
					for idk := 0; idk < nIDMaps; idk++ {
						for v := 0; v < nVariants; v++ {
							b := build(&s, idk, v)
							run(t, "und-big", key, idk, v, func(c *chk) {
								undirectedTopo(c, b, o)
								heuristicColorings(c, b, sub, idk+v)
							})
							runSticky(t, "und-big", key+"|exact", idk, v, func(c *chk) { exactColoring(c, b, chi, false) })
							bw, wg := buildWeighted(&s, idk, v, w)
							run(t, "und-big", key+"|span", idk, v, func(c *chk) { spanChecks(c, bw, wg, w, 0, false, len(o.comps)) })
						}
					}
					t.Nontrivial()
					t.Outcome(fmt.Sprintf("n=%d cliques=%d degen=%d chi=%d", s.n, len(o.cliques)/4*4, o.degen, chi))
					t.Detail(s.String())
				})
			}
		}
	}
}
