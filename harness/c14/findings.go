package main

import (
	"fmt"

	"gonum.org/v1/gonum/graph"
	"gonum.org/v1/gonum/graph/graphs/gen"
	"gonum.org/v1/gonum/graph/simple"
	"gonum.org/v1/gonum/graph/topo"
	"gonum.org/v1/gonum/internal/verif/vlib"
)

// Checks that are known to fire on the unchanged tree (suspected genuine
// defects, triaged in NOTES.md). Each lives in its own case and is tagged
// with a class so that it never masks another check.
const (
	clsKCore   = "kcore-k-above-degeneracy-panics"
	clsGnmOdd  = "gnm-directed-odd-size"
	clsSWBBp0  = "smallworldsbb-p0-empty"
	clsSWBBlat = "smallworldsbb-not-ring-lattice"
)

func genFindings(g *vlib.G) {
	// topo.KCore(k, g) for k beyond degeneracy+1: the k-core is empty by
	// definition; KCore slices offsets[:k] out of range instead.
	forUndirected(g, 4, func(key string, s gspec) {
		g.Case("KCore-large-k "+key, func(t *vlib.T) {
			s := s
			d := s.degeneracy()
			b := build(&s, idIdentity, vOrdAsc)
			ug := b.g.(graph.Undirected)
			for k := d + 2; k <= d+3; k++ {
				func() {
					defer func() {
						if r := recover(); r != nil {
							t.FailClass(clsKCore, "KCore(%d) on a graph of degeneracy %d panicked: %v (the %d-core is empty)", k, d, r, k)
						}
					}()
					if core := topo.KCore(k, ug); len(core) != 0 {
						t.Failf("KCore(%d)=%v, want empty", k, b.indices(core))
					}
				}()
			}
			t.Nontrivial()
			t.Outcome("KCore-large-k")
		})
	})

	// gen.Gnm on a directed destination with odd m: "order n and size m".
	for n := 2; n <= 5; n++ {
		for m := 1; m <= n*(n-1); m += 2 {
			n, m := n, m
			g.Case(fmt.Sprintf("Gnm-directed-odd n=%d m=%d", n, m), func(t *vlib.T) {
				dst := simple.NewDirectedGraph()
				if err := gen.Gnm(dst, n, m, newSource(0, uint64(n*100+m))); err != nil {
					t.Failf("Gnm: unexpected error %v", err)
					return
				}
				if _, mm := countEdges(dst, true); mm != m {
					t.FailClass(clsGnmOdd, "Gnm(directed, n=%d, m=%d) built %d edges; documented size is m", n, m, mm)
				}
				t.Nontrivial()
				t.Outcome("Gnm-directed-odd")
			})
		}
	}

	// gen.SmallWorldsBB without replacement (p = 0, and p so small that the
	// first replacement is > n*d draws away for the sources used): the small
	// world model starts from the ring lattice in which every node is joined
	// to its d nearest neighbours on each side.
	for n := 3; n <= 9; n++ {
		for d := 1; d <= (n-1)/2; d++ {
			for _, p := range []float64{0, 1e-12} {
				n, d, p := n, d, p
				g.Case(fmt.Sprintf("SmallWorldsBB-lattice n=%d d=%d p=%v", n, d, p), func(t *vlib.T) {
					dst := simple.NewUndirectedGraph()
					if err := gen.SmallWorldsBB(dst, n, d, p, newSource(0, uint64(n*10+d))); err != nil {
						t.Failf("SmallWorldsBB: unexpected error %v", err)
						return
					}
					cls := clsSWBBlat
					if p == 0 {
						cls = clsSWBBp0
					}
					nn, m := countEdges(dst, false)
					if nn != n {
						t.Failf("SmallWorldsBB: %d nodes want %d", nn, n)
						return
					}
					if m != n*d {
						t.FailClass(cls, "SmallWorldsBB(n=%d,d=%d,p=%v): %d edges; the ring lattice has n*d=%d", n, d, p, m, n*d)
						return
					}
					for u := 0; u < n; u++ {
						for v := 0; v < n; v++ {
							if u == v {
								continue
							}
							diff := (u - v + n) % n
							near := diff <= d || n-diff <= d
							if dst.HasEdgeBetween(int64(u), int64(v)) != near {
								t.FailClass(cls, "SmallWorldsBB(n=%d,d=%d,p=%v): nodes %d,%d joined=%v; ring lattice says %v", n, d, p, u, v, !near, near)
								return
							}
						}
					}
					t.Nontrivial()
					t.Outcome("SmallWorldsBB-lattice")
				})
			}
		}
	}
}
