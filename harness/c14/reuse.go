package main

import (
	"fmt"

	"gonum.org/v1/gonum/graph"
	"gonum.org/v1/gonum/graph/traverse"
	"gonum.org/v1/gonum/internal/verif/vlib"
)

// Traverser reuse histories: sequences of Walk / Reset / WalkAll on ONE
// BreadthFirst or DepthFirst value. After Reset (and inside WalkAll, which
// resets) the traverser must behave exactly like a fresh one, whatever was
// left in its queue/stack and visited set by an earlier, possibly early
// stopped, walk. Without a Reset the visited set persists (that is what
// WalkAll itself relies on): a further Walk from an unvisited node visits
// exactly the nodes reachable through unvisited nodes.

// walker abstracts over the two traversers.
type walker interface {
	// walk runs Walk from node index s. The until callback returns true at
	// its stopAt-th call (0: never) or on node index target (-1: none).
	walk(b *built, s, stopAt, target int) walkLog
	walkAll(b *built) walkLog
	reset()
	visited(b *built, i int) bool
}

// walkLog is everything observable about one operation.
type walkLog struct {
	events []int // Visit(i): i; until(i, d): 100+10*i+d (d=9 for DepthFirst); before: -1; after: -2
	res    int   // returned node index, -1 for nil
}

func (l *walkLog) String() string { return fmt.Sprintf("%v -> %d", l.events, l.res) }

func sameLog(a, b walkLog) bool {
	if a.res != b.res || len(a.events) != len(b.events) {
		return false
	}
	for i := range a.events {
		if a.events[i] != b.events[i] {
			return false
		}
	}
	return true
}

type bfWalker struct{ w traverse.BreadthFirst }

func (x *bfWalker) walk(b *built, s, stopAt, target int) walkLog {
	l := walkLog{res: -1}
	calls := 0
	x.w.Visit = func(n graph.Node) { l.events = append(l.events, b.ix(n.ID())) }
	r := x.w.Walk(b.g, b.node(s), func(n graph.Node, d int) bool {
		i := b.ix(n.ID())
		l.events = append(l.events, 100+10*i+d)
		calls++
		return calls == stopAt || i == target
	})
	if r != nil {
		l.res = b.ix(r.ID())
	}
	return l
}
func (x *bfWalker) walkAll(b *built) walkLog {
	l := walkLog{res: -1}
	x.w.Visit = func(n graph.Node) { l.events = append(l.events, b.ix(n.ID())) }
	x.w.WalkAll(b.g.(graph.Undirected), func() { l.events = append(l.events, -1) }, func() { l.events = append(l.events, -2) },
		func(n graph.Node) { l.events = append(l.events, 100+10*b.ix(n.ID())+9) })
	return l
}
func (x *bfWalker) reset()                       { x.w.Reset() }
func (x *bfWalker) visited(b *built, i int) bool { return x.w.Visited(b.node(i)) }

type dfWalker struct{ w traverse.DepthFirst }

func (x *dfWalker) walk(b *built, s, stopAt, target int) walkLog {
	l := walkLog{res: -1}
	calls := 0
	x.w.Visit = func(n graph.Node) { l.events = append(l.events, b.ix(n.ID())) }
	r := x.w.Walk(b.g, b.node(s), func(n graph.Node) bool {
		i := b.ix(n.ID())
		l.events = append(l.events, 100+10*i+9)
		calls++
		return calls == stopAt || i == target
	})
	if r != nil {
		l.res = b.ix(r.ID())
	}
	return l
}
func (x *dfWalker) walkAll(b *built) walkLog {
	l := walkLog{res: -1}
	x.w.Visit = func(n graph.Node) { l.events = append(l.events, b.ix(n.ID())) }
	x.w.WalkAll(b.g.(graph.Undirected), func() { l.events = append(l.events, -1) }, func() { l.events = append(l.events, -2) },
		func(n graph.Node) { l.events = append(l.events, 100+10*b.ix(n.ID())+9) })
	return l
}
func (x *dfWalker) reset()                       { x.w.Reset() }
func (x *dfWalker) visited(b *built, i int) bool { return x.w.Visited(b.node(i)) }

func newWalker(kind int) walker {
	if kind == 0 {
		return &bfWalker{}
	}
	return &dfWalker{}
}

var walkerNames = [2]string{"BreadthFirst", "DepthFirst"}

// logSets extracts the visited and until-called node sets and checks BFS
// depths against dist (nil: no depth check).
func logSets(l walkLog) (visits, untils uint8) {
	for _, e := range l.events {
		switch {
		case e >= 100:
			untils |= 1 << uint((e-100)/10)
		case e >= 0:
			visits |= 1 << uint(e)
		}
	}
	return
}

// reuseChecks runs the histories on one realisation. exact: the graph
// iterates deterministically, so logs are compared event by event; otherwise
// only order-independent facts (sets, results of targeted walks) are compared.
func reuseChecks(c *chk, b *built, exact bool) {
	s := b.s
	_, undirected := b.g.(graph.Undirected)
	same := func(what string, got, want walkLog) bool {
		if exact {
			if !sameLog(got, want) {
				c.failf("%s: got %s, a fresh traverser gives %s", what, got.String(), want.String())
				return false
			}
			return true
		}
		gv, gu := logSets(got)
		wv, wu := logSets(want)
		if gv != wv || gu != wu || (got.res < 0) != (want.res < 0) {
			c.failf("%s: visited %s until %s res %d; a fresh traverser: visited %s until %s res %d", what, maskStr(gv), maskStr(gu), got.res, maskStr(wv), maskStr(wu), want.res)
			return false
		}
		return true
	}
	for kind := 0; kind < 2; kind++ {
		name := walkerNames[kind]
		for s1 := 0; s1 < s.n; s1++ {
			// the dirtying first walk: stopped at its k-th until call (k = 0: runs to completion).
			for k := 0; k <= s.n; k++ {
				first := newWalker(kind).walk(b, s1, k, -1)
				stoppedEarly := first.res >= 0
				if k > 0 && !stoppedEarly {
					break // fewer than k until calls: same as k = 0
				}
				pre := fmt.Sprintf("%s Walk(%d, stop at until call %d)", name, s1, k)

				// H1: W, Reset, then Visited must be false everywhere.
				{
					w := newWalker(kind)
					w.walk(b, s1, k, -1)
					w.reset()
					for i := 0; i < s.n; i++ {
						if w.visited(b, i) {
							c.failf("%s; Reset: Visited(%d) still true", pre, i)
							return
						}
					}
				}
				for s2 := 0; s2 < s.n; s2++ {
					// H2: W, Reset, full Walk(s2) == fresh full Walk(s2).
					{
						w := newWalker(kind)
						w.walk(b, s1, k, -1)
						w.reset()
						got := w.walk(b, s2, 0, -1)
						want := newWalker(kind).walk(b, s2, 0, -1)
						if !same(fmt.Sprintf("%s; Reset; Walk(%d)", pre, s2), got, want) {
							return
						}
						for i := 0; i < s.n; i++ {
							if w.visited(b, i) != newVisited(want, i) {
								c.failf("%s; Reset; Walk(%d): Visited(%d)=%v", pre, s2, i, w.visited(b, i))
								return
							}
						}
					}
					// H3: W, Reset, Walk(s2, until target t) == fresh.
					for t := 0; t < s.n; t++ {
						if !exact && t != (s1+s2)%s.n {
							continue
						}
						w := newWalker(kind)
						w.walk(b, s1, k, -1)
						w.reset()
						got := w.walk(b, s2, 0, t)
						want := newWalker(kind).walk(b, s2, 0, t)
						if exact {
							if !same(fmt.Sprintf("%s; Reset; Walk(%d, until %d)", pre, s2, t), got, want) {
								return
							}
						} else if got.res != want.res {
							c.failf("%s; Reset; Walk(%d, until %d): returned %d, fresh traverser %d", pre, s2, t, got.res, want.res)
							return
						}
					}
					// H4: W, Reset, W', Reset, full Walk: two dirtying walks.
					if exact && k > 0 && s2 != s1 {
						w := newWalker(kind)
						w.walk(b, s1, k, -1)
						w.reset()
						w.walk(b, s2, 1, -1)
						w.reset()
						got := w.walk(b, s1, 0, -1)
						want := newWalker(kind).walk(b, s1, 0, -1)
						if !same(fmt.Sprintf("%s; Reset; Walk(%d, stop at 1); Reset; Walk(%d)", pre, s2, s1), got, want) {
							return
						}
					}
					// H5: complete walk, no Reset, Walk from an unvisited node:
					// visits exactly what is reachable through unvisited nodes.
					if k == 0 {
						v1, _ := logSets(first)
						if v1>>uint(s2)&1 != 0 {
							continue
						}
						w := newWalker(kind)
						w.walk(b, s1, 0, -1)
						got := w.walk(b, s2, 0, -1)
						wantNew := s.reachFrom(s2, s.all()&^v1, nil)
						gv, gu := logSets(got)
						if gv != wantNew || gu != wantNew || got.res != -1 {
							c.failf("%s; Walk(%d) on the same traverser: visited %s until %s, want %s (already visited %s)", pre, s2, maskStr(gv), maskStr(gu), maskStr(wantNew), maskStr(v1))
							return
						}
						if kind == 0 {
							// BFS depths are hop distances inside the unvisited part.
							sub := *s
							for i := 0; i < s.n; i++ {
								if v1>>uint(i)&1 != 0 {
									sub.adj[i] = 0
								} else {
									sub.adj[i] &^= v1
								}
							}
							d := sub.dist(s2, nil)
							for _, e := range got.events {
								if e >= 100 && d[(e-100)/10] != (e-100)%10 {
									c.failf("%s; Walk(%d) on the same traverser: until(%d, depth %d) but hop distance %d", pre, s2, (e-100)/10, (e-100)%10, d[(e-100)/10])
									return
								}
							}
						}
						for i := 0; i < s.n; i++ {
							if w.visited(b, i) != ((v1|wantNew)>>uint(i)&1 != 0) {
								c.failf("%s; Walk(%d) on the same traverser: Visited(%d)=%v", pre, s2, i, w.visited(b, i))
								return
							}
						}
					}
				}
				if undirected {
					// H6: W, WalkAll (resets itself) and H7: W, Reset, WalkAll == fresh WalkAll.
					want := newWalker(kind).walkAll(b)
					for _, withReset := range []bool{false, true} {
						w := newWalker(kind)
						w.walk(b, s1, k, -1)
						if withReset {
							w.reset()
						}
						got := w.walkAll(b)
						what := fmt.Sprintf("%s; WalkAll", pre)
						if withReset {
							what = fmt.Sprintf("%s; Reset; WalkAll", pre)
						}
						if exact {
							if !sameLog(got, want) {
								c.failf("%s: got %s, a fresh traverser gives %s", what, got.String(), want.String())
								return
							}
						} else if !sameComponents(got, want) {
							c.failf("%s: got %s, a fresh traverser gives %s", what, got.String(), want.String())
							return
						}
						// H8: ..., WalkAll, Reset, Walk.
						w.reset()
						got2 := w.walk(b, s1, 0, -1)
						if !same(what+"; Reset; Walk", got2, newWalker(kind).walk(b, s1, 0, -1)) {
							return
						}
					}
				}
			}
		}
	}
}

func newVisited(l walkLog, i int) bool {
	v, _ := logSets(l)
	return v>>uint(i)&1 != 0
}

// sameComponents compares two WalkAll logs as sets of during-sets between
// before/after markers.
func sameComponents(a, b walkLog) bool {
	split := func(l walkLog) (map[uint8]int, bool) {
		m := map[uint8]int{}
		var cur uint8
		open := false
		for _, e := range l.events {
			switch {
			case e == -1:
				if open {
					return nil, false
				}
				open, cur = true, 0
			case e == -2:
				if !open {
					return nil, false
				}
				open = false
				m[cur]++
			case e >= 100:
				cur |= 1 << uint((e-100)/10)
			}
		}
		return m, !open
	}
	ma, oka := split(a)
	mb, okb := split(b)
	if !oka || !okb || len(ma) != len(mb) {
		return false
	}
	for k, v := range ma {
		if mb[k] != v {
			return false
		}
	}
	return true
}

func genTraverseReuse(g *vlib.G) {
	thorough := g.Thorough()
	one := func(key string, s gspec) {
		g.Case(key, func(t *vlib.T) {
			s := s
			for _, cb := range allCombos {
				// 4 and 5 nodes: the two deterministic harness graphs under the
				// identity map and simple/multi under the sparse map.
				if s.n >= 4 && !((cb.idk == idIdentity && !variantRaw(cb.v)) || (cb.idk == idSparse && variantRaw(cb.v))) {
					continue
				}
				// directed graphs on 4 nodes in the quick tier: ident/asc and sparse/simple.
				if s.n >= 4 && s.directed && !thorough && cb.v != vOrdAsc && cb.v != vSimple {
					continue
				}
				b := build(&s, cb.idk, cb.v)
				run(t, "traverse-reuse", key, cb.idk, cb.v, func(c *chk) { reuseChecks(c, b, !variantRaw(cb.v)) })
			}
			if s.n >= 2 && s.edges() >= 1 {
				t.Nontrivial()
			}
			t.Outcome(sizeOutcome(&s, fmt.Sprintf("dir=%v", s.directed)))
			t.Detail(s.String())
		})
	}
	forDirected(g, 4, func(key string, s gspec) { one("dir "+key, s) })
	forUndirected(g, vlib.Pick(g, 4, 5), func(key string, s gspec) { one("und "+key, s) })
}
