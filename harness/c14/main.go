// Harness C14: structural graph algorithms agree with their definitions on
// every small graph. See NOTES.md and check.json.
package main

import (
	"fmt"

	"gonum.org/v1/gonum/internal/verif/vlib"
)

func main() {
	// Cheap and central groups first, the large sweeps last, so that an
	// internal deadline cuts the extensions rather than the declared core.
	all := []vlib.Group{
		{Name: "dir-topo", Gen: genDirTopo},
		{Name: "dir-flow", Gen: genDirFlow},
		{Name: "dir-intervals", Gen: genDirIntervals},
		{Name: "dir-traverse", Gen: genDirTraverse},
		{Name: "und-topo", Gen: genUndTopo},
		{Name: "und-span", Gen: genUndSpan},
		{Name: "und-span-frac", Gen: genUndSpanFrac},
		{Name: "und-color-exact", Gen: genUndColorExact},
		{Name: "product", Gen: genProduct},
		{Name: "gen-det", Gen: genGenDet},
		{Name: "gen-rand", Gen: genGenRand},
		{Name: "findings", Gen: genFindings},
		{Name: "deep-classic", Gen: genDeepClassic},
		{Name: "deep-spine", Gen: genDeepSpine},
		{Name: "deep-tree", Gen: genDeepTree},
		{Name: "deep-ladder", Gen: genDeepLadder},
		{Name: "deep-prog", Gen: genDeepProg},
		{Name: "deep-lcg", Gen: genDeepLCG},
		{Name: "dir-big", Gen: genDirBig},
		{Name: "und-big", Gen: genUndBig},
		{Name: "und-traverse", Gen: genUndTraverse},
		{Name: "traverse-reuse", Gen: genTraverseReuse},
		{Name: "und-color", Gen: genUndColor},
		{Name: "dir-flow5", Gen: genDirFlow5},
		{Name: "dir-topo5", Gen: genDirTopo5},
		{Name: "und-color-hard", Gen: genUndColorHard},
		{Name: "und-color-sweep7", Gen: genUndColorSweep7},
		{Name: "dir-intervals5", Gen: genDirIntervals5},
	}
	// The tomita build tag only changes the pivot choice of
	// topo.BronKerbosch: that configuration runs the groups that reach it
	// (cliques, clique graph, k-clique communities, DsaturExact's clique bound).
	if vlib.Env("VERIF_CONFIG", "default") == "tomita" {
		var sel []vlib.Group
		for _, g := range all {
			switch g.Name {
			case "und-topo", "und-color-exact", "und-color-hard", "und-big":
				sel = append(sel, g)
			}
		}
		all = sel
	}
	vlib.Main("C14", all...)
}

// scramble is a bijection on [0, 2^bits): the enumeration index is mapped to
// the edge mask through it so that "case index mod shards" (the runtime's
// sharding rule) is not a fixed pattern of the first few edges, which would
// give the shards very different work (e.g. root 0 without out-arcs).
func scramble(k uint32, bits int) uint32 {
	if bits < 2 {
		return k
	}
	return k ^ (k >> uint((bits+1)/2))
}

// forDirected enumerates every directed graph on 0..maxNodes nodes.
func forDirected(g *vlib.G, maxNodes int, f func(key string, s gspec)) {
	for n := 0; n <= maxNodes; n++ {
		arcs := n * (n - 1)
		for k := uint32(0); k < 1<<uint(arcs); k++ {
			if g.Stopped() {
				return
			}
			mask := scramble(k, arcs)
			f(fmt.Sprintf("n=%d arcs=%#x", n, mask), directedSpec(n, mask))
		}
	}
}

// forUndirected enumerates every undirected graph on 0..maxNodes nodes.
func forUndirected(g *vlib.G, maxNodes int, f func(key string, s gspec)) {
	for n := 0; n <= maxNodes; n++ {
		pairs := n * (n - 1) / 2
		for k := uint32(0); k < 1<<uint(pairs); k++ {
			if g.Stopped() {
				return
			}
			mask := scramble(k, pairs)
			f(fmt.Sprintf("n=%d edges=%#x", n, mask), undirectedSpec(n, mask))
		}
	}
}

func undMax(g *vlib.G) int { return vlib.Pick(g, 5, 6) }

func sizeOutcome(s *gspec, extra string) string {
	return fmt.Sprintf("n=%d m=%d %s", s.n, s.edges(), extra)
}

func genDirTopo(g *vlib.G) {
	forDirected(g, 4, func(key string, s gspec) {
		g.Case(key, func(t *vlib.T) { dirTopoCase(t, "dir-topo", key, s, allCombos) })
	})
}

// dirTopoCase runs the directed topo checks under the plan; realisations
// that share an ID map must produce the same stabilised sort.
func dirTopoCase(t *vlib.T, group, key string, s gspec, plan []combo) {
	classes, comp := s.sccs()
	cycles := s.elementaryCycles()
	var stab [nIDMaps][2]string
	for _, cb := range plan {
		b := build(&s, cb.idk, cb.v)
		run(t, group, key, cb.idk, cb.v, func(c *chk) {
			directedTopo(c, b, classes, comp, cycles, &stab[cb.idk])
		})
	}
	if s.n >= 2 && s.edges() >= 1 {
		t.Nontrivial()
	}
	t.Outcome(fmt.Sprintf("n=%d sccs=%d cycles=%d", s.n, len(classes), min(len(cycles), 9)))
	t.Detail(s.String())
}

func genDirFlow(g *vlib.G) {
	forDirected(g, 4, func(key string, s gspec) {
		g.Case(key, func(t *vlib.T) { dirFlowCase(t, "dir-flow", key, s, -1, false, allCombos) })
	})
}

func genDirIntervals(g *vlib.G) {
	forDirected(g, 4, func(key string, s gspec) {
		g.Case(key, func(t *vlib.T) { dirFlowCase(t, "dir-intervals", key, s, -1, true, allCombos) })
	})
}

// dirFlowCase checks dominators (every root, or only root onlyRoot when
// >= 0) and intervals (every entry from which the whole graph is reachable).
func dirFlowCase(t *vlib.T, group, key string, s gspec, onlyRoot int, doIntervals bool, plan []combo) {
	var roots []int
	var idoms [][maxN]int
	var reach []uint8
	nontrivialDom := false
	flowRoots := 0
	for r := 0; r < s.n; r++ {
		if onlyRoot >= 0 && r != onlyRoot {
			continue
		}
		id, rc := s.idoms(r)
		roots = append(roots, r)
		idoms = append(idoms, id)
		reach = append(reach, rc)
		for v := 0; v < s.n; v++ {
			if id[v] >= 0 && id[v] != r {
				nontrivialDom = true
			}
		}
		if rc == s.all() {
			flowRoots++
		}
	}
	type ivl struct {
		heads   []int
		members []uint8
	}
	ivs := make([]ivl, len(roots))
	maxIv := 0
	for k, r := range roots {
		if doIntervals && reach[k] == s.all() {
			h, m := s.intervals(r)
			ivs[k] = ivl{h, m}
			maxIv = max(maxIv, len(h))
		}
	}
	for _, cb := range plan {
		b := build(&s, cb.idk, cb.v)
		run(t, group, key, cb.idk, cb.v, func(c *chk) {
			if !doIntervals {
				dominators(c, b, roots, idoms, reach)
				return
			}
			for k, r := range roots {
				if reach[k] == s.all() {
					intervals(c, b, r, ivs[k].heads, ivs[k].members, idoms[k])
				}
			}
		})
	}
	if (!doIntervals && nontrivialDom) || (doIntervals && maxIv >= 2) {
		t.Nontrivial()
	}
	t.Outcome(fmt.Sprintf("n=%d deepdom=%v flowroots=%d maxintervals=%d", s.n, nontrivialDom, flowRoots, maxIv))
	t.Detail(s.String())
}

// forDirected5 enumerates directed graphs on 5 nodes: a fixed 1/step sample
// (all of them for step 1), spread by a bijective scramble of the index.
func forDirected5(g *vlib.G, quickStep, thoroughStep uint32, f func(key string, s gspec)) {
	const arcs = 20
	step := vlib.Pick(g, quickStep, thoroughStep)
	for k := uint32(0); k < (1<<arcs)/step; k++ {
		if g.Stopped() {
			return
		}
		m := k
		if step > 1 {
			m = (k * 0x9E375) & (1<<arcs - 1)
		}
		m = scramble(m, arcs)
		f(fmt.Sprintf("n=5 arcs=%#x", m), directedSpec(5, m))
	}
}

// plan5 is the realisation plan of the 5-node digraph sweeps: two
// realisations per graph in quick, all twelve in thorough. In quick
// dir-flow5 covers a quarter, dir-intervals5 an eighth and dir-topo5 a
// sixteenth of the 2^20 graphs; thorough covers all of them.
func plan5(g *vlib.G, mask uint32) []combo {
	if g.Thorough() {
		return allCombos
	}
	return twoCombos(mask)
}

// genDirFlow5 extends the dominator checks to the directed graphs on 5 nodes
// with root 0 (beyond the declared <=4 bound: the interesting dominator and
// interval shapes need five nodes).
func genDirFlow5(g *vlib.G) {
	forDirected5(g, 4, 1, func(key string, s gspec) {
		plan := plan5(g, s.mask)
		g.Case(key, func(t *vlib.T) { dirFlowCase(t, "dir-flow5", key, s, 0, false, plan) })
	})
}

func genDirIntervals5(g *vlib.G) {
	forDirected5(g, 8, 1, func(key string, s gspec) {
		plan := plan5(g, s.mask)
		g.Case(key, func(t *vlib.T) { dirFlowCase(t, "dir-intervals5", key, s, 0, true, plan) })
	})
}

// genDirTopo5 extends the SCC / topological sort / cycle enumeration checks
// to directed graphs on 5 nodes (quick: a fixed sixteenth, thorough: all).
func genDirTopo5(g *vlib.G) {
	forDirected5(g, 16, 1, func(key string, s gspec) {
		plan := twoCombos(s.mask)
		if g.Thorough() {
			plan = oneMapCombos(s.mask)
		}
		g.Case(key, func(t *vlib.T) { dirTopoCase(t, "dir-topo5", key, s, plan) })
	})
}

// undPlan is the realisation plan of an undirected graph: everything up to
// 5 nodes and in the thorough tier; 6-node graphs in the quick tier run under
// one ID map (chosen by the mask) with all four implementations.
func undPlan(g *vlib.G, s *gspec) []combo {
	if g.Thorough() || s.n <= 5 {
		return allCombos
	}
	return oneMapCombos(s.mask)
}

func genUndTopo(g *vlib.G) {
	tomita := vlib.Env("VERIF_CONFIG", "default") != "default"
	forUndirected(g, 6, func(key string, s gspec) {
		// quick tier, tomita configuration: the 6-node graphs with an even edge mask.
		if s.n == 6 && tomita && !g.Thorough() && s.mask%2 == 1 {
			return
		}
		plan := undPlan(g, &s)
		if s.n == 6 && !g.Thorough() {
			// quick: two realisations of a 6-node graph (ascending harness graph + one other).
			plan = twoCombos(s.mask)
		}
		g.Case(key, func(t *vlib.T) {
			s := s
			o := newUndirOracle(&s)
			for _, cb := range plan {
				b := build(&s, cb.idk, cb.v)
				run(t, "und-topo", key, cb.idk, cb.v, func(c *chk) { undirectedTopo(c, b, o) })
			}
			if s.n >= 3 && s.edges() >= 2 {
				t.Nontrivial()
			}
			t.Outcome(fmt.Sprintf("n=%d comps=%d cliques=%d degen=%d rank=%d", s.n, len(o.comps), len(o.cliques), o.degen, o.cycleRank))
			t.Detail(s.String())
		})
	})
}
