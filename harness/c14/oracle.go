package main

import (
	"math/bits"
	"sort"
)

// Brute-force definitional oracles on index space. All of them are written
// from the textbook definitions and work on bit masks of at most 8 nodes.

// reachFrom returns the set of nodes reachable from i (including i) using
// only nodes in allowed (i must be in allowed) and arcs for which ok(u,v).
func (s *gspec) reachFrom(i int, allowed uint8, ok func(u, v int) bool) uint8 {
	seen := uint8(1) << uint(i)
	for changed := true; changed; {
		changed = false
		for u := 0; u < s.n; u++ {
			if seen>>uint(u)&1 == 0 {
				continue
			}
			for v := 0; v < s.n; v++ {
				if seen>>uint(v)&1 != 0 || allowed>>uint(v)&1 == 0 || !s.has(u, v) {
					continue
				}
				if ok != nil && !ok(u, v) {
					continue
				}
				seen |= 1 << uint(v)
				changed = true
			}
		}
	}
	return seen
}

// closure returns reach[i] = nodes reachable from i (including i).
func (s *gspec) closure() [maxN]uint8 {
	var r [maxN]uint8
	for i := 0; i < s.n; i++ {
		r[i] = s.reachFrom(i, s.all(), nil)
	}
	return r
}

// sccs returns the strongly connected components (mutual reachability
// classes) as masks; comp[i] is the class of i.
func (s *gspec) sccs() (classes []uint8, comp [maxN]uint8) {
	r := s.closure()
	var done uint8
	for i := 0; i < s.n; i++ {
		var c uint8
		for j := 0; j < s.n; j++ {
			if r[i]>>uint(j)&1 != 0 && r[j]>>uint(i)&1 != 0 {
				c |= 1 << uint(j)
			}
		}
		comp[i] = c
		if done&c == 0 {
			classes = append(classes, c)
			done |= c
		}
	}
	return classes, comp
}

// dist returns hop distances from src over arcs allowed by ok (-1 = unreachable).
func (s *gspec) dist(src int, ok func(u, v int) bool) [maxN]int {
	var d [maxN]int
	for i := range d {
		d[i] = -1
	}
	d[src] = 0
	// Bellman-Ford style relaxation: dumb but obviously right.
	for round := 0; round < s.n; round++ {
		for u := 0; u < s.n; u++ {
			if d[u] < 0 {
				continue
			}
			for v := 0; v < s.n; v++ {
				if !s.has(u, v) || (ok != nil && !ok(u, v)) {
					continue
				}
				if d[v] < 0 || d[v] > d[u]+1 {
					d[v] = d[u] + 1
				}
			}
		}
	}
	return d
}

// elementaryCycles enumerates every elementary directed cycle once, as the
// node sequence starting at its smallest index (no closing repeat).
func (s *gspec) elementaryCycles() map[string]bool {
	res := map[string]bool{}
	var path []int
	var rec func(start, u int, used uint8)
	rec = func(start, u int, used uint8) {
		for v := 0; v < s.n; v++ {
			if !s.has(u, v) {
				continue
			}
			if v == start {
				res[seqKey(path)] = true
				continue
			}
			if v < start || used>>uint(v)&1 != 0 {
				continue
			}
			path = append(path, v)
			rec(start, v, used|1<<uint(v))
			path = path[:len(path)-1]
		}
	}
	for st := 0; st < s.n; st++ {
		path = append(path[:0], st)
		rec(st, st, 1<<uint(st))
	}
	return res
}

func seqKey(p []int) string {
	b := make([]byte, len(p))
	for i, v := range p {
		b[i] = byte('0' + v)
	}
	return string(b)
}

// rotateMin rotates p so that its smallest element comes first.
func rotateMin(p []int) []int {
	k := 0
	for i, v := range p {
		if v < p[k] {
			k = i
		}
	}
	r := make([]int, 0, len(p))
	r = append(r, p[k:]...)
	r = append(r, p[:k]...)
	return r
}

// isClique reports whether every two nodes of m are adjacent.
func (s *gspec) isClique(m uint8) bool {
	for i := 0; i < s.n; i++ {
		if m>>uint(i)&1 == 0 {
			continue
		}
		if (m&^(1<<uint(i)))&^s.adj[i] != 0 {
			return false
		}
	}
	return true
}

// maximalCliques enumerates all non-empty subsets that are cliques and
// cannot be extended.
func (s *gspec) maximalCliques() []uint8 {
	var res []uint8
	for m := 1; m < 1<<uint(s.n); m++ {
		c := uint8(m)
		if !s.isClique(c) {
			continue
		}
		maximal := true
		for v := 0; v < s.n; v++ {
			if c>>uint(v)&1 == 0 && s.isClique(c|1<<uint(v)) {
				maximal = false
				break
			}
		}
		if maximal {
			res = append(res, c)
		}
	}
	return res
}

// kCore returns the maximal node set inducing minimum degree >= k.
func (s *gspec) kCore(k int) uint8 {
	m := s.all()
	for changed := true; changed; {
		changed = false
		for i := 0; i < s.n; i++ {
			if m>>uint(i)&1 != 0 && bits.OnesCount8(s.adj[i]&m) < k {
				m &^= 1 << uint(i)
				changed = true
			}
		}
	}
	return m
}

// degeneracy returns the largest k with a non-empty k-core (0 for n=0).
func (s *gspec) degeneracy() int {
	d := 0
	for k := 1; k <= s.n; k++ {
		if s.kCore(k) != 0 {
			d = k
		}
	}
	return d
}

// components returns the connected components of an undirected graph.
func (s *gspec) components() []uint8 {
	c, _ := s.sccs()
	return c
}

// kCliqueCommunities returns the Palla et al. communities for k >= 3:
// unions of k-cliques connected through chains of k-cliques sharing k-1 nodes.
func (s *gspec) kCliqueCommunities(k int) (comms []uint8, covered uint8) {
	var kc []uint8
	for m := 1; m < 1<<uint(s.n); m++ {
		if bits.OnesCount8(uint8(m)) == k && s.isClique(uint8(m)) {
			kc = append(kc, uint8(m))
		}
	}
	lab := make([]int, len(kc))
	for i := range lab {
		lab[i] = i
	}
	for changed := true; changed; {
		changed = false
		for i := range kc {
			for j := range kc {
				if bits.OnesCount8(kc[i]&kc[j]) >= k-1 && lab[i] != lab[j] {
					l := min(lab[i], lab[j])
					lab[i], lab[j] = l, l
					changed = true
				}
			}
		}
	}
	u := map[int]uint8{}
	for i, c := range kc {
		u[lab[i]] |= c
		covered |= c
	}
	for _, c := range u {
		comms = append(comms, c)
	}
	sort.Slice(comms, func(i, j int) bool { return comms[i] < comms[j] })
	return comms, covered
}

// idoms returns the immediate dominator of every node reachable from root
// (-1 for root and unreachable nodes), from the definition: d dominates v iff
// every path root->v passes through d, i.e. v is unreachable once d is deleted.
func (s *gspec) idoms(root int) (idom [maxN]int, reach uint8) {
	reach = s.reachFrom(root, s.all(), nil)
	var sdom [maxN]uint8 // strict dominators
	for v := 0; v < s.n; v++ {
		idom[v] = -1
		if reach>>uint(v)&1 == 0 || v == root {
			continue
		}
		for d := 0; d < s.n; d++ {
			if d == v || reach>>uint(d)&1 == 0 {
				continue
			}
			if d == root {
				sdom[v] |= 1 << uint(d)
				continue
			}
			if s.reachFrom(root, s.all()&^(1<<uint(d)), nil)>>uint(v)&1 == 0 {
				sdom[v] |= 1 << uint(d)
			}
		}
	}
	for v := 0; v < s.n; v++ {
		if sdom[v] == 0 {
			continue
		}
		// the immediate dominator is the strict dominator that is dominated
		// by every other strict dominator of v.
		for d := 0; d < s.n; d++ {
			if sdom[v]>>uint(d)&1 == 0 {
				continue
			}
			others := sdom[v] &^ (1 << uint(d))
			if others&^sdom[d] == 0 {
				idom[v] = d
			}
		}
	}
	return idom, reach
}

// intervals computes the Allen-Cocke interval partition literally as in the
// algorithm quoted in flow/interval.go. The graph must have every node
// reachable from entry. Returned as header -> member mask, in discovery order.
func (s *gspec) intervals(entry int) (heads []int, members []uint8) {
	var inH, assigned uint8
	H := []int{entry}
	inH = 1 << uint(entry)
	for k := 0; k < len(H); k++ {
		h := H[k]
		l := uint8(1) << uint(h)
		for changed := true; changed; {
			changed = false
			for v := 0; v < s.n; v++ {
				if l>>uint(v)&1 != 0 || v == entry {
					continue
				}
				p := s.pred(v)
				if p != 0 && p&^l == 0 {
					l |= 1 << uint(v)
					changed = true
				}
			}
		}
		assigned |= l
		heads = append(heads, h)
		members = append(members, l)
		for v := 0; v < s.n; v++ {
			if inH>>uint(v)&1 != 0 || l>>uint(v)&1 != 0 {
				continue
			}
			if s.pred(v)&l != 0 {
				H = append(H, v)
				inH |= 1 << uint(v)
			}
		}
	}
	_ = assigned
	return heads, members
}

// chromatic returns the chromatic number by exhaustive k-colouring.
func (s *gspec) chromatic() int {
	if s.n == 0 {
		return 0
	}
	var col [maxN]int
	var try func(v, k int) bool
	try = func(v, k int) bool {
		if v == s.n {
			return true
		}
		for c := 0; c < k; c++ {
			ok := true
			for u := 0; u < v; u++ {
				if s.has(u, v) && col[u] == c {
					ok = false
					break
				}
			}
			if ok {
				col[v] = c
				if try(v+1, k) {
					return true
				}
			}
		}
		return false
	}
	for k := 1; ; k++ {
		if try(0, k) {
			return k
		}
	}
}

// acyclicUndirected reports whether the edge set (pairs) has no cycle and
// returns the component labelling it induces.
func forestLabels(n int, pairs [][2]int) (lab [maxN]int, acyclic bool) {
	for i := 0; i < n; i++ {
		lab[i] = i
	}
	acyclic = true
	for _, p := range pairs {
		a, b := lab[p[0]], lab[p[1]]
		if a == b {
			acyclic = false
			continue
		}
		for i := 0; i < n; i++ {
			if lab[i] == b {
				lab[i] = a
			}
		}
	}
	return lab, acyclic
}

// minSpanningForestWeight is the minimum total weight over all spanning
// forests (acyclic edge subsets with n-c edges), by subset enumeration.
func (s *gspec) minSpanningForestWeight(w func(i, j int) int) int {
	var pairs [][2]int
	for j := 1; j < s.n; j++ {
		for i := 0; i < j; i++ {
			if s.has(i, j) {
				pairs = append(pairs, [2]int{i, j})
			}
		}
	}
	need := s.n - len(s.components())
	best, found := 0, false
	var sub [][2]int
	for m := 0; m < 1<<uint(len(pairs)); m++ {
		if bits.OnesCount32(uint32(m)) != need {
			continue
		}
		sub = sub[:0]
		tot := 0
		for k, p := range pairs {
			if m>>uint(k)&1 != 0 {
				sub = append(sub, p)
				tot += w(p[0], p[1])
			}
		}
		if _, ok := forestLabels(s.n, sub); !ok {
			continue
		}
		if !found || tot < best {
			best, found = tot, true
		}
	}
	return best
}

// gf2Rank returns the rank of the vectors over GF(2).
func gf2Rank(vs []uint32) int {
	vs = append([]uint32(nil), vs...)
	rank := 0
	for bit := 0; bit < 32; bit++ {
		p := -1
		for i := rank; i < len(vs); i++ {
			if vs[i]>>uint(bit)&1 != 0 {
				p = i
				break
			}
		}
		if p < 0 {
			continue
		}
		vs[rank], vs[p] = vs[p], vs[rank]
		for i := range vs {
			if i != rank && vs[i]>>uint(bit)&1 != 0 {
				vs[i] ^= vs[rank]
			}
		}
		rank++
	}
	return rank
}
