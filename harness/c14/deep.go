package main

import (
	"fmt"
	"math/bits"
	"strings"

	"gonum.org/v1/gonum/graph"
	"gonum.org/v1/gonum/graph/flow"
	"gonum.org/v1/gonum/graph/iterator"
	"gonum.org/v1/gonum/graph/simple"
	"gonum.org/v1/gonum/graph/topo"
	"gonum.org/v1/gonum/internal/verif/vlib"
)

// Deep flow graphs with an ENUMERATED successor order.
//
// The exhaustive digraph spaces stop at 5 nodes, where the DFS tree and the
// link-eval forest of the dominator algorithms never get deep, and on gonum's
// own graph types the successor order is whatever the map gives. The groups
// in this file enumerate structured families of 6..14 node flow graphs (long
// DFS spines with chords, ordered trees with extra arcs, ladders, structured
// programs with gotos, irreducible chains, the textbook examples, sparse LCG
// graphs) and, for each, a systematic set of successor orders on a graph type
// whose From() order is exactly the listed order. Oracles are definitional:
// v dominates w iff w is unreachable from the root once v is deleted.

const deepMax = 16

// lgraph is a digraph on indices 0..n-1 with ordered successor lists; root 0.
type lgraph struct {
	n    int
	succ [][]int
}

func newLgraph(n int) *lgraph { return &lgraph{n: n, succ: make([][]int, n)} }

func (g *lgraph) has(u, v int) bool {
	for _, w := range g.succ[u] {
		if w == v {
			return true
		}
	}
	return false
}

// add appends the arc u->v unless it is a loop or already present.
func (g *lgraph) add(u, v int) bool {
	if u == v || g.has(u, v) {
		return false
	}
	g.succ[u] = append(g.succ[u], v)
	return true
}

func (g *lgraph) clone() *lgraph {
	c := newLgraph(g.n)
	for i, s := range g.succ {
		c.succ[i] = append([]int(nil), s...)
	}
	return c
}

func (g *lgraph) String() string {
	var b strings.Builder
	fmt.Fprintf(&b, "n=%d", g.n)
	for u, s := range g.succ {
		if len(s) > 0 {
			fmt.Fprintf(&b, " %d>%v", u, s)
		}
	}
	return b.String()
}

// reach returns the nodes reachable from root when node removed (-1: none)
// is deleted.
func (g *lgraph) reach(root, removed int) uint16 {
	if root == removed {
		return 0
	}
	seen := uint16(1) << uint(root)
	stack := []int{root}
	for len(stack) > 0 {
		u := stack[len(stack)-1]
		stack = stack[:len(stack)-1]
		for _, v := range g.succ[u] {
			if v == removed || seen>>uint(v)&1 != 0 {
				continue
			}
			seen |= 1 << uint(v)
			stack = append(stack, v)
		}
	}
	return seen
}

// idoms returns the immediate dominators from the definition (-1 for the
// root and for unreachable nodes) and the reachable set.
func (g *lgraph) idoms(root int) ([]int, uint16) {
	all := g.reach(root, -1)
	dom := make([]uint16, g.n) // dom[v]: strict dominators of v
	for d := 0; d < g.n; d++ {
		if all>>uint(d)&1 == 0 {
			continue
		}
		lost := all &^ g.reach(root, d) &^ (1 << uint(d))
		for v := 0; v < g.n; v++ {
			if lost>>uint(v)&1 != 0 {
				dom[v] |= 1 << uint(d)
			}
		}
	}
	idom := make([]int, g.n)
	for v := range idom {
		idom[v] = -1
		best := -1
		for d := 0; d < g.n; d++ {
			if dom[v]>>uint(d)&1 != 0 {
				// the strict dominators of v form a chain: the closest one has the most dominators.
				if k := bits.OnesCount16(dom[d]); k > best {
					best, idom[v] = k, d
				}
			}
		}
	}
	return idom, all
}

// sccMasks returns comp[i] = mask of the strongly connected component of i.
func (g *lgraph) sccMasks() []uint16 {
	r := make([]uint16, g.n)
	for i := range r {
		r[i] = g.reach(i, -1)
	}
	comp := make([]uint16, g.n)
	for i := 0; i < g.n; i++ {
		for j := 0; j < g.n; j++ {
			if r[i]>>uint(j)&1 != 0 && r[j]>>uint(i)&1 != 0 {
				comp[i] |= 1 << uint(j)
			}
		}
	}
	return comp
}

func (g *lgraph) predMask(v int) uint16 {
	var m uint16
	for u := 0; u < g.n; u++ {
		if g.has(u, v) {
			m |= 1 << uint(u)
		}
	}
	return m
}

// intervalsDef is the Allen-Cocke partition from the algorithm quoted in
// flow/interval.go (every node reachable from entry): head -> members.
func (g *lgraph) intervalsDef(entry int) map[int]uint16 {
	res := map[int]uint16{}
	H := []int{entry}
	inH := uint16(1) << uint(entry)
	for k := 0; k < len(H); k++ {
		h := H[k]
		l := uint16(1) << uint(h)
		for changed := true; changed; {
			changed = false
			for v := 0; v < g.n; v++ {
				if l>>uint(v)&1 != 0 || v == entry || inH>>uint(v)&1 != 0 {
					continue
				}
				if p := g.predMask(v); p != 0 && p&^l == 0 {
					l |= 1 << uint(v)
					changed = true
				}
			}
		}
		res[h] = l
		for v := 0; v < g.n; v++ {
			if inH>>uint(v)&1 == 0 && l>>uint(v)&1 == 0 && g.predMask(v)&l != 0 {
				H = append(H, v)
				inH |= 1 << uint(v)
			}
		}
	}
	return res
}

// listDigraph realises an lgraph as a graph.Directed whose From order is the
// listed successor order.
type listDigraph struct {
	g   *lgraph
	ids []int64
	idx map[int64]int
}

func newListDigraph(g *lgraph, idKind int) *listDigraph {
	l := &listDigraph{g: g, ids: make([]int64, g.n), idx: make(map[int64]int, g.n)}
	for i := range l.ids {
		if idKind == 0 {
			l.ids[i] = int64(i)
		} else {
			l.ids[i] = 1000 - 13*int64(i) + int64(i%3)*100000 // neither monotone nor dense
		}
		l.idx[l.ids[i]] = i
	}
	return l
}

func (l *listDigraph) iter(ix []int) graph.Nodes {
	if len(ix) == 0 {
		return graph.Empty
	}
	ns := make([]graph.Node, len(ix))
	for k, i := range ix {
		ns[k] = simple.Node(l.ids[i])
	}
	return iterator.NewOrderedNodes(ns)
}
func (l *listDigraph) Node(id int64) graph.Node {
	if _, ok := l.idx[id]; ok {
		return simple.Node(id)
	}
	return nil
}
func (l *listDigraph) Nodes() graph.Nodes {
	ix := make([]int, l.g.n)
	for i := range ix {
		ix[i] = i
	}
	return l.iter(ix)
}
func (l *listDigraph) From(id int64) graph.Nodes {
	i, ok := l.idx[id]
	if !ok {
		return graph.Empty
	}
	return l.iter(l.g.succ[i])
}
func (l *listDigraph) To(id int64) graph.Nodes {
	j, ok := l.idx[id]
	if !ok {
		return graph.Empty
	}
	var ix []int
	for u := 0; u < l.g.n; u++ {
		if l.g.has(u, j) {
			ix = append(ix, u)
		}
	}
	return l.iter(ix)
}
func (l *listDigraph) HasEdgeFromTo(uid, vid int64) bool {
	u, ok := l.idx[uid]
	v, ok2 := l.idx[vid]
	return ok && ok2 && l.g.has(u, v)
}
func (l *listDigraph) HasEdgeBetween(x, y int64) bool {
	return l.HasEdgeFromTo(x, y) || l.HasEdgeFromTo(y, x)
}
func (l *listDigraph) Edge(uid, vid int64) graph.Edge {
	if !l.HasEdgeFromTo(uid, vid) {
		return nil
	}
	return simple.Edge{F: simple.Node(uid), T: simple.Node(vid)}
}

var _ graph.Directed = (*listDigraph)(nil)

func (l *listDigraph) maskOf(nodes []graph.Node) (uint16, bool) {
	var m uint16
	for _, n := range nodes {
		if n == nil {
			return m, false
		}
		i, ok := l.idx[n.ID()]
		if !ok || m>>uint(i)&1 != 0 {
			return m, false
		}
		m |= 1 << uint(i)
	}
	return m, true
}

// deepOracle holds the definitional answers of one lgraph (they do not depend
// on the successor order).
type deepOracle struct {
	idom  []int
	reach uint16
	comp  []uint16
	ivs   map[int]uint16 // nil when some node is unreachable from the root
}

func newDeepOracle(g *lgraph) *deepOracle {
	o := &deepOracle{comp: g.sccMasks()}
	o.idom, o.reach = g.idoms(0)
	if o.reach == uint16(1)<<uint(g.n)-1 {
		o.ivs = g.intervalsDef(0)
	}
	return o
}

// checkDomTreeL compares a DominatorTree with the definition.
func checkDomTreeL(what string, l *listDigraph, dt flow.DominatorTree, o *deepOracle) string {
	g := l.g
	if dt.Root() == nil || dt.Root().ID() != l.ids[0] {
		return fmt.Sprintf("%s: Root()=%v", what, dt.Root())
	}
	for v := 0; v < g.n; v++ {
		got := -1
		if d := dt.DominatorOf(l.ids[v]); d != nil {
			i, ok := l.idx[d.ID()]
			if !ok {
				return fmt.Sprintf("%s: DominatorOf(%d) is the unknown node %d", what, v, d.ID())
			}
			got = i
		}
		if got != o.idom[v] {
			return fmt.Sprintf("%s: DominatorOf(%d)=%d, by path deletion it is %d", what, v, got, o.idom[v])
		}
		var want uint16
		for w := 0; w < g.n; w++ {
			if o.idom[w] == v {
				want |= 1 << uint(w)
			}
		}
		if m, ok := l.maskOf(dt.DominatedBy(l.ids[v])); !ok || m != want {
			return fmt.Sprintf("%s: DominatedBy(%d)=%#x want %#x", what, v, m, want)
		}
	}
	return ""
}

// deepChecks runs the order sensitive directed algorithms on one ordered
// realisation and returns the first discrepancy ("" if none).
func deepChecks(l *listDigraph, o *deepOracle) string {
	g := l.g
	root := simple.Node(l.ids[0])
	if msg := checkDomTreeL("Dominators", l, flow.Dominators(root, l), o); msg != "" {
		return msg
	}
	if msg := checkDomTreeL("DominatorsSLT", l, flow.DominatorsSLT(root, l), o); msg != "" {
		return msg
	}
	// TarjanSCC: the mutual reachability classes.
	var seen uint16
	for _, c := range topo.TarjanSCC(l) {
		m, ok := l.maskOf(c)
		if !ok || m == 0 || o.comp[bits.TrailingZeros16(m)] != m || seen&m != 0 {
			return fmt.Sprintf("TarjanSCC: component %#x is not a reachability class", m)
		}
		seen |= m
	}
	if seen != uint16(1)<<uint(g.n)-1 {
		return fmt.Sprintf("TarjanSCC: nodes %#x in no component", (uint16(1)<<uint(g.n)-1)&^seen)
	}
	// Sort: every arc between different components goes forward.
	sorted, err := topo.Sort(l)
	var un topo.Unorderable
	if err != nil {
		var ok bool
		if un, ok = err.(topo.Unorderable); !ok {
			return fmt.Sprintf("Sort: error of type %T", err)
		}
	}
	pos := make([]int, g.n)
	for i := range pos {
		pos[i] = -1
	}
	nils := 0
	for p, nd := range sorted {
		if nd == nil {
			if nils >= len(un) {
				return "Sort: more nil markers than cyclic components"
			}
			m, ok := l.maskOf(un[nils])
			if !ok || bits.OnesCount16(m) < 2 || o.comp[bits.TrailingZeros16(m)] != m {
				return fmt.Sprintf("Sort: Unorderable[%d]=%#x is not a cyclic component", nils, m)
			}
			for i := 0; i < g.n; i++ {
				if m>>uint(i)&1 != 0 {
					pos[i] = p
				}
			}
			nils++
			continue
		}
		i, ok := l.idx[nd.ID()]
		if !ok || pos[i] >= 0 || bits.OnesCount16(o.comp[i]) > 1 {
			return fmt.Sprintf("Sort: entry %d (id %d) unknown, repeated or on a cycle", p, nd.ID())
		}
		pos[i] = p
	}
	if nils != len(un) {
		return fmt.Sprintf("Sort: %d nil markers for %d cyclic components", nils, len(un))
	}
	for u := 0; u < g.n; u++ {
		if pos[u] < 0 {
			return fmt.Sprintf("Sort: node %d missing", u)
		}
		for _, v := range g.succ[u] {
			if o.comp[u] != o.comp[v] && pos[u] >= pos[v] {
				return fmt.Sprintf("Sort: arc %d->%d goes backwards", u, v)
			}
		}
	}
	// Intervals: the definitional partition (flow graphs only).
	if o.ivs != nil {
		msg := ""
		func() {
			defer func() {
				if r := recover(); r != nil {
					msg = fmt.Sprintf("Intervals panicked: %v", r)
				}
			}()
			ig := flow.Intervals(l, l.ids[0])
			if len(ig.Intervals) != len(o.ivs) {
				msg = fmt.Sprintf("Intervals: %d intervals, definition gives %d", len(ig.Intervals), len(o.ivs))
				return
			}
			for _, iv := range ig.Intervals {
				h := -1
				if iv.Head() != nil {
					h = l.idx[iv.Head().ID()]
				}
				m, ok := l.maskOf(graph.NodesOf(iv.Nodes()))
				if want, okw := o.ivs[h]; !ok || !okw || want != m {
					msg = fmt.Sprintf("Intervals: interval head=%d members=%#x, definition gives %#x", h, m, o.ivs[h])
					return
				}
			}
		}()
		if msg != "" {
			return msg
		}
	}
	return ""
}

// permutations of 0..k-1 for k <= 3, rotations and the reversal beyond.
func ordersOf(k int) [][]int {
	id := make([]int, k)
	for i := range id {
		id[i] = i
	}
	switch {
	case k <= 1:
		return [][]int{id}
	case k == 2:
		return [][]int{{0, 1}, {1, 0}}
	case k == 3:
		return [][]int{{0, 1, 2}, {0, 2, 1}, {1, 0, 2}, {1, 2, 0}, {2, 0, 1}, {2, 1, 0}}
	}
	var res [][]int
	for r := 0; r < k; r++ {
		p := make([]int, k)
		for i := range p {
			p[i] = (i + r) % k
		}
		res = append(res, p)
	}
	rev := make([]int, k)
	for i := range rev {
		rev[i] = k - 1 - i
	}
	return append(res, rev)
}

func applyOrder(s []int, p []int) []int {
	r := make([]int, len(s))
	for i, j := range p {
		r[i] = s[j]
	}
	return r
}

// forOrders calls f for a systematic set of successor orders of base: the
// full product of per-node orders (all permutations for out-degree <= 3,
// rotations and reversal beyond) when it has at most limit members; otherwise
// the same order index at every node (index mod the node's count), and every
// single-node deviation from the listed order.
func forOrders(base *lgraph, limit int, f func(name string, g *lgraph)) {
	per := make([][][]int, base.n)
	total := 1
	for u := range per {
		per[u] = ordersOf(len(base.succ[u]))
		if total <= limit {
			total *= len(per[u])
		}
	}
	if total <= limit {
		idx := make([]int, base.n)
		for {
			g := newLgraph(base.n)
			for u := range g.succ {
				g.succ[u] = applyOrder(base.succ[u], per[u][idx[u]])
			}
			f(fmt.Sprint(idx), g)
			u := 0
			for ; u < base.n; u++ {
				idx[u]++
				if idx[u] < len(per[u]) {
					break
				}
				idx[u] = 0
			}
			if u == base.n {
				return
			}
		}
	}
	maxK := 1
	for u := range per {
		maxK = max(maxK, len(per[u]))
	}
	for k := 0; k < maxK; k++ {
		g := newLgraph(base.n)
		for u := range g.succ {
			g.succ[u] = applyOrder(base.succ[u], per[u][k%len(per[u])])
		}
		f(fmt.Sprintf("all=%d", k), g)
	}
	for u := range per {
		for k := 1; k < len(per[u]); k++ {
			g := base.clone()
			g.succ[u] = applyOrder(base.succ[u], per[u][k])
			f(fmt.Sprintf("node%d=%d", u, k), g)
		}
	}
}

// deepCase registers one base graph: every order variant under two ID maps.
func deepCase(g *vlib.G, group, key string, base *lgraph, limit int) {
	g.Case(key, func(t *vlib.T) {
		o := newDeepOracle(base)
		n := 0
		forOrders(base, limit, func(name string, og *lgraph) {
			for idKind := 0; idKind < 2; idKind++ {
				if idKind == 1 && n%3 != 0 {
					continue
				}
				ctx := fmt.Sprintf("order %s ids=%d", name, idKind)
				runCtx(t, group, key, ctx, false, func(c *chk) {
					if msg := deepChecks(newListDigraph(og, idKind), o); msg != "" {
						c.failf("%s on %s", msg, og.String())
					}
				})
			}
			n++
		})
		t.Count("ordered_realisations", int64(n))
		deep := 0
		for v, d := range o.idom {
			k := 0
			for d >= 0 {
				k++
				d = o.idom[d]
			}
			_ = v
			deep = max(deep, k)
		}
		t.Max("dominator_tree_depth", int64(deep))
		t.Nontrivial()
		t.Outcome(fmt.Sprintf("n=%d domdepth=%d flow=%v", base.n, deep, o.ivs != nil))
		t.Detail(base.String())
	})
}

// ---- families ----

// spine returns the path 0->1->...->n-1.
func spine(n int) *lgraph {
	g := newLgraph(n)
	for i := 0; i+1 < n; i++ {
		g.add(i, i+1)
	}
	return g
}

type arcL struct{ u, v int }

// chordsOf lists the arcs that can be added to the spine.
func chordsOf(n int) []arcL {
	var cs []arcL
	for u := 0; u < n; u++ {
		for v := 0; v < n; v++ {
			if u != v && v != u+1 {
				cs = append(cs, arcL{u, v})
			}
		}
	}
	return cs
}

// genDeepSpine: a DFS spine with every set of one or two chords (back, forward
// arcs to every earlier/later node); three chords for short spines.
func genDeepSpine(g *vlib.G) {
	th := g.Thorough()
	for n := 6; n <= 14; n++ {
		cs := chordsOf(n)
		for a := 0; a < len(cs); a++ {
			base := spine(n)
			base.add(cs[a].u, cs[a].v)
			deepCase(g, "deep-spine", fmt.Sprintf("n=%d chord %d>%d", n, cs[a].u, cs[a].v), base, 64)
		}
		if g.Stopped() {
			return
		}
		// two chords: all pairs in thorough up to 12 nodes; in quick the pairs
		// with a fixed residue of their index.
		if n > 12 && !th {
			continue
		}
		k := 0
		for a := 0; a < len(cs); a++ {
			for b := a + 1; b < len(cs); b++ {
				k++
				if !th && k%16 != n%16 {
					continue
				}
				if th && n > 12 && k%8 != 0 {
					continue
				}
				base := spine(n)
				base.add(cs[a].u, cs[a].v)
				base.add(cs[b].u, cs[b].v)
				deepCase(g, "deep-spine", fmt.Sprintf("n=%d chords %d>%d %d>%d", n, cs[a].u, cs[a].v, cs[b].u, cs[b].v), base, 36)
			}
			if g.Stopped() {
				return
			}
		}
	}
}

// orderedTrees enumerates the rooted ordered trees on n nodes (nodes numbered
// in preorder) as parent arrays.
func orderedTrees(n int, f func(parent []int)) {
	parent := make([]int, n)
	parent[0] = -1
	// node i (preorder) may attach to any node on the rightmost path of the tree built so far.
	var rec func(i int, path []int)
	rec = func(i int, path []int) {
		if i == n {
			f(parent)
			return
		}
		for d := len(path) - 1; d >= 0; d-- {
			parent[i] = path[d]
			rec(i+1, append(path[:d+1:d+1], i))
		}
	}
	rec(1, []int{0})
}

func treeGraph(parent []int) *lgraph {
	g := newLgraph(len(parent))
	for v := 1; v < len(parent); v++ {
		g.add(parent[v], v)
	}
	return g
}

// genDeepTree: every ordered tree as DFS tree plus one or two extra arcs
// between any two nodes (forward, back and cross arcs).
func genDeepTree(g *vlib.G) {
	th := g.Thorough()
	maxN := vlib.Pick(g, 9, 10)
	for n := 6; n <= maxN; n++ {
		ti := 0
		orderedTrees(n, func(parent []int) {
			ti++
			if g.Stopped() {
				return
			}
			tree := treeGraph(parent)
			var extras []arcL
			for u := 0; u < n; u++ {
				for v := 1; v < n; v++ {
					if u != v && !tree.has(u, v) {
						extras = append(extras, arcL{u, v})
					}
				}
			}
			pk := fmt.Sprint(parent[1:])
			k := 0
			for a := 0; a < len(extras); a++ {
				for b := a; b < len(extras); b++ {
					k++
					// a fixed fraction of the (tree, arc pair) combinations - quick: 1/64
					// (n<=7), 1/256 (n=8), 1/1024 (n=9); thorough: all (n<=7), 1/8, 1/64, 1/512 (n=10).
					stride := 1
					switch {
					case !th && n <= 7:
						stride = 64
					case !th && n == 8:
						stride = 256
					case !th:
						stride = 1024
					case n <= 7:
						stride = 1
					case n == 8:
						stride = 8
					case n == 9:
						stride = 64
					case n == 10:
						stride = 512
					}
					if (k+ti)%stride != 0 {
						continue
					}
					base := tree.clone()
					base.add(extras[a].u, extras[a].v)
					key := fmt.Sprintf("n=%d tree%s +%d>%d", n, pk, extras[a].u, extras[a].v)
					if b != a {
						base.add(extras[b].u, extras[b].v)
						key += fmt.Sprintf(" +%d>%d", extras[b].u, extras[b].v)
					}
					deepCase(g, "deep-tree", key, base, 24)
				}
			}
		})
	}
}

// genDeepLadder: two or three parallel paths (rails) with rungs in either
// direction between neighbouring rails - straight (same level) or skewed (to
// the next level) - and closing back arcs. Long rails give deep DFS trees and
// the rungs give every node of one rail a semidominator on the other.
func genDeepLadder(g *vlib.G) {
	for _, rails := range []int{2, 3} {
		for k := 3; k <= 7; k++ {
			n := rails * k
			if n > 14 {
				continue
			}
			bitsN := 2 * k * (rails - 1)
			for skew := 0; skew < 2; skew++ {
				for rungs := 0; rungs < 1<<uint(bitsN); rungs++ {
					if g.Stopped() {
						return
					}
					// sampling of the rung patterns: all up to 9 (quick) / 12 (thorough)
					// pattern bits; beyond, a fixed 1/2^(bits-limit), spread by a xor fold.
					if lim := vlib.Pick(g, 9, 12); bitsN > lim {
						if (rungs^rungs>>5^rungs>>9)&(1<<uint(bitsN-lim)-1) != 1 {
							continue
						}
					}
					for closing := 0; closing < 4; closing++ {
						base := newLgraph(n)
						node := func(rail, level int) int { return level*rails + rail }
						for lv := 0; lv < k; lv++ {
							for r := 0; r < rails; r++ {
								if lv+1 < k {
									base.add(node(r, lv), node(r, lv+1))
								}
							}
							for r := 0; r+1 < rails; r++ {
								bit := uint(2 * (lv*(rails-1) + r))
								to := lv
								if skew == 1 {
									to = lv + 1
								}
								if to >= k {
									continue
								}
								if rungs>>bit&1 != 0 {
									base.add(node(r, lv), node(r+1, to))
								}
								if rungs>>(bit+1)&1 != 0 {
									base.add(node(r+1, lv), node(r, to))
								}
							}
						}
						if closing&1 != 0 {
							base.add(n-1, 0)
						}
						if closing&2 != 0 {
							base.add(n-rails, 1)
						}
						if base.reach(0, -1) != uint16(1)<<uint(n)-1 {
							continue // some rail is unreachable from the root
						}
						deepCase(g, "deep-ladder", fmt.Sprintf("rails=%d k=%d skew=%d rungs=%#x close=%d", rails, k, skew, rungs, closing), base, 16)
					}
				}
			}
		}
	}
}

// prog is a structured program; build appends its flow graph and returns
// entry and exit node.
type prog struct {
	kind byte // 'b' basic, 's' seq, 'i' if, 'e' if-else, 'w' while, 'd' do-while
	p, q *prog
}

func (p *prog) size() int {
	switch p.kind {
	case 'b':
		return 1
	case 's':
		return p.p.size() + p.q.size()
	case 'i':
		return 2 + p.p.size()
	case 'e':
		return 2 + p.p.size() + p.q.size()
	case 'w':
		return 2 + p.p.size()
	default:
		return 1 + p.p.size()
	}
}

func (p *prog) String() string {
	switch p.kind {
	case 'b':
		return "b"
	case 's':
		return p.p.String() + ";" + p.q.String()
	case 'i':
		return "if(" + p.p.String() + ")"
	case 'e':
		return "ife(" + p.p.String() + "," + p.q.String() + ")"
	case 'w':
		return "wh(" + p.p.String() + ")"
	default:
		return "do(" + p.p.String() + ")"
	}
}

type cfgBuilder struct {
	succ [][]int
}

func (c *cfgBuilder) node() int { c.succ = append(c.succ, nil); return len(c.succ) - 1 }
func (c *cfgBuilder) arc(u, v int) {
	for _, w := range c.succ[u] {
		if w == v {
			return
		}
	}
	c.succ[u] = append(c.succ[u], v)
}

func (p *prog) build(c *cfgBuilder) (entry, exit int) {
	switch p.kind {
	case 'b':
		n := c.node()
		return n, n
	case 's':
		e1, x1 := p.p.build(c)
		e2, x2 := p.q.build(c)
		c.arc(x1, e2)
		return e1, x2
	case 'i':
		cond := c.node()
		e, x := p.p.build(c)
		join := c.node()
		c.arc(cond, e)
		c.arc(cond, join)
		c.arc(x, join)
		return cond, join
	case 'e':
		cond := c.node()
		e1, x1 := p.p.build(c)
		e2, x2 := p.q.build(c)
		join := c.node()
		c.arc(cond, e1)
		c.arc(cond, e2)
		c.arc(x1, join)
		c.arc(x2, join)
		return cond, join
	case 'w':
		head := c.node()
		e, x := p.p.build(c)
		out := c.node()
		c.arc(head, e)
		c.arc(head, out)
		c.arc(x, head)
		return head, out
	default:
		e, x := p.p.build(c)
		cond := c.node()
		c.arc(x, cond)
		c.arc(cond, e)
		return e, cond
	}
}

// progsOfSize enumerates the programs with exactly n flow graph nodes.
func progsOfSize(n int, memo map[int][]*prog) []*prog {
	if ps, ok := memo[n]; ok {
		return ps
	}
	var ps []*prog
	if n == 1 {
		ps = append(ps, &prog{kind: 'b'})
	}
	// sequences: the first part is not itself a sequence (canonical form).
	for a := 1; a < n; a++ {
		for _, p := range progsOfSize(a, memo) {
			if p.kind == 's' {
				continue
			}
			for _, q := range progsOfSize(n-a, memo) {
				ps = append(ps, &prog{kind: 's', p: p, q: q})
			}
		}
	}
	if n >= 3 {
		for _, p := range progsOfSize(n-2, memo) {
			ps = append(ps, &prog{kind: 'i', p: p}, &prog{kind: 'w', p: p})
		}
	}
	if n >= 2 {
		for _, p := range progsOfSize(n-1, memo) {
			ps = append(ps, &prog{kind: 'd', p: p})
		}
	}
	for a := 1; a+2 < n; a++ {
		for _, p := range progsOfSize(a, memo) {
			for _, q := range progsOfSize(n-2-a, memo) {
				ps = append(ps, &prog{kind: 'e', p: p, q: q})
			}
		}
	}
	memo[n] = ps
	return ps
}

// genDeepProg: flow graphs of structured programs (sequence, if, if-else,
// while, do-while, nested), plain and with one goto between any two nodes
// (which makes many of them irreducible).
func genDeepProg(g *vlib.G) {
	th := g.Thorough()
	memo := map[int][]*prog{}
	for n := 6; n <= 9; n++ {
		for pi, p := range progsOfSize(n, memo) {
			if g.Stopped() {
				return
			}
			var c cfgBuilder
			entry, _ := p.build(&c)
			if entry != 0 {
				// do-while programs start at their body; renumber so that the entry is node 0.
				c.succ[0], c.succ[entry] = c.succ[entry], c.succ[0]
				for u := range c.succ {
					for k, v := range c.succ[u] {
						switch v {
						case 0:
							c.succ[u][k] = entry
						case entry:
							c.succ[u][k] = 0
						}
					}
				}
			}
			base := &lgraph{n: len(c.succ), succ: c.succ}
			name := p.String()
			// programs with 6..9 flow graph nodes: all in thorough; in
			// quick all up to 7 nodes, 1/8 of the 8-node and 1/64 of the 9-node ones.
			pstride := 1
			switch {
			case !th && n == 8:
				pstride = 8
			case !th && n == 9:
				pstride = 64
			}
			if pi%pstride != 0 {
				continue
			}
			deepCase(g, "deep-prog", fmt.Sprintf("n=%d %s", n, name), base, 64)
			// one goto
			k := 0
			for u := 0; u < base.n; u++ {
				for v := 0; v < base.n; v++ {
					if u == v || base.has(u, v) {
						continue
					}
					k++
					// gotos: quick 1/16 of the (program, goto) pairs, thorough 1/8.
					gstride := 16
					if th {
						gstride = 8
					}
					if (k+pi)%gstride != 0 {
						continue
					}
					gg := base.clone()
					gg.add(u, v)
					deepCase(g, "deep-prog", fmt.Sprintf("n=%d %s goto %d>%d", n, name, u, v), gg, 24)
				}
			}
		}
	}
}

// classic example graphs of the dominator literature and irreducible chains.
func genDeepClassic(g *vlib.G) {
	fromLists := func(ls [][]int) *lgraph { return &lgraph{n: len(ls), succ: ls} }
	// Lengauer & Tarjan 1979, Fig. 1: R=0 A=1 B=2 C=3 D=4 E=5 F=6 G=7 H=8 I=9 J=10 K=11 L=12.
	lt := fromLists([][]int{{1, 2, 3}, {4}, {1, 4, 5}, {6, 7}, {12}, {8}, {9}, {9, 10}, {5, 11}, {11}, {9}, {9, 0}, {8}})
	deepCase(g, "deep-classic", "lengauer-tarjan-fig1", lt, 4096)
	// Cooper, Harvey & Kennedy 2001, Fig. 2 (node 5 renamed 0) and Fig. 4 (node 6 renamed 0).
	deepCase(g, "deep-classic", "chk-fig2", fromLists([][]int{{3, 4}, {2}, {1}, {2}, {1}}), 4096)
	deepCase(g, "deep-classic", "chk-fig4", fromLists([][]int{{5, 4}, {2}, {1, 3}, {2}, {2, 3}, {1}}), 4096)
	// Irreducible chains: k diamonds with a two-entry loop each, and a back arc.
	for k := 2; k <= 4; k++ {
		n := 3*k + 1
		for back := 0; back < n; back++ {
			for cross := 0; cross < 2; cross++ {
				base := newLgraph(n)
				for i := 0; i < k; i++ {
					h, a, b := 3*i, 3*i+1, 3*i+2
					base.add(h, a)
					base.add(h, b)
					base.add(a, b)
					base.add(b, a)
					base.add(a, 3*i+3)
					base.add(b, 3*i+3)
					if cross == 1 && i+1 < k {
						base.add(a, 3*i+5)
					}
				}
				base.add(n-1, back)
				deepCase(g, "deep-classic", fmt.Sprintf("irreducible k=%d back=%d cross=%d", k, back, cross), base, 256)
			}
		}
	}
	// Nested loops: depth d, each loop header with an exit, and an inner chord.
	for d := 2; d <= 6; d++ {
		n := 2*d + 2
		for chord := 0; chord < n; chord++ {
			for to := 0; to < n; to++ {
				base := newLgraph(n)
				// headers 0..d-1 nest, body node d, then latches d+1..2d, exit 2d+1
				for i := 0; i < d; i++ {
					base.add(i, i+1)
				}
				for i := 0; i < d; i++ {
					base.add(d+i, d+i+1)     // latch chain outward
					base.add(d+1+i, d-1-i)   // back arc to header
					base.add(d-1-i, 2*d+1-0) // loop exit
				}
				if !base.add(chord, to) {
					continue
				}
				deepCase(g, "deep-classic", fmt.Sprintf("nested d=%d chord %d>%d", d, chord, to), base, 64)
			}
		}
	}
}

// genDeepLCG: sparse pseudo-random flow graphs on 9..14 nodes with a random
// (LCG-shuffled) successor order.
func genDeepLCG(g *vlib.G) {
	seeds := vlib.Pick(g, 200, 3000)
	for n := 9; n <= 14; n++ {
		for _, extra := range []int{2, 4, n/2 + 3, n + 1} {
			for seed := 0; seed < seeds; seed++ {
				if g.Stopped() {
					return
				}
				r := &lcg{x: uint64(seed)*0x9E3779B97F4A7C15 + uint64(n*100+extra)}
				base := newLgraph(n)
				// a random spanning tree keeps everything reachable from the root.
				for v := 1; v < n; v++ {
					base.add(r.next(v), v)
				}
				for k := 0; k < extra; k++ {
					base.add(r.next(n), r.next(n))
				}
				for u := range base.succ {
					s := base.succ[u]
					for i := len(s) - 1; i > 0; i-- {
						j := r.next(i + 1)
						s[i], s[j] = s[j], s[i]
					}
				}
				deepCase(g, "deep-lcg", fmt.Sprintf("n=%d extra=%d seed=%d", n, extra, seed), base, 12)
			}
		}
	}
}
