package main

import (
	"fmt"

	"gonum.org/v1/gonum/graph"
	"gonum.org/v1/gonum/graph/product"
	"gonum.org/v1/gonum/graph/simple"
	"gonum.org/v1/gonum/internal/verif/vlib"
)

// Product definitions, straight from the doc comments of graph/product, with
// "~" read as "has an edge to" (out-edge for directed inputs).
var productDefs = []struct {
	name string
	f    func(dst graph.Builder, a, b graph.Graph)
	adj  func(a, b *gspec, u1, u2, v1, v2 int) bool
}{
	{"Cartesian", product.Cartesian, func(a, b *gspec, u1, u2, v1, v2 int) bool {
		return (u1 == v1 && b.has(u2, v2)) || (a.has(u1, v1) && u2 == v2)
	}},
	{"Tensor", product.Tensor, func(a, b *gspec, u1, u2, v1, v2 int) bool {
		return a.has(u1, v1) && b.has(u2, v2)
	}},
	{"Lexicographical", product.Lexicographical, func(a, b *gspec, u1, u2, v1, v2 int) bool {
		return a.has(u1, v1) || (u1 == v1 && b.has(u2, v2))
	}},
	{"Strong", product.Strong, func(a, b *gspec, u1, u2, v1, v2 int) bool {
		return (u1 == v1 && b.has(u2, v2)) || (a.has(u1, v1) && u2 == v2) || (a.has(u1, v1) && b.has(u2, v2))
	}},
	{"CoNormal", product.CoNormal, func(a, b *gspec, u1, u2, v1, v2 int) bool {
		return a.has(u1, v1) || b.has(u2, v2)
	}},
	{"Modular", product.Modular, func(a, b *gspec, u1, u2, v1, v2 int) bool {
		return u1 != v1 && u2 != v2 && (a.has(u1, v1) == b.has(u2, v2))
	}},
	{"ModularExt(nil)", func(dst graph.Builder, a, b graph.Graph) { product.ModularExt(dst, a, b, nil) }, func(a, b *gspec, u1, u2, v1, v2 int) bool {
		return u1 != v1 && u2 != v2 && (a.has(u1, v1) == b.has(u2, v2))
	}},
}

// checkProduct compares dst with the definitional adjacency adj.
func checkProduct(c *chk, what string, ba, bb *built, dst graph.Graph, rel func(u1, u2, v1, v2 int) bool) {
	// rel is the definitional adjacency ("~" read as "has an edge to"). A
	// directed destination must hold exactly the arcs of rel; an undirected
	// one joins x and y when rel holds in either direction.
	adj := rel
	if _, ok := dst.(graph.Directed); !ok {
		adj = func(u1, u2, v1, v2 int) bool { return rel(u1, u2, v1, v2) || rel(v1, v2, u1, u2) }
	}
	a, b := ba.s, bb.s
	nodes := graph.NodesOf(dst.Nodes())
	if len(nodes) != a.n*b.n {
		c.failf("%s: %d nodes, want %d", what, len(nodes), a.n*b.n)
		return
	}
	idOf := map[[2]int]int64{}
	ids := map[int64]bool{}
	for _, n := range nodes {
		pn, ok := n.(product.Node)
		if !ok || pn.A == nil || pn.B == nil {
			c.failf("%s: node of type %T", what, n)
			return
		}
		i, j := ba.ix(pn.A.ID()), bb.ix(pn.B.ID())
		if i < 0 || j < 0 || ids[pn.ID()] {
			c.failf("%s: node %d = (%v,%v) unknown or repeated id", what, pn.ID(), pn.A, pn.B)
			return
		}
		if _, dup := idOf[[2]int{i, j}]; dup {
			c.failf("%s: pair (%d,%d) appears twice", what, i, j)
			return
		}
		ids[pn.ID()] = true
		idOf[[2]int{i, j}] = pn.ID()
	}
	edges := 0
	for u1 := 0; u1 < a.n; u1++ {
		for u2 := 0; u2 < b.n; u2++ {
			for v1 := 0; v1 < a.n; v1++ {
				for v2 := 0; v2 < b.n; v2++ {
					if u1 == v1 && u2 == v2 {
						continue
					}
					want := adj(u1, u2, v1, v2)
					uid, vid := idOf[[2]int{u1, u2}], idOf[[2]int{v1, v2}]
					got := dst.Edge(uid, vid) != nil
					if got != want {
						c.failf("%s: edge (%d,%d)~(%d,%d) present=%v want %v", what, u1, u2, v1, v2, got, want)
						return
					}
					if want {
						edges++
					}
				}
			}
		}
	}
	// From must agree with Edge.
	total := 0
	for _, n := range nodes {
		total += dst.From(n.ID()).Len()
	}
	if total != edges {
		c.failf("%s: adjacency lists hold %d entries, definition gives %d", what, total, edges)
	}
}

// productChecks builds every product of the two operands into a simple
// directed or undirected destination and compares it with the definition.
func productChecks(c *chk, ba, bb *built, directed bool) {
	a, b := ba.s, bb.s
	dstName := "->U "
	if directed {
		dstName = "->D "
	}
	newDst := func() interface {
		graph.Builder
		graph.Graph
	} {
		if directed {
			return simple.NewDirectedGraph()
		}
		return simple.NewUndirectedGraph()
	}
	for _, pd := range productDefs {
		pd := pd
		dst := newDst()
		if !catch(c, dstName+pd.name, func() { pd.f(dst, ba.g, bb.g) }) {
			return
		}
		checkProduct(c, dstName+pd.name, ba, bb, dst, func(u1, u2, v1, v2 int) bool { return pd.adj(a, b, u1, u2, v1, v2) })
		if c.failed() {
			return
		}
	}
	// ModularExt with an agreement predicate: both edges must exist and agree.
	agreeIdx := func(u1, v1, u2, v2 int) bool { return (u1+v1+u2+v2)%2 == 0 }
	bad := ""
	agree := func(eA, eB graph.Edge) bool {
		if eA == nil || eB == nil {
			bad = "agree called with a nil edge"
			return false
		}
		u1, v1 := ba.ix(eA.From().ID()), ba.ix(eA.To().ID())
		u2, v2 := bb.ix(eB.From().ID()), bb.ix(eB.To().ID())
		if u1 < 0 || v1 < 0 || u2 < 0 || v2 < 0 {
			bad = "agree called with unknown nodes"
			return false
		}
		return agreeIdx(u1, v1, u2, v2)
	}
	dst := newDst()
	if !catch(c, dstName+"ModularExt", func() { product.ModularExt(dst, ba.g, bb.g, agree) }) {
		return
	}
	if bad != "" {
		c.failf("ModularExt: %s", bad)
		return
	}
	checkProduct(c, dstName+"ModularExt(agree)", ba, bb, dst, func(u1, u2, v1, v2 int) bool {
		if u1 == v1 || u2 == v2 {
			return false
		}
		inA, inB := a.has(u1, v1), b.has(u2, v2)
		return (inA && inB && agreeIdx(u1, v1, u2, v2)) || (!inA && !inB)
	})
}

func genProduct(g *vlib.G) {
	thorough := g.Thorough()
	type opSpace struct {
		specs []gspec
		keys  []string
	}
	space := func(directed bool, maxNodes int) opSpace {
		var sp opSpace
		collect := func(key string, s gspec) { sp.specs = append(sp.specs, s); sp.keys = append(sp.keys, key) }
		if directed {
			forDirected(g, maxNodes, collect)
		} else {
			forUndirected(g, maxNodes, collect)
		}
		return sp
	}
	und4, und3, dir3 := space(false, 4), space(false, 3), space(true, 3)
	// operand kinds: undirected x undirected (<=4 nodes), directed x directed,
	// and the two mixed pairings (<=3 nodes); every pair is built into an
	// undirected and into a directed destination.
	kinds := []struct {
		name string
		a, b opSpace
	}{
		{"UxU", und4, und4}, {"DxD", dir3, dir3}, {"UxD", und3, dir3}, {"DxU", dir3, und3},
	}
	for _, kd := range kinds {
		kd := kd
		for i := range kd.a.specs {
			for j := range kd.b.specs {
				if g.Stopped() {
					return
				}
				sa, sb := kd.a.specs[i], kd.b.specs[j]
				// quick tier: pairs with a 4-node operand: a fixed half.
				if !thorough && (sa.n == 4 || sb.n == 4) && (i+j)%2 == 1 {
					continue
				}
				key := fmt.Sprintf("%s A[%s] B[%s]", kd.name, kd.a.keys[i], kd.b.keys[j])
				g.Case(key, func(t *vlib.T) {
					sa, sb := sa, sb
					// the destination kind that matches the operands (or, for mixed
					// operands, the directed one) is the primary one.
					primaryDirected := sa.directed || sb.directed
					big := sa.n == 4 || sb.n == 4
					// id maps: (ident,ident), (sparse,rev), (rev,sparse); variants asc, simple, multi.
					combos := [][2]int{{idIdentity, idIdentity}, {idSparse, idReversed}, {idReversed, idSparse}}
					for ci, cb := range combos {
						for _, v := range []int{vOrdAsc, vSimple, vMulti} {
							// quick tier, an operand with 4 nodes: one id-map
							// combination and one of the gonum types, rotating.
							if !thorough && big && (ci != int(sa.mask+sb.mask)%3 || (v != vOrdAsc && (v == vMulti) != (ci == 0))) {
								continue
							}
							ba, bb := build(&sa, cb[0], v), build(&sb, cb[1], v)
							runCtx(t, "product", key, fmt.Sprintf("%s,%s/%s", idMapNames[cb[0]], idMapNames[cb[1]], variantNames[v]), variantRaw(v), func(c *chk) {
								productChecks(c, ba, bb, primaryDirected)
								// the other destination kind: always on the ascending
								// harness graphs, on the gonum types under (ident,ident).
								if !c.failed() && (thorough || v == vOrdAsc || (ci == 0 && !big)) {
									productChecks(c, ba, bb, !primaryDirected)
								}
							})
						}
					}
					if sa.edges() > 0 && sb.edges() > 0 {
						t.Nontrivial()
					}
					t.Outcome(fmt.Sprintf("%s nA=%d nB=%d", kd.name, sa.n, sb.n))
				})
			}
		}
	}
}
