package main

import (
	"fmt"
	"math/bits"

	"gonum.org/v1/gonum/graph"
	"gonum.org/v1/gonum/graph/traverse"
	"gonum.org/v1/gonum/internal/verif/vlib"
)

// An edge filter forbids the pairs whose bit is set in forbid (indexed by
// arcIndex); for undirected graphs both orientations of a pair are set.
// ext filters also run the extended until predicates.
type edgeFilter struct {
	name   string
	forbid uint64
	ext    bool
}

func arcIndex(u, v int) uint { return uint(u*maxN + v) }

// filtersFor returns the Traverse filters exercised for a graph: nil,
// allow-all, each single edge forbidden, every pair of edges forbidden (graphs
// with at most 5 edges), odd-sum and even-sum edges forbidden, for directed
// graphs ascending and descending arcs forbidden, everything forbidden.
func filtersFor(s *gspec, pairs bool) []edgeFilter {
	fs := []edgeFilter{{name: "nil", ext: true}, {name: "allow"}}
	var all, odd, even, up, down uint64
	var singles []edgeFilter
	for u := 0; u < s.n; u++ {
		for v := 0; v < s.n; v++ {
			if !s.has(u, v) {
				continue
			}
			bit := uint64(1) << arcIndex(u, v)
			all |= bit
			if (u+v)%2 == 1 {
				odd |= bit
			} else {
				even |= bit
			}
			if u < v {
				up |= bit
			} else {
				down |= bit
			}
			if s.directed || u < v {
				f := bit
				if !s.directed {
					f |= 1 << arcIndex(v, u)
				}
				singles = append(singles, edgeFilter{name: fmt.Sprintf("no%d%d", u, v), forbid: f})
			}
		}
	}
	if len(singles) > 0 {
		singles[len(singles)/2].ext = true
	}
	fs = append(fs, singles...)
	if pairs && len(singles) <= 5 {
		for a := range singles {
			for b := a + 1; b < len(singles); b++ {
				fs = append(fs, edgeFilter{name: singles[a].name + "+" + singles[b].name, forbid: singles[a].forbid | singles[b].forbid})
			}
		}
	}
	if all != 0 {
		fs = append(fs, edgeFilter{name: "odd", forbid: odd, ext: true}, edgeFilter{name: "even", forbid: even, ext: true})
		if s.directed {
			fs = append(fs, edgeFilter{name: "up", forbid: up, ext: true}, edgeFilter{name: "down", forbid: down})
		}
		fs = append(fs, edgeFilter{name: "none", forbid: all})
	}
	return fs
}

// untilSpec is an until predicate: on a node index (both walkers) or on the
// BFS depth (depth >= minDepth, BreadthFirst only).
type untilSpec struct {
	name     string
	targets  uint8 // node predicate: index in targets
	minDepth int   // > 0: depth predicate
	ext      bool
}

// untilsFor: never true, every single target, and (extended) every pair of
// targets and depth >= 1, 2, 3.
func untilsFor(n int) []untilSpec {
	us := []untilSpec{{name: "never"}}
	for a := 0; a < n; a++ {
		us = append(us, untilSpec{name: fmt.Sprintf("%d", a), targets: 1 << uint(a)})
	}
	for a := 0; a < n; a++ {
		for b := a + 1; b < n; b++ {
			us = append(us, untilSpec{name: fmt.Sprintf("%d|%d", a, b), targets: 1<<uint(a) | 1<<uint(b), ext: true})
		}
	}
	for d := 1; d <= 3 && d < n; d++ {
		us = append(us, untilSpec{name: fmt.Sprintf("depth>=%d", d), minDepth: d, ext: true})
	}
	return us
}

// pairFilters4 enables the edge-pair filters on graphs with 4 and more nodes
// (thorough tier; set by the generators).
var pairFilters4 bool

// traverseChecks runs BreadthFirst and DepthFirst from every start node under
// every filter and until predicate (extended predicates under the ext filters).
func traverseChecks(c *chk, b *built) {
	s := b.s
	g := b.g
	untils := untilsFor(s.n)
	// edge-pair filters on the harness's own graph type only.
	_, ordD := b.g.(ordDirected)
	_, ordU := b.g.(ordUndirected)
	for _, f := range filtersFor(s, (ordD || ordU) && (s.n <= 3 || pairFilters4)) {
		f := f
		allowed := func(u, v int) bool { return f.forbid>>arcIndex(u, v)&1 == 0 }
		var trav func(graph.Edge) bool
		var travCalls map[[2]int]int
		badEdge := ""
		if f.name != "nil" {
			trav = func(e graph.Edge) bool {
				if e == nil {
					badEdge = "nil edge passed to Traverse"
					return false
				}
				u, v := b.ix(e.From().ID()), b.ix(e.To().ID())
				if u < 0 || v < 0 || !(s.has(u, v) || (!s.directed && s.has(v, u))) {
					badEdge = fmt.Sprintf("non-edge %d,%d passed to Traverse", u, v)
					return false
				}
				travCalls[[2]int{u, v}]++
				return allowed(u, v)
			}
		}
		for from := 0; from < s.n; from++ {
			reach := s.reachFrom(from, s.all(), allowed)
			dist := s.dist(from, allowed)
			for _, us := range untils {
				if us.ext && !(f.ext && (ordD || ordU)) {
					continue
				}
				what := fmt.Sprintf("filter=%s from=%d until=%s", f.name, from, us.name)
				never := us.targets == 0 && us.minDepth == 0
				// acceptable results: BFS returns a satisfying node of minimal
				// hop distance; DFS any reachable satisfying node.
				var sat, bfsAccept uint8
				best := -1
				for v := 0; v < s.n; v++ {
					if reach>>uint(v)&1 == 0 {
						continue
					}
					if (us.minDepth > 0 && dist[v] >= us.minDepth) || us.targets>>uint(v)&1 != 0 {
						sat |= 1 << uint(v)
						if best < 0 || dist[v] < best {
							best = dist[v]
						}
					}
				}
				for v := 0; v < s.n; v++ {
					if sat>>uint(v)&1 != 0 && dist[v] == best {
						bfsAccept |= 1 << uint(v)
					}
				}
				// --- breadth first
				{
					travCalls = map[[2]int]int{}
					var visits, untilCalls []int
					lastDepth := 0
					bad := ""
					bf := traverse.BreadthFirst{
						Visit:    func(n graph.Node) { visits = append(visits, b.ix(n.ID())) },
						Traverse: trav,
					}
					done := false
					var until func(graph.Node, int) bool
					if !never || from%2 == 0 {
						until = func(n graph.Node, d int) bool {
							i := b.ix(n.ID())
							if done {
								bad = "until called after it returned true"
							}
							if i < 0 || dist[i] != d {
								bad = fmt.Sprintf("until(%d, depth %d) but hop distance is %d", i, d, dist[max(i, 0)])
							}
							if d < lastDepth {
								bad = fmt.Sprintf("until depth decreased %d -> %d", lastDepth, d)
							}
							lastDepth = d
							untilCalls = append(untilCalls, i)
							if (us.minDepth > 0 && d >= us.minDepth) || (i >= 0 && us.targets>>uint(i)&1 != 0) {
								done = true
								return true
							}
							return false
						}
					}
					res := bf.Walk(g, b.node(from), until)
					if until == nil {
						untilCalls = nil
					} else if untilCalls == nil {
						untilCalls = []int{}
					}
					if len(visits) == 0 || visits[0] != from {
						bad = fmt.Sprintf("first visit is not the start node: %v", visits)
					}
					if bad != "" || badEdge != "" {
						c.failf("BreadthFirst %s: %s%s", what, bad, badEdge)
						return
					}
					checkWalk(c, "BreadthFirst "+what, b, reach, bfsAccept, res, visits, untilCalls, func(i int) bool { return bf.Visited(b.node(i)) })
					if c.failed() {
						return
					}
					// BFS visits in non-decreasing hop distance.
					for k := 1; k < len(visits); k++ {
						if dist[visits[k]] < dist[visits[k-1]] {
							c.failf("BreadthFirst %s: visit order %v not by hop distance %v", what, visits, dist[:s.n])
							return
						}
					}
					if bfsAccept == 0 {
						if !checkTraverseCalls(c, "BreadthFirst "+what, s, reach, travCalls, trav != nil) {
							return
						}
					}
				}
				// --- depth first (node predicates only)
				if us.minDepth == 0 {
					travCalls = map[[2]int]int{}
					var visits, untilCalls []int
					bad := ""
					df := traverse.DepthFirst{
						Visit:    func(n graph.Node) { visits = append(visits, b.ix(n.ID())) },
						Traverse: trav,
					}
					done := false
					until := func(n graph.Node) bool {
						i := b.ix(n.ID())
						if done {
							bad = "until called after it returned true"
						}
						untilCalls = append(untilCalls, i)
						if i >= 0 && us.targets>>uint(i)&1 != 0 {
							done = true
							return true
						}
						return false
					}
					var res graph.Node
					if never && from%2 == 1 {
						res = df.Walk(g, b.node(from), nil)
						untilCalls = nil
					} else {
						res = df.Walk(g, b.node(from), until)
						if untilCalls == nil {
							untilCalls = []int{}
						}
					}
					if len(visits) == 0 || visits[0] != from {
						bad = fmt.Sprintf("first visit is not the start node: %v", visits)
					}
					if bad != "" || badEdge != "" {
						c.failf("DepthFirst %s: %s%s", what, bad, badEdge)
						return
					}
					checkWalk(c, "DepthFirst "+what, b, reach, sat, res, visits, untilCalls, func(i int) bool { return df.Visited(b.node(i)) })
					if c.failed() {
						return
					}
					if !dfsOrderOK(s, visits, allowed) {
						c.failf("DepthFirst %s: visit order %v is not a depth-first order", what, visits)
						return
					}
					if sat == 0 {
						if !checkTraverseCalls(c, "DepthFirst "+what, s, reach, travCalls, trav != nil) {
							return
						}
					}
				}
			}
		}
	}
}

// checkWalk validates the common contract of both walkers. accept is the set
// of nodes the walk may return (empty: it must return nil and walk everything).
func checkWalk(c *chk, what string, b *built, reach uint8, accept uint8, res graph.Node, visits, untils []int, visited func(int) bool) {
	s := b.s
	found := accept != 0
	target := -1
	if found {
		if res != nil {
			target = b.ix(res.ID())
		}
		if target < 0 || accept>>uint(target)&1 == 0 {
			c.failf("%s: returned %v, want one of %s", what, res, maskStr(accept))
			return
		}
	} else if res != nil {
		c.failf("%s: returned %v, want nil", what, res)
		return
	}
	var vm uint8
	for _, v := range visits {
		if v < 0 || vm>>uint(v)&1 != 0 {
			c.failf("%s: Visit called with unknown node or twice: %v", what, visits)
			return
		}
		vm |= 1 << uint(v)
	}
	if vm&^reach != 0 {
		c.failf("%s: visited unreachable nodes %s (reachable %s)", what, maskStr(vm&^reach), maskStr(reach))
		return
	}
	if !found && vm != reach {
		c.failf("%s: visited %s, reachable set is %s", what, maskStr(vm), maskStr(reach))
		return
	}
	if found && vm>>uint(target)&1 == 0 {
		c.failf("%s: returned node %d was never visited", what, target)
		return
	}
	var um uint8
	for _, v := range untils {
		if v < 0 || um>>uint(v)&1 != 0 {
			c.failf("%s: until called with unknown node or twice: %v", what, untils)
			return
		}
		um |= 1 << uint(v)
	}
	if um&^vm != 0 {
		c.failf("%s: until called on unvisited nodes %s", what, maskStr(um&^vm))
		return
	}
	if !found && untils != nil && um != reach {
		c.failf("%s: until saw %s, reachable set is %s", what, maskStr(um), maskStr(reach))
		return
	}
	for i := 0; i < s.n; i++ {
		if visited(i) != (vm>>uint(i)&1 != 0) {
			c.failf("%s: Visited(%d)=%v but Visit calls were %v", what, i, visited(i), visits)
			return
		}
	}
}

// checkTraverseCalls: on a complete walk Traverse must have been offered
// every edge leaving a reached node (including edges to visited nodes), and
// nothing else.
func checkTraverseCalls(c *chk, what string, s *gspec, reach uint8, calls map[[2]int]int, active bool) bool {
	if !active {
		return true
	}
	for u := 0; u < s.n; u++ {
		for v := 0; v < s.n; v++ {
			k := calls[[2]int{u, v}]
			if !s.directed {
				k += calls[[2]int{v, u}]
			}
			want := s.has(u, v) && reach>>uint(u)&1 != 0
			if !s.directed {
				want = s.has(u, v) && (reach>>uint(u)&1 != 0 || reach>>uint(v)&1 != 0)
			}
			if want != (k > 0) {
				c.failf("%s: Traverse called %d times for edge %d,%d (reachable %s)", what, k, u, v, maskStr(reach))
				return false
			}
		}
	}
	return true
}

// dfsOrderOK replays the definition of depth-first search: the next node
// visited must be an unvisited successor of the deepest node on the current
// path that still has an unvisited successor.
func dfsOrderOK(s *gspec, visits []int, allowed func(u, v int) bool) bool {
	if len(visits) == 0 {
		return true
	}
	var seen uint8
	stack := []int{visits[0]}
	seen |= 1 << uint(visits[0])
	succ := func(u int) uint8 {
		var m uint8
		for v := 0; v < s.n; v++ {
			if s.has(u, v) && allowed(u, v) && seen>>uint(v)&1 == 0 {
				m |= 1 << uint(v)
			}
		}
		return m
	}
	for _, v := range visits[1:] {
		for len(stack) > 0 && succ(stack[len(stack)-1]) == 0 {
			stack = stack[:len(stack)-1]
		}
		if len(stack) == 0 || succ(stack[len(stack)-1])>>uint(v)&1 == 0 {
			return false
		}
		seen |= 1 << uint(v)
		stack = append(stack, v)
	}
	return true
}

// walkAllChecks checks BreadthFirst.WalkAll and DepthFirst.WalkAll on an
// undirected graph: one before/after pair per connected component, during
// called exactly once per node, grouped by component.
func walkAllChecks(c *chk, b *built, comps []uint8) {
	g := b.g.(graph.Undirected)
	s := b.s
	for pass := 0; pass < 2; pass++ {
		name := "BreadthFirst.WalkAll"
		if pass == 1 {
			name = "DepthFirst.WalkAll"
		}
		var events []int // -1 before, -2 after, >=0 node
		before := func() { events = append(events, -1) }
		after := func() { events = append(events, -2) }
		during := func(n graph.Node) { events = append(events, b.ix(n.ID())) }
		var visited func(int) bool
		if pass == 0 {
			var w traverse.BreadthFirst
			// a dirty traverser must be reset by WalkAll.
			if s.n > 0 {
				w.Walk(g, b.node(0), nil)
			}
			w.WalkAll(g, before, after, during)
			visited = func(i int) bool { return w.Visited(b.node(i)) }
		} else {
			var w traverse.DepthFirst
			if s.n > 0 {
				w.Walk(g, b.node(0), nil)
			}
			w.WalkAll(g, before, after, during)
			visited = func(i int) bool { return w.Visited(b.node(i)) }
		}
		var got []uint8
		var cur uint8
		open := false
		var seen uint8
		for _, e := range events {
			switch {
			case e == -1:
				if open {
					c.failf("%s: before called twice: %v", name, events)
					return
				}
				open, cur = true, 0
			case e == -2:
				if !open {
					c.failf("%s: after without before: %v", name, events)
					return
				}
				open = false
				got = append(got, cur)
			default:
				if !open || e < 0 || seen>>uint(e)&1 != 0 {
					c.failf("%s: during outside a walk / unknown / repeated node: %v", name, events)
					return
				}
				seen |= 1 << uint(e)
				cur |= 1 << uint(e)
			}
		}
		if open || len(got) != len(comps) || seen != s.all() {
			c.failf("%s: events %v do not cover the %d components", name, events, len(comps))
			return
		}
		want := map[uint8]bool{}
		for _, m := range comps {
			want[m] = true
		}
		for _, m := range got {
			if !want[m] {
				c.failf("%s: walk covered %s which is not a component", name, maskStr(m))
				return
			}
		}
		for i := 0; i < s.n; i++ {
			if !visited(i) {
				c.failf("%s: Visited(%d) false after WalkAll", name, i)
				return
			}
		}
	}
}

func genDirTraverse(g *vlib.G) {
	pairFilters4 = g.Thorough()
	forDirected(g, 4, func(key string, s gspec) {
		g.Case(key, func(t *vlib.T) {
			s := s
			for idk := 0; idk < nIDMaps; idk++ {
				for v := 0; v < nVariants; v++ {
					// all four variants under the identity map; ascending and
					// one gonum type under the other two maps.
					if idk == idReversed && (v == vOrdDesc || v == vMulti) {
						continue
					}
					if idk == idSparse && (v == vOrdDesc || v == vSimple) {
						continue
					}
					b := build(&s, idk, v)
					run(t, "dir-traverse", key, idk, v, func(c *chk) { traverseChecks(c, b) })
				}
			}
			if s.n >= 2 && s.edges() >= 1 {
				t.Nontrivial()
			}
			t.Outcome(sizeOutcome(&s, ""))
			t.Detail(s.String())
		})
	})
}

func genUndTraverse(g *vlib.G) {
	pairFilters4 = g.Thorough()
	forUndirected(g, undMax(g), func(key string, s gspec) {
		g.Case(key, func(t *vlib.T) {
			s := s
			comps := s.components()
			for idk := 0; idk < nIDMaps; idk++ {
				for v := 0; v < nVariants; v++ {
					// the full filter x start x until product runs on the
					// deterministic ascending variant of every id map and on
					// the gonum types under the sparse map; WalkAll everywhere.
					full := v == vOrdAsc || (idk == idSparse && v != vOrdDesc) || s.n <= 4
					b := build(&s, idk, v)
					run(t, "und-traverse", key, idk, v, func(c *chk) {
						if full {
							traverseChecks(c, b)
						}
						walkAllChecks(c, b, comps)
					})
				}
			}
			if s.n >= 2 && s.edges() >= 1 {
				t.Nontrivial()
			}
			t.Outcome(sizeOutcome(&s, fmt.Sprintf("comps=%d", bits.Len(uint(len(comps))))))
			t.Detail(s.String())
		})
	})
}
