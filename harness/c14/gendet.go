package main

import (
	"fmt"
	"sort"

	"gonum.org/v1/gonum/graph"
	"gonum.org/v1/gonum/graph/graphs/gen"
	"gonum.org/v1/gonum/graph/simple"
	"gonum.org/v1/gonum/internal/verif/vlib"
)

type iderSpec struct {
	name string
	mk   func(n int) gen.IDer
}

var iderSpecs = []iderSpec{
	{"range0", func(n int) gen.IDer { return gen.IDRange{First: 0, Last: int64(n) - 1} }},
	{"range-3", func(n int) gen.IDer { return gen.IDRange{First: -3, Last: int64(n) - 4} }},
	{"range1e12", func(n int) gen.IDer { return gen.IDRange{First: 1e12, Last: 1e12 + int64(n) - 1} }},
	{"set-sparse", func(n int) gen.IDer { return gen.IDSet(append([]int64(nil), sparseIDs[:n]...)) }},
	{"set-rev", func(n int) gen.IDer {
		s := make(gen.IDSet, n)
		for i := range s {
			s[i] = int64(n - 1 - i)
		}
		return s
	}},
	{"set-perm", func(n int) gen.IDer {
		// i -> (5i+3) mod n is a bijection when gcd(5,n)=1, else rotate by 2.
		s := make(gen.IDSet, n)
		for i := range s {
			if n%5 != 0 {
				s[i] = int64((i*5 + 3) % n)
			} else {
				s[i] = int64((i + 2) % n)
			}
		}
		return s
	}},
}

// centerFor returns a centre ID distinct from the IDs of ids.
func centerFor(ids gen.IDer) int64 {
	used := map[int64]bool{}
	for i := 0; i < ids.Len(); i++ {
		used[ids.ID(i)] = true
	}
	for _, c := range []int64{-77, 4242, 1 << 50} {
		if !used[c] {
			return c
		}
	}
	return -1 << 60
}

type arc struct{ u, v int64 }

// checkGenerated compares dst with the expected node set and arcs. For an
// undirected dst arcs are unordered.
func checkGenerated(t *vlib.T, what string, dst graph.Graph, directed bool, nodes []int64, arcs []arc) {
	got := graph.NodesOf(dst.Nodes())
	gotIDs := make([]int64, len(got))
	for i, n := range got {
		gotIDs[i] = n.ID()
	}
	sort.Slice(gotIDs, func(i, j int) bool { return gotIDs[i] < gotIDs[j] })
	want := append([]int64(nil), nodes...)
	sort.Slice(want, func(i, j int) bool { return want[i] < want[j] })
	if fmt.Sprint(gotIDs) != fmt.Sprint(want) {
		t.Failf("%s: nodes %v want %v", what, gotIDs, want)
		return
	}
	wantSet := map[arc]bool{}
	for _, a := range arcs {
		if !directed && a.u > a.v {
			a.u, a.v = a.v, a.u
		}
		wantSet[a] = true
	}
	n := 0
	for _, u := range want {
		for _, v := range want {
			if u == v {
				continue
			}
			a := arc{u, v}
			if !directed && u > v {
				a = arc{v, u}
			}
			var has bool
			if directed {
				has = dst.(graph.Directed).HasEdgeFromTo(u, v)
			} else {
				has = dst.HasEdgeBetween(u, v)
			}
			if has != wantSet[a] {
				t.Failf("%s: edge %d->%d present=%v want %v", what, u, v, has, wantSet[a])
				return
			}
			if has {
				n++
			}
		}
	}
	tot := 0
	for _, u := range want {
		tot += dst.From(u).Len()
	}
	if tot != n {
		t.Failf("%s: adjacency lists hold %d entries, want %d", what, tot, n)
	}
}

type genDst interface {
	gen.NodeIDGraphBuilder
	graph.Graph
}

func newGenDst(directed bool) genDst {
	if directed {
		return simple.NewDirectedGraph()
	}
	return simple.NewUndirectedGraph()
}

func idsOf(ids gen.IDer) []int64 {
	r := make([]int64, ids.Len())
	for i := range r {
		r[i] = ids.ID(i)
	}
	return r
}

// expectPanic runs f and reports whether it panicked.
func expectPanic(f func()) (panicked bool) {
	defer func() {
		if recover() != nil {
			panicked = true
		}
	}()
	f()
	return false
}

func genGenDet(g *vlib.G) {
	const maxGenN = 8
	for _, directed := range []bool{false, true} {
		directed := directed
		for _, is := range iderSpecs {
			is := is
			for n := 0; n <= maxGenN; n++ {
				n := n
				tag := fmt.Sprintf("dir=%v ids=%s n=%d", directed, is.name, n)
				g.Case("Complete "+tag, func(t *vlib.T) {
					ids := is.mk(n)
					dst := newGenDst(directed)
					gen.Complete(dst, ids)
					id := idsOf(ids)
					if !directed {
						var arcs []arc
						for i := range id {
							for j := i + 1; j < len(id); j++ {
								arcs = append(arcs, arc{id[i], id[j]})
							}
						}
						checkGenerated(t, "Complete", dst, false, id, arcs)
					} else {
						// orientation is not documented: every pair must be joined.
						if dst.Nodes().Len() != n {
							t.Failf("Complete: %d nodes want %d", dst.Nodes().Len(), n)
						}
						for i := range id {
							for j := i + 1; j < len(id); j++ {
								if !dst.HasEdgeBetween(id[i], id[j]) {
									t.Failf("Complete: %d and %d not joined", id[i], id[j])
								}
							}
						}
					}
					if n >= 2 {
						t.Nontrivial()
					}
					t.Outcome("Complete")
				})
				g.Case("Cycle "+tag, func(t *vlib.T) {
					ids := is.mk(n)
					dst := newGenDst(directed)
					gen.Cycle(dst, ids)
					id := idsOf(ids)
					var arcs []arc
					if n >= 2 {
						for i := range id {
							arcs = append(arcs, arc{id[i], id[(i+1)%n]})
						}
					}
					checkGenerated(t, "Cycle", dst, directed, id, arcs)
					if n >= 2 {
						t.Nontrivial()
					}
					t.Outcome("Cycle")
				})
				g.Case("Path "+tag, func(t *vlib.T) {
					ids := is.mk(n)
					dst := newGenDst(directed)
					gen.Path(dst, ids)
					id := idsOf(ids)
					var arcs []arc
					for i := 0; i+1 < n; i++ {
						arcs = append(arcs, arc{id[i], id[i+1]})
					}
					checkGenerated(t, "Path", dst, directed, id, arcs)
					if n >= 2 {
						t.Nontrivial()
					}
					t.Outcome("Path")
				})
				g.Case("Star "+tag, func(t *vlib.T) {
					ids := is.mk(n)
					ctr := centerFor(ids)
					dst := newGenDst(directed)
					gen.Star(dst, ctr, ids)
					id := idsOf(ids)
					var arcs []arc
					for _, v := range id {
						arcs = append(arcs, arc{ctr, v})
					}
					checkGenerated(t, "Star", dst, directed, append(id, ctr), arcs)
					if n >= 1 {
						t.Nontrivial()
					}
					t.Outcome("Star")
				})
				g.Case("Wheel "+tag, func(t *vlib.T) {
					ids := is.mk(n)
					ctr := centerFor(ids)
					dst := newGenDst(directed)
					gen.Wheel(dst, ctr, ids)
					id := idsOf(ids)
					var arcs []arc
					for _, v := range id {
						arcs = append(arcs, arc{ctr, v})
					}
					if n >= 2 {
						for i := range id {
							arcs = append(arcs, arc{id[i], id[(i+1)%n]})
						}
					}
					checkGenerated(t, "Wheel", dst, directed, append(id, ctr), arcs)
					if n >= 2 {
						t.Nontrivial()
					}
					t.Outcome("Wheel")
				})
				for fan := 0; fan <= n+1; fan++ {
					fan := fan
					g.Case(fmt.Sprintf("Tree fan=%d %s", fan, tag), func(t *vlib.T) {
						ids := is.mk(n)
						dst := newGenDst(directed)
						wantPanic := n > 1 && (fan < 1 || n <= fan)
						p := expectPanic(func() { gen.Tree(dst, fan, ids) })
						if p != wantPanic {
							t.Failf("Tree(fan=%d, %d nodes): panicked=%v want %v", fan, n, p, wantPanic)
							return
						}
						if p {
							t.Outcome("Tree panic")
							return
						}
						id := idsOf(ids)
						var arcs []arc
						if n >= 2 {
							for i := 0; i < n; i++ {
								for j := fan*i + 1; j <= fan*i+fan && j < n; j++ {
									arcs = append(arcs, arc{id[i], id[j]})
								}
							}
						}
						checkGenerated(t, "Tree", dst, directed, id, arcs)
						if n >= 2 {
							t.Nontrivial()
						}
						t.Outcome("Tree")
					})
				}
			}
		}
		// documented panics on repeated IDs.
		for n := 2; n <= 5; n++ {
			for dupAt := 1; dupAt < n; dupAt++ {
				n, dupAt := n, dupAt
				g.Case(fmt.Sprintf("dup dir=%v n=%d at=%d", directed, n, dupAt), func(t *vlib.T) {
					mk := func() gen.IDSet {
						s := make(gen.IDSet, n)
						for i := range s {
							s[i] = int64(10 + i)
						}
						s[dupAt] = s[0]
						return s
					}
					if !expectPanic(func() { gen.Complete(newGenDst(directed), mk()) }) {
						t.Failf("Complete with repeated ID did not panic")
					}
					if !expectPanic(func() { gen.Cycle(newGenDst(directed), mk()) }) {
						t.Failf("Cycle with repeated ID did not panic")
					}
					if !expectPanic(func() { gen.Path(newGenDst(directed), mk()) }) {
						t.Failf("Path with repeated ID did not panic")
					}
					if !expectPanic(func() { gen.Star(newGenDst(directed), 99, mk()) }) {
						t.Failf("Star with repeated leaf ID did not panic")
					}
					if !expectPanic(func() { gen.Wheel(newGenDst(directed), 99, mk()) }) {
						t.Failf("Wheel with repeated ID did not panic")
					}
					if !expectPanic(func() { gen.Tree(newGenDst(directed), 1, mk()) }) {
						t.Failf("Tree with repeated ID did not panic")
					}
					good := make(gen.IDSet, n)
					for i := range good {
						good[i] = int64(10 + i)
					}
					if !expectPanic(func() { gen.Star(newGenDst(directed), good[dupAt], good) }) {
						t.Failf("Star with centre among the leaves did not panic")
					}
					if !expectPanic(func() { gen.Wheel(newGenDst(directed), good[dupAt], good) }) {
						t.Failf("Wheel with centre in the cycle did not panic")
					}
					t.Nontrivial()
					t.Outcome("dup panic")
				})
			}
		}
	}
}
