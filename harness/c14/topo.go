package main

import (
	"fmt"
	"math/bits"
	"sort"

	"gonum.org/v1/gonum/graph"
	"gonum.org/v1/gonum/graph/community"
	"gonum.org/v1/gonum/graph/simple"
	"gonum.org/v1/gonum/graph/topo"
)

// checkPartition verifies that got is exactly the partition want.
func checkPartition(c *chk, what string, b *built, got [][]graph.Node, want []uint8) {
	if len(got) != len(want) {
		c.failf("%s: %d components, want %d (%v)", what, len(got), len(want), want)
		return
	}
	wantSet := map[uint8]bool{}
	for _, w := range want {
		wantSet[w] = true
	}
	var seen uint8
	for _, comp := range got {
		m, ok := b.maskOf(comp)
		if !ok {
			c.failf("%s: component %v has unknown/repeated node", what, comp)
			return
		}
		if !wantSet[m] {
			c.failf("%s: component %s is not a class of the definition %v", what, maskStr(m), want)
			return
		}
		if seen&m != 0 {
			c.failf("%s: component %s returned twice", what, maskStr(m))
			return
		}
		seen |= m
	}
}

func byIDDesc(nodes []graph.Node) {
	sort.Slice(nodes, func(i, j int) bool { return nodes[i].ID() > nodes[j].ID() })
}

// checkSorted validates the result of Sort/SortStabilized against the
// documentation. less orders IDs the way the cyclic components must be sorted.
func checkSorted(c *chk, what string, b *built, sorted []graph.Node, err error, classes []uint8, comp [maxN]uint8, less func(a, b int64) bool) {
	s := b.s
	var nontrivial []uint8
	for _, cl := range classes {
		if bits.OnesCount8(cl) > 1 {
			nontrivial = append(nontrivial, cl)
		}
	}
	var un topo.Unorderable
	if err != nil {
		var ok bool
		un, ok = err.(topo.Unorderable)
		if !ok {
			c.failf("%s: error of type %T, want topo.Unorderable", what, err)
			return
		}
	}
	if (len(nontrivial) == 0) != (err == nil) {
		c.failf("%s: err=%v but graph has %d cyclic components", what, err, len(nontrivial))
		return
	}
	// Unorderable lists exactly the cyclic components, members sorted.
	if len(un) != len(nontrivial) {
		c.failf("%s: Unorderable has %d components, want %d", what, len(un), len(nontrivial))
		return
	}
	unMasks := make([]uint8, len(un))
	var seenUn uint8
	for i, cc := range un {
		m, ok := b.maskOf(cc)
		if !ok || m == 0 || comp[bits.TrailingZeros8(m)] != m || bits.OnesCount8(m) < 2 || seenUn&m != 0 {
			c.failf("%s: Unorderable[%d]=%v is not a distinct cyclic component", what, i, cc)
			return
		}
		seenUn |= m
		unMasks[i] = m
		for k := 1; k < len(cc); k++ {
			if !less(cc[k-1].ID(), cc[k].ID()) {
				c.failf("%s: Unorderable[%d]=%v members not sorted", what, i, cc)
				return
			}
		}
	}
	// positions: non-nil entries are the acyclic nodes once each, the i-th
	// nil marks the position of the i-th unorderable component.
	var pos [maxN]int
	for i := range pos {
		pos[i] = -1
	}
	nils := 0
	for p, nd := range sorted {
		if nd == nil {
			if nils >= len(unMasks) {
				c.failf("%s: more nil markers than cyclic components: %v", what, sorted)
				return
			}
			m := unMasks[nils]
			nils++
			for i := 0; i < s.n; i++ {
				if m>>uint(i)&1 != 0 {
					pos[i] = p
				}
			}
			continue
		}
		i := b.ix(nd.ID())
		if i < 0 || pos[i] >= 0 || bits.OnesCount8(comp[i]) > 1 {
			c.failf("%s: sorted %v: entry %d (id %d) unknown, repeated or member of a cycle", what, sorted, p, nd.ID())
			return
		}
		pos[i] = p
	}
	if nils != len(unMasks) {
		c.failf("%s: %d nil markers for %d cyclic components", what, nils, len(unMasks))
		return
	}
	for i := 0; i < s.n; i++ {
		if pos[i] < 0 {
			c.failf("%s: node index %d missing from sorted %v", what, i, sorted)
			return
		}
	}
	for u := 0; u < s.n; u++ {
		for v := 0; v < s.n; v++ {
			if s.has(u, v) && comp[u] != comp[v] && pos[u] >= pos[v] {
				c.failf("%s: edge %d->%d goes backwards in %v (err=%v)", what, u, v, b.indices(sorted), err)
				return
			}
		}
	}
}

func idSeq(nodes []graph.Node) string {
	r := ""
	for _, n := range nodes {
		if n == nil {
			r += "nil "
		} else {
			r += fmt.Sprintf("%d ", n.ID())
		}
	}
	return r
}

// directedTopo checks TarjanSCC, Sort, SortStabilized and DirectedCyclesIn.
// stab collects the SortStabilized outputs for the cross-variant comparison.
func directedTopo(c *chk, b *built, classes []uint8, comp [maxN]uint8, cycles map[string]bool, stab *[2]string) {
	g := b.g.(graph.Directed)
	s := b.s

	checkPartition(c, "TarjanSCC", b, topo.TarjanSCC(g), classes)

	asc := func(a, b int64) bool { return a < b }
	desc := func(a, b int64) bool { return a > b }
	sorted, err := topo.Sort(g)
	checkSorted(c, "Sort", b, sorted, err, classes, comp, asc)

	sorted, err = topo.SortStabilized(g, nil)
	checkSorted(c, "SortStabilized(nil)", b, sorted, err, classes, comp, asc)
	k := idSeq(sorted)
	if err != nil {
		for _, cc := range err.(topo.Unorderable) {
			k += "| " + idSeq(cc)
		}
	}
	if stab[0] == "" {
		stab[0] = k
	} else if stab[0] != k {
		c.failf("SortStabilized(nil) depends on iteration order: %q vs %q", k, stab[0])
	}
	if s.edges() == 0 {
		for i := 1; i < len(sorted); i++ {
			if sorted[i-1].ID() >= sorted[i].ID() {
				c.failf("SortStabilized(nil) of edgeless graph not in ID order: %s", idSeq(sorted))
				break
			}
		}
	}

	sorted, err = topo.SortStabilized(g, byIDDesc)
	checkSorted(c, "SortStabilized(desc)", b, sorted, err, classes, comp, desc)
	k = idSeq(sorted)
	if stab[1] == "" {
		stab[1] = k
	} else if stab[1] != k {
		c.failf("SortStabilized(desc) depends on iteration order: %q vs %q", k, stab[1])
	}
	if s.edges() == 0 {
		for i := 1; i < len(sorted); i++ {
			if sorted[i-1].ID() <= sorted[i].ID() {
				c.failf("SortStabilized(desc) of edgeless graph not in descending ID order: %s", idSeq(sorted))
				break
			}
		}
	}

	// DirectedCyclesIn: exactly the elementary cycles.
	got := topo.DirectedCyclesIn(g)
	seen := map[string]bool{}
	for _, cyc := range got {
		ix := b.indices(cyc)
		if len(ix) < 3 || ix[0] != ix[len(ix)-1] {
			c.failf("DirectedCyclesIn: %v is not a closed cycle", ix)
			return
		}
		var used uint8
		for k := 0; k+1 < len(ix); k++ {
			u, v := ix[k], ix[k+1]
			if u < 0 || v < 0 || !s.has(u, v) || used>>uint(u)&1 != 0 {
				c.failf("DirectedCyclesIn: %v is not an elementary cycle of the graph", ix)
				return
			}
			used |= 1 << uint(u)
		}
		key := seqKey(rotateMin(ix[:len(ix)-1]))
		if seen[key] {
			c.failf("DirectedCyclesIn: cycle %s returned twice", key)
			return
		}
		seen[key] = true
		if !cycles[key] {
			c.failf("DirectedCyclesIn: cycle %s not in brute-force enumeration", key)
			return
		}
	}
	if len(seen) != len(cycles) {
		for k := range cycles {
			if !seen[k] {
				c.failf("DirectedCyclesIn: %d cycles, want %d; e.g. missing %s", len(seen), len(cycles), k)
				break
			}
		}
	}
}

// undirOracle holds the per-graph definitional results shared by all id
// maps and variants.
type undirOracle struct {
	comps     []uint8
	cliques   []uint8
	degen     int
	cores     []uint8 // cores[k] = k-core, k=0..degen+1
	cycleRank int
}

func newUndirOracle(s *gspec) *undirOracle {
	o := &undirOracle{comps: s.components(), cliques: s.maximalCliques(), degen: s.degeneracy()}
	for k := 0; k <= o.degen+1; k++ {
		o.cores = append(o.cores, s.kCore(k))
	}
	o.cycleRank = s.edges() - s.n + len(o.comps)
	return o
}

// degeneracyOrderOK reports whether every node of seq has at most d
// neighbours (within set) earlier in seq, or every node at most d later.
func degeneracyOrderOK(s *gspec, seq []int, d int) bool {
	okEarlier, okLater := true, true
	for p, v := range seq {
		var before, after uint8
		for q, u := range seq {
			if q < p {
				before |= 1 << uint(u)
			} else if q > p {
				after |= 1 << uint(u)
			}
		}
		if bits.OnesCount8(s.adj[v]&before) > d {
			okEarlier = false
		}
		if bits.OnesCount8(s.adj[v]&after) > d {
			okLater = false
		}
	}
	return okEarlier || okLater
}

// undirectedTopo checks ConnectedComponents, UndirectedCyclesIn,
// BronKerbosch, DegeneracyOrdering, KCore, CliqueGraph and KCliqueCommunities.
func undirectedTopo(c *chk, b *built, o *undirOracle) {
	g := b.g.(graph.Undirected)
	s := b.s

	checkPartition(c, "ConnectedComponents", b, topo.ConnectedComponents(g), o.comps)

	// UndirectedCyclesIn: a basis of the cycle space.
	cyc := topo.UndirectedCyclesIn(g)
	var vecs []uint32
	for _, cy := range cyc {
		ix := b.indices(cy)
		if len(ix) < 4 || ix[0] != ix[len(ix)-1] {
			c.failf("UndirectedCyclesIn: %v is not a closed simple cycle", ix)
			return
		}
		var used uint8
		var vec uint32
		for k := 0; k+1 < len(ix); k++ {
			u, v := ix[k], ix[k+1]
			if u < 0 || v < 0 || !s.has(u, v) || used>>uint(u)&1 != 0 {
				c.failf("UndirectedCyclesIn: %v is not a simple cycle of the graph", ix)
				return
			}
			used |= 1 << uint(u)
			vec |= 1 << uint(pairIndex(u, v))
		}
		vecs = append(vecs, vec)
	}
	if len(vecs) != o.cycleRank {
		c.failf("UndirectedCyclesIn: %d cycles, cycle space has dimension m-n+c=%d", len(vecs), o.cycleRank)
	} else if r := gf2Rank(vecs); r != o.cycleRank {
		c.failf("UndirectedCyclesIn: cycles have GF(2) rank %d, want %d", r, o.cycleRank)
	}

	// BronKerbosch: exactly the maximal cliques.
	checkCliques(c, "BronKerbosch", b, topo.BronKerbosch(g), o.cliques)

	// DegeneracyOrdering.
	order, cores := topo.DegeneracyOrdering(g)
	if m, ok := b.maskOf(order); !ok || m != s.all() {
		c.failf("DegeneracyOrdering: order %v is not a permutation of the nodes", b.indices(order))
	} else if !degeneracyOrderOK(s, b.indices(order), o.degen) {
		c.failf("DegeneracyOrdering: order %v is not a degeneracy ordering (degeneracy %d)", b.indices(order), o.degen)
	}
	if len(cores) != o.degen+1 {
		c.failf("DegeneracyOrdering: %d core levels, want degeneracy+1=%d", len(cores), o.degen+1)
	} else {
		// union of levels >= k is the k-core.
		var acc uint8
		for k := len(cores) - 1; k >= 0; k-- {
			m, ok := b.maskOf(cores[k])
			if !ok || m&acc != 0 {
				c.failf("DegeneracyOrdering: cores[%d]=%v has unknown/repeated nodes", k, b.indices(cores[k]))
				break
			}
			acc |= m
			if acc != o.cores[k] {
				c.failf("DegeneracyOrdering: union of cores[%d:] is %s, the %d-core is %s", k, maskStr(acc), k, maskStr(o.cores[k]))
				break
			}
		}
	}

	// KCore for every k with a defined result.
	for k := 0; k <= o.degen+1; k++ {
		k := k
		catch(c, fmt.Sprintf("KCore(%d)", k), func() {
			core := topo.KCore(k, g)
			m, ok := b.maskOf(core)
			if !ok || m != o.cores[k] {
				c.failf("KCore(%d)=%v, want %s", k, b.indices(core), maskStr(o.cores[k]))
				return
			}
			if !degeneracyOrderOK(s, b.indices(core), o.degen) {
				c.failf("KCore(%d)=%v is not in a degeneracy ordering", k, b.indices(core))
			}
		})
	}

	// CliqueGraph.
	cg := simple.NewUndirectedGraph()
	topo.CliqueGraph(cg, g)
	cgNodes := graph.NodesOf(cg.Nodes())
	var cls [][]graph.Node
	cliqueOf := map[int64]uint8{}
	for _, n := range cgNodes {
		cn, ok := n.(topo.Clique)
		if !ok {
			c.failf("CliqueGraph: node of type %T", n)
			return
		}
		cls = append(cls, cn.Nodes())
		m, _ := b.maskOf(cn.Nodes())
		cliqueOf[cn.ID()] = m
	}
	checkCliques(c, "CliqueGraph nodes", b, cls, o.cliques)
	wantEdges := 0
	for i := range o.cliques {
		for j := i + 1; j < len(o.cliques); j++ {
			if o.cliques[i]&o.cliques[j] != 0 {
				wantEdges++
			}
		}
	}
	gotEdges := 0
	for _, e := range graph.EdgesOf(cg.Edges()) {
		ce, ok := e.(topo.CliqueGraphEdge)
		if !ok {
			c.failf("CliqueGraph: edge of type %T", e)
			return
		}
		gotEdges++
		mu, mv := cliqueOf[ce.From().ID()], cliqueOf[ce.To().ID()]
		m, ok := b.maskOf(ce.Nodes())
		if !ok || m != mu&mv || m == 0 {
			c.failf("CliqueGraph: edge %s-%s carries nodes %v, want common nodes %s", maskStr(mu), maskStr(mv), b.indices(ce.Nodes()), maskStr(mu&mv))
			return
		}
	}
	if gotEdges != wantEdges {
		c.failf("CliqueGraph: %d edges, want %d (cliques sharing a node)", gotEdges, wantEdges)
	}

	// KCliqueCommunities.
	if s.n > 0 {
		for k := 1; k <= s.n+1; k++ {
			got := community.KCliqueCommunities(k, g)
			switch k {
			case 1:
				if len(got) != 1 {
					c.failf("KCliqueCommunities(1): %d communities", len(got))
				} else if m, ok := b.maskOf(got[0]); !ok || m != s.all() {
					c.failf("KCliqueCommunities(1)=%v", b.indices(got[0]))
				}
			case 2:
				checkPartition(c, "KCliqueCommunities(2)", b, got, o.comps)
			default:
				want, covered := s.kCliqueCommunities(k)
				wantSet := map[uint8]int{}
				for _, w := range want {
					wantSet[w]++
				}
				var singles uint8
				for _, cm := range got {
					m, ok := b.maskOf(cm)
					if !ok {
						c.failf("KCliqueCommunities(%d): community %v has unknown/repeated node", k, b.indices(cm))
						return
					}
					if wantSet[m] > 0 {
						wantSet[m]--
						continue
					}
					// Nodes in no k-clique may be reported as singletons (don't-care), once each.
					if bits.OnesCount8(m) == 1 && m&covered == 0 && m&singles == 0 {
						singles |= m
						continue
					}
					c.failf("KCliqueCommunities(%d): unexpected community %s (definition gives %v)", k, maskStr(m), want)
					return
				}
				for m, cnt := range wantSet {
					if cnt != 0 {
						c.failf("KCliqueCommunities(%d): community %s missing", k, maskStr(m))
						return
					}
				}
			}
		}
	}
}

func checkCliques(c *chk, what string, b *built, got [][]graph.Node, want []uint8) {
	wantSet := map[uint8]bool{}
	for _, w := range want {
		wantSet[w] = true
	}
	seen := map[uint8]bool{}
	for _, cl := range got {
		m, ok := b.maskOf(cl)
		if !ok {
			c.failf("%s: clique %v has unknown/repeated node", what, b.indices(cl))
			return
		}
		if !wantSet[m] {
			c.failf("%s: %s is not a maximal clique", what, maskStr(m))
			return
		}
		if seen[m] {
			c.failf("%s: clique %s returned twice", what, maskStr(m))
			return
		}
		seen[m] = true
	}
	if len(seen) != len(want) {
		for _, w := range want {
			if !seen[w] {
				c.failf("%s: %d cliques, want %d; e.g. missing %s", what, len(seen), len(want), maskStr(w))
				return
			}
		}
	}
}
