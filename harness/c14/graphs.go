package main

import (
	"fmt"
	"math/bits"
	"os"
	"strings"

	"gonum.org/v1/gonum/graph"
	"gonum.org/v1/gonum/graph/iterator"
	"gonum.org/v1/gonum/graph/multi"
	"gonum.org/v1/gonum/graph/simple"
	"gonum.org/v1/gonum/internal/verif/vlib"
)

const maxN = 8

// gspec is an abstract graph on node indices 0..n-1. adj[i] is the bit mask
// of the out-neighbours of i (symmetric for undirected graphs). No self-loops.
type gspec struct {
	n        int
	directed bool
	adj      [maxN]uint8
	mask     uint32
}

func (s *gspec) has(i, j int) bool { return s.adj[i]>>uint(j)&1 != 0 }
func (s *gspec) all() uint8        { return uint8(1<<uint(s.n) - 1) }

// edges returns the number of edges (unordered pairs for undirected graphs).
func (s *gspec) edges() int {
	m := 0
	for i := 0; i < s.n; i++ {
		m += bits.OnesCount8(s.adj[i])
	}
	if !s.directed {
		m /= 2
	}
	return m
}

// pred returns the mask of in-neighbours of j.
func (s *gspec) pred(j int) uint8 {
	var m uint8
	for i := 0; i < s.n; i++ {
		if s.has(i, j) {
			m |= 1 << uint(i)
		}
	}
	return m
}

func (s *gspec) String() string {
	var b strings.Builder
	fmt.Fprintf(&b, "n=%d", s.n)
	for i := 0; i < s.n; i++ {
		for j := 0; j < s.n; j++ {
			if s.has(i, j) && (s.directed || i < j) {
				if s.directed {
					fmt.Fprintf(&b, " %d>%d", i, j)
				} else {
					fmt.Fprintf(&b, " %d-%d", i, j)
				}
			}
		}
	}
	return b.String()
}

// pairIndex is the index of the unordered pair i<j in the enumeration order
// (0,1),(0,2),(1,2),(0,3),... so that graphs on n nodes embed in n+1 nodes.
func pairIndex(i, j int) int {
	if i > j {
		i, j = j, i
	}
	return j*(j-1)/2 + i
}

// undirectedSpec decodes an edge mask over the n(n-1)/2 unordered pairs.
func undirectedSpec(n int, mask uint32) gspec {
	s := gspec{n: n, mask: mask}
	for j := 1; j < n; j++ {
		for i := 0; i < j; i++ {
			if mask>>uint(pairIndex(i, j))&1 != 0 {
				s.adj[i] |= 1 << uint(j)
				s.adj[j] |= 1 << uint(i)
			}
		}
	}
	return s
}

// directedSpec decodes an arc mask over the n(n-1) ordered pairs.
func directedSpec(n int, mask uint32) gspec {
	s := gspec{n: n, directed: true, mask: mask}
	p := 0
	for i := 0; i < n; i++ {
		for j := 0; j < n; j++ {
			if i == j {
				continue
			}
			if mask>>uint(p)&1 != 0 {
				s.adj[i] |= 1 << uint(j)
			}
			p++
		}
	}
	return s
}

// ID maps.
const (
	idIdentity = iota
	idReversed
	idSparse
	nIDMaps
)

var idMapNames = [nIDMaps]string{"ident", "rev", "sparse"}

var sparseIDs = [maxN]int64{7, -3, 1 << 40, 0, 100, -(1 << 33), 12, -1}

func idsFor(kind, n int) []int64 {
	ids := make([]int64, n)
	for i := range ids {
		switch kind {
		case idIdentity:
			ids[i] = int64(i)
		case idReversed:
			ids[i] = int64(n - 1 - i)
		default:
			ids[i] = sparseIDs[i]
		}
	}
	return ids
}

// Graph implementation variants.
const (
	vOrdAsc  = iota // harness graph type, ascending-ID iteration order (deterministic)
	vOrdDesc        // harness graph type, descending-ID iteration order (deterministic)
	vSimple         // gonum simple.* graph (map iteration order)
	vMulti          // gonum multi.* graph with some doubled lines (map iteration order)
	nVariants
)

var variantNames = [nVariants]string{"asc", "desc", "simple", "multi"}

func variantRaw(v int) bool { return v >= vSimple }

// built is a concrete graph for a gspec under an ID map.
type built struct {
	s   *gspec
	ids []int64
	idx map[int64]int
	g   graph.Graph
}

func (b *built) ix(id int64) int {
	if i, ok := b.idx[id]; ok {
		return i
	}
	return -1
}

// maskOf converts nodes to an index bit mask; ok is false when a node is
// unknown, nil or repeated.
func (b *built) maskOf(nodes []graph.Node) (m uint8, ok bool) {
	for _, n := range nodes {
		if n == nil {
			return m, false
		}
		i := b.ix(n.ID())
		if i < 0 || m>>uint(i)&1 != 0 {
			return m, false
		}
		m |= 1 << uint(i)
	}
	return m, true
}

// indices converts nodes to indices (-1 for unknown/nil).
func (b *built) indices(nodes []graph.Node) []int {
	r := make([]int, len(nodes))
	for k, n := range nodes {
		if n == nil {
			r[k] = -1
		} else {
			r[k] = b.ix(n.ID())
		}
	}
	return r
}

func (b *built) node(i int) graph.Node { return simple.Node(b.ids[i]) }

// ordBase is the harness's own deterministic graph implementation.
type ordBase struct {
	s     *gspec
	ids   []int64
	idx   map[int64]int
	order []int   // node indices in iteration order
	out   [][]int // out[i]: neighbours of i in iteration order
	in    [][]int
}

func newOrdBase(s *gspec, ids []int64, idx map[int64]int, desc bool) *ordBase {
	o := &ordBase{s: s, ids: ids, idx: idx}
	// indices sorted by ID
	ord := make([]int, s.n)
	for i := range ord {
		ord[i] = i
	}
	for a := 1; a < len(ord); a++ {
		for b := a; b > 0; b-- {
			less := ids[ord[b]] < ids[ord[b-1]]
			if desc {
				less = ids[ord[b]] > ids[ord[b-1]]
			}
			if !less {
				break
			}
			ord[b], ord[b-1] = ord[b-1], ord[b]
		}
	}
	o.order = ord
	o.out = make([][]int, s.n)
	o.in = make([][]int, s.n)
	for i := 0; i < s.n; i++ {
		for _, j := range ord {
			if s.has(i, j) {
				o.out[i] = append(o.out[i], j)
			}
			if s.has(j, i) {
				o.in[i] = append(o.in[i], j)
			}
		}
	}
	return o
}

func (o *ordBase) iter(ix []int) graph.Nodes {
	if len(ix) == 0 {
		return graph.Empty
	}
	ns := make([]graph.Node, len(ix))
	for k, i := range ix {
		ns[k] = simple.Node(o.ids[i])
	}
	return iterator.NewOrderedNodes(ns)
}

func (o *ordBase) Node(id int64) graph.Node {
	if _, ok := o.idx[id]; ok {
		return simple.Node(id)
	}
	return nil
}
func (o *ordBase) Nodes() graph.Nodes { return o.iter(o.order) }
func (o *ordBase) From(id int64) graph.Nodes {
	i, ok := o.idx[id]
	if !ok {
		return graph.Empty
	}
	return o.iter(o.out[i])
}
func (o *ordBase) hasArc(uid, vid int64) bool {
	i, ok := o.idx[uid]
	j, ok2 := o.idx[vid]
	return ok && ok2 && o.s.has(i, j)
}
func (o *ordBase) HasEdgeBetween(xid, yid int64) bool {
	return o.hasArc(xid, yid) || o.hasArc(yid, xid)
}
func (o *ordBase) Edge(uid, vid int64) graph.Edge {
	if !o.hasArc(uid, vid) {
		return nil
	}
	return simple.Edge{F: simple.Node(uid), T: simple.Node(vid)}
}

type ordDirected struct{ *ordBase }

func (o ordDirected) HasEdgeFromTo(uid, vid int64) bool { return o.hasArc(uid, vid) }
func (o ordDirected) To(id int64) graph.Nodes {
	i, ok := o.idx[id]
	if !ok {
		return graph.Empty
	}
	return o.iter(o.in[i])
}

type ordUndirected struct{ *ordBase }

func (o ordUndirected) EdgeBetween(xid, yid int64) graph.Edge { return o.Edge(xid, yid) }

var (
	_ graph.Directed   = ordDirected{}
	_ graph.Undirected = ordUndirected{}
)

// doubled reports whether the multigraph variant carries a second parallel
// line for the pair (i,j).
func doubled(i, j, idKind int) bool { return (i+2*j+idKind)%3 == 0 }

// combo is one realisation of an abstract graph: an ID map and a graph
// implementation.
type combo struct{ idk, v int }

// allCombos is every ID map with every implementation.
var allCombos = func() []combo {
	var cs []combo
	for idk := 0; idk < nIDMaps; idk++ {
		for v := 0; v < nVariants; v++ {
			cs = append(cs, combo{idk, v})
		}
	}
	return cs
}()

// oneMapCombos is the thinned plan of the large quick-tier sweeps: one ID
// map, chosen by the edge mask, under all four implementations.
func oneMapCombos(mask uint32) []combo {
	idk := int(mask % nIDMaps)
	return []combo{{idk, vOrdAsc}, {idk, vOrdDesc}, {idk, vSimple}, {idk, vMulti}}
}

// twoCombos is the thinnest plan: one ID map chosen by the mask, the
// ascending harness graph and one of the other three implementations.
func twoCombos(mask uint32) []combo {
	idk := int(mask % nIDMaps)
	return []combo{{idk, vOrdAsc}, {idk, 1 + int(mask/nIDMaps%3)}}
}

// build constructs the concrete graph for s.
func build(s *gspec, idKind, variant int) *built {
	ids := idsFor(idKind, s.n)
	idx := make(map[int64]int, s.n)
	for i, id := range ids {
		idx[id] = i
	}
	b := &built{s: s, ids: ids, idx: idx}
	switch variant {
	case vOrdAsc, vOrdDesc:
		o := newOrdBase(s, ids, idx, variant == vOrdDesc)
		if s.directed {
			b.g = ordDirected{o}
		} else {
			b.g = ordUndirected{o}
		}
	case vSimple:
		if s.directed {
			g := simple.NewDirectedGraph()
			for _, id := range ids {
				g.AddNode(simple.Node(id))
			}
			for i := 0; i < s.n; i++ {
				for j := 0; j < s.n; j++ {
					if s.has(i, j) {
						g.SetEdge(simple.Edge{F: simple.Node(ids[i]), T: simple.Node(ids[j])})
					}
				}
			}
			b.g = g
		} else {
			g := simple.NewUndirectedGraph()
			for _, id := range ids {
				g.AddNode(simple.Node(id))
			}
			for i := 0; i < s.n; i++ {
				for j := i + 1; j < s.n; j++ {
					if s.has(i, j) {
						// alternate the stored orientation
						if (i+j)%2 == 0 {
							g.SetEdge(simple.Edge{F: simple.Node(ids[i]), T: simple.Node(ids[j])})
						} else {
							g.SetEdge(simple.Edge{F: simple.Node(ids[j]), T: simple.Node(ids[i])})
						}
					}
				}
			}
			b.g = g
		}
	case vMulti:
		if s.directed {
			g := multi.NewDirectedGraph()
			for _, id := range ids {
				g.AddNode(multi.Node(id))
			}
			for i := 0; i < s.n; i++ {
				for j := 0; j < s.n; j++ {
					if s.has(i, j) {
						g.SetLine(g.NewLine(multi.Node(ids[i]), multi.Node(ids[j])))
						if doubled(i, j, idKind) {
							g.SetLine(g.NewLine(multi.Node(ids[i]), multi.Node(ids[j])))
						}
					}
				}
			}
			b.g = g
		} else {
			g := multi.NewUndirectedGraph()
			for _, id := range ids {
				g.AddNode(multi.Node(id))
			}
			for i := 0; i < s.n; i++ {
				for j := i + 1; j < s.n; j++ {
					if s.has(i, j) {
						g.SetLine(g.NewLine(multi.Node(ids[i]), multi.Node(ids[j])))
						if doubled(i, j, idKind) {
							g.SetLine(g.NewLine(multi.Node(ids[j]), multi.Node(ids[i])))
						}
					}
				}
			}
			b.g = g
		}
	}
	return b
}

// chk collects failures of one (case, id map, variant) evaluation.
type chk struct {
	t    *vlib.T
	ctx  string
	msgs []string
	cls  string
}

func (c *chk) failf(format string, a ...any) {
	if len(c.msgs) < 6 {
		c.msgs = append(c.msgs, c.ctx+": "+fmt.Sprintf(format, a...))
	}
}

// failClass records a failure tagged with a known-finding class.
func (c *chk) failClass(class, format string, a ...any) {
	if c.cls == "" {
		c.cls = class
	}
	c.failf(format, a...)
}

func (c *chk) failed() bool { return len(c.msgs) > 0 }

// sticky remembers observed failures. gonum's graph types and several of the
// algorithms under test iterate over Go maps, so the same call can take a
// different (equally legal) path on every execution. A violation that was
// really observed stays reported when the runtime re-executes the case to
// confirm it, instead of turning into a "non-reproducing failure" engine
// error. It never creates a failure that was not observed. See NOTES.md.
var sticky = map[string]*chk{}

// run evaluates f for one id map/variant and forwards failures to t.
func run(t *vlib.T, group, key string, idKind, variant int, f func(c *chk)) bool {
	return runCtx(t, group, key, idMapNames[idKind]+"/"+variantNames[variant], variantRaw(variant), f)
}

// runSticky is run for checks whose execution inside gonum is not
// deterministic on any graph type (map iteration inside the algorithm).
func runSticky(t *vlib.T, group, key string, idKind, variant int, f func(c *chk)) bool {
	return runCtx(t, group, key, idMapNames[idKind]+"/"+variantNames[variant], true, f)
}

func runCtx(t *vlib.T, group, key, ctx string, raw bool, f func(c *chk)) bool {
	// gonum's algorithms iterate over Go maps internally (set.Ints, set.Nodes,
	// adjacency maps), so even on the harness's ordered graph type a run is not
	// bit-for-bit repeatable. Every failure is therefore remembered (see the
	// comment on sticky); raw is kept for documentation of the call sites.
	_ = raw
	c := &chk{t: t, ctx: ctx}
	sk := group + "|" + key + "|" + ctx
	if old, ok := sticky[sk]; ok {
		c = old
	} else {
		for a := 0; a < attempts && !c.failed(); a++ {
			f(c)
		}
		if c.failed() {
			sticky[sk] = c
		}
	}
	for _, m := range c.msgs {
		if c.cls != "" {
			t.FailClass(c.cls, "%s", m)
		} else {
			t.Failf("%s", m)
		}
	}
	return !c.failed()
}

// attempts is 1 in a normal run; a replay of a single case repeats every
// check so that an iteration-order dependent failure is found again.
var attempts = func() int {
	if os.Getenv("VERIF_REPLAY_KEY") != "" {
		return 30
	}
	return 1
}()

// catch runs f and converts a panic into a failure message.
func catch(c *chk, what string, f func()) (ok bool) {
	defer func() {
		if e := recover(); e != nil {
			c.failf("%s panicked: %v", what, e)
			ok = false
		}
	}()
	f()
	return true
}

func maskStr(m uint8) string {
	var b strings.Builder
	b.WriteByte('{')
	first := true
	for i := 0; i < 8; i++ {
		if m>>uint(i)&1 != 0 {
			if !first {
				b.WriteByte(',')
			}
			first = false
			fmt.Fprintf(&b, "%d", i)
		}
	}
	b.WriteByte('}')
	return b.String()
}
