package main

import (
	"fmt"
	"runtime"
	"sort"
	"strings"

	"gonum.org/v1/gonum/graph"
	"gonum.org/v1/gonum/graph/flow"
)

// Classes of the flow.Intervals findings (see NOTES.md).
const (
	clsTwoIntervals = "intervals-node-in-two-intervals"
	clsHeaderLost   = "intervals-header-lost"
	clsGraphEdges   = "intervals-graph-edge-overwritten"
)

// checkDomTree compares a DominatorTree with the definitional immediate dominators.
func checkDomTree(c *chk, what string, b *built, root int, dt flow.DominatorTree, idom [maxN]int, reach uint8) {
	s := b.s
	if dt.Root() == nil || dt.Root().ID() != b.ids[root] {
		c.failf("%s root=%d: Root()=%v", what, root, dt.Root())
		return
	}
	for v := 0; v < s.n; v++ {
		d := dt.DominatorOf(b.ids[v])
		got := -1
		if d != nil {
			got = b.ix(d.ID())
			if got < 0 {
				c.failf("%s root=%d: DominatorOf(%d) is an unknown node %d", what, root, v, d.ID())
				return
			}
		}
		if got != idom[v] {
			c.failf("%s root=%d: DominatorOf(%d)=%d want %d (reachable %s)", what, root, v, got, idom[v], maskStr(reach))
			return
		}
		var want uint8
		for w := 0; w < s.n; w++ {
			if idom[w] == v {
				want |= 1 << uint(w)
			}
		}
		m, ok := b.maskOf(dt.DominatedBy(b.ids[v]))
		if !ok || m != want {
			c.failf("%s root=%d: DominatedBy(%d)=%v want %s", what, root, v, b.indices(dt.DominatedBy(b.ids[v])), maskStr(want))
			return
		}
	}
}

// dominators checks both dominator algorithms for every root.
func dominators(c *chk, b *built, roots []int, idoms [][maxN]int, reach []uint8) {
	g := b.g.(graph.Directed)
	for k, r := range roots {
		checkDomTree(c, "Dominators", b, r, flow.Dominators(b.node(r), g), idoms[k], reach[k])
		checkDomTree(c, "DominatorsSLT", b, r, flow.DominatorsSLT(b.node(r), g), idoms[k], reach[k])
	}
}

// intervals checks flow.Intervals for entry e; every node must be reachable
// from e (flow graph precondition).
func intervals(c *chk, b *built, e int, heads []int, members []uint8, idom [maxN]int) {
	g := b.g.(graph.Directed)
	s := b.s
	defer func() {
		if r := recover(); r != nil {
			msg := fmt.Sprint(r)
			if re, ok := r.(runtime.Error); ok {
				msg = re.Error()
			}
			if strings.Contains(msg, "nil pointer") {
				// a header was never processed: node2interval has no entry for an edge target.
				c.failClass(clsHeaderLost, "Intervals entry=%d panicked: %s", e, msg)
			} else {
				c.failf("Intervals entry=%d panicked: %s", e, msg)
			}
		}
	}()
	func() {
		ig := flow.Intervals(g, b.ids[e])
		if ig.Head() == nil || ig.Head().ID() != b.ids[e] {
			c.failf("Intervals entry=%d: Head()=%v", e, ig.Head())
			return
		}
		wantByHead := map[int]uint8{}
		for k, h := range heads {
			wantByHead[h] = members[k]
		}
		// first pass: the intervals must partition the nodes. It comes first
		// (and in ID order) so that the classification of a failure does not
		// depend on the iteration order of the Intervals map.
		ids := make([]int64, 0, len(ig.Intervals))
		for id := range ig.Intervals {
			ids = append(ids, id)
		}
		sort.Slice(ids, func(i, j int) bool { return ids[i] < ids[j] })
		var seen uint8
		masks := map[int64]uint8{}
		for _, id := range ids {
			iv := ig.Intervals[id]
			if iv.ID() != id {
				c.failf("Intervals entry=%d: Intervals[%d].ID()=%d", e, id, iv.ID())
				return
			}
			m, okm := b.maskOf(graph.NodesOf(iv.Nodes()))
			if !okm || m == 0 {
				c.failf("Intervals entry=%d: interval %d has unknown/repeated/no nodes", e, id)
				return
			}
			if seen&m != 0 {
				c.failClass(clsTwoIntervals, "Intervals entry=%d: node in two intervals (%s again)", e, maskStr(seen&m))
				return
			}
			seen |= m
			masks[id] = m
		}
		if seen != s.all() {
			c.failClass(clsHeaderLost, "Intervals entry=%d: nodes %s are in no interval", e, maskStr(s.all()&^seen))
			return
		}
		// second pass: interval laws and equality with the definition.
		ivOf := map[int]int64{} // node index -> interval id
		for _, id := range ids {
			iv := ig.Intervals[id]
			m := masks[id]
			h := -1
			if iv.Head() != nil {
				h = b.ix(iv.Head().ID())
			}
			if h < 0 || m>>uint(h)&1 == 0 {
				c.failf("Intervals entry=%d: interval %d head %d not in its interval %s", e, id, h, maskStr(m))
				return
			}
			for v := 0; v < s.n; v++ {
				if m>>uint(v)&1 == 0 {
					continue
				}
				ivOf[v] = id
				// single entry: all predecessors of non-head members are inside.
				if v != h && s.pred(v)&^m != 0 {
					c.failf("Intervals entry=%d: interval %s (head %d) entered at non-head %d", e, maskStr(m), h, v)
					return
				}
				// the head dominates every member.
				if v != h {
					d := v
					for d >= 0 && d != h {
						d = idom[d]
					}
					if d != h {
						c.failf("Intervals entry=%d: head %d does not dominate member %d", e, h, v)
						return
					}
				}
			}
			if want, okw := wantByHead[h]; !okw || want != m {
				c.failf("Intervals entry=%d: interval head=%d nodes=%s; definition gives %v / %v", e, h, maskStr(m), heads, members)
				return
			}
			// internal structure: the induced subgraph.
			for u := 0; u < s.n; u++ {
				var want uint8
				if m>>uint(u)&1 != 0 {
					want = s.adj[u] & m
				}
				gm, okg := b.maskOf(graph.NodesOf(iv.From(b.ids[u])))
				if !okg || gm != want {
					c.failf("Intervals entry=%d: interval %s From(%d)=%s want %s", e, maskStr(m), u, maskStr(gm), maskStr(want))
					return
				}
				var wantTo uint8
				if m>>uint(u)&1 != 0 {
					wantTo = s.pred(u) & m
				}
				gm, okg = b.maskOf(graph.NodesOf(iv.To(b.ids[u])))
				if !okg || gm != wantTo {
					c.failf("Intervals entry=%d: interval %s To(%d)=%s want %s", e, maskStr(m), u, maskStr(gm), maskStr(wantTo))
					return
				}
			}
		}
		if len(ig.Intervals) != len(heads) {
			c.failf("Intervals entry=%d: %d intervals, definition gives %d (heads %v)", e, len(ig.Intervals), len(heads), heads)
			return
		}
		// edges between intervals.
		want := map[[2]int64]bool{}
		for u := 0; u < s.n; u++ {
			for v := 0; v < s.n; v++ {
				if s.has(u, v) && ivOf[u] != ivOf[v] {
					want[[2]int64{ivOf[u], ivOf[v]}] = true
				}
			}
		}
		for _, a := range ids {
			for _, bb := range ids {
				if a == bb {
					continue
				}
				w := want[[2]int64{a, bb}]
				if got := ig.HasEdgeFromTo(a, bb); got != w {
					c.failClass(clsGraphEdges, "Intervals entry=%d: IntervalGraph.HasEdgeFromTo(%d,%d)=%v want %v", e, a, bb, got, w)
					return
				}
				if got := ig.Edge(a, bb) != nil; got != w {
					c.failClass(clsGraphEdges, "Intervals entry=%d: IntervalGraph.Edge(%d,%d)!=nil is %v want %v", e, a, bb, got, w)
					return
				}
			}
			wantFrom, wantTo := map[int64]bool{}, map[int64]bool{}
			for k := range want {
				if k[0] == a {
					wantFrom[k[1]] = true
				}
				if k[1] == a {
					wantTo[k[0]] = true
				}
			}
			if !sameIDSet(graph.NodesOf(ig.From(a)), wantFrom) {
				c.failClass(clsGraphEdges, "Intervals entry=%d: IntervalGraph.From(%d)=%v want %v", e, a, idSeq(graph.NodesOf(ig.From(a))), wantFrom)
				return
			}
			if !sameIDSet(graph.NodesOf(ig.To(a)), wantTo) {
				c.failClass(clsGraphEdges, "Intervals entry=%d: IntervalGraph.To(%d)=%v want %v", e, a, idSeq(graph.NodesOf(ig.To(a))), wantTo)
				return
			}
		}
		if n := ig.Nodes().Len(); n != len(ig.Intervals) {
			c.failf("Intervals entry=%d: IntervalGraph.Nodes().Len()=%d for %d intervals", e, n, len(ig.Intervals))
		}
	}()
}

func sameIDSet(nodes []graph.Node, want map[int64]bool) bool {
	if len(nodes) != len(want) {
		return false
	}
	seen := map[int64]bool{}
	for _, n := range nodes {
		if n == nil || !want[n.ID()] || seen[n.ID()] {
			return false
		}
		seen[n.ID()] = true
	}
	return true
}
