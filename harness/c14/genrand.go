package main

import (
	"fmt"
	"math"
	"math/rand/v2"

	"gonum.org/v1/gonum/graph"
	"gonum.org/v1/gonum/graph/graphs/gen"
	"gonum.org/v1/gonum/graph/multi"
	"gonum.org/v1/gonum/graph/simple"
	"gonum.org/v1/gonum/internal/verif/vlib"
)

const nSources = 3

// clsNSWLocal: gen.NavigableSmallWorld builds a wrong local lattice (see NOTES.md).
const clsNSWLocal = "navigablesmallworld-local-lattice"

// newSource returns the k-th deterministic random source.
func newSource(k int, salt uint64) rand.Source {
	switch k {
	case 0:
		return rand.NewPCG(1+salt, 2)
	case 1:
		return &splitmix{x: salt * 0x1234567}
	default:
		return rand.NewPCG(0xdeadbeef, salt)
	}
}

// recUndirected / recDirected record SetEdge calls on a simple graph.
type recUndirected struct {
	*simple.UndirectedGraph
	sets, selfLoops int
}

func (r *recUndirected) SetEdge(e graph.Edge) {
	r.sets++
	if e.From().ID() == e.To().ID() {
		r.selfLoops++
		return
	}
	r.UndirectedGraph.SetEdge(e)
}

type recDirected struct {
	*simple.DirectedGraph
	sets, selfLoops int
}

func (r *recDirected) SetEdge(e graph.Edge) {
	r.sets++
	if e.From().ID() == e.To().ID() {
		r.selfLoops++
		return
	}
	r.DirectedGraph.SetEdge(e)
}

type simpleDst interface {
	gen.GraphBuilder
	graph.Graph
}

func newRec(directed bool) (simpleDst, func() (selfLoops int)) {
	if directed {
		r := &recDirected{DirectedGraph: simple.NewDirectedGraph()}
		return r, func() int { return r.selfLoops }
	}
	r := &recUndirected{UndirectedGraph: simple.NewUndirectedGraph()}
	return r, func() int { return r.selfLoops }
}

// countEdges returns the node count and the number of edges (arcs for a
// directed graph, unordered pairs otherwise).
func countEdges(g graph.Graph, directed bool) (n, m int) {
	nodes := graph.NodesOf(g.Nodes())
	for _, u := range nodes {
		m += g.From(u.ID()).Len()
	}
	if !directed {
		m /= 2
	}
	return len(nodes), m
}

func connectedGraph(g graph.Graph) bool {
	nodes := graph.NodesOf(g.Nodes())
	if len(nodes) == 0 {
		return true
	}
	seen := map[int64]bool{nodes[0].ID(): true}
	for changed := true; changed; {
		changed = false
		for _, u := range nodes {
			if !seen[u.ID()] {
				continue
			}
			for _, v := range graph.NodesOf(g.From(u.ID())) {
				if !seen[v.ID()] {
					seen[v.ID()] = true
					changed = true
				}
			}
		}
	}
	return len(seen) == len(nodes)
}

// recMulti records SetLine calls.
type recMultiU struct {
	*multi.UndirectedGraph
	lines [][2]int64
}

func (r *recMultiU) SetLine(l graph.Line) {
	r.lines = append(r.lines, [2]int64{l.From().ID(), l.To().ID()})
	r.UndirectedGraph.SetLine(l)
}

type recMultiD struct {
	*multi.DirectedGraph
	lines [][2]int64
}

func (r *recMultiD) SetLine(l graph.Line) {
	r.lines = append(r.lines, [2]int64{l.From().ID(), l.To().ID()})
	r.DirectedGraph.SetLine(l)
}

type multiDst interface {
	graph.MultigraphBuilder
	Nodes() graph.Nodes
	Node(int64) graph.Node
}

func genGenRand(g *vlib.G) {
	for _, directed := range []bool{false, true} {
		directed := directed
		for src := 0; src < nSources; src++ {
			src := src
			tag := fmt.Sprintf("dir=%v src=%d", directed, src)

			// Gnp
			for n := 0; n <= 8; n++ {
				for _, p := range []float64{0, 0.25, 0.5, 0.75, 1, -0.1, 1.5} {
					n, p := n, p
					g.Case(fmt.Sprintf("Gnp %s n=%d p=%v", tag, n, p), func(t *vlib.T) {
						dst, self := newRec(directed)
						err := gen.Gnp(dst, n, p, newSource(src, uint64(n)))
						if p < 0 || p > 1 {
							if err == nil {
								t.Failf("Gnp: no error for p=%v", p)
							}
							t.Outcome("Gnp error")
							return
						}
						if err != nil {
							t.Failf("Gnp: unexpected error %v", err)
							return
						}
						nn, m := countEdges(dst, directed)
						maxM := n * (n - 1) / 2
						if directed {
							maxM *= 2
						}
						if nn != n || self() != 0 || m > maxM {
							t.Failf("Gnp: %d nodes (want %d), %d edges (max %d), %d self-loops", nn, n, m, maxM, self())
						}
						if p == 0 && m != 0 {
							t.Failf("Gnp p=0: %d edges", m)
						}
						if p == 1 && m != maxM {
							t.Failf("Gnp p=1: %d edges, complete graph has %d", m, maxM)
						}
						if n >= 2 {
							t.Nontrivial()
						}
						t.Outcome(fmt.Sprintf("Gnp p=%v", p))
					})
				}
			}

			// Gnm
			for n := 0; n <= 7; n++ {
				nC2 := n * (n - 1) / 2
				maxM := nC2
				if directed {
					maxM *= 2
				}
				for m := -1; m <= maxM+2; m++ {
					if directed && m > 0 && m%2 == 1 && m <= maxM {
						continue // odd sizes for directed graphs: see group "findings"
					}
					if directed && m < 0 {
						continue // halved to 0 before validation; negative sizes are out of domain: don't care
					}
					n, m := n, m
					g.Case(fmt.Sprintf("Gnm %s n=%d m=%d", tag, n, m), func(t *vlib.T) {
						dst, self := newRec(directed)
						err := gen.Gnm(dst, n, m, newSource(src, uint64(n*100+m+1)))
						bad := m < 0 || m > maxM
						if directed && m == maxM+1 {
							// m is halved for directed graphs before validation; m = max+1
							// is rounded down to the complete graph (undocumented): don't care.
							t.Outcome("Gnm max+1 directed")
							return
						}
						if bad {
							if err == nil {
								t.Failf("Gnm: no error for m=%d (max %d)", m, maxM)
							}
							t.Outcome("Gnm error")
							return
						}
						if err != nil {
							t.Failf("Gnm: unexpected error %v", err)
							return
						}
						nn, mm := countEdges(dst, directed)
						if nn != n || mm != m || self() != 0 {
							t.Failf("Gnm: %d nodes (want %d), %d edges (want %d), %d self-loops", nn, n, mm, m, self())
						}
						if m >= 1 {
							t.Nontrivial()
						}
						t.Outcome("Gnm")
					})
				}
			}

			// SmallWorldsBB
			for n := 1; n <= 9; n++ {
				for d := 0; d <= (n-1)/2+1; d++ {
					for _, p := range []float64{0.1, 0.5, 0.9, -0.5, 1} {
						n, d, p := n, d, p
						g.Case(fmt.Sprintf("SmallWorldsBB %s n=%d d=%d p=%v", tag, n, d, p), func(t *vlib.T) {
							dst, self := newRec(directed)
							err := gen.SmallWorldsBB(dst, n, d, p, newSource(src, uint64(n*10+d)))
							if d < 1 || d > (n-1)/2 || p < 0 || p >= 1 {
								if err == nil {
									t.Failf("SmallWorldsBB: no error for d=%d p=%v", d, p)
								}
								t.Outcome("SmallWorldsBB error")
								return
							}
							if err != nil {
								t.Failf("SmallWorldsBB: unexpected error %v", err)
								return
							}
							nn, m := countEdges(dst, directed)
							maxM := n * d
							if directed {
								maxM *= 2
							}
							if nn != n || self() != 0 || m > maxM {
								t.Failf("SmallWorldsBB: %d nodes (want %d), %d edges (at most %d), %d self-loops", nn, n, m, maxM, self())
							}
							t.Nontrivial()
							t.Outcome("SmallWorldsBB")
						})
					}
				}
			}

			// PowerLaw and BipartitePowerLaw
			for n := 0; n <= 6; n++ {
				for d := 0; d <= 3; d++ {
					n, d := n, d
					g.Case(fmt.Sprintf("PowerLaw %s n=%d d=%d", tag, n, d), func(t *vlib.T) {
						var dst multiDst
						var lines *[][2]int64
						if directed {
							r := &recMultiD{DirectedGraph: multi.NewDirectedGraph()}
							dst, lines = r, &r.lines
						} else {
							r := &recMultiU{UndirectedGraph: multi.NewUndirectedGraph()}
							dst, lines = r, &r.lines
						}
						err := gen.PowerLaw(dst, n, d, newSource(src, uint64(n*10+d)))
						if d < 1 {
							if err == nil {
								t.Failf("PowerLaw: no error for d=%d", d)
							}
							t.Outcome("PowerLaw error")
							return
						}
						if err != nil {
							t.Failf("PowerLaw: unexpected error %v", err)
							return
						}
						if nn := dst.Nodes().Len(); nn != n || len(*lines) != n*d {
							t.Failf("PowerLaw: %d nodes (want %d), %d lines (want n*d=%d)", nn, n, len(*lines), n*d)
							return
						}
						deg := map[int64]int{}
						for _, l := range *lines {
							if dst.Node(l[0]) == nil || dst.Node(l[1]) == nil {
								t.Failf("PowerLaw: line between unknown nodes %v", l)
								return
							}
							deg[l[0]]++
							deg[l[1]]++
						}
						for _, u := range graph.NodesOf(dst.Nodes()) {
							if deg[u.ID()] < d {
								t.Failf("PowerLaw: node %d has degree %d below the minimum %d", u.ID(), deg[u.ID()], d)
								return
							}
						}
						if n >= 2 {
							t.Nontrivial()
						}
						t.Outcome("PowerLaw")
					})
					g.Case(fmt.Sprintf("BipartitePowerLaw %s n=%d d=%d", tag, n, d), func(t *vlib.T) {
						var dst multiDst
						var lines *[][2]int64
						if directed {
							r := &recMultiD{DirectedGraph: multi.NewDirectedGraph()}
							dst, lines = r, &r.lines
						} else {
							r := &recMultiU{UndirectedGraph: multi.NewUndirectedGraph()}
							dst, lines = r, &r.lines
						}
						p1, p2, err := gen.BipartitePowerLaw(dst, n, d, newSource(src, uint64(n*10+d)))
						if d < 1 {
							if err == nil {
								t.Failf("BipartitePowerLaw: no error for d=%d", d)
							}
							t.Outcome("BipartitePowerLaw error")
							return
						}
						if err != nil {
							t.Failf("BipartitePowerLaw: unexpected error %v", err)
							return
						}
						side := map[int64]int{}
						for _, u := range p1 {
							side[u.ID()] = 1
						}
						for _, u := range p2 {
							if side[u.ID()] != 0 {
								t.Failf("BipartitePowerLaw: node %d in both partitions", u.ID())
								return
							}
							side[u.ID()] = 2
						}
						if nn := dst.Nodes().Len(); nn != 2*n || len(p1) != n || len(p2) != n || len(side) != 2*n || len(*lines) != 2*n*d {
							t.Failf("BipartitePowerLaw: %d nodes (want %d), partitions %d/%d, %d lines (want 2nd=%d)", nn, 2*n, len(p1), len(p2), len(*lines), 2*n*d)
							return
						}
						for _, l := range *lines {
							if side[l[0]] == 0 || side[l[1]] == 0 || side[l[0]] == side[l[1]] {
								t.Failf("BipartitePowerLaw: line %v does not join the two partitions", l)
								return
							}
						}
						if n >= 2 {
							t.Nontrivial()
						}
						t.Outcome("BipartitePowerLaw")
					})
				}
			}

			// NavigableSmallWorld
			for di, dims := range [][]int{{4}, {2, 3}, {3, 3}, {1}, {2, 2, 2}} {
				for p := 0; p <= 2; p++ {
					for q := -1; q <= 2; q++ {
						for _, r := range []float64{0, 2, -1} {
							dims, p, q, r := dims, p, q, r
							g.Case(fmt.Sprintf("NavigableSmallWorld %s dims=%d p=%d q=%d r=%v", tag, di, p, q, r), func(t *vlib.T) {
								dst, self := newRec(directed)
								err := gen.NavigableSmallWorld(dst, dims, p, q, r, newSource(src, uint64(di*100+p*10+q+1)))
								if p < 1 || q < 0 || r < 0 {
									if err == nil {
										t.Failf("NavigableSmallWorld: no error for p=%d q=%d r=%v", p, q, r)
									}
									t.Outcome("NavigableSmallWorld error")
									return
								}
								if err != nil {
									// fewer than q distant nodes: documented only through the error text.
									t.Outcome("NavigableSmallWorld depleted")
									return
								}
								n := 1
								for _, d := range dims {
									n *= d
								}
								nodes := graph.NodesOf(dst.Nodes())
								if len(nodes) != n || self() != 0 {
									t.Failf("NavigableSmallWorld: %d nodes (want %d), %d self-loops", len(nodes), n, self())
									return
								}
								// node k (k-th NewNode) has grid coordinates k = sum c[i]*stride[i].
								coord := func(k int) []int {
									c := make([]int, len(dims))
									for i, d := range dims {
										c[i] = k % d
										k /= d
									}
									return c
								}
								local := 0
								for a := 0; a < n; a++ {
									for bb := 0; bb < n; bb++ {
										if a == bb {
											continue
										}
										ca, cb := coord(a), coord(bb)
										dist := 0
										for i := range ca {
											dist += int(math.Abs(float64(ca[i] - cb[i])))
										}
										has := dst.Edge(int64(a), int64(bb)) != nil
										if dist <= p {
											local++
											if !has {
												t.FailClass(clsNSWLocal, "NavigableSmallWorld: local pair %v-%v (distance %d) not joined", ca, cb, dist)
												return
											}
										} else if q == 0 && has {
											t.FailClass(clsNSWLocal, "NavigableSmallWorld: q=0 but distant pair %v-%v joined", ca, cb)
											return
										}
									}
								}
								_, m := countEdges(dst, directed)
								lm := local
								if !directed {
									lm /= 2
								}
								if m > lm+n*q {
									t.FailClass(clsNSWLocal, "NavigableSmallWorld: %d edges exceed local %d + n*q %d", m, lm, n*q)
								}
								t.Nontrivial()
								t.Outcome(fmt.Sprintf("NavigableSmallWorld q=%d", q))
							})
						}
					}
				}
			}
		}

		if directed {
			continue
		}
		// Undirected-only generators.
		for src := 0; src < nSources; src++ {
			src := src
			for n := 1; n <= 8; n++ {
				for _, delta := range []float64{0, 0.5, 1, -0.1} {
					for _, alpha := range []float64{0.2, 1, 0} {
						for _, sigma := range []float64{0, 0.5, 1, math.NaN(), 2} {
							n, delta, alpha, sigma := n, delta, alpha, sigma
							g.Case(fmt.Sprintf("Duplication src=%d n=%d delta=%v alpha=%v sigma=%v", src, n, delta, alpha, sigma), func(t *vlib.T) {
								dst := simple.NewUndirectedGraph()
								err := gen.Duplication(dst, n, delta, alpha, sigma, newSource(src, uint64(n)))
								if delta < 0 || delta > 1 || alpha <= 0 || alpha > 1 || sigma < 0 || sigma > 1 {
									if err == nil {
										t.Failf("Duplication: no error for delta=%v alpha=%v sigma=%v", delta, alpha, sigma)
									}
									t.Outcome("Duplication error")
									return
								}
								if err != nil {
									t.Failf("Duplication: unexpected error %v", err)
									return
								}
								nn, _ := countEdges(dst, false)
								if nn != n {
									t.Failf("Duplication: %d nodes want %d", nn, n)
								}
								if !connectedGraph(dst) {
									t.Failf("Duplication: result is not connected")
								}
								if n >= 3 {
									t.Nontrivial()
								}
								t.Outcome("Duplication")
							})
						}
					}
				}
			}
			for n := 1; n <= 8; n++ {
				for m := 1; m <= n; m++ {
					n, m := n, m
					for _, p := range []float64{0, 0.5, 1, -0.5, 1.5} {
						p := p
						g.Case(fmt.Sprintf("TunableClusteringScaleFree src=%d n=%d m=%d p=%v", src, n, m, p), func(t *vlib.T) {
							dst := &recUndirected{UndirectedGraph: simple.NewUndirectedGraph()}
							err := gen.TunableClusteringScaleFree(dst, n, m, p, newSource(src, uint64(n*10+m)))
							if p < 0 || p > 1 || n <= m {
								if err == nil {
									t.Failf("TunableClusteringScaleFree: no error for n=%d m=%d p=%v", n, m, p)
								}
								t.Outcome("TCSF error")
								return
							}
							if err != nil {
								t.Outcome("TCSF depleted")
								return
							}
							nn, mm := countEdges(dst, false)
							if nn != n || mm != m*(n-m) || dst.selfLoops != 0 || dst.sets != mm {
								t.Failf("TunableClusteringScaleFree: %d nodes (want %d), %d edges from %d SetEdge calls (want m(n-m)=%d), %d self-loops", nn, n, mm, dst.sets, m*(n-m), dst.selfLoops)
							}
							t.Nontrivial()
							t.Outcome("TCSF")
						})
					}
					g.Case(fmt.Sprintf("PreferentialAttachment src=%d n=%d m=%d", src, n, m), func(t *vlib.T) {
						dst := &recUndirected{UndirectedGraph: simple.NewUndirectedGraph()}
						err := gen.PreferentialAttachment(dst, n, m, newSource(src, uint64(n*10+m)))
						if n <= m {
							if err == nil {
								t.Failf("PreferentialAttachment: no error for n=%d m=%d", n, m)
							}
							t.Outcome("PA error")
							return
						}
						if err != nil {
							t.Outcome("PA depleted")
							return
						}
						nn, mm := countEdges(dst, false)
						if nn != n || mm != m*(n-m) || dst.selfLoops != 0 || dst.sets != mm {
							t.Failf("PreferentialAttachment: %d nodes (want %d), %d edges from %d SetEdge calls (want m(n-m)=%d), %d self-loops", nn, n, mm, dst.sets, m*(n-m), dst.selfLoops)
						}
						t.Nontrivial()
						t.Outcome("PA")
					})
				}
			}
		}
	}
}
