#!/bin/sh
# Builds the /verif driver and pre-builds every worker (offline; stdlib only).
set -e
cd /verif
export GOFLAGS=-mod=mod GOPROXY=off GOSUMDB=off GOTOOLCHAIN=local
mkdir -p bin evidence .work
go build -o bin/verif ./cmd/verif
./bin/verif prebuild
