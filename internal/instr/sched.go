package instr

import "fmt"

func rewriteSched(rel string, src []byte) ([]byte, error) {
	return nil, fmt.Errorf("sched mode not implemented yet")
}
