package instr

import (
	"bytes"
	"fmt"
	"go/ast"
	"go/parser"
	"go/printer"
	"go/token"
	"strconv"
	"strings"
)

const (
	vschedImport = "gonum.org/v1/gonum/internal/verif/vsched"
	vsyncImport  = "gonum.org/v1/gonum/internal/verif/vsync"
	vrtImport    = "gonum.org/v1/gonum/internal/verif/vrt"
	vrandImport  = "gonum.org/v1/gonum/internal/verif/vrand"
)

// ChanFields lists struct field names known to be channel typed in the
// packages being rewritten (collected in a first pass by CollectChanFields).
var chanFieldNames = map[string]bool{}

// rewriteSched rewrites channel types and operations, select, go statements,
// range-over-channel loops and the sync/runtime imports of one file.
func rewriteSched(rel string, src []byte) ([]byte, error) {
	fset := token.NewFileSet()
	f, err := parser.ParseFile(fset, rel, src, parser.ParseComments)
	if err != nil {
		return nil, err
	}
	r := &rw{fset: fset, file: f}
	r.collectChanFields()
	r.rewriteImports()
	r.file.Decls = r.decls(r.file.Decls)
	if r.err != nil {
		return nil, r.err
	}
	if r.usedSched {
		addImport(f, "vsched", vschedImport)
	}
	// comments are dropped: positions no longer match the rewritten tree.
	f.Comments = keepDirectives(f)
	var buf bytes.Buffer
	if err := (&printer.Config{Mode: printer.UseSpaces | printer.TabIndent, Tabwidth: 8}).Fprint(&buf, token.NewFileSet(), f); err != nil {
		return nil, err
	}
	out := buf.Bytes()
	// build constraints must survive (they precede the package clause).
	if hdr := buildHeader(src); hdr != "" && !bytes.Contains(out, []byte("//go:build")) {
		out = append([]byte(hdr+"\n"), out...)
	}
	return out, nil
}

func buildHeader(src []byte) string {
	var hdr []string
	for _, l := range strings.Split(string(src), "\n") {
		t := strings.TrimSpace(l)
		if strings.HasPrefix(t, "package ") {
			break
		}
		if strings.HasPrefix(t, "//go:build") || strings.HasPrefix(t, "// +build") {
			hdr = append(hdr, t)
		}
	}
	if len(hdr) == 0 {
		return ""
	}
	return strings.Join(hdr, "\n") + "\n"
}

func keepDirectives(f *ast.File) []*ast.CommentGroup { return nil }

type rw struct {
	fset      *token.FileSet
	file      *ast.File
	usedSched bool
	err       error
	tmp       int
}

func (r *rw) fail(n ast.Node, format string, a ...any) {
	if r.err == nil {
		r.err = fmt.Errorf("%s: %s", r.fset.Position(n.Pos()), fmt.Sprintf(format, a...))
	}
}

func (r *rw) fresh(prefix string) string {
	r.tmp++
	return fmt.Sprintf("_vs%s%d", prefix, r.tmp)
}

func sel(pkg, name string) ast.Expr {
	return &ast.SelectorExpr{X: ast.NewIdent(pkg), Sel: ast.NewIdent(name)}
}

func (r *rw) sched(name string) ast.Expr {
	r.usedSched = true
	return sel("vsched", name)
}

func addImport(f *ast.File, name, path string) {
	for _, im := range f.Imports {
		if p, _ := strconv.Unquote(im.Path.Value); p == path {
			return
		}
	}
	spec := &ast.ImportSpec{Name: ast.NewIdent(name), Path: &ast.BasicLit{Kind: token.STRING, Value: strconv.Quote(path)}}
	gd := &ast.GenDecl{Tok: token.IMPORT, Specs: []ast.Spec{spec}}
	f.Decls = append([]ast.Decl{gd}, f.Decls...)
	f.Imports = append(f.Imports, spec)
}

func (r *rw) rewriteImports() {
	for _, im := range r.file.Imports {
		p, _ := strconv.Unquote(im.Path.Value)
		var np, name string
		switch p {
		case "sync":
			np, name = vsyncImport, "sync"
		case "runtime":
			np, name = vrtImport, "runtime"
		case "math/rand/v2":
			if !enableVrand {
				continue
			}
			np, name = vrandImport, "rand"
		default:
			continue
		}
		if im.Name != nil {
			name = im.Name.Name
		}
		im.Path.Value = strconv.Quote(np)
		im.Name = ast.NewIdent(name)
	}
}

// enableVrand turns on the math/rand/v2 twin (set per Rewrite call).
var enableVrand = false

// collectChanFields records the names of channel-typed struct fields of this file.
func (r *rw) collectChanFields() {
	ast.Inspect(r.file, func(n ast.Node) bool {
		if st, ok := n.(*ast.StructType); ok {
			for _, fl := range st.Fields.List {
				if _, ok := fl.Type.(*ast.ChanType); ok {
					for _, nm := range fl.Names {
						chanFieldNames[nm.Name] = true
					}
				}
			}
		}
		return true
	})
}

// isChanExpr decides syntactically (via the parser's object resolution)
// whether e denotes a channel.
func (r *rw) isChanExpr(e ast.Expr) bool {
	switch e := e.(type) {
	case *ast.ParenExpr:
		return r.isChanExpr(e.X)
	case *ast.Ident:
		if e.Obj == nil {
			return false
		}
		switch d := e.Obj.Decl.(type) {
		case *ast.Field:
			return isChanType(d.Type)
		case *ast.ValueSpec:
			if d.Type != nil {
				return isChanType(d.Type)
			}
			for i, nm := range d.Names {
				if nm.Name == e.Name && i < len(d.Values) {
					return isMakeChan(d.Values[i])
				}
			}
		case *ast.AssignStmt:
			if len(d.Lhs) == len(d.Rhs) {
				for i, l := range d.Lhs {
					if id, ok := l.(*ast.Ident); ok && id.Name == e.Name {
						return isMakeChan(d.Rhs[i]) || r.isChanExpr(d.Rhs[i])
					}
				}
			}
		}
		return false
	case *ast.SelectorExpr:
		return chanFieldNames[e.Sel.Name]
	}
	return false
}

func isChanType(t ast.Expr) bool {
	switch t := t.(type) {
	case *ast.ChanType:
		return true
	case *ast.ParenExpr:
		return isChanType(t.X)
	case *ast.StarExpr:
		// already rewritten *vsched.Chan[T]
		if ix, ok := t.X.(*ast.IndexExpr); ok {
			if s, ok := ix.X.(*ast.SelectorExpr); ok {
				if id, ok := s.X.(*ast.Ident); ok && id.Name == "vsched" && s.Sel.Name == "Chan" {
					return true
				}
			}
		}
	}
	return false
}

func isMakeChan(e ast.Expr) bool {
	c, ok := e.(*ast.CallExpr)
	if !ok {
		return false
	}
	if id, ok := c.Fun.(*ast.Ident); ok && id.Name == "make" && len(c.Args) > 0 {
		return isChanType(c.Args[0])
	}
	// already rewritten vsched.MakeChan[T](n)
	if ix, ok := c.Fun.(*ast.IndexExpr); ok {
		if s, ok := ix.X.(*ast.SelectorExpr); ok && s.Sel.Name == "MakeChan" {
			return true
		}
	}
	return false
}

func (r *rw) decls(ds []ast.Decl) []ast.Decl {
	for _, d := range ds {
		switch d := d.(type) {
		case *ast.FuncDecl:
			if d.Recv != nil {
				r.fieldList(d.Recv)
			}
			r.funcType(d.Type)
			if d.Body != nil {
				d.Body = r.block(d.Body)
			}
		case *ast.GenDecl:
			r.genDecl(d)
		}
	}
	return ds
}

func (r *rw) genDecl(d *ast.GenDecl) {
	for _, s := range d.Specs {
		switch s := s.(type) {
		case *ast.ValueSpec:
			if s.Type != nil {
				s.Type = r.typ(s.Type)
			}
			for i := range s.Values {
				// v, ok := <-ch in a var declaration
				if len(s.Names) == 2 && len(s.Values) == 1 {
					if u, ok := s.Values[0].(*ast.UnaryExpr); ok && u.Op == token.ARROW {
						s.Values[0] = r.call(r.expr(u.X), "Recv2")
						continue
					}
				}
				s.Values[i] = r.expr(s.Values[i])
			}
		case *ast.TypeSpec:
			if s.TypeParams != nil {
				r.fieldList(s.TypeParams)
			}
			s.Type = r.typ(s.Type)
		}
	}
}

func (r *rw) fieldList(fl *ast.FieldList) {
	if fl == nil {
		return
	}
	for _, f := range fl.List {
		f.Type = r.typ(f.Type)
	}
}

func (r *rw) funcType(ft *ast.FuncType) {
	if ft == nil {
		return
	}
	r.fieldList(ft.TypeParams)
	r.fieldList(ft.Params)
	r.fieldList(ft.Results)
}

// typ rewrites a type expression.
func (r *rw) typ(t ast.Expr) ast.Expr {
	switch t := t.(type) {
	case nil:
		return nil
	case *ast.ChanType:
		return &ast.StarExpr{X: &ast.IndexExpr{X: r.sched("Chan"), Index: r.typ(t.Value)}}
	case *ast.StarExpr:
		t.X = r.typ(t.X)
	case *ast.ArrayType:
		if t.Len != nil {
			t.Len = r.expr(t.Len)
		}
		t.Elt = r.typ(t.Elt)
	case *ast.MapType:
		t.Key = r.typ(t.Key)
		t.Value = r.typ(t.Value)
	case *ast.FuncType:
		r.funcType(t)
	case *ast.StructType:
		r.fieldList(t.Fields)
	case *ast.InterfaceType:
		r.fieldList(t.Methods)
	case *ast.ParenExpr:
		t.X = r.typ(t.X)
	case *ast.Ellipsis:
		t.Elt = r.typ(t.Elt)
	case *ast.IndexExpr:
		t.X = r.typ(t.X)
		t.Index = r.typ(t.Index)
	case *ast.IndexListExpr:
		t.X = r.typ(t.X)
		for i := range t.Indices {
			t.Indices[i] = r.typ(t.Indices[i])
		}
	}
	return t
}

func (r *rw) call(recv ast.Expr, method string, args ...ast.Expr) ast.Expr {
	switch recv.(type) {
	case *ast.Ident, *ast.SelectorExpr, *ast.CallExpr, *ast.IndexExpr, *ast.ParenExpr:
	default:
		recv = &ast.ParenExpr{X: recv}
	}
	r.usedSched = true
	return &ast.CallExpr{Fun: &ast.SelectorExpr{X: recv, Sel: ast.NewIdent(method)}, Args: args}
}

// expr rewrites an expression (which may contain types, e.g. in conversions,
// composite literals and function literals).
func (r *rw) expr(e ast.Expr) ast.Expr {
	switch e := e.(type) {
	case nil:
		return nil
	case *ast.UnaryExpr:
		if e.Op == token.ARROW {
			return r.call(r.expr(e.X), "Recv")
		}
		e.X = r.expr(e.X)
	case *ast.BinaryExpr:
		e.X = r.expr(e.X)
		e.Y = r.expr(e.Y)
	case *ast.CallExpr:
		if id, ok := e.Fun.(*ast.Ident); ok && id.Obj == nil {
			switch id.Name {
			case "make":
				if len(e.Args) > 0 {
					if ct, ok := e.Args[0].(*ast.ChanType); ok {
						var n ast.Expr = &ast.BasicLit{Kind: token.INT, Value: "0"}
						if len(e.Args) > 1 {
							n = r.expr(e.Args[1])
						}
						return &ast.CallExpr{Fun: &ast.IndexExpr{X: r.sched("MakeChan"), Index: r.typ(ct.Value)}, Args: []ast.Expr{n}}
					}
					e.Args[0] = r.typ(e.Args[0])
					for i := 1; i < len(e.Args); i++ {
						e.Args[i] = r.expr(e.Args[i])
					}
					return e
				}
			case "new":
				if len(e.Args) == 1 {
					e.Args[0] = r.typ(e.Args[0])
					return e
				}
			case "close":
				if len(e.Args) == 1 {
					return r.call(r.expr(e.Args[0]), "Close")
				}
			case "len", "cap":
				if len(e.Args) == 1 && r.isChanExpr(e.Args[0]) {
					m := "Len"
					if id.Name == "cap" {
						m = "Cap"
					}
					return r.call(r.expr(e.Args[0]), m)
				}
			}
		}
		e.Fun = r.expr(e.Fun)
		for i := range e.Args {
			e.Args[i] = r.expr(e.Args[i])
		}
	case *ast.ParenExpr:
		e.X = r.expr(e.X)
	case *ast.SelectorExpr:
		e.X = r.expr(e.X)
	case *ast.IndexExpr:
		e.X = r.expr(e.X)
		e.Index = r.expr(e.Index)
	case *ast.IndexListExpr:
		e.X = r.expr(e.X)
		for i := range e.Indices {
			e.Indices[i] = r.expr(e.Indices[i])
		}
	case *ast.SliceExpr:
		e.X = r.expr(e.X)
		e.Low, e.High, e.Max = r.expr(e.Low), r.expr(e.High), r.expr(e.Max)
	case *ast.StarExpr:
		e.X = r.expr(e.X)
	case *ast.TypeAssertExpr:
		e.X = r.expr(e.X)
		e.Type = r.typ(e.Type)
	case *ast.KeyValueExpr:
		e.Key = r.expr(e.Key)
		e.Value = r.expr(e.Value)
	case *ast.CompositeLit:
		e.Type = r.typ(e.Type)
		for i := range e.Elts {
			e.Elts[i] = r.expr(e.Elts[i])
		}
	case *ast.FuncLit:
		r.funcType(e.Type)
		e.Body = r.block(e.Body)
	case *ast.ChanType, *ast.ArrayType, *ast.MapType, *ast.FuncType, *ast.StructType, *ast.InterfaceType, *ast.Ellipsis:
		return r.typ(e)
	}
	return e
}

func (r *rw) exprs(es []ast.Expr) {
	for i := range es {
		es[i] = r.expr(es[i])
	}
}

func (r *rw) block(b *ast.BlockStmt) *ast.BlockStmt {
	if b == nil {
		return nil
	}
	b.List = r.stmts(b.List)
	return b
}

func (r *rw) stmts(ss []ast.Stmt) []ast.Stmt {
	for i := range ss {
		ss[i] = r.stmt(ss[i])
	}
	return ss
}

func (r *rw) stmt(s ast.Stmt) ast.Stmt {
	switch s := s.(type) {
	case nil:
		return nil
	case *ast.SendStmt:
		return &ast.ExprStmt{X: r.call(r.expr(s.Chan), "Send", r.expr(s.Value))}
	case *ast.ExprStmt:
		s.X = r.expr(s.X)
	case *ast.AssignStmt:
		if len(s.Lhs) == 2 && len(s.Rhs) == 1 {
			if u, ok := s.Rhs[0].(*ast.UnaryExpr); ok && u.Op == token.ARROW {
				r.exprs(s.Lhs)
				s.Rhs[0] = r.call(r.expr(u.X), "Recv2")
				return s
			}
		}
		r.exprs(s.Lhs)
		r.exprs(s.Rhs)
	case *ast.DeclStmt:
		if gd, ok := s.Decl.(*ast.GenDecl); ok {
			r.genDecl(gd)
		}
	case *ast.GoStmt:
		return r.goStmt(s)
	case *ast.DeferStmt:
		s.Call = r.expr(s.Call).(*ast.CallExpr)
	case *ast.ReturnStmt:
		r.exprs(s.Results)
	case *ast.BlockStmt:
		return r.block(s)
	case *ast.IfStmt:
		s.Init = r.stmt(s.Init)
		s.Cond = r.expr(s.Cond)
		s.Body = r.block(s.Body)
		s.Else = r.stmt(s.Else)
	case *ast.ForStmt:
		s.Init = r.stmt(s.Init)
		s.Cond = r.expr(s.Cond)
		s.Post = r.stmt(s.Post)
		s.Body = r.block(s.Body)
	case *ast.RangeStmt:
		return r.rangeStmt(s)
	case *ast.SwitchStmt:
		s.Init = r.stmt(s.Init)
		s.Tag = r.expr(s.Tag)
		s.Body = r.block(s.Body)
	case *ast.TypeSwitchStmt:
		s.Init = r.stmt(s.Init)
		s.Assign = r.stmt(s.Assign)
		s.Body = r.block(s.Body)
	case *ast.CaseClause:
		for i := range s.List {
			s.List[i] = r.expr(s.List[i])
		}
		s.Body = r.stmts(s.Body)
	case *ast.SelectStmt:
		return r.selectStmt(s, "")
	case *ast.LabeledStmt:
		if ss, ok := s.Stmt.(*ast.SelectStmt); ok {
			// the label must stay on a statement that break can target
			return r.selectStmt(ss, s.Label.Name)
		}
		s.Stmt = r.stmt(s.Stmt)
	case *ast.IncDecStmt:
		s.X = r.expr(s.X)
	}
	return s
}

// goStmt: arguments are evaluated now, the call runs in a managed goroutine.
func (r *rw) goStmt(s *ast.GoStmt) ast.Stmt {
	call := s.Call
	call.Fun = r.expr(call.Fun)
	var pre []ast.Stmt
	for i, a := range call.Args {
		a = r.expr(a)
		switch a.(type) {
		case *ast.BasicLit:
			call.Args[i] = a
			continue
		}
		name := r.fresh("a")
		pre = append(pre, &ast.AssignStmt{Lhs: []ast.Expr{ast.NewIdent(name)}, Tok: token.DEFINE, Rhs: []ast.Expr{a}})
		call.Args[i] = ast.NewIdent(name)
	}
	// a function value that is not a literal or plain identifier is evaluated now too
	switch call.Fun.(type) {
	case *ast.FuncLit, *ast.Ident:
	case *ast.SelectorExpr:
		// method value or package function: evaluated at call time; receivers in the rewritten files are not reassigned
	default:
		name := r.fresh("f")
		pre = append(pre, &ast.AssignStmt{Lhs: []ast.Expr{ast.NewIdent(name)}, Tok: token.DEFINE, Rhs: []ast.Expr{call.Fun}})
		call.Fun = ast.NewIdent(name)
	}
	spawn := &ast.ExprStmt{X: &ast.CallExpr{Fun: r.sched("Go"), Args: []ast.Expr{
		&ast.FuncLit{Type: &ast.FuncType{Params: &ast.FieldList{}}, Body: &ast.BlockStmt{List: []ast.Stmt{&ast.ExprStmt{X: call}}}},
	}}}
	if len(pre) == 0 {
		return spawn
	}
	return &ast.BlockStmt{List: append(pre, spawn)}
}

func (r *rw) rangeStmt(s *ast.RangeStmt) ast.Stmt {
	if !r.isChanExpr(s.X) {
		s.Key = r.expr(s.Key)
		s.Value = r.expr(s.Value)
		s.X = r.expr(s.X)
		s.Body = r.block(s.Body)
		return s
	}
	okName := r.fresh("ok")
	recv := r.call(r.expr(s.X), "Recv2")
	var first ast.Stmt
	var pre []ast.Stmt
	switch {
	case s.Key == nil:
		first = &ast.AssignStmt{Lhs: []ast.Expr{ast.NewIdent("_"), ast.NewIdent(okName)}, Tok: token.DEFINE, Rhs: []ast.Expr{recv}}
	case s.Tok == token.DEFINE:
		first = &ast.AssignStmt{Lhs: []ast.Expr{s.Key, ast.NewIdent(okName)}, Tok: token.DEFINE, Rhs: []ast.Expr{recv}}
	default:
		pre = append(pre, &ast.DeclStmt{Decl: &ast.GenDecl{Tok: token.VAR, Specs: []ast.Spec{&ast.ValueSpec{Names: []*ast.Ident{ast.NewIdent(okName)}, Type: ast.NewIdent("bool")}}}})
		first = &ast.AssignStmt{Lhs: []ast.Expr{r.expr(s.Key), ast.NewIdent(okName)}, Tok: token.ASSIGN, Rhs: []ast.Expr{recv}}
	}
	brk := &ast.IfStmt{Cond: &ast.UnaryExpr{Op: token.NOT, X: ast.NewIdent(okName)}, Body: &ast.BlockStmt{List: []ast.Stmt{&ast.BranchStmt{Tok: token.BREAK}}}}
	body := r.block(s.Body)
	loop := &ast.ForStmt{Body: &ast.BlockStmt{List: append([]ast.Stmt{first, brk}, body.List...)}}
	if len(pre) == 0 {
		return loop
	}
	// note: a label on this statement would move to the block; not used in the rewritten files
	return &ast.BlockStmt{List: append(pre, loop)}
}

func (r *rw) selectStmt(s *ast.SelectStmt, label string) ast.Stmt {
	var pre []ast.Stmt
	var names []ast.Expr
	hasDefault := false
	sw := &ast.SwitchStmt{Body: &ast.BlockStmt{}}
	idx := 0
	for _, c := range s.Body.List {
		cc := c.(*ast.CommClause)
		body := r.stmts(cc.Body)
		if cc.Comm == nil {
			hasDefault = true
			sw.Body.List = append(sw.Body.List, &ast.CaseClause{List: nil, Body: body})
			continue
		}
		name := r.fresh("c")
		var init ast.Expr
		var bind ast.Stmt
		switch cm := cc.Comm.(type) {
		case *ast.SendStmt:
			init = &ast.CallExpr{Fun: r.sched("SendCase"), Args: []ast.Expr{r.expr(cm.Chan), r.expr(cm.Value)}}
		case *ast.ExprStmt:
			u, ok := cm.X.(*ast.UnaryExpr)
			if !ok || u.Op != token.ARROW {
				r.fail(cm, "unsupported select case")
				return s
			}
			init = &ast.CallExpr{Fun: r.sched("RecvCase"), Args: []ast.Expr{r.expr(u.X)}}
		case *ast.AssignStmt:
			u, ok := cm.Rhs[0].(*ast.UnaryExpr)
			if !ok || u.Op != token.ARROW || len(cm.Rhs) != 1 {
				r.fail(cm, "unsupported select case")
				return s
			}
			init = &ast.CallExpr{Fun: r.sched("RecvCase"), Args: []ast.Expr{r.expr(u.X)}}
			rhs := []ast.Expr{&ast.SelectorExpr{X: ast.NewIdent(name), Sel: ast.NewIdent("V")}}
			if len(cm.Lhs) == 2 {
				rhs = append(rhs, &ast.SelectorExpr{X: ast.NewIdent(name), Sel: ast.NewIdent("OK")})
			}
			lhs := cm.Lhs
			if cm.Tok == token.ASSIGN {
				r.exprs(lhs)
			}
			bind = &ast.AssignStmt{Lhs: lhs, Tok: cm.Tok, Rhs: rhs}
		default:
			r.fail(cc, "unsupported select case")
			return s
		}
		pre = append(pre, &ast.AssignStmt{Lhs: []ast.Expr{ast.NewIdent(name)}, Tok: token.DEFINE, Rhs: []ast.Expr{init}})
		names = append(names, ast.NewIdent(name))
		if bind != nil {
			body = append([]ast.Stmt{bind}, body...)
			// silence "declared and not used" when the original only used the blank form
			if as := bind.(*ast.AssignStmt); as.Tok == token.DEFINE {
				for _, l := range as.Lhs {
					if id, ok := l.(*ast.Ident); ok && id.Name != "_" {
						body = append(body[:1], append([]ast.Stmt{&ast.AssignStmt{Lhs: []ast.Expr{ast.NewIdent("_")}, Tok: token.ASSIGN, Rhs: []ast.Expr{ast.NewIdent(id.Name)}}}, body[1:]...)...)
					}
				}
			}
		}
		sw.Body.List = append(sw.Body.List, &ast.CaseClause{List: []ast.Expr{&ast.BasicLit{Kind: token.INT, Value: strconv.Itoa(idx)}}, Body: body})
		idx++
	}
	hd := "false"
	if hasDefault {
		hd = "true"
	}
	sw.Tag = &ast.CallExpr{Fun: r.sched("Select"), Args: append([]ast.Expr{ast.NewIdent(hd)}, names...)}
	var swStmt ast.Stmt = sw
	if label != "" {
		swStmt = &ast.LabeledStmt{Label: ast.NewIdent(label), Stmt: sw}
	}
	return &ast.BlockStmt{List: append(pre, swStmt)}
}
