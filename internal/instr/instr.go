// Package instr rewrites gonum source files, as they are on disk now, into
// instrumented copies used through `go build -overlay`.
package instr

import (
	"fmt"
	"os"
	"path/filepath"
)

// File names one file to rewrite.
type File struct {
	Rel  string // path relative to the repository root (the overlay target)
	Src  string // where to read the current content from
	Mode string // sched | ilaenv | iparmq | blocksize
}

// Rewrite rewrites every file into outDir and returns rel -> rewritten path.
func Rewrite(files []File, outDir string) (map[string]string, error) {
	out := map[string]string{}
	// several modes may apply to one file: chain them.
	content := map[string][]byte{}
	order := []string{}
	for _, f := range files {
		b, ok := content[f.Rel]
		if !ok {
			var err error
			b, err = os.ReadFile(f.Src)
			if err != nil {
				return nil, err
			}
			order = append(order, f.Rel)
		}
		var nb []byte
		var err error
		switch f.Mode {
		case "sched":
			nb, err = rewriteSched(f.Rel, b)
		case "rand":
			nb, err = rewriteRandImport(b)
		case "ilaenv":
			nb, err = rewriteIlaenv(b)
		case "iparmq":
			nb, err = rewriteIparmq(b)
		case "blocksize":
			nb, err = rewriteBlockSize(b)
		default:
			err = fmt.Errorf("unknown mode %q", f.Mode)
		}
		if err != nil {
			return nil, fmt.Errorf("%s (%s): %v", f.Rel, f.Mode, err)
		}
		content[f.Rel] = nb
	}
	for _, rel := range order {
		p := filepath.Join(outDir, rel)
		if err := os.MkdirAll(filepath.Dir(p), 0o755); err != nil {
			return nil, err
		}
		if err := os.WriteFile(p, content[rel], 0o644); err != nil {
			return nil, err
		}
		out[rel] = p
	}
	return out, nil
}
