package instr

import (
	"bytes"
	"fmt"
	"go/ast"
	"go/parser"
	"go/token"
	"sort"
	"strings"
)

const vhookImport = "gonum.org/v1/gonum/internal/verif/vhook"

type edit struct {
	pos  int // byte offset
	end  int // == pos for pure insertion
	text string
}

func applyEdits(src []byte, edits []edit) []byte {
	sort.SliceStable(edits, func(i, j int) bool { return edits[i].pos < edits[j].pos })
	var out bytes.Buffer
	last := 0
	for _, e := range edits {
		if e.pos < last {
			panic(fmt.Sprintf("instr: overlapping edits at %d", e.pos))
		}
		out.Write(src[last:e.pos])
		out.WriteString(e.text)
		last = e.end
	}
	out.Write(src[last:])
	return out.Bytes()
}

func parse(src []byte) (*token.FileSet, *ast.File, error) {
	fset := token.NewFileSet()
	f, err := parser.ParseFile(fset, "x.go", src, parser.ParseComments)
	return fset, f, err
}

// afterPackage returns the offset just after the package clause line.
func afterPackage(fset *token.FileSet, f *ast.File, src []byte) int {
	off := fset.Position(f.Name.End()).Offset
	for off < len(src) && src[off] != '\n' {
		off++
	}
	return off
}

func findMethod(f *ast.File, name string) *ast.FuncDecl {
	for _, d := range f.Decls {
		if fd, ok := d.(*ast.FuncDecl); ok && fd.Name.Name == name && fd.Body != nil {
			return fd
		}
	}
	return nil
}

func paramNames(fd *ast.FuncDecl) []string {
	var ns []string
	for _, fl := range fd.Type.Params.List {
		for _, n := range fl.Names {
			ns = append(ns, n.Name)
		}
	}
	return ns
}

func prependHook(src []byte, fn, hook string) ([]byte, error) {
	fset, f, err := parse(src)
	if err != nil {
		return nil, err
	}
	fd := findMethod(f, fn)
	if fd == nil {
		return nil, fmt.Errorf("function %s not found (seam cannot be installed)", fn)
	}
	ps := paramNames(fd)
	if len(ps) != 7 {
		return nil, fmt.Errorf("%s has %d named parameters, want 7", fn, len(ps))
	}
	body := fset.Position(fd.Body.Lbrace).Offset + 1
	stmt := fmt.Sprintf("\n\tif v, ok := vhook.%s(%s); ok {\n\t\treturn v\n\t}\n", hook, strings.Join(ps, ", "))
	return applyEdits(src, []edit{
		{pos: afterPackage(fset, f, src), end: afterPackage(fset, f, src), text: "\n\nimport vhook \"" + vhookImport + "\"\n"},
		{pos: body, end: body, text: stmt},
	}), nil
}

func rewriteIlaenv(src []byte) ([]byte, error) { return prependHook(src, "Ilaenv", "Ilaenv") }
func rewriteIparmq(src []byte) ([]byte, error) { return prependHook(src, "Iparmq", "Iparmq") }

// rewriteBlockSize turns the constants blockSize and minParBlock of
// blas/gonum/gonum.go into variables registered with vhook.
func rewriteBlockSize(src []byte) ([]byte, error) {
	fset, f, err := parse(src)
	if err != nil {
		return nil, err
	}
	var edits []edit
	found := 0
	for _, d := range f.Decls {
		gd, ok := d.(*ast.GenDecl)
		if !ok || gd.Tok != token.CONST {
			continue
		}
		for _, s := range gd.Specs {
			vs := s.(*ast.ValueSpec)
			for _, n := range vs.Names {
				if n.Name == "blockSize" || n.Name == "minParBlock" {
					p := fset.Position(n.End()).Offset
					edits = append(edits, edit{pos: p, end: p, text: "Stock"})
					found++
				}
			}
		}
	}
	if found != 2 {
		return nil, fmt.Errorf("constants blockSize/minParBlock not found (%d)", found)
	}
	ap := afterPackage(fset, f, src)
	edits = append(edits, edit{pos: ap, end: ap, text: "\n\nimport vhook \"" + vhookImport + "\"\n"})
	out := applyEdits(src, edits)
	out = append(out, []byte("\nvar (\n\tblockSize   int = blockSizeStock\n\tminParBlock int = minParBlockStock\n)\n\nfunc init() { vhook.RegisterBlockSize(&blockSize, &minParBlock) }\n")...)
	return out, nil
}

// rewriteRandImport redirects the math/rand/v2 import of a file to the vrand twin.
func rewriteRandImport(src []byte) ([]byte, error) {
	fset, f, err := parse(src)
	if err != nil {
		return nil, err
	}
	var edits []edit
	for _, im := range f.Imports {
		if im.Path.Value != `"math/rand/v2"` {
			continue
		}
		start := fset.Position(im.Pos()).Offset
		end := fset.Position(im.End()).Offset
		name := "rand"
		if im.Name != nil {
			name = im.Name.Name
		}
		edits = append(edits, edit{pos: start, end: end, text: name + ` "` + vrandImport + `"`})
	}
	if len(edits) == 0 {
		return nil, fmt.Errorf("file does not import math/rand/v2 (rand seam cannot be installed)")
	}
	return applyEdits(src, edits), nil
}
