// Repro of four BLAS defects found by the C01 check (public API only).
package main

import (
	"fmt"
	"math"

	"gonum.org/v1/gonum/blas"
	"gonum.org/v1/gonum/blas/gonum"
)

func main() {
	impl := gonum.Implementation{}
	// 1. Sdsdot with n == 0 must return alpha (alpha + empty sum).
	fmt.Println("Sdsdot(n=0, alpha=5) =", impl.Sdsdot(0, 5, nil, 1, nil, 1), "(want 5)")

	// 2. Dger with a negative increment (assembly kernel, default build).
	a := make([]float64, 4)
	impl.Dger(2, 2, 1, []float64{1, 2}, 1, []float64{10, 20}, -1, a, 2)
	fmt.Println("Dger incY=-1: A =", a, "(want [20 10 40 20])")
	a = make([]float64, 4)
	impl.Dger(2, 2, 1, []float64{1, 2}, -1, []float64{10, 20}, 1, a, 2)
	fmt.Println("Dger incX=-1: A =", a, "(want [20 40 10 20])")

	// 3. Dsyrk Lower, Trans, beta == 0 must not read C.
	c := []float64{math.NaN(), 0, math.NaN(), math.NaN()}
	impl.Dsyrk(blas.Lower, blas.Trans, 2, 1, 1, []float64{1, 2}, 2, 0, c, 2)
	fmt.Println("Dsyrk Lower/Trans beta=0: C =", c, "(want [1 0 2 4])")

	// 4. Sgemv Trans, beta == 0, incY == 1 must only write the n addressed elements of y.
	y := []float32{7, 7, 7, 7}
	impl.Sgemv(blas.Trans, 2, 2, 1, []float32{1, 2, 3, 4}, 2, []float32{1, 1}, 1, 0, y, 1)
	fmt.Println("Sgemv Trans beta=0: y =", y, "(want [4 6 7 7])")
}
