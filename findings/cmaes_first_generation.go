package main

import (
	"fmt"
	"math/rand/v2"

	"gonum.org/v1/gonum/optimize"
)

func main() {
	for _, fe := range []int{1, 3, 5} {
		evals := map[string]float64{}
		p := optimize.Problem{Func: func(x []float64) float64 {
			a, b := x[0]-1, x[1]+1
			f := 2*a*a + a*b + 3*b*b
			evals[fmt.Sprint(x)] = f
			return f
		}}
		res, err := optimize.Minimize(p, []float64{3, 2}, &optimize.Settings{FuncEvaluations: fe}, &optimize.CmaEsChol{Population: 4, Src: rand.NewPCG(1, 1)})
		f, ok := evals[fmt.Sprint(res.X)]
		fmt.Printf("limit=%d status=%v err=%v X=%v F=%v evaluated=%v f(X)=%v evals=%d major=%d\n", fe, res.Status, err, res.X, res.F, ok, f, res.Stats.FuncEvaluations, res.Stats.MajorIterations)
	}
}
