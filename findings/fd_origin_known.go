// Repro: concurrent Laplacian/Hessian/CrossLaplacian ignore Settings.OriginKnown/OriginValue.
package main

import (
	"fmt"
	"sync/atomic"

	"gonum.org/v1/gonum/diff/fd"
)

func main() {
	x := []float64{1, 2}
	f := func(x []float64) float64 { return x[0]*x[0] + 3*x[1]*x[1] }
	for _, conc := range []bool{false, true} {
		var calls int64
		got := fd.Laplacian(func(x []float64) float64 { atomic.AddInt64(&calls, 1); return f(x) }, x,
			&fd.Settings{Formula: fd.Central2nd, Step: 1, OriginKnown: true, OriginValue: f(x) + 100, Concurrent: conc})
		fmt.Printf("Concurrent=%v: laplacian=%v calls=%d\n", conc, got, calls)
	}
}
