package vsched

import "fmt"

// MutexState is the scheduler-side state of a (RW)Mutex.
type MutexState struct{ core mutexCore }

func (m *MutexState) id(s *Sched) {
	if m.core.id == 0 {
		m.core.id = s.objID()
	}
}

// Lock blocks until the mutex is free.
func (m *MutexState) Lock() {
	s := cur
	if s == nil || s.aborted {
		return
	}
	m.id(s)
	s.park(&op{kind: opLock, mu: &m.core})
}

// TryLock never blocks.
func (m *MutexState) TryLock() bool {
	s := cur
	if s == nil || s.aborted {
		return true
	}
	m.id(s)
	s.park(&op{kind: opYield, what: fmt.Sprintf("TryLock m%d", m.core.id)})
	if m.core.writer || m.core.readers > 0 {
		return false
	}
	m.core.writer = true
	return true
}

// Unlock releases the mutex. Releases only enable other goroutines, so they
// are executed at once (Lipton reduction) unless Options.ReleasePoints is set.
func (m *MutexState) Unlock() {
	s := cur
	if s == nil || s.aborted {
		return
	}
	m.id(s)
	if s.opts.ReleasePoints {
		s.park(&op{kind: opYield, what: fmt.Sprintf("Unlock m%d", m.core.id)})
	} else {
		s.note(fmt.Sprintf("g%d Unlock m%d", s.running.id, m.core.id))
	}
	if !m.core.writer {
		panic(plainError("sync: unlock of unlocked mutex"))
	}
	m.core.writer = false
}

// RLock blocks while a writer holds the mutex.
func (m *MutexState) RLock() {
	s := cur
	if s == nil || s.aborted {
		return
	}
	m.id(s)
	s.park(&op{kind: opRLock, mu: &m.core})
}

// RUnlock releases a read lock.
func (m *MutexState) RUnlock() {
	s := cur
	if s == nil || s.aborted {
		return
	}
	m.id(s)
	if s.opts.ReleasePoints {
		s.park(&op{kind: opYield, what: fmt.Sprintf("RUnlock m%d", m.core.id)})
	} else {
		s.note(fmt.Sprintf("g%d RUnlock m%d", s.running.id, m.core.id))
	}
	if m.core.readers <= 0 {
		panic(plainError("sync: RUnlock of unlocked RWMutex"))
	}
	m.core.readers--
}

// WGState is the scheduler-side state of a WaitGroup.
type WGState struct{ core wgCore }

// Add adds n (Done is Add(-1)).
func (w *WGState) Add(n int) {
	s := cur
	if s == nil || s.aborted {
		return
	}
	if w.core.id == 0 {
		w.core.id = s.objID()
	}
	if s.opts.ReleasePoints {
		s.park(&op{kind: opYield, what: fmt.Sprintf("Add wg%d %d", w.core.id, n)})
	} else {
		s.note(fmt.Sprintf("g%d Add wg%d %d", s.running.id, w.core.id, n))
	}
	w.core.n += n
	if w.core.n < 0 {
		panic(plainError("sync: negative WaitGroup counter"))
	}
}

// Wait blocks until the counter is zero.
func (w *WGState) Wait() {
	s := cur
	if s == nil || s.aborted {
		return
	}
	if w.core.id == 0 {
		w.core.id = s.objID()
	}
	s.park(&op{kind: opWait, wg: &w.core})
}
