package vsched

import (
	"fmt"
)

// Bound selects the cost model of an exploration.
type Bound struct {
	Preemptions int // CHESS bound: switching away from a still-enabled goroutine costs 1 (-1 = unbounded)
	Delays      int // delay bound: every non-default choice costs 1 (-1 = not used)
	MaxExecs    int // cap on executions (0 = none); reported when hit
}

// Stats summarises an exploration.
type Stats struct {
	Executions     int
	Transitions    int64
	Decisions      int64
	MinPoints      int
	MaxPoints      int
	DistinctTraces int
	Outcomes       map[string]int
	CapHit         bool
	MaxGoroutines  int
	MaxLive        int
}

// Violation is a failing schedule.
type Violation struct {
	Choices []int
	Msg     string
	Outcome string
	Trace   []string
}

// Explore runs body under every schedule within the bound. check is called
// after every execution with the execution record and returns a non-empty
// message for a property violation; digest returns the observable result of
// the execution (for the distinct-outcome count). The first violation stops
// the exploration.
func Explore(body func(), opts Options, b Bound, check func(x *Exec) string) (*Stats, *Violation) {
	st := &Stats{Outcomes: map[string]int{}, MinPoints: 1 << 30}
	traces := map[uint64]struct{}{}
	type item struct {
		prefix []int
		cost   int
	}
	// determinism of the engine on this scenario: the default schedule twice.
	a := Run(body, opts)
	c := Run(body, opts)
	if a.TraceHash != c.TraceHash || a.Outcome != c.Outcome || len(a.Choices) != len(c.Choices) {
		panic(EngineError(fmt.Sprintf("vsched: the default schedule is not deterministic (trace %x vs %x, outcome %q vs %q): uncontrolled nondeterminism in the scenario", a.TraceHash, c.TraceHash, a.Outcome, c.Outcome)))
	}
	stack := []item{{}}
	for len(stack) > 0 {
		it := stack[len(stack)-1]
		stack = stack[:len(stack)-1]
		o := opts
		o.Prefix = it.prefix
		x := Run(body, o)
		st.Executions++
		st.Transitions += int64(x.Steps)
		st.Decisions += int64(len(x.Decisions))
		if len(x.Decisions) < st.MinPoints {
			st.MinPoints = len(x.Decisions)
		}
		if len(x.Decisions) > st.MaxPoints {
			st.MaxPoints = len(x.Decisions)
		}
		if x.Goroutines > st.MaxGoroutines {
			st.MaxGoroutines = x.Goroutines
		}
		if x.MaxLive > st.MaxLive {
			st.MaxLive = x.MaxLive
		}
		traces[x.TraceHash] = struct{}{}
		oc := x.Outcome
		if len(oc) > 60 {
			oc = oc[:60]
		}
		st.Outcomes[oc]++
		if msg := check(x); msg != "" {
			// confirm by replaying the recorded schedule with a recorded trace
			o2 := opts
			o2.Prefix = x.Choices
			o2.Record = true
			y := Run(body, o2)
			if y.TraceHash != x.TraceHash {
				panic(EngineError(fmt.Sprintf("vsched: replay of a failing schedule diverged (trace %x vs %x)", x.TraceHash, y.TraceHash)))
			}
			if m2 := check(y); m2 == "" {
				panic(EngineError("vsched: failing schedule passed on replay: " + msg))
			}
			st.DistinctTraces = len(traces)
			return st, &Violation{Choices: x.Choices, Msg: msg, Outcome: x.Outcome, Trace: y.Trace}
		}
		if b.MaxExecs > 0 && st.Executions >= b.MaxExecs {
			st.CapHit = len(stack) > 0
			break
		}
		// children: deviate at every decision after the prefix. Pushed in
		// reverse so that the earliest, smallest deviation is explored first.
		for i := len(x.Decisions) - 1; i >= len(it.prefix); i-- {
			d := x.Decisions[i]
			for alt := d.N - 1; alt >= 1; alt-- {
				cost := it.cost
				if b.Delays >= 0 {
					cost++
					if cost > b.Delays {
						continue
					}
				} else if b.Preemptions >= 0 {
					if !d.Free[alt] {
						cost++
					}
					if cost > b.Preemptions {
						continue
					}
				}
				p := make([]int, i+1)
				copy(p, x.Choices[:i])
				p[i] = alt
				stack = append(stack, item{prefix: p, cost: cost})
			}
		}
	}
	st.DistinctTraces = len(traces)
	if st.MinPoints == 1<<30 {
		st.MinPoints = 0
	}
	return st, nil
}
