package vsched

import "reflect"

type realSetter interface{ setReal(v any, ok bool) }

// realSelect runs a select on the backing real channels (no execution active).
func realSelect(hasDefault bool, cases []SelCase) int {
	var rc []reflect.SelectCase
	for _, c := range cases {
		send, ch, val := c.realCase()
		if send {
			rc = append(rc, reflect.SelectCase{Dir: reflect.SelectSend, Chan: reflect.ValueOf(ch), Send: reflect.ValueOf(val)})
		} else {
			rc = append(rc, reflect.SelectCase{Dir: reflect.SelectRecv, Chan: reflect.ValueOf(ch)})
		}
	}
	if hasDefault {
		rc = append(rc, reflect.SelectCase{Dir: reflect.SelectDefault})
	}
	i, v, ok := reflect.Select(rc)
	if hasDefault && i == len(cases) {
		return -1
	}
	if r, isRecv := cases[i].(realSetter); isRecv {
		if ok {
			r.setReal(v.Interface(), true)
		} else {
			r.setReal(nil, false)
		}
	}
	return i
}
