// Package vsched is a cooperative scheduler for exhaustive exploration of
// goroutine interleavings of real Go code. Source files are rewritten at
// build time (see /verif/internal/instr) so that channel operations, select,
// go statements and sync primitives call into this package. Exactly one
// managed goroutine runs at a time; every goroutine is parked at its next
// visible operation, and a scheduling decision picks one enabled transition
// (an operation, or a sender/receiver pair on an unbuffered channel).
// An execution is identified by the list of chosen indices at the decisions
// that had more than one enabled transition.
package vsched

import (
	"fmt"
	"hash/fnv"
	"runtime"
	"strings"
	"sync"
)

type gstate int

const (
	gRunnable gstate = iota
	gRunning
	gPending
	gDone
)

type opKind int

const (
	opSelect opKind = iota // also plain send / receive (one case, no default)
	opLock
	opRLock
	opWait
	opYield
)

// G is a managed goroutine.
type G struct {
	id    int
	wake  chan struct{}
	state gstate
	op    *op
	// results of the last completed operation
	sel      int
	recvVal  any
	recvOK   bool
	panicMsg string
	name     string
}

type selCaseCore struct {
	send bool
	ch   *chanCore
	val  any
}

type op struct {
	kind       opKind
	cases      []selCaseCore
	hasDefault bool
	mu         *mutexCore
	wg         *wgCore
	what       string
}

type chanCore struct {
	id     int
	cap    int
	buf    []any
	closed bool
}

type mutexCore struct {
	id      int
	writer  bool
	readers int
}

type wgCore struct {
	id int
	n  int
}

// Decision is one recorded scheduling decision (only decisions with more
// than one enabled transition are recorded).
type Decision struct {
	N      int    // number of enabled transitions
	Chosen int    // index taken
	Free   []bool // Free[i]: choosing i is not a preemption (it continues a goroutine of the previous transition, or the previous ones are all blocked/finished)
}

// Options configures one execution.
type Options struct {
	Prefix        []int // choices to replay; afterwards choice 0
	MaxSteps      int   // horizon; 0 = 200000
	Record        bool  // keep the textual trace
	ReleasePoints bool  // make release operations (Unlock, Done, Add) scheduling points too
	DefaultPolicy int   // 0: continue running goroutine then lowest id; 1: continue then highest id; 2: round robin (next id after the last one)
}

// Exec is the result of one execution.
type Exec struct {
	Decisions  []Decision
	Choices    []int
	Outcome    string // "ok", "deadlock: ...", "panic: ...", "horizon"
	LeftBehind int    // goroutines still blocked when main had finished (part of a deadlock outcome)
	MainDone   bool
	Steps      int
	TraceHash  uint64
	Trace      []string
	Goroutines int
	MaxLive    int
}

// Sched is the scheduler of one execution.
type Sched struct {
	opts       Options
	gs         []*G
	running    *G
	runq       []*G
	prev       []*G // participants of the previous transition
	pos        int
	decisions  []Decision
	choices    []int
	steps      int
	aborted    bool
	outcome    string
	finished   chan struct{}
	realWG     sync.WaitGroup
	nextObj    int
	hash       uint64
	trace      []string
	mainDone   bool
	leftBehind int
	engineErr  string
	maxLive    int
	userState  map[string]int
}

var cur *Sched

// Active reports whether an execution is in progress.
func Active() bool { return cur != nil }

// EngineError is panicked (in the caller of Run) when the engine detects its own inconsistency.
type EngineError string

func (e EngineError) Error() string { return string(e) }

// Run executes body as the main managed goroutine under the scheduler.
func Run(body func(), opts Options) *Exec {
	if cur != nil {
		panic(EngineError("vsched: nested Run"))
	}
	if opts.MaxSteps == 0 {
		opts.MaxSteps = 200000
	}
	s := &Sched{opts: opts, finished: make(chan struct{}), hash: 14695981039346656037}
	cur = s
	main := s.newG("main")
	s.spawn(main, body)
	main.state = gRunning
	s.running = main
	main.wake <- struct{}{}
	<-s.finished
	s.realWG.Wait()
	cur = nil
	if s.engineErr != "" {
		panic(EngineError(s.engineErr))
	}
	if s.pos < len(opts.Prefix) {
		panic(EngineError(fmt.Sprintf("vsched: replay divergence: execution ended after %d of %d prefix choices (outcome %q)", s.pos, len(opts.Prefix), s.outcome)))
	}
	x := &Exec{Decisions: s.decisions, Choices: s.choices, Outcome: s.outcome, MainDone: s.mainDone, Steps: s.steps, TraceHash: s.hash, Trace: s.trace, Goroutines: len(s.gs), MaxLive: s.maxLive}
	x.LeftBehind = s.leftBehind
	return x
}

func (s *Sched) newG(name string) *G {
	g := &G{id: len(s.gs), wake: make(chan struct{}, 1), name: name}
	s.gs = append(s.gs, g)
	return g
}

type exitSentinel struct{}

func (s *Sched) spawn(g *G, f func()) {
	s.realWG.Add(1)
	go func() {
		defer s.realWG.Done()
		<-g.wake
		if s.aborted {
			g.state = gDone
			return
		}
		defer func() {
			if e := recover(); e != nil {
				if s.aborted {
					g.state = gDone
					return
				}
				// a panic in any goroutine terminates a Go program
				buf := make([]byte, 2048)
				buf = buf[:runtime.Stack(buf, false)]
				s.note(fmt.Sprintf("g%d panic", g.id))
				g.state = gDone
				s.finish(g, fmt.Sprintf("panic: %v", e)+" @ "+stackSummary(string(buf)))
				return
			}
			if s.aborted {
				g.state = gDone
				return
			}
			s.exit(g)
		}()
		f()
	}()
}

func stackSummary(st string) string {
	var keep []string
	for _, l := range strings.Split(st, "\n") {
		l = strings.TrimSpace(l)
		if strings.HasPrefix(l, "/") && !strings.Contains(l, "/vsched/") && !strings.Contains(l, "/runtime/") {
			if i := strings.LastIndex(l, " +0x"); i > 0 {
				l = l[:i]
			}
			if i := strings.LastIndex(l, "/"); i > 0 {
				l = l[i+1:]
			}
			keep = append(keep, l)
			if len(keep) == 4 {
				break
			}
		}
	}
	return strings.Join(keep, " < ")
}

// Go starts f as a managed goroutine.
func Go(f func()) {
	s := cur
	if s == nil {
		go f()
		return
	}
	if s.aborted {
		return
	}
	g := s.newG("")
	s.note(fmt.Sprintf("g%d go g%d", s.running.id, g.id))
	s.spawn(g, f)
	g.state = gRunnable
	s.runq = append(s.runq, g)
}

func (s *Sched) note(ev string) {
	h := fnv.New64a()
	var b [8]byte
	for i := 0; i < 8; i++ {
		b[i] = byte(s.hash >> (8 * i))
	}
	h.Write(b[:])
	h.Write([]byte(ev))
	s.hash = h.Sum64()
	if s.opts.Record {
		s.trace = append(s.trace, ev)
	}
}

// park publishes g's next operation and gives up the token until the
// operation has been executed by a scheduling decision.
func (s *Sched) park(o *op) *G {
	g := s.running
	if s.aborted {
		runtime.Goexit()
	}
	g.op = o
	g.state = gPending
	s.dispatch(g)
	if s.aborted {
		runtime.Goexit()
	}
	if g.panicMsg != "" {
		m := g.panicMsg
		g.panicMsg = ""
		panic(plainError(m))
	}
	return g
}

type plainError string

func (e plainError) Error() string { return string(e) }

// exit is called when g's function has returned.
func (s *Sched) exit(g *G) {
	g.state = gDone
	if g.id == 0 {
		s.mainDone = true
	}
	s.note(fmt.Sprintf("g%d exit", g.id))
	s.dispatch(nil)
}

// dispatch passes the token on: first to goroutines that still have to run to
// their next operation, otherwise by a scheduling decision. self is the
// calling goroutine if it wants the token back eventually (nil on exit).
func (s *Sched) dispatch(self *G) {
	for {
		if len(s.runq) > 0 {
			next := s.runq[0]
			s.runq = s.runq[1:]
			s.handTo(next, self)
			return
		}
		live := 0
		for _, g := range s.gs {
			if g.state != gDone {
				live++
			}
		}
		if live > s.maxLive {
			s.maxLive = live
		}
		ts := s.enabled()
		if len(ts) == 0 {
			if live == 0 {
				s.finish(self, "ok")
			} else {
				var bl []string
				for _, g := range s.gs {
					if g.state == gPending {
						bl = append(bl, fmt.Sprintf("g%d:%s", g.id, g.op.describe()))
					}
				}
				kind := "deadlock(main blocked)"
				if s.mainDone {
					kind = "goroutines left behind"
				}
				s.finish(self, kind+": "+strings.Join(bl, ", "))
			}
			return
		}
		s.steps++
		if s.steps > s.opts.MaxSteps {
			s.finish(self, "horizon")
			return
		}
		idx := 0
		if len(ts) > 1 {
			d := Decision{N: len(ts), Free: make([]bool, len(ts))}
			prevEnabled := false
			for i := range ts {
				if s.involvesPrev(&ts[i]) {
					prevEnabled = true
					d.Free[i] = true
				}
			}
			if !prevEnabled {
				for i := range d.Free {
					d.Free[i] = true
				}
			}
			if s.pos < len(s.opts.Prefix) {
				idx = s.opts.Prefix[s.pos]
				if idx < 0 || idx >= len(ts) {
					s.engineErr = fmt.Sprintf("vsched: replay divergence at decision %d: choice %d of %d enabled", s.pos, idx, len(ts))
					s.finish(self, "engine-error")
					return
				}
			}
			s.pos++
			d.Chosen = idx
			s.decisions = append(s.decisions, d)
			s.choices = append(s.choices, idx)
		}
		s.apply(&ts[idx])
	}
}

// handTo gives the token to next and, if self is not nil and differs, waits for it to come back.
func (s *Sched) handTo(next, self *G) {
	next.state = gRunning
	s.running = next
	if next == self {
		return
	}
	next.wake <- struct{}{}
	if self != nil {
		<-self.wake
	}
}

// finish ends the execution with the given outcome; leftover goroutines are unwound with Goexit.
func (s *Sched) finish(self *G, outcome string) {
	if s.outcome == "" {
		s.outcome = outcome
	}
	s.aborted = true
	for _, g := range s.gs {
		if g.state != gDone && outcome != "ok" {
			s.leftBehind++
		}
	}
	for _, g := range s.gs {
		if g != self && g.state != gDone {
			select {
			case g.wake <- struct{}{}:
			default:
			}
		}
	}
	close(s.finished)
	if self != nil && self.state != gDone {
		// the caller unwinds itself
		runtime.Goexit()
	}
}

type trans struct {
	g       *G
	caseIdx int // select case; -1 default
	partner *G
	pcase   int
}

func (s *Sched) involvesPrev(t *trans) bool {
	for _, p := range s.prev {
		if t.g == p || t.partner == p {
			return true
		}
	}
	return false
}

// order returns the pending goroutines in canonical order: participants of
// the previous transition first (in their order), then by the default policy.
func (s *Sched) order() []*G {
	var out []*G
	seen := map[*G]bool{}
	for _, p := range s.prev {
		if p.state == gPending && !seen[p] {
			out = append(out, p)
			seen[p] = true
		}
	}
	n := len(s.gs)
	switch s.opts.DefaultPolicy {
	case 1:
		for i := n - 1; i >= 0; i-- {
			if g := s.gs[i]; g.state == gPending && !seen[g] {
				out = append(out, g)
			}
		}
	case 2:
		start := 0
		if len(s.prev) > 0 {
			start = s.prev[0].id + 1
		}
		for k := 0; k < n; k++ {
			if g := s.gs[(start+k)%n]; g.state == gPending && !seen[g] {
				out = append(out, g)
			}
		}
	default:
		for _, g := range s.gs {
			if g.state == gPending && !seen[g] {
				out = append(out, g)
			}
		}
	}
	return out
}

func (s *Sched) enabled() []trans {
	ord := s.order()
	rank := map[*G]int{}
	for i, g := range ord {
		rank[g] = i
	}
	var ts []trans
	for _, g := range ord {
		o := g.op
		switch o.kind {
		case opYield:
			ts = append(ts, trans{g: g})
		case opLock:
			if !o.mu.writer && o.mu.readers == 0 {
				ts = append(ts, trans{g: g})
			}
		case opRLock:
			if !o.mu.writer {
				ts = append(ts, trans{g: g})
			}
		case opWait:
			if o.wg.n == 0 {
				ts = append(ts, trans{g: g})
			}
		case opSelect:
			any := false
			for i, c := range o.cases {
				if c.ch == nil {
					continue
				}
				if c.send {
					if c.ch.closed || (c.ch.cap > 0 && len(c.ch.buf) < c.ch.cap) {
						ts = append(ts, trans{g: g, caseIdx: i})
						any = true
						continue
					}
				} else {
					if len(c.ch.buf) > 0 || c.ch.closed {
						ts = append(ts, trans{g: g, caseIdx: i})
						any = true
						continue
					}
				}
				if c.ch.cap == 0 {
					// rendezvous partners
					for _, h := range ord {
						if h == g || h.op.kind != opSelect {
							continue
						}
						for j, d := range h.op.cases {
							if d.ch == c.ch && d.send != c.send {
								any = true
								if rank[h] > rank[g] {
									if c.send {
										ts = append(ts, trans{g: g, caseIdx: i, partner: h, pcase: j})
									} else {
										ts = append(ts, trans{g: g, caseIdx: i, partner: h, pcase: j})
									}
								}
							}
						}
					}
				}
			}
			if !any && o.hasDefault {
				ts = append(ts, trans{g: g, caseIdx: -1})
			}
		}
	}
	return ts
}

func (o *op) describe() string {
	switch o.kind {
	case opYield:
		return "yield(" + o.what + ")"
	case opLock:
		return fmt.Sprintf("Lock(m%d)", o.mu.id)
	case opRLock:
		return fmt.Sprintf("RLock(m%d)", o.mu.id)
	case opWait:
		return fmt.Sprintf("Wait(wg%d n=%d)", o.wg.id, o.wg.n)
	}
	var cs []string
	for _, c := range o.cases {
		id := "nil"
		if c.ch != nil {
			id = fmt.Sprintf("c%d", c.ch.id)
		}
		if c.send {
			cs = append(cs, id+"<-")
		} else {
			cs = append(cs, "<-"+id)
		}
	}
	d := ""
	if o.hasDefault {
		d = ",default"
	}
	if len(cs) == 1 && !o.hasDefault {
		return cs[0]
	}
	return "select{" + strings.Join(cs, ",") + d + "}"
}

func (s *Sched) apply(t *trans) {
	g := t.g
	o := g.op
	g.sel, g.recvVal, g.recvOK, g.panicMsg = 0, nil, false, ""
	s.prev = s.prev[:0]
	s.prev = append(s.prev, g)
	switch o.kind {
	case opYield:
		s.note(fmt.Sprintf("g%d %s", g.id, o.what))
	case opLock:
		o.mu.writer = true
		s.note(fmt.Sprintf("g%d Lock m%d", g.id, o.mu.id))
	case opRLock:
		o.mu.readers++
		s.note(fmt.Sprintf("g%d RLock m%d", g.id, o.mu.id))
	case opWait:
		s.note(fmt.Sprintf("g%d Wait wg%d", g.id, o.wg.id))
	case opSelect:
		g.sel = t.caseIdx
		if t.caseIdx < 0 {
			s.note(fmt.Sprintf("g%d default", g.id))
			break
		}
		c := o.cases[t.caseIdx]
		if t.partner != nil {
			h := t.partner
			h.sel, h.recvVal, h.recvOK, h.panicMsg = t.pcase, nil, false, ""
			if c.send {
				h.recvVal, h.recvOK = c.val, true
				s.note(fmt.Sprintf("g%d->g%d c%d", g.id, h.id, c.ch.id))
			} else {
				g.recvVal, g.recvOK = h.op.cases[t.pcase].val, true
				s.note(fmt.Sprintf("g%d->g%d c%d", h.id, g.id, c.ch.id))
			}
			h.state = gRunnable
			h.op = nil
			s.prev = append(s.prev, h)
			g.state = gRunnable
			g.op = nil
			s.runq = append(s.runq, g, h)
			return
		}
		if c.send {
			if c.ch.closed {
				g.panicMsg = "send on closed channel"
				s.note(fmt.Sprintf("g%d send-closed c%d", g.id, c.ch.id))
			} else {
				c.ch.buf = append(c.ch.buf, c.val)
				s.note(fmt.Sprintf("g%d send c%d", g.id, c.ch.id))
			}
		} else {
			if len(c.ch.buf) > 0 {
				g.recvVal, g.recvOK = c.ch.buf[0], true
				c.ch.buf = c.ch.buf[1:]
				s.note(fmt.Sprintf("g%d recv c%d", g.id, c.ch.id))
			} else {
				s.note(fmt.Sprintf("g%d recv-closed c%d", g.id, c.ch.id))
			}
		}
	}
	g.state = gRunnable
	g.op = nil
	s.runq = append(s.runq, g)
}

func (s *Sched) objID() int { s.nextObj++; return s.nextObj }

// Point is an explicit scheduling point (always enabled) for harness callbacks
// that touch state shared between goroutines.
func Point(what string) {
	s := cur
	if s == nil || s.aborted {
		return
	}
	s.park(&op{kind: opYield, what: what})
}

// Aborted reports whether the current execution is being unwound.
func Aborted() bool { return cur != nil && cur.aborted }

// Note adds a harness event to the operation trace of the running execution.
func Note(ev string) {
	if s := cur; s != nil && !s.aborted {
		s.note(fmt.Sprintf("g%d %s", s.running.id, ev))
	}
}

// GID returns the id of the running managed goroutine (-1 outside an execution).
func GID() int {
	if s := cur; s != nil && s.running != nil {
		return s.running.id
	}
	return -1
}
