package vsched

import "fmt"

// Chan is the twin of a Go channel. A nil *Chan behaves like a nil channel.
// When no execution is active it is backed by a real channel so that
// instrumented code also runs outside the scheduler.
type Chan[T any] struct {
	core chanCore
	real chan T
}

type box[T any] struct{ v T }

// MakeChan is make(chan T, n).
func MakeChan[T any](n int) *Chan[T] {
	if n < 0 {
		panic(plainError("makechan: size out of range"))
	}
	s := cur
	if s == nil {
		return &Chan[T]{real: make(chan T, n)}
	}
	c := &Chan[T]{}
	c.core.cap = n
	if !s.aborted {
		c.core.id = s.objID()
		s.note(fmt.Sprintf("g%d make c%d cap %d", s.running.id, c.core.id, n))
	}
	return c
}

func (c *Chan[T]) corePtr() *chanCore {
	if c == nil {
		return nil
	}
	return &c.core
}

func unbox[T any](v any) T {
	if v == nil {
		var z T
		return z
	}
	return v.(box[T]).v
}

// Send is c <- v.
func (c *Chan[T]) Send(v T) {
	s := cur
	if s == nil {
		if c == nil {
			var n chan T
			n <- v
		}
		c.real <- v
		return
	}
	if s.aborted {
		return
	}
	s.park(&op{kind: opSelect, cases: []selCaseCore{{send: true, ch: c.corePtr(), val: box[T]{v}}}})
}

// Recv is <-c.
func (c *Chan[T]) Recv() T {
	v, _ := c.Recv2()
	return v
}

// Recv2 is v, ok := <-c.
func (c *Chan[T]) Recv2() (T, bool) {
	s := cur
	if s == nil {
		if c == nil {
			var n chan T
			v, ok := <-n
			return v, ok
		}
		v, ok := <-c.real
		return v, ok
	}
	if s.aborted {
		var z T
		return z, false
	}
	g := s.park(&op{kind: opSelect, cases: []selCaseCore{{ch: c.corePtr()}}})
	return unbox[T](g.recvVal), g.recvOK
}

// Close is close(c). It is a scheduling point (close conflicts with sends).
func (c *Chan[T]) Close() {
	s := cur
	if s == nil {
		if c == nil {
			var n chan T
			close(n)
		}
		close(c.real)
		return
	}
	if s.aborted {
		return
	}
	if c == nil {
		panic(plainError("close of nil channel"))
	}
	s.park(&op{kind: opYield, what: fmt.Sprintf("close c%d", c.core.id)})
	if c.core.closed {
		panic(plainError("close of closed channel"))
	}
	c.core.closed = true
	// A second point after the close has taken effect: what the closing goroutine does next (e.g. storing a
	// result that the receiver of the close reads without further synchronisation) may be overtaken by the
	// goroutines the close released. Without it the block "close; plain writes" would be atomic and such a
	// publish-after-release ordering mistake would be invisible to the explorer (it is a data race, which the
	// free-running -race companion reports, but here it becomes a schedule with an observable wrong outcome).
	s.park(&op{kind: opYield, what: fmt.Sprintf("after-close c%d", c.core.id)})
}

// Len is len(c).
func (c *Chan[T]) Len() int {
	if c == nil {
		return 0
	}
	if cur == nil {
		return len(c.real)
	}
	return len(c.core.buf)
}

// Cap is cap(c).
func (c *Chan[T]) Cap() int {
	if c == nil {
		return 0
	}
	if cur == nil {
		return cap(c.real)
	}
	return c.core.cap
}

// SelCase is a prepared select case.
type SelCase interface {
	core() selCaseCore
	done(g *G)
	realCase() (send bool, ch any, val any)
}

// RCase is a receive case; after Select returns its index, V and OK hold the result.
type RCase[T any] struct {
	c  *Chan[T]
	V  T
	OK bool
}

// SCase is a send case.
type SCase[T any] struct {
	c *Chan[T]
	v T
}

// RecvCase prepares `case v, ok := <-c`.
func RecvCase[T any](c *Chan[T]) *RCase[T] { return &RCase[T]{c: c} }

// SendCase prepares `case c <- v`.
func SendCase[T any](c *Chan[T], v T) *SCase[T] { return &SCase[T]{c: c, v: v} }

func (r *RCase[T]) core() selCaseCore { return selCaseCore{ch: r.c.corePtr()} }
func (r *RCase[T]) done(g *G)         { r.V, r.OK = unbox[T](g.recvVal), g.recvOK }
func (r *RCase[T]) realCase() (bool, any, any) {
	if r.c == nil {
		return false, (chan T)(nil), nil
	}
	return false, r.c.real, nil
}
func (r *RCase[T]) setReal(v any, ok bool) {
	if ok {
		r.V = v.(T)
	}
	r.OK = ok
}

func (w *SCase[T]) core() selCaseCore {
	return selCaseCore{send: true, ch: w.c.corePtr(), val: box[T]{w.v}}
}
func (w *SCase[T]) done(g *G) {}
func (w *SCase[T]) realCase() (bool, any, any) {
	if w.c == nil {
		return true, (chan T)(nil), w.v
	}
	return true, w.c.real, w.v
}

// Select is the select statement: it returns the index of the case taken, or -1 for default.
func Select(hasDefault bool, cases ...SelCase) int {
	s := cur
	if s == nil {
		return realSelect(hasDefault, cases)
	}
	if s.aborted {
		return -1
	}
	o := &op{kind: opSelect, hasDefault: hasDefault}
	for _, c := range cases {
		o.cases = append(o.cases, c.core())
	}
	g := s.park(o)
	if g.sel >= 0 {
		cases[g.sel].done(g)
	}
	return g.sel
}
