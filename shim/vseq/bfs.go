package vseq

import (
	"fmt"
	"hash/fnv"
)

// System describes a stateful object under test together with its reference model.
// S is one instance (real object + model); instances cannot be cloned, so a
// successor is reached by replaying the shortest history on a fresh instance.
type System[S any] struct {
	// New returns a fresh instance in the initial state.
	New func() S
	// NumOps is the size of the operation alphabet (ordered simplest-first).
	NumOps int
	// OpName names operation i.
	OpName func(i int) string
	// Apply applies operation i to both the implementation and the model and
	// compares what the step itself returns; it returns a non-empty message on
	// a violation. extend reports whether the resulting state is to be explored
	// further (false: the operation was only observed, e.g. an ID-issuing
	// operation beyond the bounded universe).
	Apply func(s S, i int) (violation string, extend bool)
	// Key is the canonical key of the state (implementation dump + model state).
	Key func(s S) string
	// Check compares every observable of the implementation with the model and
	// checks the invariants on the dumped state; "" when all hold.
	Check func(s S) string
	// MaxStates and MaxDepth cap the search (0 = none); a cap that is hit is reported.
	MaxStates, MaxDepth int
}

// Stats summarises a search.
type Stats struct {
	States      int
	Transitions int64
	Depth       int
	Fixpoint    bool // the frontier became empty: every reachable state was visited
	CapHit      string
}

// Violation is a failing history.
type Violation struct {
	History []string
	Msg     string
}

// BFS explores every operation out of every reachable state, breadth first.
func BFS[S any](sys System[S]) (Stats, *Violation) {
	var st Stats
	hash := func(k string) [2]uint64 {
		a := fnv.New64a()
		a.Write([]byte(k))
		b := fnv.New64()
		b.Write([]byte(k))
		return [2]uint64{a.Sum64(), b.Sum64()}
	}
	names := func(h []int16) []string {
		out := make([]string, len(h))
		for i, o := range h {
			out[i] = sys.OpName(int(o))
		}
		return out
	}
	build := func(h []int16) S {
		s := sys.New()
		for _, o := range h {
			sys.Apply(s, int(o))
		}
		return s
	}
	init := sys.New()
	if m := sys.Check(init); m != "" {
		return st, &Violation{Msg: "initial state: " + m}
	}
	seen := map[[2]uint64]struct{}{hash(sys.Key(init)): {}}
	frontier := [][]int16{{}}
	st.States = 1
	for depth := 0; len(frontier) > 0; depth++ {
		if sys.MaxDepth > 0 && depth >= sys.MaxDepth {
			st.CapHit = fmt.Sprintf("depth %d", sys.MaxDepth)
			return st, nil
		}
		st.Depth = depth
		var next [][]int16
		for _, h := range frontier {
			for op := 0; op < sys.NumOps; op++ {
				s := build(h)
				msg, extend := sys.Apply(s, op)
				st.Transitions++
				if msg == "" {
					msg = sys.Check(s)
				}
				if msg != "" {
					hist := append(names(h), sys.OpName(op))
					return st, &Violation{History: hist, Msg: msg}
				}
				if !extend {
					continue
				}
				k := hash(sys.Key(s))
				if _, ok := seen[k]; ok {
					continue
				}
				seen[k] = struct{}{}
				st.States++
				nh := make([]int16, len(h)+1)
				copy(nh, h)
				nh[len(h)] = int16(op)
				next = append(next, nh)
				if sys.MaxStates > 0 && st.States >= sys.MaxStates {
					st.CapHit = fmt.Sprintf("%d states", sys.MaxStates)
					st.Depth = depth + 1
					return st, nil
				}
			}
		}
		frontier = next
	}
	st.Fixpoint = true
	return st, nil
}
