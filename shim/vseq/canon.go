// Package vseq is the explicit-state engine (E2): breadth-first search over
// operation histories of a real object, with states deduplicated by a
// reflective canonical dump of the object's complete private state.
package vseq

import (
	"fmt"
	"math"
	"reflect"
	"sort"
	"strings"
)

// Dump returns an order-independent canonical serialisation of the complete
// object graph reachable from v, including unexported fields: maps sorted by
// key dump, pointers followed with cycle detection, floats by bit pattern,
// slices with len and cap. Equal dumps imply equal futures for deterministic code.
func Dump(v any) string {
	d := &dumper{seen: map[uintptr]int{}}
	var b strings.Builder
	d.dump(&b, reflect.ValueOf(v), 0)
	return b.String()
}

// DumpOpt is Dump with options.
type DumpOpt struct {
	// Skip reports whether a struct field is to be left out (type name, field name).
	Skip func(typ, field string) bool
	// NoCap leaves slice capacities out of the dump.
	NoCap bool
}

// DumpWith is Dump with options.
func DumpWith(v any, o DumpOpt) string {
	d := &dumper{seen: map[uintptr]int{}, opt: o}
	var b strings.Builder
	d.dump(&b, reflect.ValueOf(v), 0)
	return b.String()
}

type dumper struct {
	seen map[uintptr]int
	opt  DumpOpt
}

func (d *dumper) dump(b *strings.Builder, v reflect.Value, depth int) {
	if !v.IsValid() {
		b.WriteString("nil")
		return
	}
	if depth > 60 {
		b.WriteString("<deep>")
		return
	}
	switch v.Kind() {
	case reflect.Bool:
		fmt.Fprintf(b, "%v", v.Bool())
	case reflect.Int, reflect.Int8, reflect.Int16, reflect.Int32, reflect.Int64:
		fmt.Fprintf(b, "%d", v.Int())
	case reflect.Uint, reflect.Uint8, reflect.Uint16, reflect.Uint32, reflect.Uint64, reflect.Uintptr:
		fmt.Fprintf(b, "%d", v.Uint())
	case reflect.Float32, reflect.Float64:
		fmt.Fprintf(b, "f%x", math.Float64bits(v.Float()))
	case reflect.Complex64, reflect.Complex128:
		c := v.Complex()
		fmt.Fprintf(b, "c%x,%x", math.Float64bits(real(c)), math.Float64bits(imag(c)))
	case reflect.String:
		fmt.Fprintf(b, "%q", v.String())
	case reflect.Func:
		if v.IsNil() {
			b.WriteString("func:nil")
		} else {
			b.WriteString("func")
		}
	case reflect.Chan, reflect.UnsafePointer:
		b.WriteString(v.Kind().String())
	case reflect.Interface:
		if v.IsNil() {
			b.WriteString("iface:nil")
			return
		}
		e := v.Elem()
		b.WriteString("(" + e.Type().String() + ")")
		d.dump(b, e, depth+1)
	case reflect.Pointer:
		if v.IsNil() {
			b.WriteString("ptr:nil")
			return
		}
		p := v.Pointer()
		if id, ok := d.seen[p]; ok {
			fmt.Fprintf(b, "^%d", id)
			return
		}
		d.seen[p] = len(d.seen)
		b.WriteString("&")
		d.dump(b, v.Elem(), depth+1)
	case reflect.Struct:
		t := v.Type()
		b.WriteString(t.Name() + "{")
		for i := 0; i < v.NumField(); i++ {
			if d.opt.Skip != nil && d.opt.Skip(t.Name(), t.Field(i).Name) {
				continue
			}
			b.WriteString(t.Field(i).Name + ":")
			d.dump(b, v.Field(i), depth+1)
			b.WriteString(";")
		}
		b.WriteString("}")
	case reflect.Array:
		b.WriteString("[")
		for i := 0; i < v.Len(); i++ {
			d.dump(b, v.Index(i), depth+1)
			b.WriteString(",")
		}
		b.WriteString("]")
	case reflect.Slice:
		if v.IsNil() {
			b.WriteString("slice:nil")
			return
		}
		if d.opt.NoCap {
			fmt.Fprintf(b, "s%d[", v.Len())
		} else {
			fmt.Fprintf(b, "s%d/%d[", v.Len(), v.Cap())
		}
		for i := 0; i < v.Len(); i++ {
			d.dump(b, v.Index(i), depth+1)
			b.WriteString(",")
		}
		b.WriteString("]")
	case reflect.Map:
		if v.IsNil() {
			b.WriteString("map:nil")
			return
		}
		type kv struct{ k, v string }
		var kvs []kv
		it := v.MapRange()
		for it.Next() {
			var kb, vb strings.Builder
			// keys are dumped without pointer identity bookkeeping side effects on order
			d.dump(&kb, it.Key(), depth+1)
			d.dump(&vb, it.Value(), depth+1)
			kvs = append(kvs, kv{kb.String(), vb.String()})
		}
		sort.Slice(kvs, func(i, j int) bool { return kvs[i].k < kvs[j].k })
		fmt.Fprintf(b, "m%d{", len(kvs))
		for _, e := range kvs {
			b.WriteString(e.k + "=>" + e.v + ";")
		}
		b.WriteString("}")
	default:
		fmt.Fprintf(b, "<%s>", v.Kind())
	}
}
