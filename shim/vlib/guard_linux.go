package vlib

import (
	"syscall"
	"unsafe"
)

// Guarded is a block of memory bracketed by PROT_NONE pages. Slices carved by
// End*/Start* touch the guard page on the first out-of-range access, which
// debug.SetPanicOnFault turns into a recoverable panic even in assembly.
type Guarded struct {
	mem  []byte
	page int
	body []byte
}

// NewGuarded maps room for at least n bytes between two inaccessible pages.
func NewGuarded(n int) *Guarded {
	page := syscall.Getpagesize()
	pages := (n+page-1)/page + 1
	mem, err := syscall.Mmap(-1, 0, (pages+2)*page, syscall.PROT_READ|syscall.PROT_WRITE, syscall.MAP_ANON|syscall.MAP_PRIVATE)
	if err != nil {
		panic("vlib: mmap: " + err.Error())
	}
	if err := syscall.Mprotect(mem[:page], syscall.PROT_NONE); err != nil {
		panic(err)
	}
	if err := syscall.Mprotect(mem[(pages+1)*page:], syscall.PROT_NONE); err != nil {
		panic(err)
	}
	return &Guarded{mem: mem, page: page, body: mem[page : (pages+1)*page]}
}

// Free unmaps the block.
func (g *Guarded) Free() { syscall.Munmap(g.mem) }

// EndF64 returns a []float64 of length n (cap n) whose last element ends at the trailing guard page.
func (g *Guarded) EndF64(n int) []float64 {
	if n == 0 {
		return []float64{}
	}
	b := g.body[len(g.body)-8*n:]
	return unsafe.Slice((*float64)(unsafe.Pointer(&b[0])), n)
}

// StartF64 returns a []float64 of length n (cap n) starting right after the leading guard page.
func (g *Guarded) StartF64(n int) []float64 {
	if n == 0 {
		return []float64{}
	}
	return unsafe.Slice((*float64)(unsafe.Pointer(&g.body[0])), n)
}

// EndF32 is EndF64 for float32.
func (g *Guarded) EndF32(n int) []float32 {
	if n == 0 {
		return []float32{}
	}
	b := g.body[len(g.body)-4*n:]
	return unsafe.Slice((*float32)(unsafe.Pointer(&b[0])), n)
}

// StartF32 is StartF64 for float32.
func (g *Guarded) StartF32(n int) []float32 {
	if n == 0 {
		return []float32{}
	}
	return unsafe.Slice((*float32)(unsafe.Pointer(&g.body[0])), n)
}

// EndC128 is EndF64 for complex128.
func (g *Guarded) EndC128(n int) []complex128 {
	if n == 0 {
		return []complex128{}
	}
	b := g.body[len(g.body)-16*n:]
	return unsafe.Slice((*complex128)(unsafe.Pointer(&b[0])), n)
}

// StartC128 is StartF64 for complex128.
func (g *Guarded) StartC128(n int) []complex128 {
	if n == 0 {
		return []complex128{}
	}
	return unsafe.Slice((*complex128)(unsafe.Pointer(&g.body[0])), n)
}

// EndC64 is EndF64 for complex64.
func (g *Guarded) EndC64(n int) []complex64 {
	if n == 0 {
		return []complex64{}
	}
	b := g.body[len(g.body)-8*n:]
	return unsafe.Slice((*complex64)(unsafe.Pointer(&b[0])), n)
}

// StartC64 is StartF64 for complex64.
func (g *Guarded) StartC64(n int) []complex64 {
	if n == 0 {
		return []complex64{}
	}
	return unsafe.Slice((*complex64)(unsafe.Pointer(&g.body[0])), n)
}
