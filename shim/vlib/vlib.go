// Package vlib is the worker-side runtime of the /verif model-checking
// framework. A harness is a package main that calls vlib.Main with a list of
// groups; each group enumerates a finite, declared case space in a fixed
// order. The runtime shards the enumeration over processes (case index mod
// N), runs every case of its shard, counts what was covered and writes a
// JSON result file for the driver to merge.
//
// The package is injected into the gonum module by `go build -overlay` at
// gonum.org/v1/gonum/internal/verif/vlib; it is never present in /repo.
package vlib

import (
	"encoding/json"
	"fmt"
	"hash/fnv"
	"os"
	"runtime"
	"runtime/debug"
	"sort"
	"strconv"
	"strings"
	"time"
)

// Group is a named, finite case space.
type Group struct {
	Name string
	Gen  func(g *G)
}

// G is handed to a group's generator.
type G struct {
	Tier string
	Seed int64
	r    *runner
	name string
}

// Thorough reports whether the thorough tier is running.
func (g *G) Thorough() bool { return g.Tier == "thorough" }

// Pick returns q in the quick tier and th in the thorough tier.
func Pick[V any](g *G, q, th V) V {
	if g.Thorough() {
		return th
	}
	return q
}

// Case registers (and, if it falls in this shard, runs) one case. key must
// identify the case uniquely within the group; run must be re-entrant (it is
// re-executed to confirm a failure).
func (g *G) Case(key string, run func(t *T)) { g.r.doCase(g.name, key, run) }

// Stopped reports whether the internal deadline has passed; generators with
// expensive enumeration should return early when it is true.
func (g *G) Stopped() bool { return g.r.stopped }

// T is the per-case handle.
type T struct {
	Group, Key string
	fails      []string
	class      string
	nontrivial bool
	outcome    string
	detail     any
	counters   map[string]int64
	maxes      map[string]int64
	extra      []Violation
	noConfirm  bool
	incomplete string
}

// Incomplete marks the run as not exhaustive (a cap inside an engine was hit); what was
// fully covered below the cap must be reported through counters by the harness.
func (t *T) Incomplete(reason string) { t.incomplete = reason }

// NoConfirm disables the confirmation re-runs for this case (used when a
// failure leaves the process in a state where re-running is pointless, e.g. a hung body).
func (t *T) NoConfirm() { t.noConfirm = true }

// Failf records a violation of the property for this case.
func (t *T) Failf(format string, a ...any) {
	if len(t.fails) < 8 {
		t.fails = append(t.fails, fmt.Sprintf(format, a...))
	}
}

// FailClass is Failf with a class name that known_findings.jsonl can match.
func (t *T) FailClass(class, format string, a ...any) {
	if t.class == "" {
		t.class = class
	}
	t.Failf(format, a...)
}

// Failed reports whether the case has failed so far.
func (t *T) Failed() bool { return len(t.fails) > 0 }

// Nontrivial marks the case as non-trivial by the harness's stated rule.
func (t *T) Nontrivial() { t.nontrivial = true }

// Outcome records the outcome/path class of the case (vacuity guard).
func (t *T) Outcome(s string) { t.outcome = s }

// Detail attaches a value shown when the case is used as a sample or in a replay file.
func (t *T) Detail(v any) { t.detail = v }

// Count adds n to a named counter (states, transitions, schedules, ...).
func (t *T) Count(name string, n int64) {
	if t.counters == nil {
		t.counters = map[string]int64{}
	}
	t.counters[name] += n
}

// Max records the maximum of a named quantity.
func (t *T) Max(name string, n int64) {
	if t.maxes == nil {
		t.maxes = map[string]int64{}
	}
	if v, ok := t.maxes[name]; !ok || n > v {
		t.maxes[name] = n
	}
}

// SubViolation records a violation found inside an engine run (a state
// search or a schedule exploration) with its own replayable key suffix.
func (t *T) SubViolation(sub, class string, detail any, format string, a ...any) {
	if len(t.extra) < 8 {
		t.extra = append(t.extra, Violation{Group: t.Group, Key: t.Key, Sub: sub, Class: class, Msgs: []string{fmt.Sprintf(format, a...)}, Detail: detail})
	}
}

// Violation is one recorded failure.
type Violation struct {
	Group  string   `json:"group"`
	Key    string   `json:"key"`
	Sub    string   `json:"sub,omitempty"`
	Class  string   `json:"class,omitempty"`
	Msgs   []string `json:"msgs"`
	Detail any      `json:"detail,omitempty"`
	Flaky  bool     `json:"flaky,omitempty"`
}

// GroupStat is per-group coverage.
type GroupStat struct {
	Evaluations int64 `json:"evaluations"`
	Nontrivial  int64 `json:"nontrivial"`
	Failed      int64 `json:"failed"`
}

// Result is what a worker writes for the driver.
type Result struct {
	Property    string                `json:"property"`
	Config      string                `json:"config"`
	Shard       string                `json:"shard"`
	Tier        string                `json:"tier"`
	Seed        int64                 `json:"seed"`
	Generated   int64                 `json:"generated"`
	Evaluations int64                 `json:"evaluations"`
	Distinct    int64                 `json:"distinct_nontrivial"`
	DupKeys     int64                 `json:"duplicate_keys"`
	Outcomes    map[string]int64      `json:"outcomes"`
	Counters    map[string]int64      `json:"counters"`
	Maxes       map[string]int64      `json:"maxes"`
	Groups      map[string]*GroupStat `json:"groups"`
	Samples     []any                 `json:"samples"`
	Violations  []Violation           `json:"violations"`
	NViolations int64                 `json:"n_violations"`
	Known       map[string]int64      `json:"known_hits"`
	Complete    bool                  `json:"complete"`
	StoppedAt   string                `json:"stopped_at,omitempty"`
	WallS       float64               `json:"wall_s"`
	EngineErr   string                `json:"engine_error,omitempty"`
}

type runner struct {
	res              Result
	shard, nshard    int64
	idx              int64
	seen             map[uint64]struct{}
	seenCap          int
	deadline         time.Time
	stopped          bool
	replayG, replayK string
	replayHit        bool
	groupFilter      map[string]bool
	start            time.Time
	sampleEvery      int64
	known            []KnownEntry
	lastClock        time.Time
}

// checkDeadline reads the clock (at most every few cases) and reports whether the internal deadline has passed.
func (r *runner) checkDeadline() bool {
	r.lastClock = time.Now()
	return r.lastClock.After(r.deadline)
}

// KnownEntry is one line of /verif/known_findings.jsonl with status "known".
type KnownEntry struct {
	Status   string `json:"status"`
	Property string `json:"property"`
	ID       string `json:"id"`
	Group    string `json:"group,omitempty"`
	Key      string `json:"key,omitempty"`
	Sub      string `json:"sub,omitempty"`
	Class    string `json:"class,omitempty"`
	What     string `json:"what"`
	Commit   string `json:"commit,omitempty"`
}

func (r *runner) loadKnown() {
	r.res.Known = map[string]int64{}
	p := os.Getenv("VERIF_KNOWN")
	if p == "" {
		return
	}
	b, err := os.ReadFile(p)
	if err != nil {
		return
	}
	for _, line := range strings.Split(string(b), "\n") {
		line = strings.TrimSpace(line)
		if line == "" || strings.HasPrefix(line, "#") {
			continue
		}
		var e KnownEntry
		if json.Unmarshal([]byte(line), &e) == nil && e.Status == "known" && e.Property == r.res.Property {
			r.known = append(r.known, e)
		}
	}
}

// matchKnown returns the id of the known finding that lists this violation, or "".
func (r *runner) matchKnown(v *Violation) string {
	for _, e := range r.known {
		if e.Class != "" && e.Class != v.Class {
			continue
		}
		if e.Group != "" && e.Group != v.Group {
			continue
		}
		if e.Key != "" && e.Key != v.Key {
			continue
		}
		if e.Sub != "" && e.Sub != v.Sub {
			continue
		}
		if e.Class == "" && e.Key == "" {
			continue // an entry must name a class or a specific case
		}
		return e.ID
	}
	return ""
}

func (r *runner) record(v Violation) {
	if id := r.matchKnown(&v); id != "" {
		r.res.Known[id]++
		return
	}
	r.res.NViolations++
	if len(r.res.Violations) < maxViolations {
		r.res.Violations = append(r.res.Violations, v)
	}
}

const (
	maxViolations = 40
	maxSamples    = 12
	maxOutcomes   = 4000
	confirmRuns   = 4
)

// Env returns the value of an environment variable or a default.
func Env(name, def string) string {
	if v := os.Getenv(name); v != "" {
		return v
	}
	return def
}

// Main runs the harness. It never returns.
func Main(property string, groups ...Group) {
	r := &runner{start: time.Now(), seen: map[uint64]struct{}{}, seenCap: 6_000_000}
	r.res.Property = property
	r.res.Config = Env("VERIF_CONFIG", "default")
	r.res.Tier = Env("VERIF_TIER", "quick")
	r.res.Seed, _ = strconv.ParseInt(Env("VERIF_SEED", "0"), 10, 64)
	r.res.Outcomes = map[string]int64{}
	r.res.Counters = map[string]int64{}
	r.res.Maxes = map[string]int64{}
	r.res.Groups = map[string]*GroupStat{}
	r.nshard = 1
	sh := Env("VERIF_SHARD", "0/1")
	if a, b, ok := strings.Cut(sh, "/"); ok {
		r.shard, _ = strconv.ParseInt(a, 10, 64)
		r.nshard, _ = strconv.ParseInt(b, 10, 64)
		if r.nshard < 1 {
			r.nshard = 1
		}
	}
	r.res.Shard = sh
	if d, err := strconv.ParseFloat(Env("VERIF_DEADLINE_S", "0"), 64); err == nil && d > 0 {
		r.deadline = r.start.Add(time.Duration(d * float64(time.Second)))
	}
	r.replayG, r.replayK = os.Getenv("VERIF_REPLAY_GROUP"), os.Getenv("VERIF_REPLAY_KEY")
	if f := os.Getenv("VERIF_GROUPS"); f != "" {
		r.groupFilter = map[string]bool{}
		for _, s := range strings.Split(f, ",") {
			r.groupFilter[s] = true
		}
	}
	r.sampleEvery = 1
	r.loadKnown()
	debug.SetPanicOnFault(true)
	r.res.Complete = true
	for _, grp := range groups {
		if r.groupFilter != nil && !r.groupFilter[grp.Name] {
			continue
		}
		if r.replayG != "" && grp.Name != r.replayG {
			continue
		}
		g := &G{Tier: r.res.Tier, Seed: r.res.Seed, r: r, name: grp.Name}
		func() {
			defer func() {
				if e := recover(); e != nil {
					if _, ok := e.(stopEnum); ok {
						return
					}
					r.res.EngineErr = fmt.Sprintf("generator of group %s panicked: %v\n%s", grp.Name, e, shortStack())
				}
			}()
			grp.Gen(g)
		}()
		if r.stopped || r.res.EngineErr != "" {
			break
		}
	}
	if r.replayG != "" && !r.replayHit {
		r.res.EngineErr = fmt.Sprintf("replay case %s/%s not found in enumeration", r.replayG, r.replayK)
	}
	r.res.WallS = time.Since(r.start).Seconds()
	out := os.Getenv("VERIF_OUT")
	b, err := json.Marshal(&r.res)
	if err != nil {
		// a Detail value that cannot be marshalled: drop details.
		for i := range r.res.Violations {
			r.res.Violations[i].Detail = fmt.Sprint(r.res.Violations[i].Detail)
		}
		r.res.Samples = nil
		b, _ = json.Marshal(&r.res)
	}
	if out == "" {
		os.Stdout.Write(b)
		os.Stdout.WriteString("\n")
	} else if err := os.WriteFile(out, b, 0o644); err != nil {
		fmt.Fprintln(os.Stderr, "vlib: cannot write result:", err)
		os.Exit(3)
	}
	if r.res.EngineErr != "" {
		fmt.Fprintln(os.Stderr, "ENGINE-ERROR:", r.res.EngineErr)
		os.Exit(3)
	}
	if r.res.NViolations > 0 {
		os.Exit(1)
	}
	os.Exit(0)
}

type stopEnum struct{}

func shortStack() string {
	s := string(debug.Stack())
	lines := strings.Split(s, "\n")
	var keep []string
	for _, l := range lines {
		if strings.Contains(l, "runtime/") || strings.Contains(l, "vlib.") || strings.HasPrefix(l, "goroutine") {
			continue
		}
		keep = append(keep, strings.TrimSpace(l))
		if len(keep) >= 12 {
			break
		}
	}
	return strings.Join(keep, " | ")
}

func (r *runner) runOnce(group, key string, run func(t *T)) (t *T) {
	t = &T{Group: group, Key: key}
	defer func() {
		if e := recover(); e != nil {
			msg := fmt.Sprint(e)
			if re, ok := e.(runtime.Error); ok {
				msg = "runtime error: " + re.Error()
			}
			t.FailClass("unexpected-panic", "unexpected panic: %s @ %s", msg, shortStack())
		}
	}()
	run(t)
	return t
}

func (r *runner) doCase(group, key string, run func(t *T)) {
	if r.stopped {
		panic(stopEnum{})
	}
	i := r.idx
	r.idx++
	r.res.Generated++
	if r.replayG != "" {
		if key != r.replayK {
			return
		}
		r.replayHit = true
	} else if i%r.nshard != r.shard {
		return
	}
	if !r.deadline.IsZero() && (r.res.Evaluations&15 == 0 || time.Since(r.lastClock) > time.Second) && r.checkDeadline() {
		r.stopped = true
		r.res.Complete = false
		r.res.StoppedAt = fmt.Sprintf("%s/%s (case index %d)", group, key, i)
		panic(stopEnum{})
	}
	t := r.runOnce(group, key, run)
	gs := r.res.Groups[group]
	if gs == nil {
		gs = &GroupStat{}
		r.res.Groups[group] = gs
	}
	r.res.Evaluations++
	gs.Evaluations++
	if t.incomplete != "" {
		r.res.Complete = false
		if r.res.StoppedAt == "" {
			r.res.StoppedAt = fmt.Sprintf("%s/%s: %s", group, key, t.incomplete)
		}
	}
	for k, v := range t.counters {
		r.res.Counters[k] += v
	}
	for k, v := range t.maxes {
		if o, ok := r.res.Maxes[k]; !ok || v > o {
			r.res.Maxes[k] = v
		}
	}
	if t.nontrivial {
		h := fnv.New64a()
		h.Write([]byte(group))
		h.Write([]byte{0})
		h.Write([]byte(key))
		hv := h.Sum64()
		if _, dup := r.seen[hv]; dup {
			r.res.DupKeys++
		} else {
			if len(r.seen) < r.seenCap {
				r.seen[hv] = struct{}{}
				r.res.Distinct++
				gs.Nontrivial++
			}
			// beyond the cap further cases are not counted (conservative).
		}
	}
	if t.outcome != "" {
		oc := group + ":" + t.outcome
		if _, ok := r.res.Outcomes[oc]; ok || len(r.res.Outcomes) < maxOutcomes {
			r.res.Outcomes[oc]++
		}
	}
	if r.res.Evaluations%r.sampleEvery == 0 && len(r.res.Samples) < maxSamples && t.nontrivial {
		s := map[string]any{"group": group, "key": key}
		if t.outcome != "" {
			s["outcome"] = t.outcome
		}
		if t.detail != nil {
			s["detail"] = t.detail
		}
		r.res.Samples = append(r.res.Samples, s)
		r.sampleEvery *= 4
	}
	if len(t.fails) > 0 || len(t.extra) > 0 {
		gs.Failed++
		// confirm: the same case is run again; a deterministic harness on deterministic code fails every time.
		// A failure that does not recur is still a failure that was observed against a definitional oracle: the
		// case body builds all its inputs itself, so the only sources of variation are in the code under test
		// (map iteration order, goroutine scheduling, uninitialised reads). It is reported as a violation of class
		// "nondeterministic-failure" (never matched by a known finding of another class), with the recurrence count.
		again, reruns := 0, 0
		for k := 0; k < confirmRuns && !t.noConfirm; k++ {
			reruns++
			t2 := r.runOnce(group, key, run)
			if len(t2.fails) > 0 || len(t2.extra) > 0 {
				again++
			}
		}
		if again < reruns {
			msgs := append([]string{fmt.Sprintf("NONDETERMINISTIC: the identical case failed in %d of %d runs", again+1, reruns+1)}, t.fails...)
			for _, v := range t.extra {
				msgs = append(msgs, v.Msgs...)
			}
			r.record(Violation{Group: group, Key: key, Class: "nondeterministic-failure", Msgs: msgs, Detail: t.detail})
			return
		}
		if len(t.fails) > 0 {
			r.record(Violation{Group: group, Key: key, Class: t.class, Msgs: t.fails, Detail: t.detail})
		}
		for _, v := range t.extra {
			r.record(v)
		}
	}
}

// SortedKeys returns the keys of a map in sorted order.
func SortedKeys[V any](m map[string]V) []string {
	ks := make([]string, 0, len(m))
	for k := range m {
		ks = append(ks, k)
	}
	sort.Strings(ks)
	return ks
}
