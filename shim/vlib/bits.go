package vlib

import (
	"fmt"
	"math"
	"sync"
	"time"
)

// Poison64 returns the i-th poison value: a quiet NaN with a distinct payload.
func Poison64(i int) float64 {
	return math.Float64frombits(0x7ff8_0000_dead_0000 | uint64(i&0xffff))
}

// Poison32 returns the i-th float32 poison NaN.
func Poison32(i int) float32 {
	return math.Float32frombits(0x7fc0_0000 | 0x0002_0000 | uint32(i&0xffff))
}

// FillPoison64 fills s with distinct NaN payloads.
func FillPoison64(s []float64) {
	for i := range s {
		s[i] = Poison64(i)
	}
}

// FillPoison32 fills s with distinct NaN payloads.
func FillPoison32(s []float32) {
	for i := range s {
		s[i] = Poison32(i)
	}
}

// FillPoisonC128 fills s with poison in both parts.
func FillPoisonC128(s []complex128) {
	for i := range s {
		s[i] = complex(Poison64(2*i), Poison64(2*i+1))
	}
}

// FillPoisonC64 fills s with poison in both parts.
func FillPoisonC64(s []complex64) {
	for i := range s {
		s[i] = complex(Poison32(2*i), Poison32(2*i+1))
	}
}

// Same64 reports bitwise equality and the first differing index.
func Same64(a, b []float64) (int, bool) {
	if len(a) != len(b) {
		return -1, false
	}
	for i := range a {
		if math.Float64bits(a[i]) != math.Float64bits(b[i]) {
			return i, false
		}
	}
	return 0, true
}

// Same32 reports bitwise equality and the first differing index.
func Same32(a, b []float32) (int, bool) {
	if len(a) != len(b) {
		return -1, false
	}
	for i := range a {
		if math.Float32bits(a[i]) != math.Float32bits(b[i]) {
			return i, false
		}
	}
	return 0, true
}

// SameC128 reports bitwise equality and the first differing index.
func SameC128(a, b []complex128) (int, bool) {
	if len(a) != len(b) {
		return -1, false
	}
	for i := range a {
		if math.Float64bits(real(a[i])) != math.Float64bits(real(b[i])) || math.Float64bits(imag(a[i])) != math.Float64bits(imag(b[i])) {
			return i, false
		}
	}
	return 0, true
}

// SameC64 reports bitwise equality and the first differing index.
func SameC64(a, b []complex64) (int, bool) {
	if len(a) != len(b) {
		return -1, false
	}
	for i := range a {
		if math.Float32bits(real(a[i])) != math.Float32bits(real(b[i])) || math.Float32bits(imag(a[i])) != math.Float32bits(imag(b[i])) {
			return i, false
		}
	}
	return 0, true
}

// EqVal reports whether two float64 are the same value: bitwise equal, or
// both NaN, treating +0 and -0 as equal when zeroSign is false.
func EqVal(a, b float64, zeroSign bool) bool {
	if math.IsNaN(a) || math.IsNaN(b) {
		return math.IsNaN(a) && math.IsNaN(b)
	}
	if a == 0 && b == 0 && !zeroSign {
		return true
	}
	return math.Float64bits(a) == math.Float64bits(b)
}

// B64 formats a float64 with its bit pattern.
func B64(v float64) string { return fmt.Sprintf("%v(%#x)", v, math.Float64bits(v)) }

// Ints is the inclusive integer range lo..hi.
func Ints(lo, hi int) []int {
	var s []int
	for i := lo; i <= hi; i++ {
		s = append(s, i)
	}
	return s
}

// Product enumerates the Cartesian product of the given radices in
// odometer order (last coordinate fastest), simplest-first when each domain
// is ordered simplest-first. f returns false to stop.
func Product(radices []int, f func(idx []int) bool) {
	for _, r := range radices {
		if r <= 0 {
			return
		}
	}
	idx := make([]int, len(radices))
	for {
		if !f(idx) {
			return
		}
		k := len(idx) - 1
		for k >= 0 {
			idx[k]++
			if idx[k] < radices[k] {
				break
			}
			idx[k] = 0
			k--
		}
		if k < 0 {
			return
		}
	}
}

// LCG is a tiny deterministic generator used for fill patterns only (never
// to select cases).
type LCG uint64

// Next returns the next value.
func (l *LCG) Next() uint64 {
	*l = *l*6364136223846793005 + 1442695040888963407
	return uint64(*l >> 33)
}

// Small returns a small integer in [-k, k].
func (l *LCG) Small(k int) int { return int(l.Next()%uint64(2*k+1)) - k }

var atomMu sync.Mutex

// Atomically runs f under a process-wide real mutex. Harness callbacks that
// are invoked from several goroutines use it to update their own bookkeeping,
// so that the free-running -race pass reports only races of the code under test.
func Atomically(f func()) {
	atomMu.Lock()
	defer atomMu.Unlock()
	f()
}

// RunWithWatchdog runs body in its own goroutine and waits for it for at
// most d. It returns the recovered panic value, if any, and whether the
// watchdog expired (the goroutine is then abandoned).
func RunWithWatchdog(body func(), d time.Duration) (panicked any, timedOut bool) {
	done := make(chan any, 1)
	go func() {
		defer func() { done <- recover() }()
		body()
	}()
	select {
	case e := <-done:
		return e, false
	case <-time.After(d):
		return nil, true
	}
}
