// Package vhook holds the seams that harnesses use to answer environment
// questions of gonum code (LAPACK tuning parameters, Dgemm block size).
// It is injected by overlay; with no override installed every seam is inert.
package vhook

// IlaenvFunc, when non-nil, may override Implementation.Ilaenv.
var IlaenvFunc func(ispec int, name, opts string, n1, n2, n3, n4 int) (int, bool)

// IlaenvCalls counts calls per "ispec:name" when non-nil.
var IlaenvCalls map[string]int

// Ilaenv is called at the top of Implementation.Ilaenv.
func Ilaenv(ispec int, name, opts string, n1, n2, n3, n4 int) (int, bool) {
	if IlaenvCalls != nil {
		IlaenvCalls[name]++
	}
	if IlaenvFunc == nil {
		return 0, false
	}
	return IlaenvFunc(ispec, name, opts, n1, n2, n3, n4)
}

// IparmqFunc, when non-nil, may override Implementation.Iparmq.
var IparmqFunc func(ispec int, name, opts string, n, ilo, ihi, lwork int) (int, bool)

// Iparmq is called at the top of Implementation.Iparmq.
func Iparmq(ispec int, name, opts string, n, ilo, ihi, lwork int) (int, bool) {
	if IparmqFunc == nil {
		return 0, false
	}
	return IparmqFunc(ispec, name, opts, n, ilo, ihi, lwork)
}

var blockSize, minParBlock *int
var origBlock, origMinPar int

// RegisterBlockSize is called from blas/gonum's init in instrumented builds.
func RegisterBlockSize(bs, mpb *int) {
	blockSize, minParBlock = bs, mpb
	origBlock, origMinPar = *bs, *mpb
}

// SetBlockSize sets Dgemm's block size (0 restores the stock value).
func SetBlockSize(bs int) {
	if blockSize == nil {
		panic("vhook: blas/gonum was not built with the blocksize seam")
	}
	if bs <= 0 {
		bs = origBlock
	}
	*blockSize = bs
}

// StockBlockSize returns the value compiled into gonum.
func StockBlockSize() int { return origBlock }
