// Package vrand is the twin of math/rand/v2 for gonum files that call its
// package-level functions (random tie breaking among equal shortest paths,
// k-d tree pivots, Louvain shuffles, ...). Types are aliases of the real
// ones; the package-level functions draw from a harness-controlled source:
// integer draws (IntN, Perm, Shuffle, ...) are *choice points* that an
// exploration enumerates (deviation-bounded, default answer 0), real-valued
// draws come from a fixed deterministic stream. No run depends on the
// process-global random state.
package vrand

import (
	"fmt"
	"math/rand/v2"
)

type (
	Rand    = rand.Rand
	Source  = rand.Source
	PCG     = rand.PCG
	ChaCha8 = rand.ChaCha8
	Zipf    = rand.Zipf
)

func New(src Source) *Rand                             { return rand.New(src) }
func NewPCG(seed1, seed2 uint64) *PCG                  { return rand.NewPCG(seed1, seed2) }
func NewChaCha8(seed [32]byte) *ChaCha8                { return rand.NewChaCha8(seed) }
func NewZipf(r *Rand, s, v float64, imax uint64) *Zipf { return rand.NewZipf(r, s, v, imax) }

// Point is one recorded integer draw.
type Point struct{ N, Chosen int }

// state of the current run
var (
	prefix  []int
	pos     int
	points  []Point
	stream  = rand.New(rand.NewPCG(0x9e3779b97f4a7c15, 0xbf58476d1ce4e5b9))
	maxAlt  = 1 << 30
	diverge string
)

// Reset starts a run: integer draws replay prefix, then answer 0; the real-valued stream restarts.
func Reset(pfx []int) {
	prefix, pos, points, diverge = pfx, 0, points[:0], ""
	stream = rand.New(rand.NewPCG(0x9e3779b97f4a7c15, 0xbf58476d1ce4e5b9))
}

// Points returns the integer draws of the run so far.
func Points() []Point { return append([]Point(nil), points...) }

// Diverged reports a replay inconsistency (an engine error, never a violation).
func Diverged() string { return diverge }

func choose(n int) int {
	if n <= 0 {
		panic("invalid argument to IntN")
	}
	c := 0
	if pos < len(prefix) {
		c = prefix[pos]
		if c < 0 || c >= n {
			diverge = fmt.Sprintf("vrand: replay divergence at draw %d: answer %d of %d", pos, c, n)
			c = 0
		}
	}
	pos++
	points = append(points, Point{N: n, Chosen: c})
	return c
}

func IntN(n int) int          { return choose(n) }
func Int64N(n int64) int64    { return int64(choose(int(min(n, int64(maxAlt))))) }
func Int32N(n int32) int32    { return int32(choose(int(n))) }
func Uint64N(n uint64) uint64 { return uint64(choose(int(min(n, uint64(maxAlt))))) }
func Uint32N(n uint32) uint32 { return uint32(choose(int(n))) }
func UintN(n uint) uint       { return uint(choose(int(min(n, uint(maxAlt))))) }
func N[Int interface {
	~int | ~int8 | ~int16 | ~int32 | ~int64 | ~uint | ~uint8 | ~uint16 | ~uint32 | ~uint64 | ~uintptr
}](n Int) Int {
	return Int(choose(int(n)))
}

// Perm and Shuffle are Fisher-Yates over integer choice points.
func Perm(n int) []int {
	p := make([]int, n)
	for i := range p {
		p[i] = i
	}
	Shuffle(n, func(i, j int) { p[i], p[j] = p[j], p[i] })
	return p
}

func Shuffle(n int, swap func(i, j int)) {
	for i := n - 1; i > 0; i-- {
		// answer 0 must be the "do nothing" default: j = i - choice
		j := i - choose(i+1)
		swap(i, j)
	}
}

// Real-valued and raw draws: fixed deterministic stream.
func Float64() float64     { return stream.Float64() }
func Float32() float32     { return stream.Float32() }
func NormFloat64() float64 { return stream.NormFloat64() }
func ExpFloat64() float64  { return stream.ExpFloat64() }
func Int() int             { return stream.Int() }
func Int64() int64         { return stream.Int64() }
func Int32() int32         { return stream.Int32() }
func Uint64() uint64       { return stream.Uint64() }
func Uint32() uint32       { return stream.Uint32() }

// Explore runs body for every sequence of integer answers with at most maxDev
// deviations from the default answer 0 (each draw offering min(N, maxAlts)
// answers). check is called after every run and returns "" when the property
// holds. It returns the number of runs, whether the enumeration was cut by
// maxRuns, and the first failing answer sequence with its message.
func Explore(body func(), maxDev, maxAlts, maxRuns int, check func() string) (runs int, capped bool, fail []int, msg string) {
	type item struct {
		prefix []int
		dev    int
	}
	stack := []item{{}}
	for len(stack) > 0 {
		it := stack[len(stack)-1]
		stack = stack[:len(stack)-1]
		Reset(it.prefix)
		body()
		runs++
		if d := Diverged(); d != "" {
			panic(d)
		}
		pts := Points()
		if m := check(); m != "" {
			ans := make([]int, len(pts))
			for i, p := range pts {
				ans[i] = p.Chosen
			}
			Reset(nil)
			return runs, false, ans, m
		}
		if maxRuns > 0 && runs >= maxRuns {
			Reset(nil)
			return runs, len(stack) > 0, nil, ""
		}
		if it.dev >= maxDev {
			continue
		}
		for i := len(pts) - 1; i >= len(it.prefix); i-- {
			n := pts[i].N
			if n > maxAlts {
				n = maxAlts
			}
			for alt := n - 1; alt >= 1; alt-- {
				p := make([]int, i+1)
				for k := 0; k < i; k++ {
					p[k] = pts[k].Chosen
				}
				p[i] = alt
				stack = append(stack, item{prefix: p, dev: it.dev + 1})
			}
		}
	}
	Reset(nil)
	return runs, false, nil, ""
}
