// Package vsync provides twins of the sync types used by gonum. Inside a
// vsched execution blocking operations are scheduling points; outside they
// delegate to the real sync primitives.
package vsync

import (
	"fmt"
	"sync"

	"gonum.org/v1/gonum/internal/verif/vsched"
)

// Locker is sync.Locker.
type Locker = sync.Locker

// Mutex is the twin of sync.Mutex.
type Mutex struct {
	real sync.Mutex
	v    vsched.MutexState
}

func (m *Mutex) Lock() {
	if vsched.Active() {
		m.v.Lock()
		return
	}
	m.real.Lock()
}

func (m *Mutex) Unlock() {
	if vsched.Active() {
		m.v.Unlock()
		return
	}
	m.real.Unlock()
}

func (m *Mutex) TryLock() bool {
	if vsched.Active() {
		return m.v.TryLock()
	}
	return m.real.TryLock()
}

// RWMutex is the twin of sync.RWMutex.
type RWMutex struct {
	real sync.RWMutex
	v    vsched.MutexState
}

func (m *RWMutex) Lock() {
	if vsched.Active() {
		m.v.Lock()
		return
	}
	m.real.Lock()
}

func (m *RWMutex) Unlock() {
	if vsched.Active() {
		m.v.Unlock()
		return
	}
	m.real.Unlock()
}

func (m *RWMutex) RLock() {
	if vsched.Active() {
		m.v.RLock()
		return
	}
	m.real.RLock()
}

func (m *RWMutex) RUnlock() {
	if vsched.Active() {
		m.v.RUnlock()
		return
	}
	m.real.RUnlock()
}

// WaitGroup is the twin of sync.WaitGroup.
type WaitGroup struct {
	real sync.WaitGroup
	v    vsched.WGState
}

func (w *WaitGroup) Add(n int) {
	if vsched.Active() {
		w.v.Add(n)
		return
	}
	w.real.Add(n)
}

func (w *WaitGroup) Done() { w.Add(-1) }

func (w *WaitGroup) Wait() {
	if vsched.Active() {
		w.v.Wait()
		return
	}
	w.real.Wait()
}

// Once is the twin of sync.Once.
type Once struct {
	real sync.Once
	m    vsched.MutexState
	done bool
}

func (o *Once) Do(f func()) {
	if !vsched.Active() {
		o.real.Do(func() { o.done = true; f() })
		return
	}
	// sync.Once: callers block until the first call's f has returned.
	o.m.Lock()
	defer o.m.Unlock()
	if !o.done {
		defer func() { o.done = true }()
		f()
	}
}

// PoolPolicy selects how Pool.Get answers.
type PoolPolicy int

const (
	// PoolReal delegates to sync.Pool.
	PoolReal PoolPolicy = iota
	// PoolFresh never reuses: Get always calls New.
	PoolFresh
	// PoolDirty reuses in LIFO order and calls Scrub on every item that is put back.
	PoolDirty
)

// Policy is the pool policy in force (set by harnesses).
var Policy PoolPolicy

// Scrub, when non-nil, is called on every item handed to Put under PoolDirty;
// harnesses use it to fill returned workspaces with poison.
var Scrub func(x any)

// Ident, when non-nil, maps a pooled item to the identity of the storage it owns (e.g. the address of the
// first element of the backing array of a *[]float64). Under PoolDirty an item whose storage is already in
// the pool when it is put back is a double release: it is counted in PoolStats.DoublePuts, the first one is
// described in FirstDoublePut, and the item is pooled anyway (faithful to sync.Pool, so that the sharing that
// follows is observable too). 0 means "no identity" (never compared).
var Ident func(x any) uintptr

// FirstDoublePut describes the first double release seen since it was last cleared.
var FirstDoublePut string

// PoolStats counts pool traffic.
var PoolStats struct{ Gets, News, Reuses, Puts, DoublePuts int }

// Pool is the twin of sync.Pool.
type Pool struct {
	New   func() any
	real  sync.Pool
	mu    sync.Mutex
	items []any
}

func (p *Pool) Get() any {
	if vsched.Active() {
		vsched.Point("Pool.Get")
	}
	if Policy == PoolReal {
		if x := p.real.Get(); x != nil {
			return x
		}
		if p.New != nil {
			return p.New()
		}
		return nil
	}
	p.mu.Lock()
	PoolStats.Gets++
	if Policy == PoolDirty && len(p.items) > 0 {
		x := p.items[len(p.items)-1]
		p.items = p.items[:len(p.items)-1]
		PoolStats.Reuses++
		p.mu.Unlock()
		return x
	}
	PoolStats.News++
	p.mu.Unlock()
	if p.New != nil {
		return p.New()
	}
	return nil
}

func (p *Pool) Put(x any) {
	if vsched.Active() {
		vsched.Point("Pool.Put")
	}
	if Policy == PoolReal {
		p.real.Put(x)
		return
	}
	p.mu.Lock()
	PoolStats.Puts++
	if Policy == PoolDirty {
		if Scrub != nil {
			Scrub(x)
		}
		var id uintptr
		if Ident != nil {
			id = Ident(x)
		}
		for _, it := range p.items {
			if it == x || (id != 0 && Ident(it) == id) {
				PoolStats.DoublePuts++
				if FirstDoublePut == "" {
					FirstDoublePut = fmt.Sprintf("a %T whose storage is already in the pool was put back again (double release)", x)
				}
				break
			}
		}
		p.items = append(p.items, x)
	}
	p.mu.Unlock()
}

// Drain empties the pool (between cases).
func (p *Pool) Drain() { p.mu.Lock(); p.items = nil; p.mu.Unlock() }

// Map is the twin of sync.Map: every operation is a scheduling point.
type Map struct{ real sync.Map }

func mapPoint(what string) {
	if vsched.Active() {
		vsched.Point("Map." + what)
	}
}

func (m *Map) Load(key any) (any, bool)          { mapPoint("Load"); return m.real.Load(key) }
func (m *Map) Store(key, value any)              { mapPoint("Store"); m.real.Store(key, value) }
func (m *Map) Delete(key any)                    { mapPoint("Delete"); m.real.Delete(key) }
func (m *Map) Range(f func(key, value any) bool) { mapPoint("Range"); m.real.Range(f) }
func (m *Map) LoadOrStore(key, value any) (any, bool) {
	mapPoint("LoadOrStore")
	return m.real.LoadOrStore(key, value)
}
func (m *Map) LoadAndDelete(key any) (any, bool) {
	mapPoint("LoadAndDelete")
	return m.real.LoadAndDelete(key)
}
