// Package vrt is the twin of the runtime functions gonum uses to size its worker pools.
package vrt

import "runtime"

// Procs, when > 0, is what GOMAXPROCS(0) and NumCPU report.
var Procs int

// GOMAXPROCS mirrors runtime.GOMAXPROCS; only the query form is overridden.
func GOMAXPROCS(n int) int {
	if Procs > 0 && n <= 0 {
		return Procs
	}
	return runtime.GOMAXPROCS(n)
}

// NumCPU mirrors runtime.NumCPU.
func NumCPU() int {
	if Procs > 0 {
		return Procs
	}
	return runtime.NumCPU()
}

// Gosched mirrors runtime.Gosched.
func Gosched() { runtime.Gosched() }
